(* Cascade.v — model of fuzzylite/variable.py: OutputVariable.defuzzify, OutputVariable.clear and the
   clipping Variable.value setter (C12).  Definitions only; proofs are in Proofs/CascadeProofs.v.

   Generic over the numeric reading `Num T`; only `isnan`, `nmin`, `nmax`, `nan` are used.

   The value of the variable is a batch (list); a scalar is the one-element batch.  A Python call either
   returns or raises, and when it raises the object may already have been mutated, so a step returns
   the state AFTER the call together with the exception raised (if any):  cstate * option err.

   The code, for reference (variable.py):

       def defuzzify(self):
           if not self.enabled: return
           if not self.defuzzifier: raise ValueError(...)
           value = scalar(self.defuzzifier.defuzzify(self.fuzzy, self.minimum, self.maximum))   # may raise; scalar = np.asarray(., float)
           self.previous_value = np.take(self.value, -1).astype(float)                 # IndexError on an empty value
           if self.lock_previous:
               with np.nditer(value, op_flags=[["readwrite"]]) as iterator:             # ValueError on a zero-sized batch
                   previous_value = self.previous_value
                   for value_i in iterator:
                       if np.isnan(value_i): value_i[...] = previous_value
                       else: previous_value = value_i
           if not np.isnan(self.default_value):
               value[np.isnan(value)] = self.default_value
           self.value = value                    # setter: np.clip(value, minimum, maximum) if lock_range else value

       def clear(self):
           self.fuzzy.clear(); self.previous_value = nan; self.value = nan

   Not modelled: the Python *kind* of the defuzzified value (ndarray / 0-d ndarray / numpy.float64 / float).  The
   loop and the masked assignment need a writable ndarray; since the repair of finding F2 the result is wrapped by
   `scalar(...)`, before that a numpy.float64 result raised TypeError after previous_value was overwritten.  Kinds
   are the correspondence's business (tools/props/C12.py re-runs one-element batches as 0-d array / numpy.float64 /
   float and demands the same observations).  Also not modelled: batches of more than one dimension, and the
   aliasing of the committed value with the array object returned by the defuzzifier (mutated in place). *)
From Coq Require Import ZArith Bool List.
From VF Require Import Num Core.
Import ListNotations.
Set Implicit Arguments.

Section Cascade.
  Context {T : Type} {N : Num T} {F : Type}.   (* F: the elements of the fuzzy output (activated terms); opaque here *)

  (* numpy.clip(v, lo, hi) = minimum(maximum(v, lo), hi)   (measured on NumPy 1.26.4 for all triples over
     {nan, -inf, -1, -0.0, 0.0, 0.5, 1, 2, inf}, scalars, 0-d and 1-d arrays, including lo > hi and NaN bounds) *)
  Definition clip (lo hi v : T) : T := nmin (nmax v lo) hi.

  (* the Variable.value setter *)
  Definition set_value (lock_range : bool) (lo hi : T) (v : list T) : list T :=
    if lock_range then map (clip lo hi) v else v.

  (* the nditer loop: `prev` is the running local `previous_value` *)
  Fixpoint fill_forward (prev : T) (d : list T) : list T :=
    match d with
    | [] => []
    | x :: tl => if isnan x then prev :: fill_forward prev tl else x :: fill_forward x tl
    end.

  (* value[np.isnan(value)] = default_value, guarded by `not np.isnan(default_value)` *)
  Definition default_subst (dv : T) (v : list T) : list T :=
    if isnan dv then v else map (fun x => if isnan x then dv else x) v.

  (* np.take(value, -1): the LAST element; IndexError on an empty batch *)
  Definition take_last (v : list T) : result T :=
    match v with [] => Err EInternal | x :: tl => Ok (last tl x) end.

  Definition is_empty (A : Type) (l : list A) : bool := match l with [] => true | _ => false end.

  Record cstate : Type := { cs_value : list T; cs_previous : T; cs_fuzzy : list F }.

  (* the state of a freshly constructed variable: value = scalar(nan), previous_value = nan *)
  Definition cstate_init (fz : list F) : cstate := {| cs_value := [nan]; cs_previous := nan; cs_fuzzy := fz |}.

  (* the values committed by a successful call on the batch `d`, `p` being the last element of the old value *)
  Definition cascade_values (lock_previous : bool) (dv : T) (lock_range : bool) (lo hi : T) (p : T) (d : list T) : list T :=
    set_value lock_range lo hi (default_subst dv (if lock_previous then fill_forward p d else d)).

  (* OutputVariable.defuzzify; `d` is the outcome of self.defuzzifier.defuzzify(...) (not evaluated when the
     variable is disabled or has no defuzzifier).  Field-wise, so that the engine model can call it. *)
  Definition defuzzify_fields (enabled has_defuzzifier lock_previous : bool) (dv : T) (lock_range : bool) (lo hi : T)
      (d : result (list T)) (st : cstate) : cstate * option err :=
    if negb enabled then (st, None)
    else if negb has_defuzzifier then (st, Some EValue)
    else match d with
    | Err e => (st, Some e)
    | Ok ds =>
      match take_last (cs_value st) with
      | Err e => (st, Some e)                                  (* np.take on an empty value: nothing assigned yet *)
      | Ok p =>
        let st1 := {| cs_value := cs_value st; cs_previous := p; cs_fuzzy := cs_fuzzy st |} in
        if lock_previous && is_empty ds then (st1, Some EValue)  (* nditer: "Iteration of zero-sized operands is not enabled" *)
        else ({| cs_value := cascade_values lock_previous dv lock_range lo hi p ds;
                 cs_previous := p; cs_fuzzy := cs_fuzzy st |}, None)
      end
    end.

  Record cascade_cfg : Type := {
    cc_enabled : bool; cc_has_defuzzifier : bool;
    cc_lock_previous : bool; cc_default : T; cc_lock_range : bool; cc_min : T; cc_max : T }.

  Definition defuzzify_step (c : cascade_cfg) (d : result (list T)) (st : cstate) : cstate * option err :=
    defuzzify_fields (cc_enabled c) (cc_has_defuzzifier c) (cc_lock_previous c) (cc_default c)
                     (cc_lock_range c) (cc_min c) (cc_max c) d st.

  (* OutputVariable.clear: value goes through the clipping setter too *)
  Definition clear_fields (lock_range : bool) (lo hi : T) (st : cstate) : cstate :=
    {| cs_value := set_value lock_range lo hi [nan]; cs_previous := nan; cs_fuzzy := [] |}.
  Definition clear (c : cascade_cfg) (st : cstate) : cstate := clear_fields (cc_lock_range c) (cc_min c) (cc_max c) st.

  (* ---- the documented cascade, row by row (specification) ----------------------------------------
     `recent` = the most recent value of the variable: the FINAL value of the previous row of the batch, or,
     for the first row, the last value held before the call. *)
  Definition row (c : cascade_cfg) (recent x : T) : T :=
    let v1 := if cc_lock_previous c && isnan x then recent else x in
    let v2 := if negb (isnan (cc_default c)) && isnan v1 then cc_default c else v1 in
    if cc_lock_range c then clip (cc_min c) (cc_max c) v2 else v2.
  Fixpoint spec_rows (c : cascade_cfg) (recent : T) (d : list T) : list T :=
    match d with
    | [] => []
    | x :: tl => let o := row c recent x in o :: spec_rows c o tl
    end.

  (* ---- histories: successive calls, for split invariance and for the correspondence ---------------- *)
  (* successive successful-or-not calls on prepared batches; collects the value after every call that returned *)
  Fixpoint run_calls (c : cascade_cfg) (chunks : list (list T)) (st : cstate) : list T * cstate * option err :=
    match chunks with
    | [] => ([], st, None)
    | ch :: tl =>
      match defuzzify_step c (Ok ch) st with
      | (st', Some e) => ([], st', Some e)
      | (st', None) => let '(vs, st'', e) := run_calls c tl st' in (cs_value st' ++ vs, st'', e)
      end
    end.

  Inductive event : Type :=
    | EvCall (enabled has_defuzzifier : bool) (d : result (list T))
    | EvClear.
  Definition with_flags (c : cascade_cfg) (en hd : bool) : cascade_cfg :=
    {| cc_enabled := en; cc_has_defuzzifier := hd; cc_lock_previous := cc_lock_previous c; cc_default := cc_default c;
       cc_lock_range := cc_lock_range c; cc_min := cc_min c; cc_max := cc_max c |}.
  Definition do_event (c : cascade_cfg) (ev : event) (st : cstate) : cstate * option err :=
    match ev with
    | EvCall en hd d => defuzzify_step (with_flags c en hd) d st
    | EvClear => (clear c st, None)
    end.
  (* the observable trace: the state after every event and what the event raised *)
  Fixpoint run_events (c : cascade_cfg) (evs : list event) (st : cstate) : list (cstate * option err) :=
    match evs with
    | [] => []
    | ev :: tl => let r := do_event c ev st in r :: run_events c tl (fst r)
    end.
End Cascade.
Arguments cstate T F : clear implicits.
Arguments cascade_cfg T : clear implicits.
Arguments event T : clear implicits.
Arguments EvClear {T}.
