(* PyRepr.v — model of the Python export (property C15).  Definitions only.

   * `pyval`  : the Python objects that can occur in an engine (class name + `vars(self)` in order), floats, strings,
                lists, ndarrays, dicts, enumeration members.
   * `pyexpr` : the expression trees that `repr` prints (constructor calls, literals, `fl.inf`, lists, …).
   * `repr a v`      : `fuzzylite.library.Representation` — `as_constructor` / `construction_arguments` /
                       `repr_float` / `repr_ndarray` / `package_of` — driven by the class table that
                       tools/translate_signatures.py regenerates from /repo on every run (Gen/GenSignatures.v):
                       parameter names and defaults, the `__repr__` rule of each class (pops, conditions,
                       property reads, positional flag).
   * `eval a e`      : Python's evaluation of such a tree after `exec(import_statement)`: name resolution in the
                       namespace the import creates, argument binding against the translated signatures, and the
                       translated `__init__` programs (`Triangle`/`Trapezoid` shorthand, `Discrete`,
                       `Function(load=…)`, `Engine(load=True)`, `Rule.create`).
   * `normalize v`   : what `eval a (repr a v)` is, stated on objects (no syntax): the fields a `__repr__` drops take
                       the constructor's default / initial value, everything else is normalised recursively.
   Python's own parser, `eval`, `reprlib` and `black` are not modelled (trusted, A-py): the model is about call
   trees.  Floats are tokens of a `Num` reading; `repr(float)`, `Op.str`, `float(str)`, `Function.parse` and
   `Rule.load` enter through the record `penv`. *)
From Coq Require Import ZArith Bool List String Ascii.
From VF Require Import Num GenTerm Core GenSignatures.
Import ListNotations.
Local Open Scope string_scope.
Local Open Scope list_scope.
Set Implicit Arguments.

(* ------------------------------------------------------------------ association lists (Python dicts, in order) *)
Section Assoc.
  Context {A : Type}.
  Fixpoint assoc (k : string) (l : list (string * A)) : option A :=
    match l with [] => None | (k', v) :: tl => if String.eqb k k' then Some v else assoc k tl end.
  Fixpoint set_assoc (k : string) (v : A) (l : list (string * A)) : list (string * A) :=
    match l with
    | [] => [(k, v)]
    | (k', v') :: tl => if String.eqb k k' then (k, v) :: tl else (k', v') :: set_assoc k v tl
    end.
  Fixpoint del_assoc (k : string) (l : list (string * A)) : list (string * A) :=
    match l with [] => [] | (k', v') :: tl => if String.eqb k k' then tl else (k', v') :: del_assoc k tl end.
  Definition has_key (k : string) (l : list (string * A)) : bool :=
    match assoc k l with Some _ => true | None => false end.
End Assoc.

Fixpoint sequence {A} (l : list (result A)) : result (list A) :=
  match l with [] => Ok [] | r :: tl => do x <- r; do xs <- sequence tl; Ok (x :: xs) end.
Fixpoint sequence_kv {A} (l : list (string * result A)) : result (list (string * A)) :=
  match l with [] => Ok [] | (k, r) :: tl => do x <- r; do xs <- sequence_kv tl; Ok ((k, x) :: xs) end.
Definition mem_string (s : string) (l : list string) : bool := existsb (String.eqb s) l.
(* reprlib prints a dict with its keys sorted *)
Fixpoint insert_kv {A} (k : string) (v : A) (l : list (string * A)) : list (string * A) :=
  match l with
  | [] => [(k, v)]
  | (k', v') :: tl => if String.leb k k' then (k, v) :: l else (k', v') :: insert_kv k v tl
  end.
Fixpoint sort_kv {A} (l : list (string * A)) : list (string * A) :=
  match l with [] => [] | (k, v) :: tl => insert_kv k v (sort_kv tl) end.

(* ------------------------------------------------------------------ strings: str.split(), " ".join, comments *)
(* ASCII white space as understood by str.split(): \t \n \v \f \r, FS GS RS US, blank.  Strings are byte strings here;
   non-ASCII white space is outside the model. *)
Definition is_ws (c : ascii) : bool :=
  let n := nat_of_ascii c in ((9 <=? n) && (n <=? 13))%nat || ((28 <=? n) && (n <=? 32))%nat.
Fixpoint split_ws (s : string) : list string :=
  match s with
  | EmptyString => []
  | String c tl =>
      if is_ws c then split_ws tl
      else match tl with
           | EmptyString => [String c EmptyString]
           | String c' _ =>
               if is_ws c' then String c EmptyString :: split_ws tl
               else match split_ws tl with w :: ws => String c w :: ws | [] => [String c EmptyString] end
           end
  end.
Fixpoint join_sp (l : list string) : string :=
  match l with [] => "" | [w] => w | w :: tl => (w ++ " " ++ join_sp tl)%string end.
Definition hash_char : ascii := "#"%char.
Fixpoint before_hash (s : string) : string :=      (* text[0:text.find("#")] *)
  match s with
  | EmptyString => EmptyString
  | String c tl => if Ascii.eqb c hash_char then EmptyString else String c (before_hash tl)
  end.
Fixpoint string_forallb (p : ascii -> bool) (s : string) : bool :=
  match s with EmptyString => true | String c tl => p c && string_forallb p tl end.
(* a text pasted between single quotes without escaping denotes itself iff it has no quote, backslash or line end *)
Definition raw_char_ok (c : ascii) : bool :=
  negb (Ascii.eqb c "'"%char) && negb (Ascii.eqb c "\"%char) && negb (Ascii.eqb c "010"%char) && negb (Ascii.eqb c "013"%char).
Definition raw_safe (s : string) : bool := string_forallb raw_char_ok s.
(* a word: what str.split() returns as one token, and what survives a comment strip *)
Definition word_char_ok (c : ascii) : bool := negb (is_ws c) && negb (Ascii.eqb c hash_char).
Definition is_word (s : string) : bool :=
  match s with EmptyString => false | _ => string_forallb word_char_ok s end.

(* identifiers (ASCII): the class name of the encapsulated export must be one *)
Definition is_alpha_ (c : ascii) : bool :=
  let n := nat_of_ascii c in ((65 <=? n) && (n <=? 90))%nat || ((97 <=? n) && (n <=? 122))%nat || (n =? 95)%nat.
Definition is_digit (c : ascii) : bool := let n := nat_of_ascii c in ((48 <=? n) && (n <=? 57))%nat.
Definition py_keywords : list string :=
  ["False"; "None"; "True"; "and"; "as"; "assert"; "async"; "await"; "break"; "class"; "continue"; "def"; "del"; "elif";
   "else"; "except"; "finally"; "for"; "from"; "global"; "if"; "import"; "in"; "is"; "lambda"; "nonlocal"; "not"; "or";
   "pass"; "raise"; "return"; "try"; "while"; "with"; "yield"].
Definition ident_ok (s : string) : bool :=
  match s with
  | EmptyString => false
  | String c tl => is_alpha_ c && string_forallb (fun d => is_alpha_ d || is_digit d) tl && negb (mem_string s py_keywords)
  end.

(* ------------------------------------------------------------------ syntax and values *)
Section Types.
  Variable T : Type.

  Inductive pyexpr : Type :=
    | ECall (f : list string) (args : list pyexpr) (kwargs : list (string * pyexpr))   (* a.b.c(x, …, k=y, …) *)
    | EStr (s : string)            (* a string literal denoting s (printed by repr(str)) *)
    | ERawStr (s : string)         (* the characters of s pasted between single quotes (Rule.__repr__) *)
    | EFloat (x : T)               (* the literal builtins.repr(x) of a finite float *)
    | EInt (z : Z) | EBool (b : bool) | ENone
    | EName (path : list string)   (* fl.inf, fl.nan *)
    | ENeg (e : pyexpr)            (* -fl.inf *)
    | EList (l : list pyexpr)
    | EDict (l : list (string * pyexpr))
    | ELambdaStub                  (* lambda a, b: ... *)
    | EOpaque (what : string).     (* text that is not an expression: <function …>, <… object at 0x…> *)

  Inductive pyval : Type :=
    | VNone | VBool (b : bool) | VInt (z : Z) | VFloat (x : T) | VStr (s : string)
    | VList (l : list pyval)
    | VArr (l : list pyval)                   (* numpy.ndarray: floats, or rows *)
    | VDict (l : list (string * pyval))
    | VEnum (cls key : string)                (* member of a translated enumeration, by the key its repr prints *)
    | VObj (cls : string) (fields : list (string * pyval))     (* vars(self), insertion order *)
    | VEngineRef                              (* Linear.engine / Function.engine: the engine that contains the term *)
    | VTree (formula : string)                (* Function.root: the tree Function.parse builds from the formula *)
    | VLoaded                                 (* Antecedent.expression / Consequent.conclusions of a loaded rule *)
    | VOpaque (what : string).                (* a Python callable *)

  (* statements of the encapsulated export *)
  Inductive pystmt : Type :=
    | SImport (module : string) (asname : option string)
    | SImportStar (module : string)
    | SClassInit (name attr : string) (e : pyexpr)        (* class N:  def __init__(self) -> None: self.attr = e *)
    | SDefReturn (fname : string) (annotation : list string) (e : pyexpr).   (* def f() -> A:  return e *)

  (* what the model takes from outside (trusted behaviour of Python / of other parts of the library) *)
  Record penv : Type := {
    reparse : T -> T;                      (* float(builtins.repr(x)) for finite x *)
    fmt_w : T -> string;                   (* Op.str(x): "%.{decimals}f" *)
    parse_w : string -> option T;          (* float(token); None = ValueError *)
    formula_err : string -> option err;    (* Function.parse(formula): None = a tree is built *)
    rule_ok : list (string * list string) -> list (string * list string) -> string -> string -> bool;
                                           (* Rule.load succeeds, given (variable, term names) of inputs / outputs *)
    pascal_case : string -> string;        (* Op.pascal_case *)
    atol : T; rtol : T }.                  (* settings.atol, settings.rtol *)
End Types.
Arguments ECall {T}. Arguments EStr {T}. Arguments ERawStr {T}. Arguments EFloat {T}. Arguments EInt {T}.
Arguments EBool {T}. Arguments ENone {T}. Arguments EName {T}. Arguments ENeg {T}. Arguments EList {T}.
Arguments EDict {T}. Arguments ELambdaStub {T}. Arguments EOpaque {T}.
Arguments VNone {T}. Arguments VBool {T}. Arguments VInt {T}. Arguments VFloat {T}. Arguments VStr {T}.
Arguments VList {T}. Arguments VArr {T}. Arguments VDict {T}. Arguments VEnum {T}. Arguments VObj {T}.
Arguments VEngineRef {T}. Arguments VTree {T}. Arguments VLoaded {T}. Arguments VOpaque {T}.
Arguments SImport {T}. Arguments SImportStar {T}. Arguments SClassInit {T}. Arguments SDefReturn {T}.

(* ------------------------------------------------------------------ decidable comparison (used by the correspondence) *)
Section Eqb.
  Context {T : Type}.
  Variable teq : T -> T -> bool.
  Fixpoint path_eqb (a b : list string) : bool :=
    match a, b with [], [] => true | x :: xs, y :: ys => String.eqb x y && path_eqb xs ys | _, _ => false end.
  Fixpoint pyexpr_eqb (a b : pyexpr T) : bool :=
    let fix go (l1 l2 : list (pyexpr T)) : bool :=
      match l1, l2 with [], [] => true | x :: xs, y :: ys => pyexpr_eqb x y && go xs ys | _, _ => false end in
    let fix gok (l1 l2 : list (string * pyexpr T)) : bool :=
      match l1, l2 with
      | [], [] => true
      | (k1, x) :: xs, (k2, y) :: ys => String.eqb k1 k2 && pyexpr_eqb x y && gok xs ys
      | _, _ => false end in
    match a, b with
    | ECall f1 a1 k1, ECall f2 a2 k2 => path_eqb f1 f2 && go a1 a2 && gok k1 k2
    | EStr s1, EStr s2 => String.eqb s1 s2
    | ERawStr s1, ERawStr s2 => String.eqb s1 s2
    | EFloat x, EFloat y => teq x y
    | EInt x, EInt y => Z.eqb x y
    | EBool x, EBool y => Bool.eqb x y
    | ENone, ENone => true
    | EName p1, EName p2 => path_eqb p1 p2
    | ENeg x, ENeg y => pyexpr_eqb x y
    | EList l1, EList l2 => go l1 l2
    | EDict l1, EDict l2 => gok l1 l2
    | ELambdaStub, ELambdaStub => true
    | EOpaque s1, EOpaque s2 => String.eqb s1 s2
    | _, _ => false
    end.
  Fixpoint pyval_eqb (a b : pyval T) : bool :=
    let fix go (l1 l2 : list (pyval T)) : bool :=
      match l1, l2 with [], [] => true | x :: xs, y :: ys => pyval_eqb x y && go xs ys | _, _ => false end in
    let fix gok (l1 l2 : list (string * pyval T)) : bool :=
      match l1, l2 with
      | [], [] => true
      | (k1, x) :: xs, (k2, y) :: ys => String.eqb k1 k2 && pyval_eqb x y && gok xs ys
      | _, _ => false end in
    match a, b with
    | VNone, VNone => true
    | VBool x, VBool y => Bool.eqb x y
    | VInt x, VInt y => Z.eqb x y
    | VFloat x, VFloat y => teq x y
    | VStr x, VStr y => String.eqb x y
    | VList l1, VList l2 => go l1 l2
    | VArr l1, VArr l2 => go l1 l2
    | VDict l1, VDict l2 => gok l1 l2
    | VEnum c1 k1, VEnum c2 k2 => String.eqb c1 c2 && String.eqb k1 k2
    | VObj c1 f1, VObj c2 f2 => String.eqb c1 c2 && gok f1 f2
    | VEngineRef, VEngineRef => true
    | VTree s1, VTree s2 => String.eqb s1 s2
    | VLoaded, VLoaded => true
    | VOpaque s1, VOpaque s2 => String.eqb s1 s2
    | _, _ => false
    end.
  Definition pystmt_eqb (a b : pystmt T) : bool :=
    match a, b with
    | SImport m1 None, SImport m2 None => String.eqb m1 m2
    | SImport m1 (Some a1), SImport m2 (Some a2) => String.eqb m1 m2 && String.eqb a1 a2
    | SImportStar m1, SImportStar m2 => String.eqb m1 m2
    | SClassInit n1 a1 e1, SClassInit n2 a2 e2 => String.eqb n1 n2 && String.eqb a1 a2 && pyexpr_eqb e1 e2
    | SDefReturn f1 p1 e1, SDefReturn f2 p2 e2 => String.eqb f1 f2 && path_eqb p1 p2 && pyexpr_eqb e1 e2
    | _, _ => false
    end.
  Fixpoint list_eqb {A} (f : A -> A -> bool) (l1 l2 : list A) : bool :=
    match l1, l2 with [], [] => true | x :: xs, y :: ys => f x y && list_eqb f xs ys | _, _ => false end.
  Definition result_eqb {A} (f : A -> A -> bool) (a b : result A) : bool :=
    match a, b with Ok x, Ok y => f x y | Err e1, Err e2 => err_eqb e1 e2 | _, _ => false end.
End Eqb.

(* ------------------------------------------------------------------ aliases, package_of, the import's namespace *)
Inductive alias : Set := AQualified | AStar | ACustom (s : string).
(* settings.alias as a string: "" = fully qualified, "*" = no prefix, anything else = that prefix *)
Definition alias_of (s : string) : alias :=
  if String.eqb s "" then AQualified else if String.eqb s "*" then AStar else ACustom s.

Definition find_class (c : string) : option class_sig := find (fun cs => String.eqb (cs_name cs) c) class_table.
Definition find_enum (c : string) : option enum_sig := find (fun en => String.eqb (en_name en) c) enum_table.

(* Representation.package_of for an object whose class lives in fuzzylite.<module> *)
Definition package_of (a : alias) (module : string) : list string :=
  match a with AQualified => ["fuzzylite"; module] | AStar => [] | ACustom s => [s] end.
Definition qualify (a : alias) (module name : string) : list string := package_of a module ++ [name].

Inductive target : Set := TClass (cls : string) | TArray | TInf | TNan | TRuleCreate.
(* what the name X of module m is *)
Definition classify (X m : string) : option target :=
  if String.eqb m "library" then
    (if String.eqb X "array" then Some TArray else if String.eqb X "inf" then Some TInf
     else if String.eqb X "nan" then Some TNan else None)
  else match find_class X with
       | Some cs => if String.eqb (cs_module cs) m then Some (TClass X) else None
       | None => None
       end.
(* attribute of a resolved object: only Rule.create is used *)
Definition attribute (t : target) (names : list string) : option target :=
  match names with
  | [] => Some t
  | [n] => match t with TClass c => if String.eqb c "Rule" && String.eqb n "create" then Some TRuleCreate else None | _ => None end
  | _ => None
  end.
(* a name of the package namespace (what `fl.X` and, after a star import, `X` are bound to) *)
Definition package_name (X : string) : option target :=
  match assoc X package_namespace with Some m => classify X m | None => None end.
(* the namespace after exec(import_statement): AttributeError / NameError = None *)
Definition resolve (a : alias) (path : list string) : option target :=
  match a, path with
  | AQualified, p :: m :: X :: rest =>
      if String.eqb p "fuzzylite" then match classify X m with Some t => attribute t rest | None => None end else None
  | AStar, X :: rest => match package_name X with Some t => attribute t rest | None => None end
  | ACustom s, p :: X :: rest =>
      if String.eqb p s then match package_name X with Some t => attribute t rest | None => None end else None
  | _, _ => None
  end.

Section Model.
  Context {T : Type} {N : Num T}.
  Variable E : penv T.
  Notation pyval := (pyval T).
  Notation pyexpr := (pyexpr T).

  (* ---------------------------------------------------------------- values of tokens, truth, closeness *)
  Definition eval_dtok (d : dtok) : pyval :=
    match d with
    | DNan => VFloat nan | DInf => VFloat pinf | DNegInf => VFloat ninf | DFloat m e => VFloat (lit m e)
    | DInt z => VInt z | DStr s => VStr s | DNone => VNone | DBool b => VBool b | DEnum c k => VEnum c k
    | DEmptyList => VList [] | DEmptyDict => VDict []
    end.
  Definition to_float (v : pyval) : option T :=
    match v with VFloat x => Some x | VInt z => Some (lit z 0) | VBool b => Some (b2f b) | _ => None end.
  (* bool(v); None: not modelled / ambiguous (arrays) *)
  Definition truthy (v : pyval) : option bool :=
    match v with
    | VNone => Some false | VBool b => Some b | VInt z => Some (negb (Z.eqb z 0))
    | VFloat x => Some (negb (eqb x zero))
    | VStr s => Some (match s with EmptyString => false | String _ _ => true end)
    | VList l => Some (match l with [] => false | _ => true end)
    | VDict l => Some (match l with [] => false | _ => true end)
    | VArr _ => None
    | VEnum _ _ | VObj _ _ | VEngineRef | VTree _ | VLoaded | VOpaque _ => Some true
    end.
  (* Op.is_close(a, b) = numpy.isclose(a, b, atol, rtol, equal_nan=True) *)
  Definition is_close (a b : T) : bool :=
    if isfinite a && isfinite b then leb (nabs (sub a b)) (add (atol E) (mul (rtol E) (nabs b)))
    else eqb a b || (isnan a && isnan b).

  (* ---------------------------------------------------------------- repr_float *)
  Definition repr_float (a : alias) (x : T) : pyexpr :=
    if isposinf x || isneginf x then
      (if ltb zero x then EName (qualify a "library" "inf") else ENeg (EName (qualify a "library" "inf")))
    else if isnan x then EName (qualify a "library" "nan")
    else EFloat x.
  (* its value *)
  Definition norm_float (x : T) : T :=
    if isposinf x || isneginf x then (if ltb zero x then pinf else neg pinf)
    else if isnan x then nan else reparse E x.

  (* ---------------------------------------------------------------- as_constructor, generic in what is kept for
     each field (an expression for `repr`, a value for `normalize`) *)
  Section AsConstructor.
    Variable X : Type.
    Definition entry : Type := (pyval * result X)%type.
    (* self.<attr> and self.<attr>.<attr>: value and payload *)
    Definition attr_tbl : Type := list (string * (entry * list (string * entry))).
    Definition get_path (tbl : attr_tbl) (path : list string) : option entry :=
      match path with
      | [f] => option_map fst (assoc f tbl)
      | [o; f] => match assoc o tbl with Some (_, sub) => assoc f sub | None => None end
      | _ => None
      end.
    Definition rcond_eval (tbl : attr_tbl) (c : rcond) : result bool :=
      match c with
      | RFalsy p => match get_path tbl p with
                    | Some (v, _) => match truthy v with Some b => Ok (negb b) | None => Err EValue end
                    | None => Err EInternal end
      | RTruthy p => match get_path tbl p with
                     | Some (v, _) => match truthy v with Some b => Ok b | None => Err EValue end
                     | None => Err EInternal end
      | RIsClose p d => match get_path tbl p with
                        | Some (v, _) => match to_float v, to_float (eval_dtok d) with
                                         | Some x, Some y => Ok (is_close x y) | _, _ => Err EInternal end
                        | None => Err EInternal end
      | REqDefaultResolution p => match get_path tbl p with
                                  | Some (VInt z, _) => Ok (Z.eqb z default_resolution)
                                  | Some (VFloat x, _) => Ok (eqb x (lit default_resolution 0))
                                  | Some _ => Ok false
                                  | None => Err EInternal end
      | REqEnum p c k => match get_path tbl p with
                         | Some (VEnum c' k', _) => Ok (String.eqb c c' && String.eqb k k')
                         | Some _ => Ok false
                         | None => Err EInternal end
      end.
    Fixpoint apply_steps (tbl : attr_tbl) (steps : list rstep) (fields : list (string * entry)) : result (list (string * entry)) :=
      match steps with
      | [] => Ok fields
      | RPop f :: tl => if has_key f fields then apply_steps tbl tl (del_assoc f fields) else Err ELookup   (* KeyError *)
      | RPopIf c f :: tl =>
          do b <- rcond_eval tbl c;
          if b then (if has_key f fields then apply_steps tbl tl (del_assoc f fields) else Err ELookup)
          else apply_steps tbl tl fields
      | RSetAttr f p :: tl =>
          match get_path tbl p with Some e => apply_steps tbl tl (set_assoc f e fields) | None => Err EInternal end
      | RDrop f :: tl => apply_steps tbl tl (del_assoc f fields)             (* filtered out / pop(f, None): no KeyError *)
      | RDropIf c f :: tl =>
          do b <- rcond_eval tbl c;
          if b then apply_steps tbl tl (del_assoc f fields) else apply_steps tbl tl fields
      end.
    Fixpoint dict_entries (tbl : attr_tbl) (ents : list (string * list string)) : result (list (string * entry)) :=
      match ents with
      | [] => Ok []
      | (k, p) :: tl => match get_path tbl p with
                        | Some e => do r <- dict_entries tbl tl; Ok ((k, e) :: r)
                        | None => Err EInternal end
      end.
    (* construction_arguments: the parameters, in order; a parameter without field is skipped if it has a default and
       switches the rest to keywords.  Returns (positional arguments, keyword arguments) *)
    Fixpoint kept (params : list param) (fields : list (string * entry)) (positional : bool) : result (list X * list (string * X)) :=
      match params with
      | [] => Ok ([], [])
      | p :: ps =>
          match assoc (p_name p) fields with
          | Some (_, r) =>
              do x <- r; do rest <- kept ps fields positional;
              if positional then Ok (x :: fst rest, snd rest) else Ok (fst rest, (p_name p, x) :: snd rest)
          | None => match p_default p with Some _ => kept ps fields false | None => Err EValue end
          end
      end.
    Definition as_constructor (cs : class_sig) (src : rsrc) (steps : list rstep) (positional : bool) (tbl : attr_tbl)
      : result (list X * list (string * X)) :=
      do f0 <- match src with
               | RVars => Ok (map (fun kv => (fst kv, fst (snd kv))) tbl)
               | RDict ents => dict_entries tbl ents end;
      do f1 <- apply_steps tbl steps f0;
      kept (if cs_has_init cs then cs_params cs else []) f1 positional.
  End AsConstructor.

  (* Rule.text from the attribute table (values only) *)
  Definition rule_text {X} (tbl : attr_tbl X) : result string :=
    match get_path tbl ["antecedent"; "text"], get_path tbl ["consequent"; "text"], get_path tbl ["weight"] with
    | Some (VStr ante, _), Some (VStr cq, _), Some (w, _) =>
        match to_float w with
        | Some x => Ok (join_sp ([rule_if; ante; rule_then; cq] ++ (if is_close x (lit 1 0) then [] else [rule_with; fmt_w E x])))
        | None => Err EInternal end
    | _, _, _ => Err EInternal
    end.

  (* ---------------------------------------------------------------- repr *)
  (* the __repr__ of an object of class cls, given its attribute table (values and their printed forms) *)
  Definition repr_obj (a : alias) (cls : string) (tbl : attr_tbl pyexpr) : result pyexpr :=
    match find_class cls with
    | None => Ok (EOpaque cls)
    | Some cs =>
        match cs_repr cs with
        | RConstructor src steps positional =>
            do k <- as_constructor cs src steps positional tbl;
            Ok (ECall (qualify a (cs_module cs) cls) (fst k) (snd k))
        | RRuleCreate => do t <- rule_text tbl; Ok (ECall (qualify a (cs_module cs) cls ++ ["create"]) [ERawStr t] [])
        | RLambdaStub => Ok (ECall (qualify a (cs_module cs) cls) [ELambdaStub] [])
        | RNone => Ok (EOpaque cls)
        end
    end.
  Fixpoint repr (a : alias) (v : pyval) : result pyexpr :=
    match v with
    | VNone => Ok ENone | VBool b => Ok (EBool b) | VInt z => Ok (EInt z) | VStr s => Ok (EStr s)
    | VFloat x => Ok (repr_float a x)
    | VList l => do es <- sequence (map (repr a) l); Ok (EList es)
    | VArr l => do es <- sequence (map (repr a) l); Ok (ECall (qualify a "library" "array") [EList es] [])
    | VDict l => do es <- sequence_kv (sort_kv (map (fun kv => (fst kv, repr a (snd kv))) l)); Ok (EDict es)   (* keys sorted, then printed *)
    | VEnum _ k => Ok (EStr k)
    | VObj cls fields =>
        repr_obj a cls
          (map (fun kv => (fst kv, ((snd kv, repr a (snd kv)),
                  match snd kv with
                  | VObj _ fs => map (fun kv2 => (fst kv2, (snd kv2, repr a (snd kv2)))) fs
                  | _ => [] end))) fields)
    | VEngineRef => Err EInternal        (* the engine's own repr: unbounded recursion; every __repr__ pops `engine` *)
    | VTree _ => Ok (EOpaque "Node")
    | VLoaded => Ok (EOpaque "expression")
    | VOpaque w => Ok (EOpaque w)
    end.

  (* ---------------------------------------------------------------- constructors: binding and __init__ programs *)
  Fixpoint bind_positional (params : list param) (pos : list pyval) : result (list (string * pyval) * list param) :=
    match pos, params with
    | [], _ => Ok ([], params)
    | _ :: _, [] => Err EInternal                                   (* TypeError: too many positional arguments *)
    | v :: vs, p :: ps => do r <- bind_positional ps vs; Ok ((p_name p, v) :: fst r, snd r)
    end.
  Fixpoint dup_keys {A} (l : list (string * A)) : bool :=
    match l with [] => false | (k, _) :: tl => has_key k tl || dup_keys tl end.
  Fixpoint fill_rest (rest : list param) (kw : list (string * pyval)) : result (list (string * pyval)) :=
    match rest with
    | [] => Ok []
    | p :: ps =>
        do v <- match assoc (p_name p) kw with
                | Some v => Ok v
                | None => match p_default p with Some d => Ok (eval_dtok d) | None => Err EInternal end   (* missing argument *)
                end;
        do r <- fill_rest ps kw; Ok ((p_name p, v) :: r)
    end.
  Definition bind_args (params : list param) (pos : list pyval) (kw : list (string * pyval)) : result (list (string * pyval)) :=
    if dup_keys kw then Err ESyntax                                  (* keyword argument repeated *)
    else
      do r <- bind_positional params pos;
      let '(bound, rest) := r in
      if forallb (fun kv => mem_string (fst kv) (map p_name rest)) kw   (* unknown keyword / multiple values: TypeError *)
      then do r2 <- fill_rest rest kw; Ok (bound ++ r2)
      else Err EInternal.

  Definition fbin (o : fop) (x y : T) : T :=
    match o with FAdd => add x y | FSub => sub x y | FMul => mul x y | FDiv => div x y end.
  (* numpy.nan_to_num(value, nan=0.0, neginf=0.0, posinf=1.0) *)
  Definition sanitize_val (v : pyval) : result pyval :=
    match v with
    | VArr l => do l' <- sequence (map (fun y => match to_float y with Some x => Ok (VFloat (sanitize x)) | None => Err EInternal end) l); Ok (VArr l')
    | VInt z => Ok (VInt z)                    (* integers have no NaN / infinity: returned as they are *)
    | VBool b => Ok (VBool b)
    | _ => match to_float v with Some x => Ok (VFloat (sanitize x)) | None => Err EInternal end
    end.
  (* Discrete.__init__: a Sequence [x0, y0, x1, y1, …] becomes the rows [[x0, y0], …]; None an empty (1, 0) array *)
  Fixpoint discrete_pairs (l : list pyval) : result (list pyval) :=
    match l with
    | [] => Ok []
    | [_] => Err EValue                       (* scalar([x, y]) with len(x) <> len(y): inhomogeneous shape *)
    | x :: y :: tl =>
        match to_float x, to_float y with
        | Some fx, Some fy => do r <- discrete_pairs tl; Ok (VArr [VFloat fx; VFloat fy] :: r)
        | _, _ => Err EInternal end
    end.
  Definition discrete_values (v : pyval) : result pyval :=
    match v with
    | VList l => do rows <- discrete_pairs l; Ok (VArr rows)
    | VNone => Ok (VArr [VArr []])
    | _ => Ok v
    end.
  Definition enum_member (cls key : string) : bool :=
    match find_enum cls with Some en => mem_string key (en_keys en) | None => false end.

  Section Init.
    (* nested constructor calls (Aggregated inside OutputVariable, Antecedent inside Rule) *)
    Variable inst : string -> list (string * pyval) -> result pyval.
    Variable args : list (string * pyval).

    Definition arg (p : string) : result pyval :=
      match assoc p args with Some v => Ok v | None => Err EInternal end.
    Definition arg_truthy (p : string) : result (pyval * bool) :=
      do v <- arg p; match truthy v with Some b => Ok (v, b) | None => Err EValue end.

    Fixpoint ieval (fields locals : list (string * pyval)) (e : iexpr) : result pyval :=
      match e with
      | IParam p => arg p
      | IField f => match assoc f fields with Some v => Ok v | None => Err EInternal end
      | ILocal x => match assoc x locals with Some v => Ok v | None => Err EInternal end
      | IConst d => Ok (eval_dtok d)
      | IBin o a b =>
          do va <- ieval fields locals a; do vb <- ieval fields locals b;
          match to_float va, to_float vb with Some x, Some y => Ok (VFloat (fbin o x y)) | _, _ => Err EInternal end
      | IListOr p =>
          do vb <- arg_truthy p;
          if snd vb then match fst vb with VList l => Ok (VList l) | _ => Err EInternal end else Ok (VList [])
      | IOrNew p cls => do vb <- arg_truthy p; if snd vb then Ok (fst vb) else inst cls []
      | IOrDefaultResolution p => do vb <- arg_truthy p; if snd vb then Ok (fst vb) else Ok (VInt default_resolution)
      | IEnumByName cls p =>
          do v <- arg p;
          match v with VStr s => if enum_member cls s then Ok (VEnum cls s) else Err ELookup | _ => Ok v end
      | IEnumByValue cls p =>
          do v <- arg p;
          match v with VStr s => if enum_member cls s then Ok (VEnum cls s) else Err EValue | _ => Ok v end
      | IDictCopyOr p =>
          do vb <- arg_truthy p;
          if snd vb then match fst vb with VDict l => Ok (VDict l) | _ => Err EInternal end else Ok (VDict [])
      | IDiscreteValues p => do v <- arg p; discrete_values v
      | ISanitizeDegree e' => do v <- ieval fields locals e'; sanitize_val v
      | INew cls kwargs =>
          do kv <- (fix go (l : list (string * iexpr)) : result (list (string * pyval)) :=
                      match l with
                      | [] => Ok []
                      | (k, e') :: tl => do v <- ieval fields locals e'; do r <- go tl; Ok ((k, v) :: r)
                      end) kwargs;
          inst cls kv
      end.
    Fixpoint ceval (fields locals : list (string * pyval)) (c : icond) : result bool :=
      match c with
      | CNanE e => do v <- ieval fields locals e;
                   match to_float v with Some x => Ok (isnan x) | None => Err EInternal end
      | CAndE a b => do x <- ceval fields locals a; if x then ceval fields locals b else Ok false
      | CParamTrue p => do vb <- arg_truthy p; Ok (snd vb)
      end.

    (* ---- the hooks: methods called from __init__ that are modelled by hand (pinned by the translator) *)
    (* Function.load: self.root = self.parse(self.formula) *)
    Definition function_load (fields : list (string * pyval)) : result (list (string * pyval)) :=
      match assoc "formula" fields with
      | Some (VStr f) => match formula_err E f with None => Ok (set_assoc "root" (VTree f) fields) | Some e => Err e end
      | _ => Err EInternal
      end.
    (* term.update_reference(engine) *)
    Definition update_reference (t : pyval) : result pyval :=
      match t with
      | VObj c fs =>
          if String.eqb c "Linear" then Ok (VObj c (set_assoc "engine" VEngineRef fs))
          else if String.eqb c "Function" then
            let fs' := set_assoc "engine" VEngineRef fs in
            match assoc "root" fs' with
            | Some r => match truthy r with
                        | Some true => Ok (VObj c fs')
                        | Some false => do fs'' <- function_load fs'; Ok (VObj c fs'')
                        | None => Err EValue end
            | None => Err EInternal end
          else Ok t
      | _ => Err EInternal
      end.
    Definition on_terms (g : pyval -> result pyval) (var : pyval) : result pyval :=
      match var with
      | VObj c fs => match assoc "terms" fs with
                     | Some (VList ts) => do ts' <- sequence (map g ts); Ok (VObj c (set_assoc "terms" (VList ts') fs))
                     | _ => Err EInternal end
      | _ => Err EInternal
      end.
    Definition name_of (v : pyval) : option string :=
      match v with VObj _ fs => match assoc "name" fs with Some (VStr s) => Some s | _ => None end | _ => None end.
    Definition var_ctx (var : pyval) : result (string * list string) :=
      match var with
      | VObj _ fs =>
          match assoc "name" fs, assoc "terms" fs with
          | Some (VStr n), Some (VList ts) =>
              do names <- sequence (map (fun t => match name_of t with Some s => Ok s | None => Err EInternal end) ts);
              Ok (n, names)
          | _, _ => Err EInternal end
      | _ => Err EInternal
      end.
    (* rule.unload(); rule.load(engine): true = loaded *)
    Definition load_rule (ins outs : list (string * list string)) (r : pyval) : result (pyval * bool) :=
      match r with
      | VObj c fs =>
          match assoc "antecedent" fs, assoc "consequent" fs with
          | Some (VObj ca fa), Some (VObj cc fc) =>
              match assoc "text" fa, assoc "text" fc with
              | Some (VStr ta), Some (VStr tc) =>
                  let ok := rule_ok E ins outs ta tc in
                  let fs1 := set_assoc "activation_degree" (VFloat (lit 0 0)) fs in
                  let fs2 := set_assoc "triggered" (VBool false) fs1 in
                  let fs3 := set_assoc "antecedent" (VObj ca (set_assoc "expression" (if ok then VLoaded else VNone) fa)) fs2 in
                  let fs4 := set_assoc "consequent" (VObj cc (set_assoc "conclusions" (if ok then VLoaded else VList []) fc)) fs3 in
                  Ok (VObj c fs4, ok)
              | _, _ => Err EInternal end
          | _, _ => Err EInternal end
      | _ => Err EInternal
      end.
    (* RuleBlock.load_rules(engine): RuntimeError if some rule does not load *)
    Definition load_rules (ins outs : list (string * list string)) (rb : pyval) : result pyval :=
      match rb with
      | VObj c fs =>
          match assoc "rules" fs with
          | Some (VList rs) =>
              do rs' <- sequence (map (load_rule ins outs) rs);
              if forallb snd rs' then Ok (VObj c (set_assoc "rules" (VList (map fst rs')) fs)) else Err ERuntime
          | _ => Err EInternal end
      | _ => Err EInternal
      end.
    (* Engine.__init__, `if load:` — references of every term of every variable, then the rules of every block *)
    Definition engine_load (fields : list (string * pyval)) : result (list (string * pyval)) :=
      match assoc "input_variables" fields, assoc "output_variables" fields, assoc "rule_blocks" fields with
      | Some (VList ivs), Some (VList ovs), Some (VList rbs) =>
          do ivs' <- sequence (map (on_terms update_reference) ivs);
          do ovs' <- sequence (map (on_terms update_reference) ovs);
          do ins <- sequence (map var_ctx ivs');
          do outs <- sequence (map var_ctx ovs');
          do rbs' <- sequence (map (load_rules ins outs) rbs);
          Ok (set_assoc "rule_blocks" (VList rbs') (set_assoc "output_variables" (VList ovs') (set_assoc "input_variables" (VList ivs') fields)))
      | _, _, _ => Err EInternal
      end.
    Definition hook (name : string) (fields : list (string * pyval)) : result (list (string * pyval)) :=
      if String.eqb name "Function.load" then function_load fields
      else if String.eqb name "Engine.load" then engine_load fields
      else Err EInternal.

    Fixpoint exec (st : list (string * pyval) * list (string * pyval)) (s : istmt) : result (list (string * pyval) * list (string * pyval)) :=
      let '(fields, locals) := st in
      match s with
      | SSet f e => do v <- ieval fields locals e; Ok (set_assoc f v fields, locals)
      | SSetSub o f e =>
          do v <- ieval fields locals e;
          match assoc o fields with
          | Some (VObj c fs) => Ok (set_assoc o (VObj c (set_assoc f v fs)) fields, locals)
          | _ => Err EInternal end
      | SLocal x e => do v <- ieval fields locals e; Ok (fields, set_assoc x v locals)
      | SIf c body =>
          do b <- ceval fields locals c;
          if b then (fix go (l : list istmt) (st' : list (string * pyval) * list (string * pyval)) :=
                       match l with [] => Ok st' | s' :: tl => do st'' <- exec st' s'; go tl st'' end) body (fields, locals)
          else Ok (fields, locals)
      | SHook name => do fs <- hook name fields; Ok (fs, locals)
      end.
    Fixpoint exec_list (l : list istmt) (st : list (string * pyval) * list (string * pyval)) :=
      match l with [] => Ok st | s :: tl => do st' <- exec st s; exec_list tl st' end.
  End Init.

  (* calling the class: positional and keyword arguments *)
  Fixpoint instantiate_n (fuel : nat) (cls : string) (pos : list pyval) (kw : list (string * pyval)) : result pyval :=
    match fuel with
    | O => Err EInternal
    | S n =>
        match find_class cls with
        | None => Err EInternal
        | Some cs =>
            do bound <- bind_args (if cs_has_init cs then cs_params cs else []) pos kw;
            do st <- exec_list (fun c k => instantiate_n n c [] k) bound (cs_init cs) ([], []);
            Ok (VObj cls (fst st))
        end
    end.
  Definition instantiate := instantiate_n 3.

  (* ---- Rule.create(text): Rule(); rule.parse(text) *)
  Fixpoint fsm_then (toks : list string) : result (list string * option T) :=
    match toks with
    | [] => Ok ([], None)
    | t :: tl =>
        if String.eqb t rule_with then
          match tl with
          | [] => Err ESyntax                                       (* expected the rule weight *)
          | wt :: tl' => match parse_w E wt with
                         | None => Err EValue                       (* float(token) *)
                         | Some w => match tl' with [] => Ok ([], Some w) | _ :: _ => Err ESyntax end
                         end
          end
        else do r <- fsm_then tl; Ok (t :: fst r, snd r)
    end.
  Fixpoint fsm_if (toks : list string) : result (list string * (list string * option T)) :=
    match toks with
    | [] => Err ESyntax                                             (* expected keyword 'then' *)
    | t :: tl => if String.eqb t rule_then then do r <- fsm_then tl; Ok ([], r)
                 else do r <- fsm_if tl; Ok (t :: fst r, snd r)
    end.
  (* (antecedent text, consequent text, weight) *)
  Definition rule_parse (text : string) : result (string * string * T) :=
    match split_ws (before_hash text) with
    | [] => Err ESyntax
    | t :: tl =>
        if String.eqb t rule_if then
          do r <- fsm_if tl;
          let '(ante, (cq, w)) := r in
          match ante, cq with
          | [], _ => Err ESyntax
          | _, [] => Err ESyntax
          | _, _ => Ok (join_sp ante, join_sp cq, match w with Some x => x | None => lit 1 0 end)
          end
        else Err ESyntax
    end.
  Definition set_sub (o f : string) (v : pyval) (fields : list (string * pyval)) : result (list (string * pyval)) :=
    match assoc o fields with
    | Some (VObj c fs) => Ok (set_assoc o (VObj c (set_assoc f v fs)) fields)
    | _ => Err EInternal
    end.
  Definition rule_create (pos : list pyval) (kw : list (string * pyval)) : result pyval :=
    do bound <- bind_args [ {| p_name := "text"; p_default := None; p_kind := KStr |};
                            {| p_name := "engine"; p_default := Some DNone; p_kind := KOptObj "Engine" |} ] pos kw;
    match assoc "text" bound, assoc "engine" bound with
    | Some (VStr text), Some VNone =>
        do r <- instantiate "Rule" [] [];
        do p <- rule_parse text;
        let '(ta, tc, w) := p in
        match r with
        | VObj c fs =>
            do fs1 <- set_sub "antecedent" "text" (VStr ta) fs;
            do fs2 <- set_sub "consequent" "text" (VStr tc) fs1;
            Ok (VObj c (set_assoc "weight" (VFloat w) fs2))
        | _ => Err EInternal end
    | _, _ => Err EInternal           (* text is not a str / loading into a given engine: not modelled *)
    end.

  (* numpy.array([...]) of floats or of equally long rows *)
  Definition arr_len (v : pyval) : option nat := match v with VArr l => Some (List.length l) | _ => None end.
  Definition np_array (pos : list pyval) (kw : list (string * pyval)) : result pyval :=
    match pos, kw with
    | [VList l], [] =>
        match l with
        | [] => Ok (VArr [])
        | VArr r0 :: _ =>
            if forallb (fun v => match arr_len v with Some n => Nat.eqb n (List.length r0) | None => false end) l
            then Ok (VArr l) else Err EValue
        | _ => do l' <- sequence (map (fun v => match to_float v with Some x => Ok (VFloat x) | None => Err EValue end) l);
               Ok (VArr l')
        end
    | _, _ => Err EInternal
    end.

  Definition call (t : target) (pos : list pyval) (kw : list (string * pyval)) : result pyval :=
    match t with
    | TClass c => instantiate c pos kw
    | TArray => np_array pos kw
    | TRuleCreate => rule_create pos kw
    | TInf | TNan => Err EInternal               (* 'float' object is not callable *)
    end.

  (* ---------------------------------------------------------------- eval: the value of an expression tree *)
  Fixpoint eval (a : alias) (e : pyexpr) : result pyval :=
    match e with
    | ECall f args kwargs =>
        match resolve a f with
        | None => Err EInternal                                     (* NameError / AttributeError *)
        | Some t =>
            do pos <- sequence (map (eval a) args);
            do kw <- sequence_kv (map (fun kv => (fst kv, eval a (snd kv))) kwargs);
            call t pos kw
        end
    | EStr s => Ok (VStr s)
    | ERawStr s => if raw_safe s then Ok (VStr s) else Err ESyntax
    | EFloat x => Ok (VFloat (reparse E x))
    | EInt z => Ok (VInt z) | EBool b => Ok (VBool b) | ENone => Ok VNone
    | EName p => match resolve a p with
                 | Some TInf => Ok (VFloat pinf) | Some TNan => Ok (VFloat nan)
                 | Some _ => Ok (VOpaque "class")
                 | None => Err EInternal end
    | ENeg e' => do v <- eval a e';
                 match v with VFloat x => Ok (VFloat (neg x)) | VInt z => Ok (VInt (- z)) | _ => Err EInternal end
    | EList l => do vs <- sequence (map (eval a) l); Ok (VList vs)
    | EDict l => do vs <- sequence_kv (map (fun kv => (fst kv, eval a (snd kv))) l); Ok (VDict vs)
    | ELambdaStub => Ok (VOpaque "lambda a, b: ...")
    | EOpaque _ => Err ESyntax
    end.
  (* exec(import_statement); eval(repr(v)) *)
  Definition construct (a : alias) (e : pyexpr) : result pyval := eval a e.

  (* ---------------------------------------------------------------- normalize: eval ∘ repr without the syntax *)
  Definition normalize_obj (cls : string) (tbl : attr_tbl pyval) : result pyval :=
    match find_class cls with
    | None => Err ESyntax
    | Some cs =>
        match cs_repr cs with
        | RConstructor src steps positional =>
            do k <- as_constructor cs src steps positional tbl;
            instantiate cls (fst k) (snd k)
        | RRuleCreate => do t <- rule_text tbl; if raw_safe t then rule_create [VStr t] [] else Err ESyntax
        | RLambdaStub => instantiate cls [VOpaque "lambda a, b: ..."] []
        | RNone => Err ESyntax
        end
    end.
  Fixpoint normalize (v : pyval) : result pyval :=
    match v with
    | VNone => Ok VNone | VBool b => Ok (VBool b) | VInt z => Ok (VInt z) | VStr s => Ok (VStr s)
    | VFloat x => Ok (VFloat (norm_float x))
    | VList l => do vs <- sequence (map normalize l); Ok (VList vs)
    | VArr l => do vs <- sequence (map normalize l); np_array [VList vs] []
    | VDict l => do vs <- sequence_kv (sort_kv (map (fun kv => (fst kv, normalize (snd kv))) l)); Ok (VDict vs)
    | VEnum _ k => Ok (VStr k)                  (* an enumeration member prints as the string the constructors accept *)
    | VObj cls fields =>
        normalize_obj cls
          (map (fun kv => (fst kv, ((snd kv, normalize (snd kv)),
                  match snd kv with
                  | VObj _ fs => map (fun kv2 => (fst kv2, (snd kv2, normalize (snd kv2)))) fs
                  | _ => [] end))) fields)
    | VEngineRef => Err EInternal
    | VTree _ | VLoaded | VOpaque _ => Err ESyntax
    end.

  (* ---------------------------------------------------------------- import statement and encapsulated export *)
  Definition import_statement (a : alias) : pystmt T :=
    match a with
    | AQualified => SImport "fuzzylite" None
    | AStar => SImportStar "fuzzylite"
    | ACustom s => SImport "fuzzylite" (Some s)
    end.
  (* PythonExporter.encapsulate *)
  Definition encapsulate (a : alias) (v : pyval) : result (list (pystmt T)) :=
    do e <- repr a v;
    match v with
    | VObj cls fs =>
        if String.eqb cls "Engine" then
          match assoc "name" fs with
          | Some (VStr n) => Ok [import_statement a; SClassInit (pascal_case E n) "engine" e]
          | _ => Err EInternal end
        else match find_class cls with
             | Some cs => Ok [import_statement a; SDefReturn "create" (qualify a (cs_module cs) cls) e]
             | None => Err EInternal end
    | _ => Err EInternal
    end.
  (* executing that module in a fresh namespace, then `Name().engine` / `create()` *)
  Definition import_alias (s : pystmt T) : option alias :=
    match s with
    | SImport m None => if String.eqb m "fuzzylite" then Some AQualified else None
    | SImport m (Some s) => if String.eqb m "fuzzylite" then Some (ACustom s) else None
    | SImportStar m => if String.eqb m "fuzzylite" then Some AStar else None
    | _ => None
    end.
  (* does the expression call something through the bare name n? (after `from fuzzylite import *`, `class n:` rebinds n) *)
  Fixpoint expr_uses (n : string) (e : pyexpr) : bool :=
    match e with
    | ECall f args kwargs =>
        match f with h :: _ => String.eqb h n | [] => false end
        || existsb (expr_uses n) args || existsb (fun kv => expr_uses n (snd kv)) kwargs
    | EName p => match p with h :: _ => String.eqb h n | [] => false end
    | ENeg e' => expr_uses n e'
    | EList l => existsb (expr_uses n) l
    | EDict l => existsb (fun kv => expr_uses n (snd kv)) l
    | _ => false
    end.
  Definition run_module (m : list (pystmt T)) : result pyval :=
    match m with
    | [imp; SClassInit name attr e] =>
        match import_alias imp with
        | Some a =>
            if ident_ok name then
              match a with
              | AStar => if expr_uses name e then Err EInternal else eval a e   (* the new class shadows the library's name *)
              | _ => eval a e
              end
            else Err ESyntax
        | None => Err EInternal end
    | [imp; SDefReturn f ann e] =>
        match import_alias imp with
        | Some a => match resolve a ann with Some _ => eval a e | None => Err EInternal end   (* the annotation is evaluated by `def` *)
        | None => Err EInternal end
    | _ => Err EInternal
    end.
End Model.

(* ================================================================== typed view of the objects an engine is made of.
   `pengine` etc. describe the well-shaped states (what the constructors, the importers and attribute assignment of the
   annotated types can produce); `*_val` gives the Python object (class + vars(self), in the order __init__ assigns).
   The closed forms of `normalize` are stated on these types (Proofs/PyReprProofs.v). *)
Section Typed.
  Context {T : Type} {N : Num T}.
  Notation pyval := (pyval T).

  Definition shape_set_height (s : shape T) (h : T) : shape T :=
    match s with
    | Sh_Arc a b _ => Sh_Arc a b h | Sh_Bell a b c _ => Sh_Bell a b c h | Sh_Binary a b _ => Sh_Binary a b h
    | Sh_Concave a b _ => Sh_Concave a b h | Sh_Constant v => Sh_Constant v | Sh_Cosine a b _ => Sh_Cosine a b h
    | Sh_Gaussian a b _ => Sh_Gaussian a b h | Sh_GaussianProduct a b c d _ => Sh_GaussianProduct a b c d h
    | Sh_PiShape a b c d _ => Sh_PiShape a b c d h | Sh_Ramp a b _ => Sh_Ramp a b h | Sh_Rectangle a b _ => Sh_Rectangle a b h
    | Sh_SemiEllipse a b _ => Sh_SemiEllipse a b h | Sh_Sigmoid a b _ => Sh_Sigmoid a b h
    | Sh_SigmoidDifference a b c d _ => Sh_SigmoidDifference a b c d h | Sh_SigmoidProduct a b c d _ => Sh_SigmoidProduct a b c d h
    | Sh_Spike a b _ => Sh_Spike a b h | Sh_SShape a b _ => Sh_SShape a b h | Sh_Trapezoid a b c d _ => Sh_Trapezoid a b c d h
    | Sh_Triangle a b c _ => Sh_Triangle a b c h | Sh_ZShape a b _ => Sh_ZShape a b h
    end.

  (* ---- terms *)
  Inductive pterm : Type :=
    | PShape (name : string) (s : shape T)                         (* the 19 parametric shapes and Constant *)
    | PDiscrete (name : string) (rows : list (T * T)) (height : T) (* values: an (n, 2) array, n >= 1 *)
    | PLinear (name : string) (coefficients : list T) (in_engine : bool)    (* in_engine: .engine is set *)
    | PFunction (name formula : string) (variables : list (string * T)) (loaded in_engine : bool).
  Definition pterm_name (t : pterm) : string :=
    match t with PShape n _ | PDiscrete n _ _ | PLinear n _ _ | PFunction n _ _ _ _ => n end.
  Definition engine_ref (b : bool) : pyval := if b then VEngineRef else VNone.
  Fixpoint remove_key {A} (k : string) (l : list (string * A)) : list (string * A) :=
    match l with [] => [] | (k', v) :: tl => if String.eqb k k' then remove_key k tl else (k', v) :: remove_key k tl end.
  Definition shape_val (name : string) (s : shape T) : pyval :=
    let cls := shape_class s in
    let pnames := match find_class cls with Some cs => List.tl (map p_name (cs_params cs)) | None => [] end in
    VObj cls (("name", VStr name) :: ("height", VFloat (shape_height s)) :: remove_key "height" (combine pnames (map VFloat (shape_args s)))).
  Definition term_val (t : pterm) : pyval :=
    match t with
    | PShape n s => shape_val n s
    | PDiscrete n rows h =>
        VObj "Discrete" [("name", VStr n); ("height", VFloat h); ("values", VArr (map (fun r => VArr [VFloat (fst r); VFloat (snd r)]) rows))]
    | PLinear n cs e =>
        VObj "Linear" [("name", VStr n); ("height", VFloat (lit 1 0)); ("coefficients", VList (map VFloat cs)); ("engine", engine_ref e)]
    | PFunction n f vars loaded e =>
        VObj "Function" [("name", VStr n); ("height", VFloat (lit 1 0)); ("root", if loaded then VTree f else VNone); ("formula", VStr f);
                         ("engine", engine_ref e); ("variables", VDict (map (fun kv => (fst kv, VFloat (snd kv))) vars))]
    end.

  (* ---- operators, defuzzifiers, activation methods: class names of the translated table *)
  Definition norm_val (cls : string) : pyval := VObj cls [].
  Definition opt_val {A} (f : A -> pyval) (o : option A) : pyval := match o with Some x => f x | None => VNone end.
  Inductive pdefuzzifier : Type :=
    | PIntegral (cls : string) (resolution : Z)
    | PWeighted (cls : string) (type : string).       (* type: Automatic | TakagiSugeno | Tsukamoto *)
  Definition defuzzifier_val (d : pdefuzzifier) : pyval :=
    match d with
    | PIntegral cls r => VObj cls [("resolution", VInt r)]
    | PWeighted cls ty => VObj cls [("type", VEnum "WeightedDefuzzifier.Type" ty)]
    end.
  Inductive pactivation : Type :=
    | PActPlain (cls : string)                                   (* General, Proportional *)
    | PActN (cls : string) (rules : Z)                           (* Highest, Lowest *)
    | PActNT (cls : string) (rules : Z) (threshold : T)          (* First, Last *)
    | PActThreshold (comparator : string) (threshold : T).
  Definition activation_val (x : pactivation) : pyval :=
    match x with
    | PActPlain cls => VObj cls []
    | PActN cls n => VObj cls [("rules", VInt n)]
    | PActNT cls n t => VObj cls [("rules", VInt n); ("threshold", VFloat t)]
    | PActThreshold c t => VObj "Threshold" [("comparator", VEnum "Threshold.Comparator" c); ("threshold", VFloat t)]
    end.

  (* ---- variables *)
  Record pinput : Type := {
    vi_name : string; vi_description : string; vi_enabled : bool; vi_min : T; vi_max : T; vi_lock_range : bool;
    vi_terms : list pterm; vi_value : T }.
  Definition input_val (v : pinput) : pyval :=
    VObj "InputVariable" [("name", VStr (vi_name v)); ("description", VStr (vi_description v)); ("enabled", VBool (vi_enabled v));
                          ("minimum", VFloat (vi_min v)); ("maximum", VFloat (vi_max v)); ("lock_range", VBool (vi_lock_range v));
                          ("terms", VList (map term_val (vi_terms v))); ("_value", VFloat (vi_value v))].
  Record poutput : Type := {
    vo_name : string; vo_description : string; vo_enabled : bool; vo_min : T; vo_max : T; vo_lock_range : bool;
    vo_lock_previous : bool; vo_default : T; vo_aggregation : option string; vo_defuzzifier : option pdefuzzifier;
    vo_terms : list pterm;
    vo_value : T; vo_previous : T; vo_fuzzy_name : string; vo_fuzzy_terms : list pyval }.   (* run-time state *)
  Definition output_val (v : poutput) : pyval :=
    VObj "OutputVariable" [
      ("fuzzy", VObj "Aggregated" [("name", VStr (vo_fuzzy_name v)); ("height", VFloat (lit 1 0)); ("minimum", VFloat (vo_min v));
                                   ("maximum", VFloat (vo_max v)); ("aggregation", opt_val norm_val (vo_aggregation v));
                                   ("terms", VList (vo_fuzzy_terms v))]);
      ("name", VStr (vo_name v)); ("description", VStr (vo_description v)); ("enabled", VBool (vo_enabled v));
      ("lock_range", VBool (vo_lock_range v)); ("terms", VList (map term_val (vo_terms v))); ("_value", VFloat (vo_value v));
      ("defuzzifier", opt_val defuzzifier_val (vo_defuzzifier v)); ("lock_previous", VBool (vo_lock_previous v));
      ("default_value", VFloat (vo_default v)); ("previous_value", VFloat (vo_previous v))].

  (* ---- rules: the antecedent and consequent are kept as the words of their text *)
  Record prule : Type := {
    ru_enabled : bool; ru_weight : T; ru_antecedent : list string; ru_consequent : list string;
    ru_loaded : bool; ru_degree : T; ru_triggered : bool }.
  Definition rule_val (r : prule) : pyval :=
    VObj "Rule" [("enabled", VBool (ru_enabled r)); ("weight", VFloat (ru_weight r)); ("activation_degree", VFloat (ru_degree r));
                 ("triggered", VBool (ru_triggered r));
                 ("antecedent", VObj "Antecedent" [("text", VStr (join_sp (ru_antecedent r))); ("expression", if ru_loaded r then VLoaded else VNone)]);
                 ("consequent", VObj "Consequent" [("text", VStr (join_sp (ru_consequent r))); ("conclusions", if ru_loaded r then VLoaded else VList [])])].
  Record pblock : Type := {
    bl_name : string; bl_description : string; bl_enabled : bool;
    bl_conjunction : option string; bl_disjunction : option string; bl_implication : option string;
    bl_activation : option pactivation; bl_rules : list prule }.
  Definition block_val (b : pblock) : pyval :=
    VObj "RuleBlock" [("name", VStr (bl_name b)); ("description", VStr (bl_description b)); ("enabled", VBool (bl_enabled b));
                      ("conjunction", opt_val norm_val (bl_conjunction b)); ("disjunction", opt_val norm_val (bl_disjunction b));
                      ("implication", opt_val norm_val (bl_implication b)); ("activation", opt_val activation_val (bl_activation b));
                      ("rules", VList (map rule_val (bl_rules b)))].
  Record pengine : Type := {
    en_name : string; en_description : string; en_inputs : list pinput; en_outputs : list poutput; en_blocks : list pblock }.
  Definition engine_val (e : pengine) : pyval :=
    VObj "Engine" [("name", VStr (en_name e)); ("description", VStr (en_description e));
                   ("input_variables", VList (map input_val (en_inputs e))); ("output_variables", VList (map output_val (en_outputs e)));
                   ("rule_blocks", VList (map block_val (en_blocks e)))].
End Typed.
Arguments pterm T : clear implicits.
Arguments pdefuzzifier : clear implicits.
Arguments pactivation T : clear implicits.
Arguments pinput T : clear implicits.
Arguments poutput T : clear implicits.
Arguments prule T : clear implicits.
Arguments pblock T : clear implicits.
Arguments pengine T : clear implicits.
