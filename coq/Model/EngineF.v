(* EngineF.v — the engine model with Function terms evaluated by the formula model (Model/Formula.v). *)
From Coq Require Import ZArith Bool List String.
From VF Require Import Num GenOpTable Core ShuntingYard Formula Engine.
Import ListNotations.
Local Open Scope string_scope.

Section EngineF.
  Context {T : Type} {NT : Num T}.
  (* results of transcendental / rounding formula functions, recorded from the implementation *)
  Variable oracle : string -> T -> T -> option T.

  (* Function.membership(x) inside an engine: the formula model; a non-numeric result (undetermined dtype) is not modelled *)
  Definition feval (e : engine T) (f : fnode T) (vars : list (string * T)) (x : T) : result T :=
    match membership op_table oracle (Some f) vars (Some e) x with
    | Ok v => match value_num v with Some y => Ok y | None => Err EInternal end
    | Err er => Err er
    end.

  (* a Function term loaded from its formula text (Function.load at construction / update_reference) *)
  Definition fn_term (name formula : string) : term T :=
    TFunction name (match parse_text op_table (number_of []) "and" "or" formula with Ok t => Some t | Err _ => None end) [].

  Definition process_f : engine T -> result (engine T) := process feval.
End EngineF.
