(* ShuntingYard.v — Function.format_infix and Function.infix_to_postfix (fuzzylite/term.py 3093-3201),
   over an arbitrary operator/function table (the generated one is Gen/GenOpTable.op_table).
   Definitions only.  Tokens are strings; the operator stack and the output queue are lists of strings
   (stack: head = top; queue: in output order).

   Python                                            here
   factory.objects  (dict name -> Element)           lookup tbl name        (dict comprehension: LAST registration wins)
   element.is_function() / is_operator()             en_is_function e / negb (en_is_function e)   (Element.Type has two members)
   raise SyntaxError                                 Err ESyntax
   raise RuntimeError("unexpected error with token") Err ERuntime           (unreachable, kept)
   " ".join(queue)  … later  postfix.split()         the token list itself  (tokens come from str.split(): non-empty, no blanks)

   Assumptions on the text (format_infix only): ASCII (Coq strings are byte strings; Python's `\s` / str.split() also treat
   U+0085, U+00A0, U+1680, U+2000… as blanks, which are multi-byte in UTF-8 and are not modelled), and no operator key of the
   table is the empty string (the regex alternation would contain an empty alternative). *)
From Coq Require Import ZArith Bool List String Ascii.
From VF Require Import Core.
Import ListNotations.
Local Open Scope string_scope.
Local Open Scope list_scope.

(* ---- the table: rows exactly as generated in Gen/GenOpTable.v
        (name, is_function, numpy/Op method, arity, precedence, associativity) *)
Definition entry : Type := (string * bool * string * nat * Z * Z)%type.
Definition table : Type := list entry.
Definition en_name (e : entry) : string := let '(n, _, _, _, _, _) := e in n.
Definition en_is_function (e : entry) : bool := let '(_, f, _, _, _, _) := e in f.
Definition en_method (e : entry) : string := let '(_, _, m, _, _, _) := e in m.
Definition en_arity (e : entry) : nat := let '(_, _, _, a, _, _) := e in a.
Definition en_prec (e : entry) : Z := let '(_, _, _, _, p, _) := e in p.
Definition en_assoc (e : entry) : Z := let '(_, _, _, _, _, a) := e in a.

(* factory.objects.get(name): {element.name: element for element in operators + functions} keeps the last one *)
Fixpoint lookup (tbl : table) (s : string) : option entry :=
  match tbl with
  | [] => None
  | e :: tl => match lookup tl s with
               | Some e' => Some e'
               | None => if String.eqb (en_name e) s then Some e else None
               end
  end.

Definition is_paren_tok (s : string) : bool := String.eqb s "(" || String.eqb s ")" || String.eqb s ",".

(* ---- the operator loop:
     while stack and stack[-1] in factory.objects:
         top = factory.objects[stack[-1]]
         if (element.associativity < 0 and element.precedence <= top.precedence) or
            (element.associativity > 0 and element.precedence < top.precedence): queue.append(stack.pop())
         else: break
   NB a FUNCTION name on top of the stack is "in factory.objects" too and is compared by its precedence. *)
Definition pops (e top : entry) : bool :=
  (Z.ltb (en_assoc e) 0 && Z.leb (en_prec e) (en_prec top)) || (Z.ltb 0 (en_assoc e) && Z.ltb (en_prec e) (en_prec top)).

Fixpoint pop_ops (tbl : table) (e : entry) (stack : list string) : list string * list string :=
  match stack with
  | top :: rest =>
      match lookup tbl top with
      | Some te => if pops e te then let '(ps, r) := pop_ops tbl e rest in (top :: ps, r) else ([], stack)
      | None => ([], stack)
      end
  | [] => ([], [])
  end.

(* while stack and stack[-1] != "(": queue.append(stack.pop())      (returns popped items, remaining stack) *)
Fixpoint pop_until_lparen (stack : list string) : list string * list string :=
  match stack with
  | [] => ([], [])
  | top :: rest => if String.eqb top "(" then ([], stack)
                   else let '(ps, r) := pop_until_lparen rest in (top :: ps, r)
  end.

Definition sy_state : Type := (list string * list string)%type.   (* queue, stack *)

(* one iteration of `for token in formula.split()` — the if/elif chain in source order *)
Definition step (tbl : table) (token : string) (s : sy_state) : result sy_state :=
  let '(queue, stack) := s in
  let element := lookup tbl token in
  let is_operand := match element with None => negb (is_paren_tok token) | Some _ => false end in
  let is_fn := match element with Some e => en_is_function e | None => false end in
  let is_op := match element with Some e => negb (en_is_function e) | None => false end in
  if is_operand then Ok (queue ++ [token], stack)
  else if is_fn then Ok (queue, token :: stack)
  else if String.eqb token "," then
    let '(ps, r) := pop_until_lparen stack in
    match r with
    | [] => Err ESyntax                         (* if not stack or stack[-1] != "(" *)
    | _ :: _ => Ok (queue ++ ps, r)
    end
  else if is_op then
    match element with
    | Some e => let '(ps, r) := pop_ops tbl e stack in Ok (queue ++ ps, token :: r)
    | None => Err ERuntime
    end
  else if String.eqb token "(" then Ok (queue, token :: stack)
  else if String.eqb token ")" then
    let '(ps, r) := pop_until_lparen stack in
    match r with
    | [] => Err ESyntax
    | _ :: r' =>                                 (* stack.pop(): get rid of "(" *)
        match r' with
        | top :: r'' =>
            match lookup tbl top with
            | Some te => if en_is_function te then Ok (queue ++ ps ++ [top], r'') else Ok (queue ++ ps, r')
            | None => Ok (queue ++ ps, r')
            end
        | [] => Ok (queue ++ ps, r')
        end
    end
  else Err ERuntime.

Fixpoint run (tbl : table) (tokens : list string) (s : sy_state) : result sy_state :=
  match tokens with
  | [] => Ok s
  | t :: ts => match step tbl t s with Ok s' => run tbl ts s' | Err e => Err e end
  end.

(* while stack: if stack[-1] in {"(", ")"}: raise SyntaxError; queue.append(stack.pop()) *)
Fixpoint flush_stack (stack : list string) : result (list string) :=
  match stack with
  | [] => Ok []
  | top :: rest => if String.eqb top "(" || String.eqb top ")" then Err ESyntax
                   else match flush_stack rest with Ok ps => Ok (top :: ps) | Err e => Err e end
  end.

(* Function.infix_to_postfix after the formula has been formatted and split *)
Definition infix_to_postfix (tbl : table) (tokens : list string) : result (list string) :=
  match run tbl tokens ([], []) with
  | Ok (queue, stack) => match flush_stack stack with Ok ps => Ok (queue ++ ps) | Err e => Err e end
  | Err e => Err e
  end.

(* ================= Function.format_infix followed by str.split() ================= *)

(* blanks of `\s` and str.split() within ASCII: \t \n \v \f \r, FS GS RS US, space *)
Definition is_space (c : ascii) : bool :=
  let n := N_of_ascii c in ((9 <=? n) && (n <=? 13) || (28 <=? n) && (n <=? 32))%N.

(* sorted(operators, reverse=True) on a set: descending, without duplicates (byte-wise = code-point order) *)
Fixpoint insert_desc (s : string) (l : list string) : list string :=
  match l with
  | [] => [s]
  | h :: t => match String.compare s h with
              | Gt => s :: l
              | Eq => l
              | Lt => h :: insert_desc s t
              end
  end.
Definition sort_desc (l : list string) : list string := fold_right insert_desc [] l.

(* operators = set(factory.operators().keys()) ∪ {"(", ")", ","} − {Rule.AND, Rule.OR}; in regex-alternation order *)
Definition infix_keys (tbl : table) (kw_and kw_or : string) : list string :=
  let ops := filter (fun n => match lookup tbl n with Some e => negb (en_is_function e) | None => false end) (map en_name tbl) in
  let all := ops ++ ["("; ")"; ","] in
  sort_desc (filter (fun n => negb (String.eqb n kw_and || String.eqb n kw_or)) all).

Fixpoint is_prefix (k s : string) {struct k} : bool :=
  match k with
  | EmptyString => true
  | String a k' => match s with EmptyString => false | String b s' => Ascii.eqb a b && is_prefix k' s' end
  end.
(* the first alternative of the regex that matches at the current position *)
Definition first_match (keys : list string) (s : string) : option string :=
  find (fun k => negb (String.eqb k "") && is_prefix k s) keys.

Definition emit (cur : string) (rest : list string) : list string :=
  if String.eqb cur "" then rest else cur :: rest.

(* re.sub(rf"({regex})", r" \1 ", formula) … split(): left-to-right, non-overlapping matches become tokens of their own,
   blanks separate, everything else accumulates in the current token.  `skip` = characters of a matched key still to pass. *)
Fixpoint scan (keys : list string) (s : string) (skip : nat) (cur : string) : list string :=
  match s with
  | EmptyString => emit cur []
  | String c s' =>
      match skip with
      | S k => scan keys s' k cur
      | O => match first_match keys s with
             | Some key => emit cur (key :: scan keys s' (String.length key - 1) "")
             | None => if is_space c then emit cur (scan keys s' 0 "")
                       else scan keys s' 0 (String.append cur (String c ""))
             end
      end
  end.

(* Function.format_infix(formula).split() *)
Definition format_infix_tokens (tbl : table) (kw_and kw_or : string) (formula : string) : list string :=
  scan (infix_keys tbl kw_and kw_or) formula 0 "".

Fixpoint join_sp (l : list string) : string :=
  match l with
  | [] => ""
  | [x] => x
  | x :: tl => String.append x (String.append " " (join_sp tl))
  end.
(* Function.format_infix(formula) *)
Definition format_infix (tbl : table) (kw_and kw_or : string) (formula : string) : string :=
  join_sp (format_infix_tokens tbl kw_and kw_or formula).

(* Function.infix_to_postfix(formula).split() *)
Definition infix_to_postfix_text (tbl : table) (kw_and kw_or : string) (formula : string) : result (list string) :=
  infix_to_postfix tbl (format_infix_tokens tbl kw_and kw_or formula).
