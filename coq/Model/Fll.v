(* Fll.v — model of the FuzzyLite Language exporter and importer
     fuzzylite/exporter.py  FllExporter   (format, engine, variable, input_variable, output_variable, rule_block,
                                           term, norm, activation, defuzzifier, rule)
     fuzzylite/importer.py  FllImporter   (engine, _process, input_variable, output_variable, rule_block, term, rule,
                                           tnorm, snorm, activation, defuzzifier, range, boolean, extract_key_value)
     fuzzylite/term.py      Term._parameters / Term._parse and every parameters()/configure() pair
     fuzzylite/activation.py, defuzzifier.py   parameters()/configure()
     fuzzylite/rule.py      Rule.text (getter), Rule.parse
     fuzzylite/operation.py Op.strip_comments, Op.as_identifier, Op.str (through `fmt`), Op.is_close(., 1.0) (through `close1`)
   Definitions only; proofs are in Proofs/FllProofs.v.

   The text is a list of lines (`text.split("\n")`; `export` returns the lines whose "\n".join is the exported text,
   including the final empty line).  Numbers are abstract: `num`, with `fmt d x` = Op.str(x) at `settings.decimals = d`,
   `parse s` = to_float(s) / float(s) (None = ValueError), `round d x` = the number denoted by the printed token,
   `close1 x` = Op.is_close(x, 1.0).  Integers (resolution, number of rules) are Z with Coq's decimal printer.

   The FLL-level syntax tree (`fll_engine` …) is the "structure" of property C14: it carries everything the exporter
   reads (descriptions, flags, term class + parameter list + height, operators, defuzzifier/activation parameters, rules as
   their text: antecedent tokens / consequent tokens / weight, and the rule's `enabled` flag, which has no FLL syntax).

   After the generic Section: decidable equality of the syntax tree, and two concrete number systems — `tnum` (the
   printed tokens with the implementation's closeness bit: the instance the correspondence check runs, tools/props/C14.py)
   and `n3` (three numbers: the smallest system that satisfies the formatting assumptions and refutes the export fixed
   point for a height that is rounded into the tolerance of 1).

   Not modelled (the importer's result additionally depends on them; the model accepts a superset of texts):
   loading of a rule against the engine (Rule.load: Model/Antecedent.v, Model/Consequent.v, properties C06/C07/C16) and
   parsing of a Function formula (Function.load: Model/ShuntingYard.v, C17) — both keep the text unchanged;
   non-ASCII characters (Python's isalnum/isspace on them); `int()` accepting "_" separators and surrounding blanks. *)
From Coq Require Import ZArith Bool List String Ascii Decimal DecimalString.
From VF Require Import Num GenNorm GenTerm Core.
Import ListNotations.
Local Open Scope string_scope.
Local Open Scope list_scope.
Set Implicit Arguments.
Notation "a +++ b" := (String.append a b) (at level 60, right associativity).

(* ------------------------------------------------------------------------------------------------ strings *)
(* str.isspace() on ASCII: \t \n \v \f \r, \x1c-\x1f, space *)
Definition is_ws (c : ascii) : bool :=
  let n := nat_of_ascii c in ((9 <=? n)%nat && (n <=? 13)%nat) || ((28 <=? n)%nat && (n <=? 32)%nat).
Definition is_digit (c : ascii) : bool := let n := nat_of_ascii c in (48 <=? n)%nat && (n <=? 57)%nat.
Definition is_alpha (c : ascii) : bool :=
  let n := nat_of_ascii c in ((65 <=? n)%nat && (n <=? 90)%nat) || ((97 <=? n)%nat && (n <=? 122)%nat).
(* x.isalnum() or x == "_" *)
Definition is_ident_char (c : ascii) : bool := is_digit c || is_alpha c || Ascii.eqb c "_".
Definition is_hash (c : ascii) : bool := Ascii.eqb c "#".
Definition is_nl (c : ascii) : bool := Ascii.eqb c "010".

Fixpoint str_forall (f : ascii -> bool) (s : string) : bool :=
  match s with EmptyString => true | String c s' => f c && str_forall f s' end.
Fixpoint str_filter (f : ascii -> bool) (s : string) : string :=
  match s with EmptyString => EmptyString | String c s' => if f c then String c (str_filter f s') else str_filter f s' end.
Definition nonempty (s : string) : bool := negb (String.eqb s "").

(* str.lstrip(), str.rstrip(), str.strip() *)
Fixpoint lstrip (s : string) : string :=
  match s with EmptyString => EmptyString | String c s' => if is_ws c then lstrip s' else s end.
Fixpoint rstrip (s : string) : string :=
  match s with
  | EmptyString => EmptyString
  | String c s' => let r := rstrip s' in if String.eqb r "" && is_ws c then EmptyString else String c r
  end.
Definition strip (s : string) : string := rstrip (lstrip s).

(* line[: line.find("#")] *)
Fixpoint cut_comment (s : string) : string :=
  match s with
  | EmptyString => EmptyString
  | String c s' => if is_hash c then EmptyString else String c (cut_comment s')
  end.
(* Op.strip_comments on one line *)
Definition clean_line (l : string) : string := strip (cut_comment l).

(* s.split(":", maxsplit=1): None when there is no colon *)
Fixpoint split_colon (s : string) : option (string * string) :=
  match s with
  | EmptyString => None
  | String c s' =>
      if Ascii.eqb c ":" then Some (EmptyString, s')
      else match split_colon s' with Some (k, v) => Some (String c k, v) | None => None end
  end.

(* the maximal prefix without whitespace, and the rest *)
Fixpoint span_tok (s : string) : string * string :=
  match s with
  | EmptyString => (EmptyString, EmptyString)
  | String c s' => if is_ws c then (EmptyString, s) else let (t, r) := span_tok s' in (String c t, r)
  end.
(* s.split(maxsplit=n): after n splits the remainder keeps its inner and trailing whitespace *)
Fixpoint split_max (n : nat) (s : string) : list string :=
  let s1 := lstrip s in
  match s1 with
  | EmptyString => []
  | _ => match n with
         | O => [s1]
         | S n' => let (t, r) := span_tok s1 in t :: split_max n' r
         end
  end.
(* s.split() *)
Definition split_ws (s : string) : list string := split_max (String.length s) s.

(* sep.join(l) *)
Fixpoint join (sep : string) (l : list string) : string :=
  match l with
  | [] => EmptyString
  | [x] => x
  | x :: r => x +++ sep +++ join sep r
  end.

(* Op.as_identifier *)
Definition as_identifier (name : string) : string :=
  let n := str_filter is_ident_char name in
  let n := if String.eqb n "" then "_" else n in
  match n with
  | String c _ => if is_digit c then String "_" n else n
  | EmptyString => n
  end.

(* str(int) / int(str): optional sign and decimal digits *)
Definition string_of_Z (z : Z) : string := NilZero.string_of_int (Z.to_int z).
Definition Z_of_string (s : string) : option Z :=
  match s with
  | String "+" s' =>
      match s' with
      | String "-" _ | String "+" _ => None
      | _ => option_map Z.of_int (NilZero.int_of_string s')
      end
  | _ => option_map Z.of_int (NilZero.int_of_string s)
  end.

Fixpoint list_eqb {A} (eqb : A -> A -> bool) (a b : list A) : bool :=
  match a, b with
  | [], [] => true
  | x :: a', y :: b' => eqb x y && list_eqb eqb a' b'
  | _, _ => false
  end.
Definition nonempty_list {A} (l : list A) : bool := match l with [] => false | _ => true end.
Definition option_eqb {A} (eqb : A -> A -> bool) (a b : option A) : bool :=
  match a, b with None, None => true | Some x, Some y => eqb x y | _, _ => false end.

(* ------------------------------------------------------------------------------------------------ class names *)
Definition find_named {A} (name_of : A -> string) (all : list A) (s : string) : option A :=
  find (fun a => String.eqb (name_of a) s) all.

Definition all_integral : list integral_kind := [Bisector; Centroid; LargestOfMaximum; MeanOfMaximum; SmallestOfMaximum].
Definition integral_name (k : integral_kind) : string :=
  match k with
  | Bisector => "Bisector" | Centroid => "Centroid" | LargestOfMaximum => "LargestOfMaximum"
  | MeanOfMaximum => "MeanOfMaximum" | SmallestOfMaximum => "SmallestOfMaximum"
  end.
Definition all_wtype : list wtype := [WAutomatic; WTakagiSugeno; WTsukamoto].
Definition wtype_name (t : wtype) : string :=
  match t with WAutomatic => "Automatic" | WTakagiSugeno => "TakagiSugeno" | WTsukamoto => "Tsukamoto" end.
Definition all_comparators : list comparator := [CmpLt; CmpLe; CmpEq; CmpNe; CmpGe; CmpGt].
(* Threshold.Comparator values *)
Definition comparator_name (c : comparator) : string :=
  match c with CmpLt => "<" | CmpLe => "<=" | CmpEq => "==" | CmpNe => "!=" | CmpGe => ">=" | CmpGt => ">" end.

(* IntegralDefuzzifier.default_resolution *)
Definition default_resolution : Z := 1000%Z.

Inductive fll_defuzzifier : Set :=
  | FDIntegral (k : integral_kind) (resolution : Z)
  | FDWeighted (average : bool) (ty : wtype).      (* average = true: WeightedAverage, false: WeightedSum *)

(* the row of the generated term table for a class name: (name, configure arity, parses a height, _, _) *)
Definition lookup_term (cls : string) : option (string * nat * bool * bool * bool) :=
  find (fun r => String.eqb (fst (fst (fst (fst r)))) cls) term_table.
Definition row_arity (r : string * nat * bool * bool * bool) : nat := snd (fst (fst (fst r))).
Definition row_height (r : string * nat * bool * bool * bool) : bool := snd (fst (fst r)).
(* classes with their own parameters()/configure() that are not in the table *)
Definition is_special_class (cls : string) : bool :=
  String.eqb cls "Discrete" || String.eqb cls "Linear" || String.eqb cls "Function".

Definition indent : string := "  ".
Definition fmt_bool (b : bool) : string := if b then "true" else "false".
(* FllExporter.format(key, value) for a string value: nothing is appended for "" *)
Definition kv (key value : string) : string :=
  if String.eqb value "" then key +++ ":" else key +++ ": " +++ value.
(* FllExporter.format(None, tuple of strings): empty pieces are dropped *)
Definition join_nonempty (l : list string) : string := join " " (filter nonempty l).

Section Fll.
  Variable num : Type.
  Variable fmt : nat -> num -> string.          (* Op.str at settings.decimals = d *)
  Variable parse : string -> option num.        (* to_float / float; None = ValueError *)
  Variable round : nat -> num -> num.           (* the number denoted by fmt d x *)
  Variable close1 : num -> bool.                (* Op.is_close(x, 1.0) *)
  Variables n_nan n_pinf n_ninf n_one n_zero : num.    (* nan, inf, -inf, 1.0, 0.0 (constructor defaults) *)

  (* ---------------------------------------------------------------------------------------------- syntax tree *)
  (* every Term has a height attribute; Constant, Linear and Function do not parse one *)
  Inductive fll_term : Type :=
    | FShape (name cls : string) (params : list num) (height : num)   (* the classes of GenTerm.term_table, incl. Constant *)
    | FDiscrete (name : string) (xy : list (num * num)) (height : num)
    | FLinear (name : string) (coefficients : list num) (height : num)
    | FFunction (name : string) (formula : string) (height : num).
  Definition ft_name (t : fll_term) : string :=
    match t with FShape n _ _ _ | FDiscrete n _ _ | FLinear n _ _ | FFunction n _ _ => n end.
  Definition ft_class (t : fll_term) : string :=
    match t with FShape _ c _ _ => c | FDiscrete _ _ _ => "Discrete" | FLinear _ _ _ => "Linear" | FFunction _ _ _ => "Function" end.

  Record fll_input : Type := {
    fi_name : string; fi_description : string; fi_enabled : bool; fi_min : num; fi_max : num;
    fi_lock_range : bool; fi_terms : list fll_term }.
  Record fll_output : Type := {
    fo_name : string; fo_description : string; fo_enabled : bool; fo_min : num; fo_max : num;
    fo_lock_range : bool; fo_aggregation : option snorm; fo_defuzzifier : option fll_defuzzifier;
    fo_default : num; fo_lock_previous : bool; fo_terms : list fll_term }.
  Record fll_rule : Type := {
    fr_enabled : bool; fr_antecedent : list string; fr_consequent : list string; fr_weight : num }.
  Record fll_block : Type := {
    fb_name : string; fb_description : string; fb_enabled : bool;
    fb_conjunction : option tnorm; fb_disjunction : option snorm; fb_implication : option tnorm;
    fb_activation : option (activation num); fb_rules : list fll_rule }.
  Record fll_engine : Type := {
    fe_name : string; fe_description : string;
    fe_inputs : list fll_input; fe_outputs : list fll_output; fe_blocks : list fll_block }.

  (* ---------------------------------------------------------------------------------------------- export *)
  Section Export.
    Variable d : nat.   (* settings.decimals *)

    (* Term._parameters: the height is printed unless Op.is_close(height, 1.0) *)
    Definition height_part (h : num) : list string := if close1 h then [] else [fmt d h].
    Fixpoint flatten_xy (xy : list (num * num)) : list num :=
      match xy with [] => [] | (x, y) :: r => x :: y :: flatten_xy r end.

    (* term.parameters() *)
    Definition term_params (t : fll_term) : string :=
      match t with
      | FShape _ _ ps h => join " " (map (fmt d) ps ++ height_part h)
      | FDiscrete _ xy h => join " " (join " " (map (fmt d) (flatten_xy xy)) :: height_part h)   (* Op.str(list) is one argument *)
      | FLinear _ cs h => join " " (map (fmt d) cs ++ height_part h)                        (* Term._parameters applied to the coefficients *)
      | FFunction _ f _ => f
      end.
    (* FllExporter.term *)
    Definition term_line (t : fll_term) : string :=
      join " " ("term:" :: filter nonempty [as_identifier (ft_name t); ft_class t; term_params t]).

    Definition tnorm_text (n : option tnorm) : string := match n with None => "none" | Some n => tnorm_name n end.
    Definition snorm_text (n : option snorm) : string := match n with None => "none" | Some n => snorm_name n end.

    Definition defuzzifier_class (f : fll_defuzzifier) : string :=
      match f with
      | FDIntegral k _ => integral_name k
      | FDWeighted true _ => "WeightedAverage"
      | FDWeighted false _ => "WeightedSum"
      end.
    Definition defuzzifier_params (f : fll_defuzzifier) : string :=
      match f with
      | FDIntegral _ r => if Z.eqb r default_resolution then "" else string_of_Z r
      | FDWeighted _ WAutomatic => ""
      | FDWeighted _ t => wtype_name t
      end.
    Definition defuzzifier_text (f : option fll_defuzzifier) : string :=
      match f with None => "none" | Some f => join_nonempty [defuzzifier_class f; defuzzifier_params f] end.

    Definition activation_class (a : activation num) : string :=
      match a with
      | AGeneral => "General" | AFirst _ _ => "First" | ALast _ _ => "Last" | AHighest _ => "Highest"
      | ALowest _ => "Lowest" | AProportional => "Proportional" | AThreshold _ _ => "Threshold"
      end.
    Definition activation_params (a : activation num) : string :=
      match a with
      | AGeneral | AProportional => ""
      | AFirst n t | ALast n t => string_of_Z n +++ " " +++ fmt d t
      | AHighest n | ALowest n => string_of_Z n
      | AThreshold c t => comparator_name c +++ " " +++ fmt d t
      end.
    Definition activation_text (a : option (activation num)) : string :=
      match a with None => "none" | Some a => join_nonempty [activation_class a; activation_params a] end.

    (* Rule.text *)
    Definition rule_text (r : fll_rule) : string :=
      join " " (["if"; join " " (fr_antecedent r); "then"; join " " (fr_consequent r)]
                ++ (if close1 (fr_weight r) then [] else ["with"; fmt d (fr_weight r)])).
    Definition rule_line (r : fll_rule) : string := kv "rule" (rule_text r).

    Definition description_lines (desc : string) : list string :=
      if String.eqb desc "" then [] else [indent +++ kv "description" desc].
    (* FllExporter.variable(…, terms=False) *)
    Definition variable_head (cls name desc : string) (enabled : bool) (lo hi : num) (lock : bool) : list string :=
      [kv cls name] ++ description_lines desc
      ++ [indent +++ kv "enabled" (fmt_bool enabled);
          indent +++ kv "range" (join_nonempty [fmt d lo; fmt d hi]);
          indent +++ kv "lock-range" (fmt_bool lock)].
    Definition term_lines (ts : list fll_term) : list string := map (fun t => indent +++ term_line t) ts.

    Definition export_input (v : fll_input) : list string :=
      variable_head "InputVariable" (fi_name v) (fi_description v) (fi_enabled v) (fi_min v) (fi_max v) (fi_lock_range v)
      ++ term_lines (fi_terms v).
    Definition export_output (v : fll_output) : list string :=
      variable_head "OutputVariable" (fo_name v) (fo_description v) (fo_enabled v) (fo_min v) (fo_max v) (fo_lock_range v)
      ++ [indent +++ kv "aggregation" (snorm_text (fo_aggregation v));
          indent +++ kv "defuzzifier" (defuzzifier_text (fo_defuzzifier v));
          indent +++ kv "default" (fmt d (fo_default v));
          indent +++ kv "lock-previous" (fmt_bool (fo_lock_previous v))]
      ++ term_lines (fo_terms v).
    Definition export_block (b : fll_block) : list string :=
      [kv "RuleBlock" (fb_name b)] ++ description_lines (fb_description b)
      ++ [indent +++ kv "enabled" (fmt_bool (fb_enabled b));
          indent +++ kv "conjunction" (tnorm_text (fb_conjunction b));
          indent +++ kv "disjunction" (snorm_text (fb_disjunction b));
          indent +++ kv "implication" (tnorm_text (fb_implication b));
          indent +++ kv "activation" (activation_text (fb_activation b))]
      ++ map (fun r => indent +++ rule_line r) (fb_rules b).

    (* FllExporter.engine: the lines of the exported text (the text is "\n".join of them; the last line is empty) *)
    Definition export (e : fll_engine) : list string :=
      [kv "Engine" (fe_name e)] ++ description_lines (fe_description e)
      ++ flat_map export_input (fe_inputs e)
      ++ flat_map export_output (fe_outputs e)
      ++ flat_map export_block (fe_blocks e)
      ++ [""].
  End Export.

  (* ---------------------------------------------------------------------------------------------- import *)
  (* extract_key_value on an already comment-stripped line: (parts[0], parts[0].strip(), parts[1].strip()) *)
  Definition key_value (l : string) : result (string * string * string) :=
    match split_colon (clean_line l) with
    | None => Err ESyntax
    | Some (k, v) => Ok (k, strip k, strip v)
    end.

  Fixpoint parse_all (toks : list string) : result (list num) :=
    match toks with
    | [] => Ok []
    | t :: r => match parse t with
                | None => Err EValue
                | Some x => do xs <- parse_all r; Ok (x :: xs)
                end
    end.
  Definition parse_num (s : string) : result num :=
    match parse s with None => Err EValue | Some x => Ok x end.
  Definition parse_int (s : string) : result Z :=
    match Z_of_string s with None => Err EValue | Some z => Ok z end.

  (* FllImporter.boolean *)
  Definition import_bool (v : string) : result bool :=
    if String.eqb (strip v) "true" then Ok true else if String.eqb (strip v) "false" then Ok false else Err ESyntax.
  (* FllImporter.range *)
  Definition import_range (v : string) : result (num * num) :=
    match split_ws v with
    | [a; b] => do x <- parse_num a; do y <- parse_num b; Ok (x, y)
    | _ => Err ESyntax
    end.
  (* FllImporter.tnorm / snorm: factory.construct raises ValueError for an unregistered name *)
  Definition import_tnorm (v : string) : result (option tnorm) :=
    if String.eqb v "" || String.eqb v "none" then Ok None
    else match find_named tnorm_name all_tnorms v with Some n => Ok (Some n) | None => Err EValue end.
  Definition import_snorm (v : string) : result (option snorm) :=
    if String.eqb v "" || String.eqb v "none" then Ok None
    else match find_named snorm_name all_snorms v with Some n => Ok (Some n) | None => Err EValue end.

  (* FllImporter.defuzzifier: construct by name, then configure(parameters) when there are any *)
  Definition construct_defuzzifier (name : string) : result fll_defuzzifier :=
    match find_named integral_name all_integral name with
    | Some k => Ok (FDIntegral k default_resolution)
    | None => if String.eqb name "WeightedAverage" then Ok (FDWeighted true WAutomatic)
              else if String.eqb name "WeightedSum" then Ok (FDWeighted false WAutomatic)
              else Err EValue
    end.
  Definition configure_defuzzifier (f : fll_defuzzifier) (p : string) : result fll_defuzzifier :=
    match f with
    | FDIntegral k _ => do r <- parse_int p; Ok (FDIntegral k r)                         (* int(parameters) *)
    | FDWeighted a _ => match find_named wtype_name all_wtype p with                      (* Type[parameters]: KeyError *)
                        | Some t => Ok (FDWeighted a t) | None => Err ELookup end
    end.
  Definition import_defuzzifier (v : string) : result (option fll_defuzzifier) :=
    if String.eqb v "" || String.eqb v "none" then Ok None
    else match split_max 1 v with
         | [name] => do f <- construct_defuzzifier name; Ok (Some f)
         | [name; p] => do f <- construct_defuzzifier name; do f' <- configure_defuzzifier f p; Ok (Some f')
         | _ => Err EInternal     (* unreachable: v is not blank *)
         end.

  (* FllImporter.activation: construct by name (constructor defaults), then configure(parameters) when there are any *)
  Definition construct_activation (name : string) : result (activation num) :=
    if String.eqb name "General" then Ok AGeneral
    else if String.eqb name "First" then Ok (AFirst 1%Z n_zero)
    else if String.eqb name "Last" then Ok (ALast 1%Z n_zero)
    else if String.eqb name "Highest" then Ok (AHighest 1%Z)
    else if String.eqb name "Lowest" then Ok (ALowest 1%Z)
    else if String.eqb name "Proportional" then Ok AProportional
    else if String.eqb name "Threshold" then Ok (AThreshold CmpGt n_zero)
    else Err EValue.
  (* `a, b = parameters.split()` raises ValueError unless there are exactly two tokens *)
  Definition two_tokens (p : string) : result (string * string) :=
    match split_ws p with [a; b] => Ok (a, b) | _ => Err EValue end.
  Definition configure_activation (a : activation num) (p : string) : result (activation num) :=
    match a with
    | AGeneral => Ok AGeneral                    (* Activation.configure: pass *)
    | AProportional => Ok AProportional
    | AFirst _ _ => do ab <- two_tokens p; do n <- parse_int (fst ab); do t <- parse_num (snd ab); Ok (AFirst n t)
    | ALast _ _ => do ab <- two_tokens p; do n <- parse_int (fst ab); do t <- parse_num (snd ab); Ok (ALast n t)
    | AHighest _ => do n <- parse_int p; Ok (AHighest n)
    | ALowest _ => do n <- parse_int p; Ok (ALowest n)
    | AThreshold _ _ =>
        do ab <- two_tokens p;
        match find_named comparator_name all_comparators (fst ab) with
        | None => Err EValue                     (* Threshold.Comparator(text): ValueError *)
        | Some c => do t <- parse_num (snd ab); Ok (AThreshold c t)
        end
    end.
  Definition import_activation (v : string) : result (option (activation num)) :=
    if String.eqb v "" || String.eqb v "none" then Ok None
    else match split_max 1 v with
         | [name] => do a <- construct_activation name; Ok (Some a)
         | [name; p] => do a <- construct_activation name; do a' <- configure_activation a p; Ok (Some a')
         | _ => Err EInternal     (* unreachable: v is not blank *)
         end.

  (* ---- terms *)
  (* Term._parse(required, parameters, height=hh) -> (parameters, height) *)
  Definition parse_shape_params (arity : nat) (hh : bool) (p : string) : result (list num * num) :=
    do vals <- parse_all (split_ws p);
    let vals' := if hh && Nat.eqb (List.length vals) arity then vals ++ [n_one] else vals in
    if Nat.eqb (List.length vals') (arity + (if hh then 1 else 0)) then
      Ok (firstn arity vals', if hh then nth arity vals' n_one else n_one)
    else Err EValue.
  Fixpoint pairs_of (l : list num) : list (num * num) :=
    match l with x :: y :: r => (x, y) :: pairs_of r | _ => [] end.
  (* Discrete.configure: an odd number of values ends with the height *)
  Definition configure_discrete (name p : string) : result fll_term :=
    let toks := split_ws p in
    if Nat.even (List.length toks) then
      do vals <- parse_all toks; Ok (FDiscrete name (pairs_of vals) n_one)
    else
      do h <- parse_num (last toks ""); do vals <- parse_all (removelast toks); Ok (FDiscrete name (pairs_of vals) h).
  (* factory.construct(class, name=…); configure(parameters) when present; update_reference(engine) *)
  Definition construct_term (cls name : string) (params : option string) : result fll_term :=
    if String.eqb cls "Discrete" then
      match params with None => Ok (FDiscrete name [] n_one) | Some p => configure_discrete name p end
    else if String.eqb cls "Linear" then
      match params with
      | None => Ok (FLinear name [] n_one)
      | Some p => do cs <- parse_all (split_ws p); Ok (FLinear name cs n_one)
      end
    else if String.eqb cls "Function" then
      match params with
      | None => Err ESyntax                      (* update_reference loads the empty formula: SyntaxError *)
      | Some p => Ok (FFunction name p n_one)    (* Function.load(p) itself is not modelled *)
      end
    else match lookup_term cls with
         | None => Err EValue                    (* constructor not found *)
         | Some r =>
             match params with
             | None => Ok (FShape name cls (repeat n_nan (row_arity r)) n_one)
             | Some p => do ph <- parse_shape_params (row_arity r) (row_height r) p; Ok (FShape name cls (fst ph) (snd ph))
             end
         end.
  (* FllImporter.term(line): extract_value(line, "term") compares the unstripped key *)
  Definition import_term (kraw value : string) : result fll_term :=
    if negb (String.eqb kraw "term") then Err ESyntax else
    match split_max 2 value with
    | [n; c] => construct_term c (as_identifier n) None
    | [n; c; p] => construct_term c (as_identifier n) (Some p)
    | _ => Err ESyntax
    end.

  (* ---- rules: Rule.parse, a finite state machine over text.split() *)
  Inductive rstate : Set := SBegin | SIf | SThen | SWith | SEnd.
  Fixpoint rule_fsm (toks : list string) (st : rstate) (ante csq : list string) (w : num)
    : result (rstate * list string * list string * num) :=
    match toks with
    | [] => Ok (st, ante, csq, w)
    | t :: r =>
        match st with
        | SBegin => if String.eqb t "if" then rule_fsm r SIf ante csq w else Err ESyntax
        | SIf => if String.eqb t "then" then rule_fsm r SThen ante csq w else rule_fsm r SIf (ante ++ [t]) csq w
        | SThen => if String.eqb t "with" then rule_fsm r SWith ante csq w else rule_fsm r SThen ante (csq ++ [t]) w
        | SWith => match parse t with None => Err EValue | Some x => rule_fsm r SEnd ante csq x end
        | SEnd => Err ESyntax
        end
    end.
  Definition parse_rule (text : string) : result fll_rule :=
    do r <- rule_fsm (split_ws (cut_comment text)) SBegin [] [] n_one;
    let '(st, ante, csq, w) := r in
    match st with
    | SBegin | SIf | SWith => Err ESyntax
    | _ => match ante, csq with
           | [], _ | _, [] => Err ESyntax
           | _, _ => Ok {| fr_enabled := true; fr_antecedent := ante; fr_consequent := csq; fr_weight := w |}
           end
    end.
  (* FllImporter.rule(line): extract_value(line, "rule"); Rule.create; (Rule.load against the engine is not modelled) *)
  Definition import_rule (kraw value : string) : result fll_rule :=
    if negb (String.eqb kraw "rule") then Err ESyntax else parse_rule value.

  (* ---- blocks: `for line in block: strip comments; skip blank; key, value = extract_key_value(line); dispatch` *)
  Fixpoint fold_block {S : Type} (f : string -> string -> string -> S -> result S) (lines : list string) (s : S) : result S :=
    match lines with
    | [] => Ok s
    | line :: rest =>
        let l := clean_line line in
        if String.eqb l "" then fold_block f rest s else
        do k <- key_value l;
        let '(kraw, key, value) := k in
        do s' <- f kraw key value s; fold_block f rest s'
    end.

  Definition input_default : fll_input :=
    {| fi_name := ""; fi_description := ""; fi_enabled := true; fi_min := n_ninf; fi_max := n_pinf;
       fi_lock_range := false; fi_terms := [] |}.
  Definition input_line (kraw key value : string) (v : fll_input) : result fll_input :=
    let '(Build_fll_input nm de en lo hi lk ts) := v in
    if String.eqb key "InputVariable" then Ok (Build_fll_input value de en lo hi lk ts)
    else if String.eqb key "description" then Ok (Build_fll_input nm value en lo hi lk ts)
    else if String.eqb key "enabled" then do b <- import_bool value; Ok (Build_fll_input nm de b lo hi lk ts)
    else if String.eqb key "range" then do r <- import_range value; Ok (Build_fll_input nm de en (fst r) (snd r) lk ts)
    else if String.eqb key "lock-range" then do b <- import_bool value; Ok (Build_fll_input nm de en lo hi b ts)
    else if String.eqb key "term" then do t <- import_term kraw value; Ok (Build_fll_input nm de en lo hi lk (ts ++ [t]))
    else Err ESyntax.
  (* FllImporter.input_variable: the name is made an identifier at the end *)
  Definition import_input (block : list string) : result fll_input :=
    do v <- fold_block input_line block input_default;
    let '(Build_fll_input nm de en lo hi lk ts) := v in
    Ok (Build_fll_input (as_identifier nm) de en lo hi lk ts).

  Definition output_default : fll_output :=
    {| fo_name := ""; fo_description := ""; fo_enabled := true; fo_min := n_ninf; fo_max := n_pinf;
       fo_lock_range := false; fo_aggregation := None; fo_defuzzifier := None; fo_default := n_nan;
       fo_lock_previous := false; fo_terms := [] |}.
  Definition output_line (kraw key value : string) (v : fll_output) : result fll_output :=
    let '(Build_fll_output nm de en lo hi lk ag df dv lp ts) := v in
    if String.eqb key "OutputVariable" then Ok (Build_fll_output value de en lo hi lk ag df dv lp ts)
    else if String.eqb key "description" then Ok (Build_fll_output nm value en lo hi lk ag df dv lp ts)
    else if String.eqb key "enabled" then do b <- import_bool value; Ok (Build_fll_output nm de b lo hi lk ag df dv lp ts)
    else if String.eqb key "range" then do r <- import_range value; Ok (Build_fll_output nm de en (fst r) (snd r) lk ag df dv lp ts)
    else if String.eqb key "default" then do x <- parse_num value; Ok (Build_fll_output nm de en lo hi lk ag df x lp ts)
    else if String.eqb key "lock-previous" then do b <- import_bool value; Ok (Build_fll_output nm de en lo hi lk ag df dv b ts)
    else if String.eqb key "lock-range" then do b <- import_bool value; Ok (Build_fll_output nm de en lo hi b ag df dv lp ts)
    else if String.eqb key "defuzzifier" then do f <- import_defuzzifier value; Ok (Build_fll_output nm de en lo hi lk ag f dv lp ts)
    else if String.eqb key "aggregation" then do a <- import_snorm value; Ok (Build_fll_output nm de en lo hi lk a df dv lp ts)
    else if String.eqb key "term" then do t <- import_term kraw value; Ok (Build_fll_output nm de en lo hi lk ag df dv lp (ts ++ [t]))
    else Err ESyntax.
  Definition import_output (block : list string) : result fll_output :=
    do v <- fold_block output_line block output_default;
    let '(Build_fll_output nm de en lo hi lk ag df dv lp ts) := v in
    Ok (Build_fll_output (as_identifier nm) de en lo hi lk ag df dv lp ts).

  Definition block_default : fll_block :=
    {| fb_name := ""; fb_description := ""; fb_enabled := true; fb_conjunction := None; fb_disjunction := None;
       fb_implication := None; fb_activation := None; fb_rules := [] |}.
  Definition block_line (kraw key value : string) (b : fll_block) : result fll_block :=
    let '(Build_fll_block nm de en cj dj im ac rs) := b in
    if String.eqb key "RuleBlock" then Ok (Build_fll_block value de en cj dj im ac rs)
    else if String.eqb key "description" then Ok (Build_fll_block nm value en cj dj im ac rs)
    else if String.eqb key "enabled" then do x <- import_bool value; Ok (Build_fll_block nm de x cj dj im ac rs)
    else if String.eqb key "conjunction" then do x <- import_tnorm value; Ok (Build_fll_block nm de en x dj im ac rs)
    else if String.eqb key "disjunction" then do x <- import_snorm value; Ok (Build_fll_block nm de en cj x im ac rs)
    else if String.eqb key "implication" then do x <- import_tnorm value; Ok (Build_fll_block nm de en cj dj x ac rs)
    else if String.eqb key "activation" then do x <- import_activation value; Ok (Build_fll_block nm de en cj dj im x rs)
    else if String.eqb key "rule" then do r <- import_rule kraw value; Ok (Build_fll_block nm de en cj dj im ac (rs ++ [r]))
    else Err ESyntax.
  (* FllImporter.rule_block: the name is kept as written *)
  Definition import_block (block : list string) : result fll_block := fold_block block_line block block_default.

  (* FllImporter._process, component "Engine" *)
  Definition engine_line (kraw key value : string) (e : fll_engine) : result fll_engine :=
    let '(Build_fll_engine nm de ins outs bs) := e in
    if String.eqb key "Engine" then Ok (Build_fll_engine value de ins outs bs)
    else if String.eqb key "description" then Ok (Build_fll_engine nm value ins outs bs)
    else Err ESyntax.
  Definition process (component : string) (block : list string) (e : fll_engine) : result fll_engine :=
    let '(Build_fll_engine nm de ins outs bs) := e in
    if String.eqb component "Engine" then fold_block engine_line block e
    else if String.eqb component "InputVariable" then do v <- import_input block; Ok (Build_fll_engine nm de (ins ++ [v]) outs bs)
    else if String.eqb component "OutputVariable" then do v <- import_output block; Ok (Build_fll_engine nm de ins (outs ++ [v]) bs)
    else if String.eqb component "RuleBlock" then do b <- import_block block; Ok (Build_fll_engine nm de ins outs (bs ++ [b]))
    else Ok e.

  Definition is_header (key : string) : bool :=
    String.eqb key "Engine" || String.eqb key "InputVariable" || String.eqb key "OutputVariable" || String.eqb key "RuleBlock".
  (* FllImporter.engine: group the lines into blocks that start at a header key; lines before the first header are
     only checked for `key: value` syntax and dropped (`component` is "" then) *)
  Fixpoint engine_loop (lines : list string) (component : string) (block : list string) (e : fll_engine) : result fll_engine :=
    match lines with
    | [] => if String.eqb component "" then Ok e else process component block e    (* `block` is not empty when component is set *)
    | line :: rest =>
        let l := clean_line line in
        if String.eqb l "" then engine_loop rest component block e else
        do k <- key_value l;
        let '(_, key, _) := k in
        if is_header key then
          do e' <- (if String.eqb component "" then Ok e else process component block e);
          engine_loop rest key [l] e'
        else engine_loop rest component (block ++ [l]) e
    end.
  Definition engine_default : fll_engine :=
    {| fe_name := ""; fe_description := ""; fe_inputs := []; fe_outputs := []; fe_blocks := [] |}.
  Definition import_ (lines : list string) : result fll_engine := engine_loop lines "" [] engine_default.

  (* ---------------------------------------------------------------------------------------------- normal form *)
  Section Normal.
    Variable d : nat.
    (* a height or weight after one export/import: omitted when close to 1 (read back as the default 1.0), else rounded *)
    Definition norm_h (h : num) : num := if close1 h then n_one else round d h.
    Definition normalize_term (t : fll_term) : fll_term :=
      match t with
      | FShape n c ps h =>
          FShape n c (map (round d) ps)
                 (match lookup_term c with Some r => if row_height r then norm_h h else n_one | None => norm_h h end)
      | FDiscrete n xy h => FDiscrete n (map (fun p => (round d (fst p), round d (snd p))) xy) (norm_h h)
        (* a Linear height that is not close to 1 is printed after the coefficients and read back as one more coefficient *)
      | FLinear n cs h => FLinear n (map (round d) cs ++ (if close1 h then [] else [round d h])) n_one
      | FFunction n f h => FFunction n f n_one       (* the height of a Function is never printed *)
      end.
    Definition normalize_activation (a : activation num) : activation num :=
      match a with
      | AFirst n t => AFirst n (round d t) | ALast n t => ALast n (round d t)
      | AThreshold c t => AThreshold c (round d t)
      | a => a
      end.
    Definition normalize_input (v : fll_input) : fll_input :=
      let '(Build_fll_input nm de en lo hi lk ts) := v in
      Build_fll_input nm de en (round d lo) (round d hi) lk (map normalize_term ts).
    Definition normalize_output (v : fll_output) : fll_output :=
      let '(Build_fll_output nm de en lo hi lk ag df dv lp ts) := v in
      Build_fll_output nm de en (round d lo) (round d hi) lk ag df (round d dv) lp (map normalize_term ts).
    (* the rule's `enabled` flag has no FLL syntax: every imported rule is enabled (finding F5) *)
    Definition normalize_rule (r : fll_rule) : fll_rule :=
      {| fr_enabled := true; fr_antecedent := fr_antecedent r; fr_consequent := fr_consequent r; fr_weight := norm_h (fr_weight r) |}.
    Definition normalize_block (b : fll_block) : fll_block :=
      let '(Build_fll_block nm de en cj dj im ac rs) := b in
      Build_fll_block nm de en cj dj im (option_map normalize_activation ac) (map normalize_rule rs).
    Definition normalize (e : fll_engine) : fll_engine :=
      let '(Build_fll_engine nm de ins outs bs) := e in
      Build_fll_engine nm de (map normalize_input ins) (map normalize_output outs) (map normalize_block bs).
  End Normal.

  (* ---------------------------------------------------------------------------------------------- well-formedness *)
  (* a value that survives `strip_comments`, `strip` and splitting at newlines: no "#", no newline, no outer whitespace *)
  Definition value_ok (v : string) : bool :=
    str_forall (fun c => negb (is_hash c) && negb (is_nl c)) v && String.eqb (lstrip v) v && String.eqb (rstrip v) v.
  (* an identifier name (Op.as_identifier leaves it unchanged) *)
  Definition ident_ok (n : string) : bool := String.eqb (as_identifier n) n.
  (* a rule token: not empty, no whitespace, no "#" *)
  Definition token_ok (t : string) : bool := nonempty t && str_forall (fun c => negb (is_ws c) && negb (is_hash c)) t.

  Definition wf_term (t : fll_term) : bool :=
    ident_ok (ft_name t) &&
    match t with
    | FShape _ c ps h =>
        negb (is_special_class c) &&
        match lookup_term c with
        | None => false
        | Some r => Nat.eqb (List.length ps) (row_arity r) && (row_height r || close1 h)   (* Constant: a printed height is not accepted back *)
        end
    | FDiscrete _ _ _ => true
    | FLinear _ _ _ => true
    | FFunction _ f _ => value_ok f && nonempty f
    end.
  Definition wf_input (v : fll_input) : bool :=
    ident_ok (fi_name v) && value_ok (fi_description v) && forallb wf_term (fi_terms v).
  Definition wf_output (v : fll_output) : bool :=
    ident_ok (fo_name v) && value_ok (fo_description v) && forallb wf_term (fo_terms v).
  Definition wf_rule (r : fll_rule) : bool :=
    nonempty_list (fr_antecedent r) && nonempty_list (fr_consequent r)
    && forallb (fun t => token_ok t && negb (String.eqb t "then")) (fr_antecedent r)
    && forallb (fun t => token_ok t && negb (String.eqb t "with")) (fr_consequent r).
  Definition wf_block (b : fll_block) : bool :=
    value_ok (fb_name b) && value_ok (fb_description b) && forallb wf_rule (fb_rules b).
  Definition wf (e : fll_engine) : bool :=
    value_ok (fe_name e) && value_ok (fe_description e)
    && forallb wf_input (fe_inputs e) && forallb wf_output (fe_outputs e) && forallb wf_block (fe_blocks e).

  (* ---------------------------------------------------------------------------------------------- representable *)
  Section Representable.
    Variable d : nat.
    Definition rep_num (x : num) : Prop := round d x = x.
    (* a height or weight: exactly the default 1.0, or not within the tolerance of 1 and representable *)
    Definition rep_h (h : num) : Prop := h = n_one \/ (close1 h = false /\ round d h = h).
    Definition rep_term (t : fll_term) : Prop :=
      match t with
      | FShape _ c ps h =>
          Forall rep_num ps /\
          match lookup_term c with Some r => if row_height r then rep_h h else h = n_one | None => rep_h h end
      | FDiscrete _ xy h => Forall (fun p => rep_num (fst p) /\ rep_num (snd p)) xy /\ rep_h h
      | FLinear _ cs h => Forall rep_num cs /\ h = n_one
      | FFunction _ _ h => h = n_one
      end.
    Definition rep_activation (a : activation num) : Prop :=
      match a with AFirst _ t | ALast _ t | AThreshold _ t => rep_num t | _ => True end.
    Definition rep_input (v : fll_input) : Prop :=
      rep_num (fi_min v) /\ rep_num (fi_max v) /\ Forall rep_term (fi_terms v).
    Definition rep_output (v : fll_output) : Prop :=
      rep_num (fo_min v) /\ rep_num (fo_max v) /\ rep_num (fo_default v) /\ Forall rep_term (fo_terms v).
    Definition rep_rule (r : fll_rule) : Prop := fr_enabled r = true /\ rep_h (fr_weight r).
    Definition rep_block (b : fll_block) : Prop :=
      match fb_activation b with Some a => rep_activation a | None => True end /\ Forall rep_rule (fb_rules b).
    Definition representable (e : fll_engine) : Prop :=
      Forall rep_input (fe_inputs e) /\ Forall rep_output (fe_outputs e) /\ Forall rep_block (fe_blocks e).

    (* heights and weights that are printed stay printed after rounding: not close to 1 => the rounded value is not close to 1.
       (False for e.g. height 1.04 at one decimal: "1.0" is read back as 1.0, which the next export omits.) *)
    Definition stable_h (h : num) : Prop := close1 h = false -> close1 (round d h) = false.
    Definition stable_term (t : fll_term) : Prop :=
      match t with
      | FShape _ c _ h => match lookup_term c with Some r => if row_height r then stable_h h else True | None => stable_h h end
      | FDiscrete _ _ h => stable_h h
      | FLinear _ _ _ | FFunction _ _ _ => True
      end.
    Definition stable (e : fll_engine) : Prop :=
      Forall (fun v => Forall stable_term (fi_terms v)) (fe_inputs e)
      /\ Forall (fun v => Forall stable_term (fo_terms v)) (fe_outputs e)
      /\ Forall (fun b => Forall (fun r => stable_h (fr_weight r)) (fb_rules b)) (fe_blocks e).
  End Representable.
End Fll.

(* ------------------------------------------------------------------------------------------------ decidable equality *)
Section FllEq.
  Variable num : Type.
  Variable num_eqb : num -> num -> bool.
  Definition pair_eqb (a b : num * num) : bool := num_eqb (fst a) (fst b) && num_eqb (snd a) (snd b).
  Definition term_eqb (a b : fll_term num) : bool :=
    match a, b with
    | FShape n c ps h, FShape n' c' ps' h' => String.eqb n n' && String.eqb c c' && list_eqb num_eqb ps ps' && num_eqb h h'
    | FDiscrete n xy h, FDiscrete n' xy' h' => String.eqb n n' && list_eqb pair_eqb xy xy' && num_eqb h h'
    | FLinear n cs h, FLinear n' cs' h' => String.eqb n n' && list_eqb num_eqb cs cs' && num_eqb h h'
    | FFunction n f h, FFunction n' f' h' => String.eqb n n' && String.eqb f f' && num_eqb h h'
    | _, _ => false
    end.
  Definition tnorm_eqb (a b : tnorm) : bool := String.eqb (tnorm_name a) (tnorm_name b).
  Definition snorm_eqb (a b : snorm) : bool := String.eqb (snorm_name a) (snorm_name b).
  Definition defuzzifier_eqb (a b : fll_defuzzifier) : bool :=
    match a, b with
    | FDIntegral k r, FDIntegral k' r' => String.eqb (integral_name k) (integral_name k') && Z.eqb r r'
    | FDWeighted v t, FDWeighted v' t' => Bool.eqb v v' && String.eqb (wtype_name t) (wtype_name t')
    | _, _ => false
    end.
  Definition activation_eqb (a b : activation num) : bool :=
    match a, b with
    | AGeneral, AGeneral | AProportional, AProportional => true
    | AFirst n t, AFirst n' t' | ALast n t, ALast n' t' => Z.eqb n n' && num_eqb t t'
    | AHighest n, AHighest n' | ALowest n, ALowest n' => Z.eqb n n'
    | AThreshold c t, AThreshold c' t' => String.eqb (comparator_name c) (comparator_name c') && num_eqb t t'
    | _, _ => false
    end.
  Definition input_eqb (a b : fll_input num) : bool :=
    String.eqb (fi_name a) (fi_name b) && String.eqb (fi_description a) (fi_description b)
    && Bool.eqb (fi_enabled a) (fi_enabled b) && num_eqb (fi_min a) (fi_min b) && num_eqb (fi_max a) (fi_max b)
    && Bool.eqb (fi_lock_range a) (fi_lock_range b) && list_eqb term_eqb (fi_terms a) (fi_terms b).
  Definition output_eqb (a b : fll_output num) : bool :=
    String.eqb (fo_name a) (fo_name b) && String.eqb (fo_description a) (fo_description b)
    && Bool.eqb (fo_enabled a) (fo_enabled b) && num_eqb (fo_min a) (fo_min b) && num_eqb (fo_max a) (fo_max b)
    && Bool.eqb (fo_lock_range a) (fo_lock_range b)
    && option_eqb snorm_eqb (fo_aggregation a) (fo_aggregation b)
    && option_eqb defuzzifier_eqb (fo_defuzzifier a) (fo_defuzzifier b)
    && num_eqb (fo_default a) (fo_default b) && Bool.eqb (fo_lock_previous a) (fo_lock_previous b)
    && list_eqb term_eqb (fo_terms a) (fo_terms b).
  Definition rule_eqb (a b : fll_rule num) : bool :=
    Bool.eqb (fr_enabled a) (fr_enabled b) && list_eqb String.eqb (fr_antecedent a) (fr_antecedent b)
    && list_eqb String.eqb (fr_consequent a) (fr_consequent b) && num_eqb (fr_weight a) (fr_weight b).
  Definition block_eqb (a b : fll_block num) : bool :=
    String.eqb (fb_name a) (fb_name b) && String.eqb (fb_description a) (fb_description b)
    && Bool.eqb (fb_enabled a) (fb_enabled b)
    && option_eqb tnorm_eqb (fb_conjunction a) (fb_conjunction b)
    && option_eqb snorm_eqb (fb_disjunction a) (fb_disjunction b)
    && option_eqb tnorm_eqb (fb_implication a) (fb_implication b)
    && option_eqb activation_eqb (fb_activation a) (fb_activation b)
    && list_eqb rule_eqb (fb_rules a) (fb_rules b).
  Definition engine_eqb (a b : fll_engine num) : bool :=
    String.eqb (fe_name a) (fe_name b) && String.eqb (fe_description a) (fe_description b)
    && list_eqb input_eqb (fe_inputs a) (fe_inputs b) && list_eqb output_eqb (fe_outputs a) (fe_outputs b)
    && list_eqb block_eqb (fe_blocks a) (fe_blocks b).
  Definition result_engine_eqb (a b : result (fll_engine num)) : bool :=
    match a, b with
    | Ok x, Ok y => engine_eqb x y
    | Err x, Err y => err_eqb x y
    | _, _ => false
    end.
End FllEq.

(* ------------------------------------------------------------------------------------------------ a concrete instance *)
(* Numbers as the tokens the implementation prints ("0.500", "-inf", "nan"), over an alphabet that cannot contain
   whitespace, "#" or ":", paired with the implementation's answer to Op.is_close(value, 1.0).  `fmt` is the identity on
   tokens; the closeness of a token that is read back is looked up in a table recorded from the implementation. *)
Inductive nchar : Set :=
  | N0 | N1 | N2 | N3 | N4 | N5 | N6 | N7 | N8 | N9 | NDot | NMinus | Nn | Na | Ni | Nf.
Definition char_of_nchar (c : nchar) : ascii :=
  match c with
  | N0 => "0" | N1 => "1" | N2 => "2" | N3 => "3" | N4 => "4" | N5 => "5" | N6 => "6" | N7 => "7" | N8 => "8" | N9 => "9"
  | NDot => "." | NMinus => "-" | Nn => "n" | Na => "a" | Ni => "i" | Nf => "f"
  end%char.
Definition nchar_of_char (a : ascii) : option nchar :=
  match a with
  | "0" => Some N0 | "1" => Some N1 | "2" => Some N2 | "3" => Some N3 | "4" => Some N4 | "5" => Some N5 | "6" => Some N6
  | "7" => Some N7 | "8" => Some N8 | "9" => Some N9 | "." => Some NDot | "-" => Some NMinus
  | "n" => Some Nn | "a" => Some Na | "i" => Some Ni | "f" => Some Nf
  | _ => None
  end%char.
Definition tok : Set := (nchar * list nchar)%type.
Fixpoint string_of_nchars (l : list nchar) : string :=
  match l with [] => EmptyString | c :: r => String (char_of_nchar c) (string_of_nchars r) end.
Definition string_of_tok (t : tok) : string := String (char_of_nchar (fst t)) (string_of_nchars (snd t)).
Fixpoint nchars_of_string (s : string) : option (list nchar) :=
  match s with
  | EmptyString => Some []
  | String a s' => match nchar_of_char a, nchars_of_string s' with Some c, Some r => Some (c :: r) | _, _ => None end
  end.
Definition tok_of_string (s : string) : option tok :=
  match nchars_of_string s with Some (c :: r) => Some (c, r) | _ => None end.
Definition nchar_eqb (a b : nchar) : bool := Ascii.eqb (char_of_nchar a) (char_of_nchar b).

Section TokNum.
  Variable close_tbl : list string.     (* the tokens t of the text with Op.is_close(float(t), 1.0) *)
  Definition tnum : Set := (tok * bool)%type.
  Definition tn_fmt (d : nat) (x : tnum) : string := string_of_tok (fst x).
  Definition tn_close_of (s : string) : bool := existsb (String.eqb s) close_tbl.
  Definition tn_parse (s : string) : option tnum :=
    match tok_of_string s with Some t => Some (t, tn_close_of s) | None => None end.
  Definition tn_round (d : nat) (x : tnum) : tnum := (fst x, tn_close_of (string_of_tok (fst x))).
  Definition tn_close1 (x : tnum) : bool := snd x.
  Definition tn_eqb (a b : tnum) : bool :=
    String.eqb (string_of_tok (fst a)) (string_of_tok (fst b)) && Bool.eqb (snd a) (snd b).
End TokNum.
(* a literal: the token text and the closeness bit; an ill-formed text gives the token "n" (never printed by Op.str) *)
Definition TN (s : string) (close : bool) : tnum :=
  match tok_of_string s with Some t => (t, close) | None => ((Nn, []), close) end.

(* the model at the token instance: `one`, `zero` are the texts of 1.0 and 0.0 at the case's number of decimals *)
Definition tn_export (d : nat) (e : fll_engine tnum) : list string := export tn_fmt tn_close1 d e.
Definition tn_import (tbl : list string) (one zero : string) (lines : list string) : result (fll_engine tnum) :=
  import_ (tn_parse tbl) (TN "nan" false) (TN "inf" false) (TN "-inf" false) (TN one true) (TN zero false) lines.
Definition tn_normalize (tbl : list string) (one : string) (d : nat) (e : fll_engine tnum) : fll_engine tnum :=
  normalize (tn_round tbl) tn_close1 (TN one true) d e.
Definition tn_result_eqb : result (fll_engine tnum) -> result (fll_engine tnum) -> bool := result_engine_eqb tn_eqb.
Definition lines_eqb : list string -> list string -> bool := list_eqb String.eqb.

(* ------------------------------------------------------------------------------------------------ a three-number instance *)
(* The smallest number system that satisfies the formatting assumptions and shows what they do NOT imply:
   NA stands for 1.04 and NB for 1.0 at one decimal (both print "1.0", which reads back as NB; NA is outside the
   tolerance of 1, NB inside), NC for 0.5. *)
Inductive n3 : Set := NA | NB | NC.
Definition n3_fmt (d : nat) (x : n3) : string := match x with NA | NB => "1.0" | NC => "0.5" end.
Definition n3_parse (s : string) : option n3 :=
  if String.eqb s "1.0" then Some NB else if String.eqb s "0.5" then Some NC else None.
Definition n3_round (d : nat) (x : n3) : n3 := match x with NA | NB => NB | NC => NC end.
Definition n3_close1 (x : n3) : bool := match x with NB => true | _ => false end.
Definition n3_export (e : fll_engine n3) : list string := export n3_fmt n3_close1 1 e.
Definition n3_import (lines : list string) : result (fll_engine n3) := import_ n3_parse NC NC NC NB NC lines.
(* an input variable with one Triangle term of height 1.04 *)
Definition n3_engine : fll_engine n3 :=
  {| fe_name := "e"; fe_description := "";
     fe_inputs := [ {| fi_name := "v"; fi_description := ""; fi_enabled := true; fi_min := NC; fi_max := NC;
                       fi_lock_range := false; fi_terms := [FShape "t" "Triangle" [NC; NC; NC] NA] |} ];
     fe_outputs := []; fe_blocks := [] |}.
(* an output variable with a Constant term whose (unused) height attribute is 0.5 *)
Definition n3_constant_engine : fll_engine n3 :=
  {| fe_name := "e"; fe_description := ""; fe_inputs := [];
     fe_outputs := [ {| fo_name := "o"; fo_description := ""; fo_enabled := true; fo_min := NC; fo_max := NC;
                        fo_lock_range := false; fo_aggregation := None; fo_defuzzifier := None; fo_default := NC;
                        fo_lock_previous := false; fo_terms := [FShape "k" "Constant" [NC] NC] |} ];
     fe_blocks := [] |}.
