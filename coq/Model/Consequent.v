(* Consequent.v — hand-written model of fuzzylite/rule.py: Consequent.load, Consequent.modify, Rule.trigger
   and (through Core.sanitize) the Activated.degree setter of fuzzylite/term.py.  Definitions only.

   Python objects refer to each other by reference; the model refers by position:
     conclusion = { c_var : index into the engine's output variables; c_hedges : textual order;
                    c_term : index into that variable's terms }.

   THE ONE-LINE SWITCH is `code_has_F1` below:  true  = the loop of Consequent.modify exactly as the
   pinned code has it (the loop variable `activation_degree` is reassigned by the hedge loop and is
   therefore carried over to the following conclusions: DESIGN finding F1);  false = the repaired loop
   (a local variable holds the hedged degree). *)
From Coq Require Import ZArith NArith Bool List String.
From VF Require Import Num GenNorm GenHedge GenTerm Core.
From VF Require GenSwitches.
Import ListNotations.
Set Implicit Arguments.
Local Open Scope list_scope.

(* ---- which loop the CURRENT code has (see the header).  Switch to `false` together with the fix of /repo. *)
(* read off the AST of Consequent.modify on every run (tools/translate.py, Gen/GenSwitches.v): true while the hedge loop
   assigns the loop-carried parameter (known finding F1) *)
Definition code_has_F1 : bool := GenSwitches.consequent_modify_carries_degree.

(* ---- generic helpers *)
(* {name(x): x for x in xs}.get(key): the LAST element with that name wins; returned with its position *)
Fixpoint dict_get {A : Type} (name : A -> string) (xs : list A) (key : string) : option (nat * A) :=
  match xs with
  | [] => None
  | x :: tl =>
      match dict_get name tl key with
      | Some (i, y) => Some (S i, y)
      | None => if String.eqb (name x) key then Some (0, x) else None
      end
  end.

Fixpoint update_nth {A : Type} (i : nat) (f : A -> A) (xs : list A) : list A :=
  match xs, i with
  | [], _ => []
  | x :: tl, O => f x :: tl
  | x :: tl, S j => x :: update_nth j f tl
  end.

Definition is_nil {A : Type} (xs : list A) : bool := match xs with [] => true | _ => false end.

(* `token in settings.factory_manager.hedge` / `.construct(token)`: the registered hedge classes, keyed by
   their `name` (translated enumeration GenHedge.hedge with hedge_name) *)
Definition hedge_lookup (token : string) : option hedge :=
  find (fun h => String.eqb (hedge_name h) token) all_hedges.

(* ---- the six states of Consequent.load, powers of two combined with `|` and tested with `&` *)
Definition s_variable : N := 1.
Definition s_is : N := 2.
Definition s_hedge : N := 4.
Definition s_term : N := 8.
Definition s_and : N := 16.
Definition s_with : N := 32.
Definition has (state flags : N) : bool := negb (N.eqb (N.land state flags) 0).   (* bool(state & flags) *)

Definition orelse {A : Type} (a : option A) (b : A) : A := match a with Some x => x | None => b end.

Section Consequent.
  Context {T : Type} {NT : Num T}.

  Definition with_fuzzy (v : output_var T) (fz : list (activated T)) : output_var T :=
    {| ov_name := ov_name v; ov_enabled := ov_enabled v; ov_min := ov_min v; ov_max := ov_max v;
       ov_lock_range := ov_lock_range v; ov_lock_previous := ov_lock_previous v; ov_default := ov_default v;
       ov_aggregation := ov_aggregation v; ov_defuzzifier := ov_defuzzifier v; ov_terms := ov_terms v;
       ov_value := ov_value v; ov_previous := ov_previous v; ov_fuzzy := fz |}.
  (* variable.fuzzy.terms.append(a) / .extend(l) *)
  Definition extend_fuzzy (v : output_var T) (l : list (activated T)) : output_var T :=
    with_fuzzy v (ov_fuzzy v ++ l).
  Definition append_fuzzy (v : output_var T) (a : activated T) : output_var T := extend_fuzzy v [a].

  (* bool(variable): Variable defines __len__ = len(self.terms), so a variable WITHOUT TERMS is falsy *)
  Definition var_truthy (v : output_var T) : bool := negb (is_nil (ov_terms v)).

  (* =====================================================================================  load *)
  (* Loop state.  Python appends the Proposition to `conclusions` when its variable is read and completes
     it in place; `self.conclusions` is only assigned after the final-state check, so the model keeps the
     proposition under construction (`proposition`) apart and moves it to `ls_done` when its term is read.
     ls_done is in reverse order. *)
  Record lstate : Type := {
    ls_state : N;
    ls_done : list conclusion;
    ls_cur : option (nat * output_var T * list hedgex)   (* `proposition`: variable (index, object), hedges so far *)
  }.
  Definition load_init : lstate := {| ls_state := s_variable; ls_done := []; ls_cur := None |}.

  (* if state & s_variable: variable = output_variables.get(token); if variable: ... continue *)
  Definition try_variable (e : engine T) (st : lstate) (token : string) : option (result lstate) :=
    if has (ls_state st) s_variable then
      match dict_get (@ov_name T) (e_outputs e) token with
      | Some (i, v) =>
          if var_truthy v
          then Some (Ok {| ls_state := s_is; ls_done := ls_done st; ls_cur := Some (i, v, []) |})
          else None
      | None => None
      end
    else None.

  (* if state & s_is and Rule.IS == token: state = s_hedge | s_term; continue *)
  Definition try_is (st : lstate) (token : string) : option (result lstate) :=
    if has (ls_state st) s_is && String.eqb "is" token
    then Some (Ok {| ls_state := N.lor s_hedge s_term; ls_done := ls_done st; ls_cur := ls_cur st |})
    else None.

  (* if state & s_hedge: if token in factory: proposition.hedges.append(factory.construct(token)); ... continue *)
  Definition try_hedge (st : lstate) (token : string) : option (result lstate) :=
    if has (ls_state st) s_hedge then
      match hedge_lookup token with
      | Some h =>
          Some (match ls_cur st with
                | Some (i, v, hs) =>
                    Ok {| ls_state := N.lor s_hedge s_term; ls_done := ls_done st; ls_cur := Some (i, v, hs ++ [HG h]) |}
                | None => Err EInternal            (* None.hedges: AttributeError (state unreachable) *)
                end)
      | None => None
      end
    else None.

  (* if state & s_term: terms = {t.name: t for t in proposition.variable.terms}; term = terms.get(token); if term: ... *)
  Definition try_term (st : lstate) (token : string) : option (result lstate) :=
    if has (ls_state st) s_term then
      match ls_cur st with
      | None => Some (Err EInternal)               (* None.variable: AttributeError (state unreachable) *)
      | Some (i, v, hs) =>
          match dict_get (@term_name T) (ov_terms v) token with
          | Some (j, _) =>                         (* a Term has neither __bool__ nor __len__: always truthy *)
              Some (Ok {| ls_state := N.lor s_and s_with;
                          ls_done := {| c_var := i; c_hedges := hs; c_term := j |} :: ls_done st;
                          ls_cur := None |})
          | None => None
          end
      end
    else None.

  (* if state & s_and and Rule.AND == token: state = s_variable; continue *)
  Definition try_and (st : lstate) (token : string) : option (result lstate) :=
    if has (ls_state st) s_and && String.eqb "and" token
    then Some (Ok {| ls_state := s_variable; ls_done := ls_done st; ls_cur := ls_cur st |})
    else None.

  (* "if reached this point, there was an error": four raise statements, all SyntaxError *)
  Definition token_error (st : lstate) : result lstate :=
    if has (ls_state st) s_variable then Err ESyntax                 (* expected an output variable *)
    else if has (ls_state st) s_is then Err ESyntax                  (* expected keyword 'is' *)
    else if has (ls_state st) (N.lor s_hedge s_term) then Err ESyntax (* expected a hedge or term *)
    else Err ESyntax.                                                (* unexpected token (after a term: anything but `and`, e.g. `with`) *)

  Definition load_step (e : engine T) (st : lstate) (token : string) : result lstate :=
    orelse (try_variable e st token)
   (orelse (try_is st token)
   (orelse (try_hedge st token)
   (orelse (try_term st token)
   (orelse (try_and st token)
           (token_error st))))).

  Fixpoint load_run (e : engine T) (st : lstate) (tokens : list string) : result lstate :=
    match tokens with
    | [] => Ok st
    | token :: rest => do st' <- load_step e st token; load_run e st' rest
    end.

  (* final states: `if not state & (s_and | s_with)` then one of three SyntaxErrors (the three tests cover
     every reachable state); otherwise self.conclusions = conclusions *)
  Definition load_final (st : lstate) : result (list conclusion) :=
    if negb (has (ls_state st) (N.lor s_and s_with)) then
      if has (ls_state st) s_variable then Err ESyntax               (* expected output variable after … *)
      else if has (ls_state st) s_is then Err ESyntax                (* expected keyword 'is' after … *)
      else if has (ls_state st) (N.lor s_hedge s_term) then Err ESyntax (* expected hedge or term after … *)
      else Ok (rev (ls_done st))
    else Ok (rev (ls_done st)).

  (* tokens = self.text.split().  `if not self.text: raise SyntaxError` — an empty text has no tokens; a text
     of blanks only also has none and fails in the final-state check (state = s_variable): both SyntaxError.
     A successful load therefore never yields an empty list of conclusions (proved: load_nonempty), and an
     empty list means "not loaded" (Consequent.is_loaded = bool(self.conclusions)). *)
  Definition load (e : engine T) (tokens : list string) : result (list conclusion) :=
    match tokens with
    | [] => Err ESyntax
    | _ => do st <- load_run e load_init tokens; load_final st
    end.

  (* Consequent.load / Rule.load on an object that is ALREADY loaded: `self.unload()` comes first and the result is
     assigned, so the previous conclusions never survive: on success they are REPLACED (not extended), on an exception
     the consequent is left unloaded.  Returned: the conclusions afterwards and the exception, if any. *)
  Definition consequent_reload (e : engine T) (tokens : list string) (previous : list conclusion)
    : list conclusion * option err :=
    match load e tokens with
    | Ok cs => (cs, None)
    | Err x => ([], Some x)
    end.
  Definition consequent_unload (previous : list conclusion) : list conclusion := [].   (* self.conclusions.clear() *)

  (* =====================================================================================  modify *)
  (* for hedge in reversed(proposition.hedges): degree = hedge.hedge(degree) *)
  Definition apply_hedges (hs : list hedgex) (d : T) : T :=
    fold_left (fun acc h => hedgex_apply h acc) (rev hs) d.

  Definition mk_activated (t : term T) (d : T) (impl : option tnormx) : activated T :=
    {| a_term := t; a_degree := sanitize d; a_implication := impl |}.   (* Activated(term, d, impl): the degree setter sanitizes *)

  (* The loop `for proposition in self.conclusions`.  carry = true: exactly as written (the hedged degree
     replaces the loop's `activation_degree` and reaches the following conclusions); carry = false: repaired.
     On an exception Python leaves the activations already appended in place; the model returns only Err. *)
  Fixpoint modify_loop (carry : bool) (degree : T) (impl : option tnormx) (cs : list conclusion)
           (outs : list (output_var T)) : result (list (output_var T)) :=
    match cs with
    | [] => Ok outs
    | c :: rest =>
        match nth_error outs (c_var c) with
        | None => Err EInternal                   (* dangling position: impossible with object references *)
        | Some v =>
            if negb (var_truthy v) then Err EValue (* `if not proposition.variable`: a variable whose terms were removed *)
            else if ov_enabled v then
              let degree' := apply_hedges (c_hedges c) degree in
              match nth_error (ov_terms v) (c_term c) with
              | None => Err EInternal             (* dangling position: impossible with object references *)
              | Some t =>
                  modify_loop carry (if carry then degree' else degree) impl rest
                    (update_nth (c_var c) (fun w => append_fuzzy w (mk_activated t degree' impl)) outs)
              end
            else modify_loop carry degree impl rest outs
        end
    end.

  (* `if not self.conclusions: raise RuntimeError("consequent is not loaded")` *)
  Definition modify_gen (carry : bool) (degree : T) (impl : option tnormx) (cs : list conclusion)
             (outs : list (output_var T)) : result (list (output_var T)) :=
    if is_nil cs then Err ERuntime else modify_loop carry degree impl cs outs.

  Definition modify_as_written := modify_gen true.
  Definition modify_fixed := modify_gen false.
  (* the model of the CURRENT code *)
  Definition modify := modify_gen code_has_F1.

  (* =====================================================================================  trigger *)
  Definition set_triggered (r : rule T) (b : bool) : rule T :=
    {| r_enabled := r_enabled r; r_weight := r_weight r; r_antecedent := r_antecedent r;
       r_consequent := r_consequent r; r_degree := r_degree r; r_triggered := b |}.

  (* self.triggered = array(False); not loaded => RuntimeError; enabled => modify, triggered = degree > 0 *)
  Definition trigger_with (m : T -> option tnormx -> list conclusion -> list (output_var T) -> result (list (output_var T)))
             (r : rule T) (impl : option tnormx) (outs : list (output_var T)) : result (rule T * list (output_var T)) :=
    if negb (rule_loaded r) then Err ERuntime
    else if r_enabled r then
      do outs' <- m (r_degree r) impl (r_consequent r) outs;
      Ok (set_triggered r (gtb (r_degree r) zero), outs')
    else Ok (set_triggered r false, outs).
  Definition trigger := trigger_with modify.
End Consequent.
