(* Ops.v — operation sequences on a store of engines (property C13): set inputs, process, restart, copy and switch,
   edit a parameter, toggle a flag,
   remove the rule blocks / the rules of a block, assign an output's state by hand.  Engines are VALUES here: `copy` is the identity on values; that the Python object
   graphs of an engine and its deepcopy share nothing is checked by the correspondence, not by a theorem. *)
From Coq Require Import ZArith Bool List String.
From VF Require Import Num GenNorm GenHedge GenTerm Core Cascade Consequent Engine.
Import ListNotations.
Set Implicit Arguments.

Section Ops.
  Context {T : Type} {N : Num T}.
  Variable function_eval : engine T -> fnode T -> list (string * T) -> T -> result T.

  Definition iv_with_value (iv : input_var T) (x : T) : input_var T :=
    {| iv_name := iv_name iv; iv_enabled := iv_enabled iv; iv_min := iv_min iv; iv_max := iv_max iv;
       iv_lock_range := iv_lock_range iv; iv_terms := iv_terms iv;
       iv_value := if iv_lock_range iv then clip (iv_min iv) (iv_max iv) x else x |}.

  (* InputVariable.value = x for the i-th input (through the clipping setter) *)
  Definition set_input (e : engine T) (i : nat) (x : T) : engine T :=
    match nth_error (e_inputs e) i with
    | None => e
    | Some iv => {| e_name := e_name e; e_inputs := set_nth i (iv_with_value iv x) (e_inputs e);
                    e_outputs := e_outputs e; e_blocks := e_blocks e |}
    end.

  Definition ov_cleared (ov : output_var T) : output_var T :=
    {| ov_name := ov_name ov; ov_enabled := ov_enabled ov; ov_min := ov_min ov; ov_max := ov_max ov;
       ov_lock_range := ov_lock_range ov; ov_lock_previous := ov_lock_previous ov; ov_default := ov_default ov;
       ov_aggregation := ov_aggregation ov; ov_defuzzifier := ov_defuzzifier ov; ov_terms := ov_terms ov;
       ov_value := if ov_lock_range ov then clip (ov_min ov) (ov_max ov) nan else nan;
       ov_previous := nan; ov_fuzzy := [] |}.

  (* state assigned by hand: value through the clipping setter, previous value directly, one more activated term *)
  Definition ov_with_state (ov : output_var T) (v p : T) (t : term T) (d : T) : output_var T :=
    {| ov_name := ov_name ov; ov_enabled := ov_enabled ov; ov_min := ov_min ov; ov_max := ov_max ov;
       ov_lock_range := ov_lock_range ov; ov_lock_previous := ov_lock_previous ov; ov_default := ov_default ov;
       ov_aggregation := ov_aggregation ov; ov_defuzzifier := ov_defuzzifier ov; ov_terms := ov_terms ov;
       ov_value := if ov_lock_range ov then clip (ov_min ov) (ov_max ov) v else v;
       ov_previous := p; ov_fuzzy := (ov_fuzzy ov ++ [{| a_term := t; a_degree := d; a_implication := None |}])%list |}.

  Definition block_deactivated (b : block T) : block T :=
    {| b_name := b_name b; b_enabled := b_enabled b; b_conjunction := b_conjunction b; b_disjunction := b_disjunction b;
       b_implication := b_implication b; b_activation := b_activation b; b_rules := map (@rule_deactivated T N) (b_rules b) |}.

  (* Engine.restart: inputs := nan (through the setter), rules reloaded from their text (the same trees: C06), outputs cleared *)
  Definition restart (e : engine T) : engine T :=
    {| e_name := e_name e; e_inputs := map (fun iv => iv_with_value iv nan) (e_inputs e);
       e_outputs := map ov_cleared (e_outputs e); e_blocks := map block_deactivated (e_blocks e) |}.

  (* the state the constructors build: values nan (NOT through the clipping setter for previous), degrees 0 *)
  Definition fresh (e : engine T) : engine T := restart e.

  Definition with_blocks (e : engine T) (bs : list (block T)) : engine T :=
    {| e_name := e_name e; e_inputs := e_inputs e; e_outputs := e_outputs e; e_blocks := bs |}.

  Definition rule_edit (r : rule T) (enabled : bool) (w : T) : rule T :=
    {| r_enabled := enabled; r_weight := w; r_antecedent := r_antecedent r; r_consequent := r_consequent r;
       r_degree := r_degree r; r_triggered := r_triggered r |}.

  Inductive op : Type :=
    | OSet (i : nat) (x : T)
    | OProcess
    | ORestart
    | OCopy                       (* deep copy of the current engine, appended to the store; becomes current *)
    | OSwitch (k : nat)
    | OEditRule (bi ri : nat) (enabled : bool) (w : T)       (* rule.enabled / rule.weight of the current engine *)
    | OEditOutput (oi : nat) (enabled : bool) (dflt : T)      (* output.enabled / default_value *)
    | OEditBlock (bi : nat) (enabled : bool)
    | ORemoveBlocks                                           (* engine.rule_blocks = []: an engine without rule blocks *)
    | ODropRules (bi : nat)                                   (* rule_blocks[bi].rules = []: a block with zero rules *)
    | OSetOutputState (oi : nat) (v prev : T) (ti : nat) (d : T).
      (* by hand: output.value = v (clipping setter), output.previous_value = prev,
         output.fuzzy.terms.append(Activated(output.terms[ti], d)) *)

  Definition store : Type := (list (engine T) * nat)%type.

  Definition upd (s : store) (f : engine T -> result (engine T)) : result store :=
    match nth_error (fst s) (snd s) with
    | None => Err EInternal
    | Some e => do e' <- f e; Ok (set_nth (snd s) e' (fst s), snd s)
    end.

  Definition step (s : store) (o : op) : result store :=
    match o with
    | OSet i x => upd s (fun e => Ok (set_input e i x))
    | OProcess => upd s (process function_eval)
    | ORestart => upd s (fun e => Ok (restart e))
    | OCopy => match nth_error (fst s) (snd s) with
               | None => Err EInternal
               | Some e => Ok ((fst s ++ [e])%list, List.length (fst s)) end
    | OSwitch k => if Nat.ltb k (List.length (fst s)) then Ok (fst s, k) else Err EInternal
    | OEditRule bi ri en w =>
        upd s (fun e => match get_rule e bi ri with Some (_, r) => Ok (with_rule e bi ri (rule_edit r en w)) | None => Err EInternal end)
    | OEditOutput oi en d =>
        upd s (fun e => match nth_error (e_outputs e) oi with
                        | None => Err EInternal
                        | Some ov => Ok (with_outputs e (set_nth oi
                            {| ov_name := ov_name ov; ov_enabled := en; ov_min := ov_min ov; ov_max := ov_max ov;
                               ov_lock_range := ov_lock_range ov; ov_lock_previous := ov_lock_previous ov; ov_default := d;
                               ov_aggregation := ov_aggregation ov; ov_defuzzifier := ov_defuzzifier ov; ov_terms := ov_terms ov;
                               ov_value := ov_value ov; ov_previous := ov_previous ov; ov_fuzzy := ov_fuzzy ov |} (e_outputs e)))
                        end)
    | OEditBlock bi en =>
        upd s (fun e => match nth_error (e_blocks e) bi with
                        | None => Err EInternal
                        | Some b => Ok {| e_name := e_name e; e_inputs := e_inputs e; e_outputs := e_outputs e;
                                          e_blocks := set_nth bi {| b_name := b_name b; b_enabled := en; b_conjunction := b_conjunction b;
                                            b_disjunction := b_disjunction b; b_implication := b_implication b;
                                            b_activation := b_activation b; b_rules := b_rules b |} (e_blocks e) |}
                        end)
    | ORemoveBlocks =>
        upd s (fun e => Ok (with_blocks e []))
    | ODropRules bi =>
        upd s (fun e => match nth_error (e_blocks e) bi with
                        | None => Err EInternal
                        | Some b => Ok {| e_name := e_name e; e_inputs := e_inputs e; e_outputs := e_outputs e;
                                          e_blocks := set_nth bi {| b_name := b_name b; b_enabled := b_enabled b; b_conjunction := b_conjunction b;
                                            b_disjunction := b_disjunction b; b_implication := b_implication b;
                                            b_activation := b_activation b; b_rules := [] |} (e_blocks e) |}
                        end)
    | OSetOutputState oi v p ti d =>
        upd s (fun e => match nth_error (e_outputs e) oi with
                        | None => Err EInternal
                        | Some ov =>
                            match nth_error (ov_terms ov) ti with
                            | None => Err EInternal
                            | Some t => Ok (with_outputs e (set_nth oi (ov_with_state ov v p t d) (e_outputs e)))
                            end
                        end)
    end.

  (* run a sequence, returning the store after every step (stops at the first error) *)
  Fixpoint run (s : store) (ops : list op) : list (result store) :=
    match ops with
    | [] => []
    | o :: tl => match step s o with
                 | Ok s' => Ok s' :: run s' tl
                 | Err x => [Err x]
                 end
    end.
End Ops.
