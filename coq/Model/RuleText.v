(* RuleText.v — Rule.parse, Rule.load / unload / is_loaded / create and RuleBlock.load_rules
   (fuzzylite/rule.py 771-826, 866-902, 1010-1029), on top of Model/ShuntingYard.v, Model/Antecedent.v and
   Model/Consequent.v.  Definitions only.

   Python                                                  here
   text.find("#") / text[0:i]                              strip_comment
   rule.split()                                            split_ws            (ASCII blanks, as in ShuntingYard.scan)
   float(token)                                            is_float token      SECTION PARAMETER (the harness supplies it;
                                                           `ascii_float_syntax` below is the decidable class of ASCII tokens
                                                           that Python's float() accepts, used by the harness as the instance)
   raise SyntaxError / ValueError                          Err ESyntax / Err EValue
   self.antecedent.text = " ".join(antecedent)             join_sp tokens      (a string: Antecedent.load re-tokenises it with
                                                                                Function.format_infix)
   self.weight = float(token)                              the token itself (the numeric value plays no role in loading)
   Rule()  (fresh object)                                  fresh_rule
   Antecedent.expression / Consequent.conclusions          ro_expression : option expr / ro_conclusions : list conclusion
   Antecedent.load: self.unload() first, expression assigned only at the very end
   Consequent.load: self.unload() first (conclusions.clear()), self.conclusions assigned only at the very end
   Rule.load: deactivate(); antecedent.load(engine); consequent.load(engine)      rule_load
        (deactivate() only resets activation_degree / triggered, which play no role here)
   rule.py:388  `if stack & (s_hedge | s_term)`  (deque & int -> TypeError)        Err EInternal when code_has_F6 = true

   THE ONE-LINE SWITCH is `code_has_F6`:  true = the final-state check of Antecedent.load as the pinned snapshot had it
   (`stack & …`: deque & int -> TypeError, DESIGN finding F6);  false = the repaired check (`state & …`), which is what /repo
   has since the commit "fix: Antecedent.load raised TypeError for antecedents ending in `is` or a hedge".
   The antecedent loader defined here and Model/Antecedent.v's `load_text` agree on every text that does not end in the state
   hedge|term, whichever of the two checks Model/Antecedent.v currently models (Proofs/RejectProofs.antecedent_load_agrees). *)
From Coq Require Import ZArith NArith Bool List String Ascii.
From VF Require Import Num GenNorm GenHedge GenTerm GenOpTable Core ShuntingYard Antecedent Consequent.
From VF Require GenSwitches.
Import ListNotations.
Local Open Scope string_scope.
Local Open Scope list_scope.

(* ---- which final-state check the CURRENT code has: the repaired one (F6 was fixed in /repo). *)
(* read off the AST of Antecedent.load on every run (Gen/GenSwitches.v) *)
Definition code_has_F6 : bool := GenSwitches.antecedent_final_check_on_stack.

(* ---- keywords of rule.py (translated table Gen/GenOpTable.rule_keywords) *)
Definition KW_IF : string := keyword "IF".
Definition KW_THEN : string := keyword "THEN".
Definition KW_WITH : string := keyword "WITH".

(* ---- text[0:text.find("#")] *)
Fixpoint strip_comment (s : string) : string :=
  match s with
  | EmptyString => EmptyString
  | String c s' => if Ascii.eqb c "#" then EmptyString else String c (strip_comment s')
  end.

(* ---- str.split(): the scanner of ShuntingYard with no operator keys only separates at blanks *)
Definition split_ws (s : string) : list string := scan [] s 0 "".

(* ================= the decidable class of ASCII tokens accepted by Python's float() =================
   floatvalue ::= [sign] (floatnumber | "inf" | "infinity" | "nan")        (letters case-insensitive)
   floatnumber ::= ([digitpart] "." digitpart | digitpart ["."]) [("e"|"E") [sign] digitpart]
   digitpart ::= digit (["_"] digit)*
   (a token of str.split() has no surrounding blanks; non-ASCII digits are not modelled) *)
Definition is_digit (c : ascii) : bool := let n := N_of_ascii c in ((48 <=? n) && (n <=? 57))%N.
Definition lower (c : ascii) : ascii :=
  let n := N_of_ascii c in if ((65 <=? n) && (n <=? 90))%N then ascii_of_N (n + 32) else c.
Fixpoint lower_string (s : string) : string :=
  match s with EmptyString => EmptyString | String c s' => String (lower c) (lower_string s') end.
(* consumes (["_"] digit)* and returns what is left *)
Fixpoint digit_rest (s : string) : string :=
  match s with
  | EmptyString => s
  | String c s' =>
      if is_digit c then digit_rest s'
      else if Ascii.eqb c "_" then
        match s' with
        | String d s'' => if is_digit d then digit_rest s'' else s
        | EmptyString => s
        end
      else s
  end.
(* digitpart at the head of s: what follows it *)
Definition digitpart (s : string) : option string :=
  match s with
  | String c s' => if is_digit c then Some (digit_rest s') else None
  | EmptyString => None
  end.
Definition strip_sign (s : string) : string :=
  match s with
  | String c s' => if Ascii.eqb c "+" || Ascii.eqb c "-" then s' else s
  | EmptyString => s
  end.
Definition ascii_float_syntax (s : string) : bool :=
  let s1 := strip_sign s in
  let l := lower_string s1 in
  if String.eqb l "inf" || String.eqb l "infinity" || String.eqb l "nan" then true
  else
    let after_mantissa : option string :=
      match digitpart s1 with
      | Some r =>
          match r with
          | String c frac => if Ascii.eqb c "." then (match digitpart frac with Some r2 => Some r2 | None => Some frac end) else Some r
          | EmptyString => Some r
          end
      | None =>
          match s1 with
          | String c frac => if Ascii.eqb c "." then digitpart frac else None
          | EmptyString => None
          end
      end in
    match after_mantissa with
    | None => false
    | Some EmptyString => true
    | Some (String c ex) =>
        if Ascii.eqb c "e" || Ascii.eqb c "E" then
          match digitpart (strip_sign ex) with Some EmptyString => true | _ => false end
        else false
    end.

(* ================= Rule.parse ================= *)
Inductive pstate : Set := PBegin | PIf | PThen | PWith | PEnd.

(* what Rule.parse assigns: antecedent.text, consequent.text, weight (the token; None = the default 1.0) *)
Record rule_text : Type := { rt_antecedent : string; rt_consequent : string; rt_weight : option string }.

Section Parse.
  Variable is_float : string -> bool.     (* float(token) does not raise *)

  (* the loop `for token in rule.split()`; the accumulators are the Python lists / the weight token *)
  Fixpoint parse_loop (tokens : list string) (st : pstate) (an cn : list string) (w : option string)
    : result (pstate * list string * list string * option string) :=
    match tokens with
    | [] => Ok (st, an, cn, w)
    | token :: rest =>
        match st with
        | PBegin => if String.eqb token KW_IF then parse_loop rest PIf an cn w
                    else Err ESyntax                                  (* expected keyword 'if' *)
        | PIf => if String.eqb token KW_THEN then parse_loop rest PThen an cn w
                 else parse_loop rest PIf (an ++ [token]) cn w
        | PThen => if String.eqb token KW_WITH then parse_loop rest PWith an cn w
                   else parse_loop rest PThen an (cn ++ [token]) w
        | PWith => if is_float token then parse_loop rest PEnd an cn (Some token)
                   else Err EValue                                    (* float(token): ValueError *)
        | PEnd => Err ESyntax                                         (* unexpected token *)
        end
    end.

  (* Rule.parse on the token list of the comment-free text *)
  Definition parse_tokens (tokens : list string) : result (list string * list string * option string) :=
    match parse_loop tokens PBegin [] [] None with
    | Err x => Err x
    | Ok (st, an, cn, w) =>
        match st with
        | PBegin => Err ESyntax                                       (* expected an if-then rule *)
        | PIf => Err ESyntax                                          (* expected keyword 'then' *)
        | PWith => Err ESyntax                                        (* expected the rule weight *)
        | PThen | PEnd =>
            match an, cn with
            | [], _ => Err ESyntax                                    (* expected an antecedent *)
            | _, [] => Err ESyntax                                    (* expected a consequent *)
            | _, _ => Ok (an, cn, w)
            end
        end
    end.

  Definition rule_tokens (text : string) : list string := split_ws (strip_comment text).

  (* Rule.parse(text): (antecedent tokens, consequent tokens, weight token) … *)
  Definition parse_rule (text : string) : result (list string * list string * option string) :=
    parse_tokens (rule_tokens text).
  (* … and what it assigns to the rule object *)
  Definition parse_text (text : string) : result rule_text :=
    match parse_rule text with
    | Ok (a, c, w) => Ok {| rt_antecedent := join_sp a; rt_consequent := join_sp c; rt_weight := w |}
    | Err x => Err x
    end.
End Parse.

(* ================= loading ================= *)
Section Load.
  Context {T : Type} {NT : Num T}.
  Variable is_float : string -> bool.

  (* the Rule object, as far as parsing and loading are concerned *)
  Record rule_obj : Type := {
    ro_text : rule_text;
    ro_expression : option expr;           (* Antecedent.expression *)
    ro_conclusions : list conclusion }.    (* Consequent.conclusions *)
  (* Rule(): Antecedent(""), Consequent(""), weight 1.0, nothing loaded *)
  Definition fresh_rule : rule_obj :=
    {| ro_text := {| rt_antecedent := ""; rt_consequent := ""; rt_weight := None |};
       ro_expression := None; ro_conclusions := [] |}.

  (* Antecedent.is_loaded = bool(self.expression): Proposition / Operator define neither __bool__ nor __len__;
     Consequent.is_loaded = bool(self.conclusions);  Rule.is_loaded = antecedent.is_loaded() and consequent.is_loaded() *)
  Definition antecedent_loaded (o : rule_obj) : bool := match ro_expression o with Some _ => true | None => false end.
  Definition consequent_loaded (o : rule_obj) : bool := match ro_conclusions o with [] => false | _ :: _ => true end.
  Definition is_loaded (o : rule_obj) : bool := antecedent_loaded o && consequent_loaded o.

  (* Rule.unload() *)
  Definition unload (o : rule_obj) : rule_obj := {| ro_text := ro_text o; ro_expression := None; ro_conclusions := [] |}.

  (* ---- the final-state check of Antecedent.load (rule.py 384-395).
          f6 = true:   if not state & 17:  if state & s_is: SyntaxError;  if STACK & 12: -> TypeError
          f6 = false:  if not state & 17:  if state & s_is: SyntaxError;  if STATE & 12: SyntaxError
          then `if len(stack) != 1: SyntaxError`, `self.expression = stack.pop()` *)
  Definition antecedent_final (f6 : bool) (s : Antecedent.load_state) : result expr :=
    let '(state, stack) := s in
    let popped : result expr := match stack with [x] => Ok x | _ => Err ESyntax end in
    if negb (Antecedent.has state (N.lor Antecedent.s_variable Antecedent.s_and_or)) then
      if Antecedent.has state Antecedent.s_is then Err ESyntax
      else if f6 then Err EInternal
      else if Antecedent.has state (N.lor Antecedent.s_hedge Antecedent.s_term) then Err ESyntax
      else popped
    else popped.

  (* Antecedent.load after the postfix conversion *)
  Definition antecedent_load_postfix (f6 : bool) (e : engine T) (postfix_tokens : list string) : result expr :=
    match Antecedent.load_run e postfix_tokens (Antecedent.s_variable, []) with
    | Err x => Err x
    | Ok s => antecedent_final f6 s
    end.

  (* Antecedent.load(engine) on self.text (after self.unload()) *)
  Definition antecedent_load (f6 : bool) (e : engine T) (text : string) : result expr :=
    if String.eqb text "" then Err ESyntax
    else match infix_to_postfix_text op_table KW_AND KW_OR text with
         | Ok toks => antecedent_load_postfix f6 e toks
         | Err x => Err x
         end.

  (* Consequent.load(engine) on self.text (after self.unload()); `if not self.text` is the [] case of Consequent.load *)
  Definition consequent_load (e : engine T) (text : string) : result (list conclusion) :=
    Consequent.load e (split_ws text).

  (* Rule.load(engine): the object afterwards and the exception, if any.
     A failure in the antecedent leaves the consequent as it was (it is not touched); a failure in the consequent
     leaves the antecedent LOADED and the conclusions empty. *)
  Definition rule_load (f6 : bool) (e : engine T) (o : rule_obj) : rule_obj * option err :=
    match antecedent_load f6 e (rt_antecedent (ro_text o)) with
    | Err x => ({| ro_text := ro_text o; ro_expression := None; ro_conclusions := ro_conclusions o |}, Some x)
    | Ok ex =>
        match consequent_load e (rt_consequent (ro_text o)) with
        | Err x => ({| ro_text := ro_text o; ro_expression := Some ex; ro_conclusions := [] |}, Some x)
        | Ok cs => ({| ro_text := ro_text o; ro_expression := Some ex; ro_conclusions := cs |}, None)
        end
    end.

  (* rule = Rule(); rule.parse(text); rule.load(engine)   — Rule.create(text, engine); when it raises, the object
     that was being built is returned too (the harness observes it by calling parse and load itself) *)
  Definition create_gen (f6 : bool) (e : engine T) (text : string) : rule_obj * option err :=
    match parse_text is_float text with
    | Err x => (fresh_rule, Some x)
    | Ok rt => rule_load f6 e {| ro_text := rt; ro_expression := None; ro_conclusions := [] |}
    end.

  Definition as_result (p : rule_obj * option err) : result rule_obj :=
    match p with (o, None) => Ok o | (_, Some x) => Err x end.

  Definition load_rule_gen (f6 : bool) (e : engine T) (text : string) : result rule_obj := as_result (create_gen f6 e text).
  Definition state_after_gen (f6 : bool) (e : engine T) (text : string) : rule_obj := fst (create_gen f6 e text).

  (* the model of the CURRENT code, and the repaired one *)
  Definition load_rule := load_rule_gen code_has_F6.
  Definition state_after := state_after_gen code_has_F6.
  Definition load_as_written := load_rule_gen true.
  Definition load_fixed := load_rule_gen false.

  (* ---- RuleBlock.load_rules(engine): for rule in rules: rule.unload(); try: rule.load(engine) except Exception: collect;
          if exceptions: raise RuntimeError.   `except Exception` also swallows the TypeError of F6. *)
  Fixpoint load_rules_loop (f6 : bool) (e : engine T) (rules : list rule_obj) : list rule_obj * bool :=
    match rules with
    | [] => ([], false)
    | o :: rest =>
        let '(o', ex) := rule_load f6 e (unload o) in
        let '(rest', failed) := load_rules_loop f6 e rest in
        (o' :: rest', match ex with Some _ => true | None => failed end)
    end.
  Definition load_rules_gen (f6 : bool) (e : engine T) (rules : list rule_obj) : list rule_obj * option err :=
    let '(rules', failed) := load_rules_loop f6 e rules in (rules', if failed then Some ERuntime else None).
  Definition load_rules := load_rules_gen code_has_F6.

  (* ---- observable for the correspondence: outcome class, is_loaded(), antecedent_loaded, consequent_loaded *)
  Definition observe (p : rule_obj * option err) : option err * bool * bool * bool :=
    (snd p, is_loaded (fst p), antecedent_loaded (fst p), consequent_loaded (fst p)).
End Load.
