(* Settings.v — model of `fuzzylite.library.Settings` (the process-wide `fl.settings` singleton) and of
   `Settings.context` (library.py:194-232), plus the two helpers that read the settings at call time:
   `Op.str` (operation.py:544, reads `settings.decimals`) and `Op.is_close` (operation.py:154, reads
   `settings.atol`, `settings.rtol`).  Definitions only; the proofs are in Proofs/SettingsProofs.v.

   Values are abstract tokens `option Z`: `None` is Python's `None`, `Some n` names one Python object.
   The check (tools/props/C20.py) fixes the reading of the tokens:
     float_type 64/32/16/128/1  = np.float64 / np.float32 / np.float16 / np.longdouble / float
     decimals   d               = the int d
     atol, rtol n               = the float n * 1e-4          (defaults 1e-3 = 10, 0.0 = 0)
     alias      0 / n           = "fl" / "al<n>"
     logger     0 / n           = logging.getLogger("fuzzylite") / logging.getLogger("c20.<n>")   (identity)
     factory    n               = one particular FactoryManager instance                           (identity)
   `vars(settings)` has exactly the seven entries below; `factory_manager` is stored under `_factory_manager`,
   is `None` until the property getter is first read, and that read stores a new `FactoryManager()`. *)
From Coq Require Import ZArith Bool List String Ascii.
Import ListNotations.
Local Open Scope Z_scope.

Inductive key : Set := KFloatType | KDecimals | KAtol | KRtol | KAlias | KLogger | KFactory.

Definition all_keys : list key := [KFloatType; KDecimals; KAtol; KRtol; KAlias; KLogger; KFactory].

Definition key_eqb (a b : key) : bool :=
  match a, b with
  | KFloatType, KFloatType | KDecimals, KDecimals | KAtol, KAtol | KRtol, KRtol
  | KAlias, KAlias | KLogger, KLogger | KFactory, KFactory => true
  | _, _ => false
  end.

Definition value := option Z.

Definition value_eqb (a b : value) : bool :=
  match a, b with
  | None, None => true
  | Some x, Some y => Z.eqb x y
  | _, _ => false
  end.

(* vars(settings) *)
Record settings : Set := mkS {
  s_float_type : value;
  s_decimals : value;
  s_atol : value;
  s_rtol : value;
  s_alias : value;
  s_logger : value;
  s_factory : value      (* `_factory_manager` *)
}.

(* vars(self)[k] *)
Definition get (k : key) (s : settings) : value :=
  match k with
  | KFloatType => s_float_type s
  | KDecimals => s_decimals s
  | KAtol => s_atol s
  | KRtol => s_rtol s
  | KAlias => s_alias s
  | KLogger => s_logger s
  | KFactory => s_factory s
  end.

(* setattr(self, k, v)   (k = `_factory_manager`, or `factory_manager` through the property setter: same slot) *)
Definition set (k : key) (v : value) (s : settings) : settings :=
  match k with
  | KFloatType => mkS v (s_decimals s) (s_atol s) (s_rtol s) (s_alias s) (s_logger s) (s_factory s)
  | KDecimals => mkS (s_float_type s) v (s_atol s) (s_rtol s) (s_alias s) (s_logger s) (s_factory s)
  | KAtol => mkS (s_float_type s) (s_decimals s) v (s_rtol s) (s_alias s) (s_logger s) (s_factory s)
  | KRtol => mkS (s_float_type s) (s_decimals s) (s_atol s) v (s_alias s) (s_logger s) (s_factory s)
  | KAlias => mkS (s_float_type s) (s_decimals s) (s_atol s) (s_rtol s) v (s_logger s) (s_factory s)
  | KLogger => mkS (s_float_type s) (s_decimals s) (s_atol s) (s_rtol s) (s_alias s) v (s_factory s)
  | KFactory => mkS (s_float_type s) (s_decimals s) (s_atol s) (s_rtol s) (s_alias s) (s_logger s) v
  end.

(* Settings() as constructed at import: the documented defaults, factory manager not yet created *)
Definition default_settings : settings :=
  mkS (Some 64) (Some 3) (Some 10) (Some 0) (Some 0) (Some 0) None.

Definition settings_eqb (a b : settings) : bool :=
  forallb (fun k => value_eqb (get k a) (get k b)) all_keys.

(* ---- the helpers that read the settings at call time *)

(* f"{1/3:.{d}f}": "0" for d = 0, "0." followed by d threes for 1 <= d <= 16 (the binary64 nearest to 1/3 is
   0.33333333333333331...: seventeen digits would show the 1).  `None`: the format raises (d is None or
   negative) or d is outside the modelled range. *)
Fixpoint threes (n : nat) : string :=
  match n with O => EmptyString | S m => String "3"%char (threes m) end.
Definition op_str_third (decimals : value) : option string :=
  match decimals with
  | Some d =>
      if d =? 0 then Some "0"%string
      else if (0 <? d) && (d <=? 16) then Some ("0." ++ threes (Z.to_nat d))%string
      else None
  | None => None
  end.

(* np.isclose(1.0, 1.0005, atol=a*1e-4, rtol=r*1e-4): |1.0 - 1.0005| <= a*1e-4 + r*1e-4*1.0005, i.e. 5 <= a + r
   for the small non-negative integers used as tokens.  `None`: a tolerance is None (np.isclose raises) or a
   token is outside the modelled range 0..1000. *)
Definition op_is_close_1_10005 (atol rtol : value) : option bool :=
  match atol, rtol with
  | Some a, Some r =>
      if (0 <=? a) && (a <=? 1000) && (0 <=? r) && (r <=? 1000) then Some (5 <=? a + r) else None
  | _, _ => None
  end.

(* one observation by the harness: vars(fl.settings), Op.str(1/3), Op.is_close(1.0, 1.0005); the probe catches
   its own exceptions (recorded as None), so it never alters the control flow of the observed program *)
Record obs : Set := mkObs {
  o_vars : settings;
  o_str : option string;
  o_close : option bool
}.

Definition observe (s : settings) : obs :=
  mkObs s (op_str_third (get KDecimals s)) (op_is_close_1_10005 (get KAtol s) (get KRtol s)).

Definition ostring_eqb (a b : option string) : bool :=
  match a, b with
  | None, None => true
  | Some x, Some y => String.eqb x y
  | _, _ => false
  end.
Definition obool_eqb (a b : option bool) : bool :=
  match a, b with
  | None, None => true
  | Some x, Some y => Bool.eqb x y
  | _, _ => false
  end.
Definition obs_eqb (a b : obs) : bool :=
  settings_eqb (o_vars a) (o_vars b) && ostring_eqb (o_str a) (o_str b) && obool_eqb (o_close a) (o_close b).

Fixpoint trace_eqb (a b : list obs) : bool :=
  match a, b with
  | [], [] => true
  | x :: a', y :: b' => obs_eqb x y && trace_eqb a' b'
  | _, _ => false
  end.

(* ---- programs run against the singleton *)

(* keyword arguments of one `settings.context(...)` call, in the order of the signature; `(k, None)` is an
   argument left at (or explicitly passed as) its default None *)
Definition kwargs := list (key * value).

Inductive prog : Set :=
  | Skip
  | Assign (k : key) (v : value)     (* settings.<k> = v   (direct assignment; factory_manager through its setter) *)
  | ReadFM (fresh : Z)               (* settings.factory_manager (getter): when the slot is None it stores a new
                                        FactoryManager(), which the harness names `fresh` *)
  | Observe                          (* the harness probe *)
  | Raise                            (* raise an exception *)
  | Seq (p q : prog)                 (* p; q *)
  | Catch (p : prog)                 (* try: p  except: pass *)
  | Ctx (kw : kwargs) (body : prog). (* with settings.context(kw...): body *)

(* context_settings = {key: value for key, value in locals().items() if not (key == "self" or value is None)} *)
Fixpoint context_settings (kw : kwargs) : list (key * Z) :=
  match kw with
  | [] => []
  | (k, Some v) :: kw' => (k, v) :: context_settings kw'
  | (_, None) :: kw' => context_settings kw'
  end.

(* the keys a context names: those given a value other than None *)
Definition named (kw : kwargs) : list key := map fst (context_settings kw).

(* for key, value in context_settings.items(): setattr(self, key, value) *)
Fixpoint apply_settings (cs : list (key * Z)) (s : settings) : settings :=
  match cs with
  | [] => s
  | (k, v) :: cs' => apply_settings cs' (set k (Some v) s)
  end.

(* finally: for key, value in context_settings.items(): setattr(self, key, rollback_settings[key]) *)
Fixpoint rollback (cs : list (key * Z)) (rollback_settings : settings) (s : settings) : settings :=
  match cs with
  | [] => s
  | (k, _) :: cs' => rollback cs' rollback_settings (set k (get k rollback_settings) s)
  end.

Record outcome : Set := mkOut {
  out_settings : settings;    (* vars(settings) when the program is left *)
  out_raised : bool;          (* an exception escapes the program *)
  out_trace : list obs        (* the observations, in order *)
}.

Fixpoint run (p : prog) (s : settings) : outcome :=
  match p with
  | Skip => mkOut s false []
  | Assign k v => mkOut (set k v s) false []
  | ReadFM fresh =>
      mkOut (match get KFactory s with None => set KFactory (Some fresh) s | Some _ => s end) false []
  | Observe => mkOut s false [observe s]
  | Raise => mkOut s true []
  | Seq p q =>
      let r1 := run p s in
      if out_raised r1 then r1
      else let r2 := run q (out_settings r1) in
           mkOut (out_settings r2) (out_raised r2) (out_trace r1 ++ out_trace r2)
  | Catch p =>
      let r := run p s in mkOut (out_settings r) false (out_trace r)
  | Ctx kw body =>
      let cs := context_settings kw in
      let rollback_settings := s in                      (* vars(self).copy(): ALL seven entries *)
      let r := run body (apply_settings cs s) in         (* setattr each named key; yield *)
      mkOut (rollback cs rollback_settings (out_settings r))   (* finally: restore the named keys only *)
            (out_raised r)                               (* the exception propagates after the restore *)
            (out_trace r)
  end.

Definition outcome_eqb (a b : outcome) : bool :=
  settings_eqb (out_settings a) (out_settings b) && Bool.eqb (out_raised a) (out_raised b)
  && trace_eqb (out_trace a) (out_trace b).

(* ---- syntactic footprint: the settings a program may leave changed.  A direct assignment (or the lazy
   creation of the factory manager) escapes every enclosing context that does not name its key. *)
Definition mem_key (k : key) (l : list key) : bool := existsb (key_eqb k) l.

Fixpoint escapes (p : prog) : list key :=
  match p with
  | Skip | Observe | Raise => []
  | Assign k _ => [k]
  | ReadFM _ => [KFactory]
  | Seq p q => escapes p ++ escapes q
  | Catch p => escapes p
  | Ctx kw body => filter (fun k => negb (mem_key k (named kw))) (escapes body)
  end.

(* nesting depth of contexts *)
Fixpoint depth (p : prog) : nat :=
  match p with
  | Seq p q => Nat.max (depth p) (depth q)
  | Catch p => depth p
  | Ctx _ body => S (depth body)
  | _ => O
  end.

(* contexts nested one directly inside the other, outermost first, around an innermost body *)
Definition nest (kws : list kwargs) (p : prog) : prog := fold_right Ctx p kws.

(* the settings the innermost body of such a nesting starts in *)
Definition enter_all (kws : list kwargs) (s : settings) : settings :=
  fold_left (fun st kw => apply_settings (context_settings kw) st) kws s.
