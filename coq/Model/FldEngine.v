(* FldEngine.v — `FldExporter.write` (exporter.py:762-805) with the REAL pipeline instead of the parameter `outputs_of`
   of Model/Fld.v:

     input_values = np.atleast_2d(input_values); too few columns -> ValueError
     engine.restart()                                             Ops.restart
     for index, variable in enumerate(engine.input_variables):    Batch.process_batch_vars (restart e) columns
         variable.value = input_values[:, index]                    (per-variable assignment through the clipping setter)
     engine.process()                                               (vectorised Engine.process, Model/Batch.v)
     values = [engine.input_values]? + [engine.output_values]?    Batch.input_values_get / output_values_get
       (one row of output values broadcast to every input row)      broadcast_outputs
     np.savetxt(np.hstack(values), fmt, delimiter, header)        hstack_values, then Fld.header_line / Fld.line

   and the row-by-row reading `write_engine_rows` of the same export: the scalar `Engine.process` (Model/Engine.v) on
   every row in grid order, starting from the restarted engine, every row starting from the state left by the previous
   one (lock-previous carried) = `Batch.process_rows (restart e)`.
   Function terms follow the convention of Model/Batch.v (`no_function`).  Definitions only. *)
From Coq Require Import ZArith Bool List String Ascii.
From VF Require Import Num Core NpLite Cascade Engine Batch Ops Fld.
Import ListNotations.
Set Implicit Arguments.
Local Notation length := List.length.

Section FldEngine.
  Context {T : Type} {N : Num T}.
  Variable fmt : T -> string.

  (* input_values[:, :n] — only the first n columns are ever read *)
  Definition used_rows (n : nat) (rows : list (list T)) : list (list T) := map (firstn n) rows.
  (* input_values[:, index] for index = 0 .. n-1 *)
  Definition columns (n : nat) (rows : list (list T)) : list (arr T) :=
    map (fun j => Vec (map (fun r => nth j r nan) rows)) (seq 0 n).

  (* np.hstack(values): `values` = the selected 2-d arrays; a 1-d array (engine without output variables) cannot be
     stacked with a 2-d one; np.hstack([[]]) when nothing is selected *)
  Definition hstack_values (ins outs : option (arr T)) : result (list (list T)) :=
    match ins, outs with
    | None, None => Ok []
    | Some a, None => Ok (rows_of (atleast_2d a))
    | None, Some (Mat r) => Ok r
    | None, Some (Vec l) => Ok (map (fun v => [v]) l)            (* savetxt writes a 1-d array as one column *)
    | None, Some (Sc v) => Ok [[v]]
    | Some (Mat ri), Some (Mat ro) =>
        if Nat.eqb (length ri) (length ro) then Ok (map (fun io => fst io ++ snd io) (combine ri ro))
        else Err EValue                                          (* all the input array dimensions ... must match *)
    | Some _, Some _ => Err EValue                               (* arrays of different numbers of dimensions *)
    end.

  (* repaired code: `if output_values.ndim == 2 and output_values.shape[0] != input_values.shape[0]:
                       output_values = np.broadcast_to(output_values, (input_values.shape[0], output_values.shape[1]))`
     (every output value 0-d: ONE row of output values is repeated for every row of input values) *)
  Definition broadcast_outputs (k : nat) (a : arr T) : result (arr T) :=
    match a with
    | Mat rows =>
        if Nat.eqb (length rows) k then Ok a
        else match rows with [r] => Ok (Mat (repeat r k)) | _ => Err EValue end   (* cannot broadcast (j, m) to (k, m) *)
    | _ => Ok a
    end.

  (* the matrix handed to numpy.savetxt *)
  Definition engine_matrix (x : exporter) (e : engine T) (input_values : list (list T)) : result (list (list T)) :=
    let n := length (e_inputs e) in
    do st <- process_batch_vars (restart e) (columns n (used_rows n input_values));
    do ins <- (if x_inputs x then do a <- input_values_get st; Ok (Some a) else Ok None);
    do outs <- (if x_outputs x then do a <- output_values_get st; do b <- broadcast_outputs (length input_values) a; Ok (Some b)
                else Ok None);
    hstack_values ins outs.

  Definition print_matrix (x : exporter) (e : engine T) (m : list (list T)) : string :=
    (header_line x e ++ String.concat EmptyString (map (line fmt x) m))%string.

  (* FldExporter.write with the engine model *)
  Definition write_engine (x : exporter) (e : engine T) (input_values : list (list T)) : result string :=
    match length (e_inputs e) with
    | O => Err EInternal                                         (* outside the modelled domain, as in Fld.write *)
    | n =>
        let width := match input_values with [] => O | r :: _ => length r end in
        if (width <? n)%nat then Err EValue
        else do m <- engine_matrix x e input_values; Ok (print_matrix x e m)
    end.

  (* FldExporter.write_from_scope / write_from_reader with the engine model *)
  Definition write_engine_from_scope (pow_root : Z -> nat -> Z) (x : exporter) (e : engine T) (values : Z) (s : scope)
      (active : nat -> bool) : result string :=
    do ins <- scope_inputs pow_root s values e active;
    write_engine x e ins.
  Definition write_engine_from_reader (parse_float : string -> option T) (x : exporter) (e : engine T) (text : string)
      (skip_lines : Z) : result string :=
    do rows <- reader_loop parse_float 0 skip_lines (readlines text);
    if same_length rows then write_engine x e rows else Err EValue.

  (* ---- the same export read row by row through the scalar engine model *)
  (* the engines after every row: restart, then Engine.process on each row in order, state carried from row to row *)
  Definition pipeline_rows (e : engine T) (rows : list (list T)) : result (list (engine T)) :=
    process_rows (restart e) rows.
  (* what the scalar engine holds as inputs for a row (the clipping setter) and what it produces *)
  Definition row_inputs_of (e : engine T) (r : list T) : list T := map (@iv_value T) (e_inputs (set_inputs (restart e) r)).
  Definition row_outputs_of (e_after : engine T) : list T := map (@ov_value T) (e_outputs e_after).

  Definition rows_matrix (x : exporter) (e : engine T) (input_values : list (list T)) : result (list (list T)) :=
    let rows := used_rows (length (e_inputs e)) input_values in
    do es <- pipeline_rows e rows;
    Ok (table (fun _ => map row_outputs_of es) x (map (row_inputs_of e) rows)).

  Definition write_engine_rows (x : exporter) (e : engine T) (input_values : list (list T)) : result string :=
    match length (e_inputs e) with
    | O => Err EInternal
    | n =>
        let width := match input_values with [] => O | r :: _ => length r end in
        if (width <? n)%nat then Err EValue
        else do m <- rows_matrix x e input_values; Ok (print_matrix x e m)
    end.
End FldEngine.
