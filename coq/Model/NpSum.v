(* NpSum.v — the NumPy 1.26.4 reductions used by the integral defuzzifiers, on one C-contiguous float64 row.
   Definitions only.  Generic over the numeric reading `Num T`.

   Measured in this sandbox (tools/props/C09.py re-measures on every run): a literal transcription of
   `np_sum` below equals `numpy.atleast_2d(v).sum(axis=1)` bit for bit, for one row and for every row of a
   C-contiguous (k, n) array (the reduction's inner loop runs along the contiguous axis 1, n elements per row, in both
   cases).  It is NOT what NumPy computes for an F-ordered (k, n) array (there the inner loop runs over the rows and
   each row is summed sequentially); `Aggregated.membership` and the harness terms produce C-ordered arrays.

   numpy/core/src/umath/loops_utils.h.src, DOUBLE_pairwise_sum(a, n, stride):
     if (n < 8)  { res = -0.0; for (i = 0; i < n; i++) res += a[i]; return res; }
     else if (n <= PW_BLOCKSIZE (128)) {
        r[0..7] = a[0..7];
        for (i = 8; i < n - (n % 8); i += 8) r[j] += a[i + j]   (j = 0..7);
        res = ((r[0] + r[1]) + (r[2] + r[3])) + ((r[4] + r[5]) + (r[6] + r[7]));
        for (; i < n; i++) res += a[i];                           (the tail)
        return res; }
     else { n2 = n / 2; n2 -= n2 % 8; return pairwise_sum(a, n2) + pairwise_sum(a + n2, n - n2); }
   and the add-reduction's inner loop is  out = out + pairwise_sum(row)  with out initialised to the identity 0.0. *)
From Coq Require Import ZArith Bool List.
From VF Require Import Num Core.
Import ListNotations.
Set Implicit Arguments.

Section NpSum.
  Context {T : Type} {N : Num T}.

  (* an index or a count (int64 / intp) converted to float64: exact below 2^53 *)
  Definition of_nat (n : nat) : T := lit (Z.of_nat n) 0.

  (* res += a[i] from left to right *)
  Definition seq_add (acc : T) (l : list T) : T := fold_left add l acc.

  Definition acc8 : Type := (T * T * T * T * T * T * T * T)%type.

  (* the 8-accumulator loop: consumes whole blocks of 8 while there are any; nb = fuel (number of blocks) *)
  Fixpoint pw_loop (nb : nat) (r : acc8) (rest : list T) : acc8 * list T :=
    match nb with
    | O => (r, rest)
    | S nb' =>
        match rest with
        | b0 :: b1 :: b2 :: b3 :: b4 :: b5 :: b6 :: b7 :: rest' =>
            let '(r0, r1, r2, r3, r4, r5, r6, r7) := r in
            pw_loop nb' (add r0 b0, add r1 b1, add r2 b2, add r3 b3, add r4 b4, add r5 b5, add r6 b6, add r7 b7) rest'
        | _ => (r, rest)
        end
    end.

  (* n <= 128: fewer than 8 elements sequentially from -0.0; otherwise 8 accumulators, the fixed combination tree, the tail *)
  Definition pw_block (l : list T) : T :=
    match l with
    | a0 :: a1 :: a2 :: a3 :: a4 :: a5 :: a6 :: a7 :: rest =>
        let '((r0, r1, r2, r3, r4, r5, r6, r7), tail) :=
          pw_loop (length rest / 8) (a0, a1, a2, a3, a4, a5, a6, a7) rest in
        seq_add (add (add (add r0 r1) (add r2 r3)) (add (add r4 r5) (add r6 r7))) tail
    | _ => seq_add (neg zero) l
    end.

  (* n = length l.  The recursion is structural on the fuel; fuel >= n suffices (n at least halves at each split). *)
  Fixpoint pw_sum (fuel : nat) (n : nat) (l : list T) : T :=
    match fuel with
    | O => pw_block l
    | S fuel' =>
        if (n <=? 128)%nat then pw_block l
        else
          let h := (n / 2)%nat in
          let n2 := (h - h mod 8)%nat in
          add (pw_sum fuel' n2 (firstn n2 l)) (pw_sum fuel' (n - n2) (skipn n2 l))
    end.

  (* ndarray.sum(axis=1) of one C-contiguous row *)
  Definition np_sum (l : list T) : T := add zero (pw_sum (length l) (length l) l).

  (* numpy.lib.nanfunctions._replace_nan(a, 0) *)
  Definition nan0 (x : T) : T := if isnan x then zero else x.

  (* numpy.add.accumulate: out[0] = a[0]; out[i] = out[i-1] + a[i] *)
  Fixpoint cumsum_from (acc : T) (l : list T) : list T :=
    match l with
    | [] => []
    | x :: t => let a := add acc x in a :: cumsum_from a t
    end.
  Definition cumsum (l : list T) : list T :=
    match l with [] => [] | x :: t => x :: cumsum_from x t end.
  Definition nancumsum (l : list T) : list T := cumsum (map nan0 l).

  Definition count_notnan (l : list T) : nat := length (filter (fun x => negb (isnan x)) l).

  (* numpy.nanmean(a, axis=1): np.sum(replace_nan(a, 0)) / np.sum(~isnan(a), dtype=intp); 0/0 = NaN on an all-NaN row *)
  Definition nanmean (l : list T) : T := div (np_sum (map nan0 l)) (of_nat (count_notnan l)).

  (* numpy.fmax / fmin (the reductions behind nanmax / nanmin): ignore a NaN operand *)
  Definition fmax_ (a b : T) : T := if geb a b || isnan b then a else b.
  Definition fmin_ (a b : T) : T := if leb a b || isnan b then a else b.

  (* ufunc.reduce without identity: starts from the first element; ValueError on a zero-size row *)
  Definition reduce1 (f : T -> T -> T) (l : list T) : result T :=
    match l with [] => Err EValue | x :: t => Ok (fold_left f t x) end.
  Definition amax : list T -> result T := reduce1 nmax.      (* ndarray.max(axis=1): NaN-propagating *)
  Definition amin : list T -> result T := reduce1 nmin.      (* ndarray.min(axis=1): NaN-propagating *)
  Definition nanmax : list T -> result T := reduce1 fmax_.   (* numpy.nanmax(axis=1): NaN only if all NaN *)
  Definition nanmin : list T -> result T := reduce1 fmin_.   (* numpy.nanmin(axis=1) *)

  (* a[:, [-1]]: IndexError on a zero-size row *)
  Fixpoint last_elem (l : list T) : result T :=
    match l with [] => Err EInternal | [x] => Ok x | _ :: t => last_elem t end.

  (* elementwise binary operation on two rows of the same length (the caller checks the lengths) *)
  Fixpoint map2 {A B C : Type} (f : A -> B -> C) (la : list A) (lb : list B) : list C :=
    match la, lb with
    | a :: ta, b :: tb => f a b :: map2 f ta tb
    | _, _ => []
    end.
End NpSum.
