(* Discrete.membership = height * numpy.interp(x, xp, fp)   (numpy 1.26 compiled_base.c: arr_interp,
   for xp sorted in ascending order, as Discrete requires). *)
From Coq Require Import ZArith Bool List.
From VF Require Import Num.
Import ListNotations.

Section Discrete.
  Context {T : Type} {N : Num T}.

  (* the pair (xp[j], fp[j]) and its successor for the last j with xp[j] <= x, scanning a sorted list *)
  Fixpoint seek (x : T) (cur : T * T) (rest : list (T * T)) : (T * T) * option (T * T) :=
    match rest with
    | [] => (cur, None)
    | nxt :: tl => if leb (fst nxt) x then seek x nxt tl else (cur, Some nxt)
    end.

  Definition interp (xy : list (T * T)) (x : T) : T :=
    match xy with
    | [] => nan                                  (* Discrete.membership raises ValueError before reaching interp *)
    | [only] =>                                  (* lenxp == 1: no NaN test on x *)
      if ltb x (fst only) then snd only else if gtb x (fst only) then snd only else snd only
    | first :: rest =>
      if isnan x then nan
      else
        let lst := last xy first in
        if gtb x (fst lst) then snd lst           (* right of the table: fp[-1] *)
        else if ltb x (fst first) then snd first  (* left of the table: fp[0] *)
        else
          match seek x first rest with
          | (cur, None) => snd cur                (* j = len-1 *)
          | (cur, Some nxt) =>
            if eqb (fst cur) x then snd cur
            else
              let slope := div (sub (snd nxt) (snd cur)) (sub (fst nxt) (fst cur)) in
              let r := add (mul slope (sub x (fst cur))) (snd cur) in
              if isnan r then
                let r2 := add (mul slope (sub x (fst nxt))) (snd nxt) in
                if isnan r2 && eqb (snd cur) (snd nxt) then snd cur else r2
              else r
          end
    end.

  Definition Discrete_membership (xy : list (T * T)) (height : T) (x : T) : T := mul height (interp xy x).
End Discrete.
