(* Weighted.v — model of the weighted defuzzifiers (C10): Aggregated.grouped_terms / activation_degree
   (fuzzylite/term.py 481-513, with the sanitising Activated.degree setter, 339-350) and
   WeightedDefuzzifier.infer_type, WeightedAverage.defuzzify, WeightedSum.defuzzify
   (fuzzylite/defuzzifier.py 420-450, 486-535, 548-600).  Definitions only; proofs are in Proofs/WeightedProofs.v.
   Generic over the numeric reading `Num T`.

   The code, for reference:

       def grouped_terms(self):                                   # term.py
           aggregation = self.aggregation or UnboundedSum()
           groups: dict[str, Activated] = {}
           for activated in self.terms:
               if activated.term.name not in groups:
                   groups[activated.term.name] = Activated(activated.term, activated.degree, implication=None)
                   continue
               aggregated_term = groups[activated.term.name]
               aggregated_term.degree = aggregation.compute(aggregated_term.degree, activated.degree)
           return groups
       def activation_degree(self, term):
           activated = self.grouped_terms().get(term.name)
           return activated.degree if activated else scalar(0.0)

       def defuzzify(self, term, minimum=nan, maximum=nan):       # defuzzifier.py, WeightedAverage
           this_type = self.type
           if self.type == WeightedDefuzzifier.Type.Automatic:
               this_type = self.infer_type(fuzzy_output)          # raises TypeError on several distinct types
           weighted_sum = scalar(0.0 if fuzzy_output.terms else nan)
           weights = scalar(0.0)
           membership = "tsukamoto" if this_type == Tsukamoto else "membership"
           for activated in fuzzy_output.grouped_terms().values():
               w = activated.degree
               z = activated.term.__getattribute__(membership)(w)
               weighted_sum = weighted_sum + np.where(w == 0.0, 0.0, w * z)   # guarded since the repair of finding F4
               weights = weights + w
           y = (weighted_sum / weights).squeeze()                 # WeightedSum: y = ((weighted_sum / weights) * weights).squeeze()
           return y

   One row of a batch at a time: every operation above is element-wise, so the result for array degrees is the
   list of the row results (checked by the correspondence, tools/props/C10.py).
   Not modelled: the Python kind of the result (numpy.float64 / 0-d / 1-d ndarray; that is finding F2's business),
   NumPy warnings, and the `ValueError` for an argument that is not an Aggregated term. *)
From Coq Require Import ZArith Bool List String.
From VF Require Import Num GenNorm GenTerm Core.
Import ListNotations.
Set Implicit Arguments.

Definition wtype_eqb (a b : wtype) : bool :=
  match a, b with
  | WAutomatic, WAutomatic | WTakagiSugeno, WTakagiSugeno | WTsukamoto, WTsukamoto => true
  | _, _ => false
  end.

Section Weighted.
  Context {T : Type} {N : Num T}.

  Definition act_name (a : activated T) : string := term_name (a_term a).

  (* ---- Aggregated.grouped_terms ------------------------------------------------------------------ *)
  (* self.aggregation or UnboundedSum() *)
  Definition agg_or_sum (agg : option snormx) : snormx :=
    match agg with Some a => a | None => SN S_UnboundedSum end.

  (* Activated(activated.term, activated.degree, implication=None): the constructor assigns through the setter *)
  Definition new_group (a : activated T) : activated T :=
    {| a_term := a_term a; a_degree := sanitize (a_degree a); a_implication := None |}.
  (* aggregated_term.degree = aggregation.compute(aggregated_term.degree, activated.degree): the term object
     of the group stays the one of the FIRST occurrence of the name *)
  Definition update_group (s : snormx) (g a : activated T) : activated T :=
    {| a_term := a_term g; a_degree := sanitize (snormx_compute s (a_degree g) (a_degree a));
       a_implication := a_implication g |}.

  (* one iteration of the loop on the dict `groups` (an association list in insertion order) *)
  Fixpoint group_insert (s : snormx) (a : activated T) (groups : list (activated T)) : list (activated T) :=
    match groups with
    | [] => [new_group a]
    | g :: rest => if String.eqb (act_name g) (act_name a) then update_group s g a :: rest
                   else g :: group_insert s a rest
    end.

  (* grouped_terms().values(), in dict (= first occurrence) order *)
  Definition grouped_terms (agg : option snormx) (l : list (activated T)) : list (activated T) :=
    fold_left (fun groups a => group_insert (agg_or_sum agg) a groups) l [].

  (* Aggregated.activation_degree(term): only the NAME of the argument is used *)
  Definition activation_degree (agg : option snormx) (l : list (activated T)) (name : string) : T :=
    match find (fun g => String.eqb (act_name g) name) (grouped_terms agg l) with
    | Some g => a_degree g
    | None => zero
    end.

  (* ---- WeightedDefuzzifier.infer_type ------------------------------------------------------------- *)
  (* on a term: Constant / Linear / Function -> TakagiSugeno; is_monotonic() -> Tsukamoto; else Automatic
     ("inverse Tsukamoto").  Discrete inherits Term.is_monotonic (False). *)
  Definition term_wtype (t : term T) : wtype :=
    match t with
    | TShape _ (Sh_Constant _) => WTakagiSugeno
    | TShape _ s => if shape_monotonic s then WTsukamoto else WAutomatic
    | TDiscrete _ _ _ => WAutomatic
    | TLinear _ _ => WTakagiSugeno
    | TFunction _ _ _ => WTakagiSugeno
    end.

  (* on the fuzzy output: types = {infer_type(t) for t in terms} over ALL activations (not the groups);
     one element -> it; none -> Automatic; several -> raise TypeError *)
  Definition infer_type (l : list (activated T)) : result wtype :=
    match l with
    | [] => Ok WAutomatic
    | a :: rest =>
      let ty := term_wtype (a_term a) in
      if forallb (fun b => wtype_eqb (term_wtype (a_term b)) ty) rest then Ok ty else Err EInternal
    end.

  (* this_type *)
  Definition resolve_type (ty : wtype) (l : list (activated T)) : result wtype :=
    match ty with WAutomatic => infer_type l | _ => Ok ty end.

  (* ---- the term evaluations, provided by the engine model ----------------------------------------- *)
  Variable tmembership : term T -> T -> result T.   (* term.membership(w) *)
  Variable ttsukamoto : term T -> T -> result T.    (* term.tsukamoto(w) *)

  (* z = activated.term.__getattribute__(membership)(w) *)
  Definition term_value (this_type : wtype) (t : term T) (w : T) : result T :=
    match this_type with WTsukamoto => ttsukamoto t w | _ => tmembership t w end.

  (* np.where(w == 0.0, 0.0, w * z): an activation of degree 0 (or -0.0) contributes nothing even when z is
     infinite or NaN (0 * inf = nan: finding F4, repaired in /repo by `fix: weighted defuzzifiers returned nan when an
     activation had degree zero and an infinite value`).  A NaN degree is not equal to 0, so the product is used
     (the setter never stores NaN anyway). *)
  Definition wcontrib (w z : T) : T := where_ (eqb w zero) zero (mul w z).

  (* the loop over the groups; state = (weighted_sum, weights) *)
  Fixpoint wloop (this_type : wtype) (groups : list (activated T)) (st : T * T) : result (T * T) :=
    match groups with
    | [] => Ok st
    | g :: rest =>
      let w := a_degree g in
      do z <- term_value this_type (a_term g) w;
      wloop this_type rest (add (fst st) (wcontrib w z), add (snd st) w)
    end.

  (* weighted_sum = 0.0 if fuzzy_output.terms else nan;  weights = 0.0 *)
  Definition winit (l : list (activated T)) : T * T :=
    (match l with [] => nan | _ :: _ => zero end, zero).

  (* the final expression: average  ws / weights;  sum  (ws / weights) * weights, as written *)
  Definition wfinal (average : bool) (st : T * T) : T :=
    if average then div (fst st) (snd st) else mul (div (fst st) (snd st)) (snd st).

  (* Weighted{Average,Sum}(ty).defuzzify(Aggregated(aggregation=agg, terms=l)) *)
  Definition weighted_defuzzify (average : bool) (ty : wtype) (agg : option snormx) (l : list (activated T)) : result T :=
    do this_type <- resolve_type ty l;
    do st <- wloop this_type (grouped_terms agg l) (winit l);
    Ok (wfinal average st).
  Definition weighted_average := weighted_defuzzify true.
  Definition weighted_sum := weighted_defuzzify false.

  (* through the `defuzzifier` type of Core (integral defuzzifiers are Model/Defuzz.v's business) *)
  Definition defuzzify_weighted (d : defuzzifier) (agg : option snormx) (l : list (activated T)) : option (result T) :=
    match d with DWeighted average ty => Some (weighted_defuzzify average ty agg l) | DIntegral _ _ => None end.
End Weighted.

(* ---- the standard term evaluations for the terms that do not need the engine ----------------------- *)
Section Standard.
  Context {T : Type} {N : Num T}.

  (* values of the engine-dependent terms (Linear, Function; also Discrete here), by term name, as the engine
     (or the harness, from the implementation) evaluates them; a missing entry is a modelling error *)
  Definition value_table := list (string * result T).
  Definition table_lookup (tbl : value_table) (name : string) : result T :=
    match find (fun p => String.eqb (fst p) name) tbl with Some p => snd p | None => Err EInternal end.

  Definition std_membership (tbl : value_table) (t : term T) (w : T) : result T :=
    match t with
    | TShape _ s => Ok (shape_membership s w)
    | _ => table_lookup tbl (term_name t)
    end.
  (* Term.tsukamoto raises RuntimeError unless the class overrides it (the six monotonic shapes) *)
  Definition std_tsukamoto (t : term T) (w : T) : result T :=
    match t with
    | TShape _ s => match shape_tsukamoto s with Some f => Ok (f w) | None => Err ERuntime end
    | _ => Err ERuntime
    end.
  Definition has_tsukamoto (t : term T) : bool :=
    match t with TShape _ s => match shape_tsukamoto s with Some _ => true | None => false end | _ => false end.

  Definition std_defuzzify (tbl : value_table) := weighted_defuzzify (std_membership tbl) std_tsukamoto.
End Standard.
