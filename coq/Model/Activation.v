(* Model/Activation.v — fuzzylite/activation.py: the seven `activate` loops as they are written,
   over an abstract rule-block state (definitions only; proofs are in Proofs/ActivationProofs.v).

   The loops are generic in HOW a rule is evaluated and triggered: the engine-level model supplies
   `rule_ops` (Rule.is_loaded / deactivate / activate_with / trigger, reading and writing
   `Rule.activation_degree`), this file supplies the control flow of
   General, First, Last, Highest, Lowest, Proportional, Threshold and `assert_is_not_vector`.
   `activate_with` is evaluated against the CURRENT state (an antecedent may read the fuzzy output
   accumulated by rules triggered earlier in the same loop), so the interleaving of evaluation and
   triggering is part of the model: General/First/Last/Threshold evaluate and trigger rule by rule,
   Highest/Lowest/Proportional evaluate every loaded rule first and trigger afterwards.

   Trusted here (DESIGN §4): `heapq.heappush/heappop` on tuples `(key, index)` pop in increasing
   order of Python's tuple comparison; the heap is modelled as the list of pushed pairs and a pop as
   the extraction of the minimum under that comparison.

   The second half instantiates the loops on a simple concrete block (`cstate`): every rule has a
   fixed value for `weight * antecedent degree`, and every deactivate / activate_with / trigger call is
   logged.  That instance is what the correspondence executes against the real classes and what the
   theorems of Properties/C08.v are about. *)
From Coq Require Import ZArith Bool List.
From VF Require Import Num Core.
Import ListNotations.
Set Implicit Arguments.

(* ------------------------------------------------------------------------------------------ *)
(* 1. The loops, generic in the state                                                          *)
(* ------------------------------------------------------------------------------------------ *)

(* What the loops need from a rule block whose rules are addressed by position. *)
Record rule_ops (T S : Type) : Type := {
  op_is_loaded : S -> nat -> bool;                  (* Rule.is_loaded() *)
  op_deactivate : S -> nat -> S;                    (* Rule.deactivate(): degree := 0.0, triggered := False *)
  op_activate_with : S -> nat -> result (T * S);    (* Rule.activate_with(conjunction, disjunction): computes
                                                       weight * antecedent degree in the current state, stores it in
                                                       the rule and returns it; RuntimeError when not loaded *)
  op_trigger : S -> nat -> result S;                (* Rule.trigger(implication): honours Rule.enabled *)
  op_degree : S -> nat -> T;                        (* reads Rule.activation_degree *)
  op_set_degree : S -> nat -> T -> S;               (* writes Rule.activation_degree *)
  op_degree_size : S -> nat -> nat                  (* numpy.size(Rule.activation_degree): 1 for scalars *)
}.

Section Loops.
  Context {T : Type} {N : Num T} {S : Type}.
  Variable ops : rule_ops T S.

  (* Activation.assert_is_not_vector(activation_degree), activation.py:98-110, applied to the degree
     just stored in rule i: ValueError when it has more than one element.
     Not modelled: a batch of ONE row (ndarray of shape (1,)) passes this check like a scalar, but
     Proportional then fails in NumPy (`sum_degrees += activation_degree` on a 0-d array: ValueError
     "non-broadcastable output operand"); size <= 1 here means a numpy.float64 scalar. *)
  Definition assert_is_not_vector (s : S) (i : nat) : result unit :=
    if (1 <? op_degree_size ops s i)%nat then Err EValue else Ok tt.

  (* Threshold.Comparator.__operator__ : operator.lt/le/eq/ne/ge/gt applied to (degree, threshold) *)
  Definition cmp_apply (c : comparator) (a t : T) : bool :=
    match c with
    | CmpLt => ltb a t
    | CmpLe => leb a t
    | CmpEq => eqb a t
    | CmpNe => negb (eqb a t)
    | CmpGe => leb t a       (* a >= t *)
    | CmpGt => ltb t a       (* a > t *)
    end.

  (* `activated < self.rules and activation_degree > 0.0 and activation_degree >= self.threshold` *)
  Definition first_cond (n : Z) (t : T) (activated : Z) (d : T) : bool :=
    (activated <? n)%Z && (gtb d zero && geb d t).

  (* ---- General.activate, activation.py:122-136:
         for rule in rules: rule.deactivate(); if rule.is_loaded(): rule.activate_with(..); rule.trigger(..) *)
  Fixpoint general_loop (l : list nat) (s : S) : result S :=
    match l with
    | [] => Ok s
    | i :: l' =>
        let s := op_deactivate ops s i in
        if op_is_loaded ops s i then
          do ds <- op_activate_with ops s i;
          do s <- op_trigger ops (snd ds) i;
          general_loop l' s
        else general_loop l' s
    end.

  (* ---- First.activate (178-202) over `iter(rules)`, Last.activate (244-268) over `reversed(rules)`:
         the two bodies are textually identical; `l` is the iteration order.  Every loaded rule is still
         evaluated (activate_with) after `activated` has reached n. *)
  Fixpoint first_loop (n : Z) (t : T) (l : list nat) (activated : Z) (s : S) : result S :=
    match l with
    | [] => Ok s
    | i :: l' =>
        let s := op_deactivate ops s i in
        if op_is_loaded ops s i then
          do ds <- op_activate_with ops s i;
          let (d, s) := ds in
          do _ <- assert_is_not_vector s i;
          if first_cond n t activated d then
            do s <- op_trigger ops s i;
            first_loop n t l' (activated + 1)%Z s
          else first_loop n t l' activated s
        else first_loop n t l' activated s
    end.

  (* ---- Highest.activate (306-330) / Lowest.activate (368-392).
     Python compares the heap entries `(key, index)` as tuples: the first components decide unless
     they are `==`, then the indices decide. *)
  Definition key_lt (a b : T * nat) : bool :=
    if eqb (fst a) (fst b) then (snd a <? snd b)%nat else ltb (fst a) (fst b).

  (* heappop: the least entry and the remaining entries (None on an empty heap) *)
  Fixpoint extract_min (h : list (T * nat)) : option ((T * nat) * list (T * nat)) :=
    match h with
    | [] => None
    | x :: h' =>
        match extract_min h' with
        | None => Some (x, [])
        | Some (m, rest) => if key_lt m x then Some (m, x :: rest) else Some (x, h')
        end
    end.

  (* first loop: deactivate, evaluate, push `(key degree, index)` when degree > 0.0 *)
  Fixpoint heap_collect (key : T -> T) (l : list nat) (heap : list (T * nat)) (s : S)
      : result (list (T * nat) * S) :=
    match l with
    | [] => Ok (heap, s)
    | i :: l' =>
        let s := op_deactivate ops s i in
        if op_is_loaded ops s i then
          do ds <- op_activate_with ops s i;
          let (d, s) := ds in
          do _ <- assert_is_not_vector s i;
          if gtb d zero then heap_collect key l' (heap ++ [(key d, i)]) s
          else heap_collect key l' heap s
        else heap_collect key l' heap s
    end.

  (* `while activate and activated < self.rules: index = heappop(activate)[1]; rules[index].trigger(..); activated += 1`
     (fuel = number of heap entries; each iteration pops one) *)
  Fixpoint heap_pop_loop (fuel : nat) (n : Z) (activated : Z) (heap : list (T * nat)) (s : S) : result S :=
    match fuel with
    | O => Ok s
    | Datatypes.S fuel' =>
        match extract_min heap with
        | None => Ok s
        | Some (m, rest) =>
            if (activated <? n)%Z then
              do s <- op_trigger ops s (snd m);
              heap_pop_loop fuel' n (activated + 1)%Z rest s
            else Ok s
        end
    end.

  Definition heap_activate (key : T -> T) (n : Z) (l : list nat) (s : S) : result S :=
    do hs <- heap_collect key l [] s;
    heap_pop_loop (length (fst hs)) n 0%Z (fst hs) (snd hs).

  (* ---- Proportional.activate (406-430): sum_degrees starts at scalar(0.0) and accumulates in rule order *)
  Fixpoint prop_collect (l : list nat) (acc : list nat) (sum : T) (s : S) : result (list nat * T * S) :=
    match l with
    | [] => Ok (acc, sum, s)
    | i :: l' =>
        let s := op_deactivate ops s i in
        if op_is_loaded ops s i then
          do ds <- op_activate_with ops s i;
          let (d, s) := ds in
          do _ <- assert_is_not_vector s i;
          if gtb d zero then prop_collect l' (acc ++ [i]) (add sum d) s
          else prop_collect l' acc sum s
        else prop_collect l' acc sum s
    end.

  (* `for rule in activate: rule.activation_degree /= sum_degrees; rule.trigger(implication)` *)
  Fixpoint prop_trigger (acc : list nat) (sum : T) (s : S) : result S :=
    match acc with
    | [] => Ok s
    | i :: acc' =>
        let s := op_set_degree ops s i (div (op_degree ops s i) sum) in
        do s <- op_trigger ops s i;
        prop_trigger acc' sum s
    end.

  Definition prop_activate (l : list nat) (s : S) : result S :=
    do r <- prop_collect l [] zero s;
    let '(acc, sum, s) := r in prop_trigger acc sum s.

  (* ---- Threshold.activate (525-541) *)
  Fixpoint threshold_loop (c : comparator) (t : T) (l : list nat) (s : S) : result S :=
    match l with
    | [] => Ok s
    | i :: l' =>
        let s := op_deactivate ops s i in
        if op_is_loaded ops s i then
          do ds <- op_activate_with ops s i;
          let (d, s) := ds in
          do _ <- assert_is_not_vector s i;
          if cmp_apply c d t then
            do s <- op_trigger ops s i;
            threshold_loop c t l' s
          else threshold_loop c t l' s
        else threshold_loop c t l' s
    end.

  (* ---- Activation.activate(rule_block) on the iteration order `l` of rule positions.
     `enumerate(rule_block.rules)` makes the heap index of a rule its position, so `l` is `seq 0 n`. *)
  Definition activate_on (m : activation T) (l : list nat) (s : S) : result S :=
    match m with
    | AGeneral => general_loop l s
    | AFirst n t => first_loop n t l 0%Z s
    | ALast n t => first_loop n t (rev l) 0%Z s
    | AHighest n => heap_activate neg n l s           (* heappush(activate, (-activation_degree, index)) *)
    | ALowest n => heap_activate (fun d => d) n l s   (* heappush(activate, (activation_degree, index)) *)
    | AProportional => prop_activate l s
    | AThreshold c t => threshold_loop c t l s
    end.

  (* a block of `nrules` rules *)
  Definition activate (m : activation T) (nrules : nat) (s : S) : result S :=
    activate_on m (seq 0 nrules) s.
End Loops.

(* ------------------------------------------------------------------------------------------ *)
(* 2. A concrete block: fixed degrees, logged calls                                            *)
(* ------------------------------------------------------------------------------------------ *)
Section Concrete.
  Context {T : Type} {N : Num T}.

  (* what activation never changes about a rule *)
  Record rstatic : Type := {
    rs_loaded : bool;        (* Rule.is_loaded() *)
    rs_enabled : bool;       (* Rule.enabled *)
    rs_value : T;            (* weight * antecedent.activation_degree(..): what activate_with computes *)
    rs_size : nat            (* numpy.size of that value: 1 (or 0) in scalar mode, > 1 for a batch *)
  }.
  Record crule : Type := {
    cr_static : rstatic;
    cr_degree : T;           (* Rule.activation_degree *)
    cr_triggered : bool      (* Rule.triggered *)
  }.
  Inductive event : Type :=
    | EvDeactivate (i : nat)           (* rules[i].deactivate() *)
    | EvEval (i : nat)                 (* rules[i].activate_with(..) *)
    | EvTrigger (i : nat) (d : T).     (* rules[i].trigger(..) called while rules[i].activation_degree = d *)
  Record cstate : Type := { cs_rules : list crule; cs_events : list event }.

  Definition cget (s : cstate) (i : nat) : option crule := nth_error (cs_rules s) i.
  Fixpoint list_set (l : list crule) (i : nat) (r : crule) : list crule :=
    match l, i with
    | [], _ => []
    | _ :: l', O => r :: l'
    | x :: l', Datatypes.S i' => x :: list_set l' i' r
    end.
  Definition cset (s : cstate) (i : nat) (r : crule) : cstate :=
    {| cs_rules := list_set (cs_rules s) i r; cs_events := cs_events s |}.
  Definition clog (s : cstate) (e : event) : cstate :=
    {| cs_rules := cs_rules s; cs_events := cs_events s ++ [e] |}.

  Definition c_is_loaded (s : cstate) (i : nat) : bool :=
    match cget s i with Some r => rs_loaded (cr_static r) | None => false end.

  (* rule.py:828-831 *)
  Definition c_deactivate (s : cstate) (i : nat) : cstate :=
    match cget s i with
    | Some r => clog (cset s i {| cr_static := cr_static r; cr_degree := zero; cr_triggered := false |}) (EvDeactivate i)
    | None => s
    end.

  (* rule.py:833-848 *)
  Definition c_activate_with (s : cstate) (i : nat) : result (T * cstate) :=
    match cget s i with
    | Some r =>
        if rs_loaded (cr_static r) then
          Ok (rs_value (cr_static r),
              clog (cset s i {| cr_static := cr_static r; cr_degree := rs_value (cr_static r);
                                cr_triggered := cr_triggered r |}) (EvEval i))
        else Err ERuntime
    | None => Err EInternal
    end.

  (* rule.py:850-864: triggered := False; RuntimeError when not loaded; when enabled the consequent is
     modified with the stored degree and triggered := degree > 0.0 *)
  Definition c_trigger (s : cstate) (i : nat) : result cstate :=
    match cget s i with
    | Some r =>
        if rs_loaded (cr_static r) then
          Ok (clog (cset s i {| cr_static := cr_static r; cr_degree := cr_degree r;
                                cr_triggered := rs_enabled (cr_static r) && gtb (cr_degree r) zero |})
                   (EvTrigger i (cr_degree r)))
        else Err ERuntime
    | None => Err EInternal
    end.

  Definition c_degree (s : cstate) (i : nat) : T :=
    match cget s i with Some r => cr_degree r | None => zero end.
  Definition c_set_degree (s : cstate) (i : nat) (d : T) : cstate :=
    match cget s i with
    | Some r => cset s i {| cr_static := cr_static r; cr_degree := d; cr_triggered := cr_triggered r |}
    | None => s
    end.
  Definition c_degree_size (s : cstate) (i : nat) : nat :=
    match cget s i with Some r => rs_size (cr_static r) | None => 1%nat end.

  Definition cops : rule_ops T cstate := {|
    op_is_loaded := c_is_loaded; op_deactivate := c_deactivate; op_activate_with := c_activate_with;
    op_trigger := c_trigger; op_degree := c_degree; op_set_degree := c_set_degree;
    op_degree_size := c_degree_size |}.

  (* RuleBlock.activate() with method m on the block b, starting with an empty log *)
  Definition run (m : activation T) (b : list crule) : result cstate :=
    activate cops m (length b) {| cs_rules := b; cs_events := [] |}.

  (* the trigger calls of a log, in order: (rule position, degree held by the rule at the call) *)
  Fixpoint triggers_of (evs : list event) : list (nat * T) :=
    match evs with
    | [] => []
    | EvTrigger i d :: evs' => (i, d) :: triggers_of evs'
    | _ :: evs' => triggers_of evs'
    end.
  Fixpoint evals_of (evs : list event) : list nat :=
    match evs with
    | [] => []
    | EvEval i :: evs' => i :: evals_of evs'
    | _ :: evs' => evals_of evs'
    end.
  Fixpoint deactivations_of (evs : list event) : list nat :=
    match evs with
    | [] => []
    | EvDeactivate i :: evs' => i :: deactivations_of evs'
    | _ :: evs' => deactivations_of evs'
    end.
  Definition trigger_calls (r : result cstate) : list (nat * T) :=
    match r with Ok s => triggers_of (cs_events s) | Err _ => [] end.
End Concrete.
Arguments rstatic T : clear implicits.
Arguments crule T : clear implicits.
Arguments event T : clear implicits.
Arguments cstate T : clear implicits.
