(* Formula.v — the Function term (fuzzylite/term.py 2648-3252): Function.parse (postfix -> tree), Function.Node.evaluate,
   Function.Node.postfix, Function.membership, and the element methods of FunctionFactory (fuzzylite/factory.py 380-790,
   fuzzylite/operation.py Op.gt/ge/eq/neq/le/lt).  Definitions only.
   The infix -> postfix stage and the tokeniser are the shared ones of Model/ShuntingYard.v.

   Python                                              here
   Function.Node(element | variable | constant)        Core.fnode: FElem0/1/2 name … | FVar v | FConst c
                                                       (FElem1 name x: x is node.right, the only child parse() sets)
   factory.objects[token] (Element: arity, method)     lookup tbl token  (tbl = Gen/GenOpTable.op_table; en_arity, en_method)
   to_float(token) succeeds / raises ValueError        parse_number token = Some c / None      (see `decimal_number`)
   numpy.float64 / Python float value                  VF x
   numpy.bool_ value (np.logical_and/or/not)           VB b
   a number that is not a boolean but whose value and  VN   — arises only when a boolean is used as a number: np.remainder/fmod of
     dtype (float64 / float16 / int8) the model does          two booleans (int8), float ufuncs on a boolean (float16), and
     not determine                                            whatever is computed from such values
   a numpy.bool_ whose value the model does not        VBu  (a logical operation on a VN)
     determine
   libm / rounding ufuncs (exp, log, float_power, …)   oracle method a b  (recorded from the implementation by the harness)
   SyntaxError / ValueError / TypeError / RuntimeError Err ESyntax / EValue / EInternal / ERuntime
   (Err ELookup = the MODEL has no answer: an oracle miss or a method/arity combination outside the table.)

   Arrays: NumPy evaluates a formula elementwise (every element method is a ufunc or built from ufuncs, min/max included:
   np.minimum/np.maximum); `evaluate_rows` maps the scalar evaluator over the rows. *)
From Coq Require Import ZArith Bool List String Ascii.
From VF Require Import Num Core ShuntingYard.
Import ListNotations.
Local Open Scope string_scope.
Local Open Scope list_scope.

(* dict lookup on an association list with unique keys *)
Fixpoint assoc {A : Type} (k : string) (l : list (string * A)) : option A :=
  match l with
  | [] => None
  | (k', v) :: tl => if String.eqb k' k then Some v else assoc k tl
  end.
Definition mem_str (s : string) (l : list string) : bool := existsb (String.eqb s) l.

Section Values.
  Context {T : Type}.
  Inductive value : Type := VF (x : T) | VB (b : bool) | VN | VBu.
End Values.
Arguments value T : clear implicits.

(* ---- number literals decidable here: digits[.digits] | .digits with at most 15 digits in all.
        For these m < 10^15 < 2^53 and 10^k (k <= 15) are exact, so ONE correctly rounded division gives the correctly rounded
        decimal value = Python's float(token) (Clinger's fast path).  Everything else float() accepts (exponents, inf, nan,
        underscores, longer literals) is supplied by the harness as a table, see `number_of`. *)
Definition digit_of (c : ascii) : option Z :=
  let n := N_of_ascii c in if ((48 <=? n) && (n <=? 57))%N then Some (Z.of_N n - 48)%Z else None.
(* returns (mantissa, number of digits, number of digits after the point) *)
Fixpoint dec_scan (s : string) (m : Z) (nd : nat) (frac : option nat) : option (Z * nat * nat) :=
  match s with
  | EmptyString => Some (m, nd, match frac with Some k => k | None => O end)
  | String c s' =>
      match digit_of c with
      | Some d => dec_scan s' (10 * m + d)%Z (S nd) (match frac with Some k => Some (S k) | None => None end)
      | None => if Ascii.eqb c "."%char then match frac with None => dec_scan s' m nd (Some O) | Some _ => None end
                else None
      end
  end.
Definition decimal_number {T : Type} {NT : Num T} (s : string) : option T :=
  match dec_scan s 0%Z O None with
  | Some (m, nd, k) =>
      if (Nat.ltb 0 nd && Nat.leb nd 15)%bool
      then Some (match k with O => lit m 0 | _ => div (lit m 0) (lit (10 ^ Z.of_nat k) 0) end)
      else None
  | None => None
  end.
Definition number_of {T : Type} {NT : Num T} (extra : list (string * T)) (s : string) : option T :=
  match decimal_number s with Some v => Some v | None => assoc s extra end.

(* ---- recorded results: (method, a, b, result); unary methods are recorded with b = 0.
        `same` is argument identity (NaN = NaN, -0 <> +0): NumF.fsame for floats. *)
Fixpoint olookup {T : Type} (same : T -> T -> bool) (tab : list (string * T * T * T)) (m : string) (a b : T) : option T :=
  match tab with
  | [] => None
  | (m', x, y, r) :: tl => if (String.eqb m' m && same x a && same y b)%bool then Some r else olookup same tl m a b
  end.

Section Formula.
  Context {T : Type} {NT : Num T}.
  Variable tbl : table.
  Variable parse_number : string -> option T.
  Variable oracle : string -> T -> T -> option T.

  (* ================= Function.parse, second half: postfix tokens -> tree ================= *)
  (*   try: node = Node(constant=to_float(token))  except ValueError: node = Node(variable=token) *)
  Definition leaf_of (s : string) : fnode T :=
    match parse_number s with Some c => FConst c | None => FVar s end.

  (* one iteration of `for token in postfix.split()`; `leaf` is the treatment of operands (leaf_of in the model) *)
  Definition build_step (leaf : string -> fnode T) (tok : string) (stack : list (fnode T)) : result (list (fnode T)) :=
    match lookup tbl tok with
    | Some e =>
        if Nat.ltb (List.length stack) (en_arity e) then Err ESyntax          (* element.arity > len(stack) *)
        else match en_arity e with
             | O => Ok (FElem0 tok :: stack)
             | 2%nat => match stack with                                        (* node.right = pop(); node.left = pop() *)
                        | r :: l :: rest => Ok (FElem2 tok l r :: rest)
                        | _ => Err ESyntax                                      (* excluded by the guard above *)
                        end
             | _ => match stack with                                            (* arity >= 1: node.right = pop()  (arity 3+: only that) *)
                    | r :: rest => Ok (FElem1 tok r :: rest)
                    | [] => Err ESyntax                                         (* excluded by the guard above *)
                    end
             end
    | None => if is_paren_tok tok then Ok stack                                 (* neither `element` nor `is_operand`: skipped *)
              else Ok (leaf tok :: stack)
    end.

  Fixpoint build_run (leaf : string -> fnode T) (toks : list string) (stack : list (fnode T)) : result (list (fnode T)) :=
    match toks with
    | [] => Ok stack
    | t :: ts => match build_step leaf t stack with Ok s => build_run leaf ts s | Err e => Err e end
    end.

  (* if len(stack) != 1: raise SyntaxError; return stack[-1] *)
  Definition build_gen (leaf : string -> fnode T) (toks : list string) : result (fnode T) :=
    match build_run leaf toks [] with
    | Ok [t] => Ok t
    | Ok _ => Err ESyntax
    | Err e => Err e
    end.

  Definition build : list string -> result (fnode T) := build_gen leaf_of.
  (* the same builder keeping every operand as a name: the purely syntactic tree *)
  Definition build_syn : list string -> result (fnode T) := build_gen (fun s => FVar s).

  (* Function.parse on the tokens of the formatted formula *)
  Definition parse (toks : list string) : result (fnode T) :=
    match infix_to_postfix tbl toks with Ok p => build p | Err e => Err e end.
  (* Function.parse(formula) *)
  Definition parse_text (kw_and kw_or : string) (formula : string) : result (fnode T) :=
    parse (format_infix_tokens tbl kw_and kw_or formula).

  (* ================= Function.Node.postfix (as a token list; `show` = Op.str) ================= *)
  Variable show : T -> string.
  Fixpoint postfix (t : fnode T) : list string :=
    match t with
    | FConst c => [show c]
    | FVar v => [v]
    | FElem0 n => [n]
    | FElem1 n x => postfix x ++ [n]
    | FElem2 n l r => postfix l ++ postfix r ++ [n]
    end.

  (* ================= element methods ================= *)
  (* np.logical_*: truth value = non-zero (NaN is true) *)
  Definition truth (v : value T) : bool :=
    match v with VF x => negb (eqb x zero) | VB b => b | _ => false end.       (* used on known values only *)
  (* the float64 an operand is promoted to when the ufunc works in float64 *)
  Definition num (v : value T) : T :=
    match v with VF x => x | VB b => b2f b | _ => nan end.                      (* used on known values only *)
  Definition known (v : value T) : bool := match v with VF _ | VB _ => true | _ => false end.
  Definition boolish (v : value T) : bool := match v with VB _ | VBu => true | _ => false end.   (* dtype bool *)
  (* np.isclose(a, b, rtol=0, atol=0, equal_nan=True) *)
  Definition eqnan (a b : T) : bool := eqb a b || (isnan a && isnan b).
  (* np.minimum / np.maximum on float64: NaN-propagating (unlike Python's builtin min/max); on a tie (+0 / -0) the SECOND operand *)
  Definition npmin (a b : T) : T := if isnan a then a else if isnan b then b else if ltb a b then a else b.
  Definition npmax (a b : T) : T := if isnan a then a else if isnan b then b else if ltb b a then a else b.

  Definition unary_float_ufuncs : list string :=
    ["np.arccos"; "np.arcsin"; "np.arctan"; "np.ceil"; "np.cos"; "np.cosh"; "np.exp"; "np.floor"; "np.log"; "np.log10";
     "np.round"; "np.sin"; "np.sinh"; "np.tan"; "np.tanh"; "np.log1p"; "np.arccosh"; "np.arcsinh"; "np.arctanh"].
  Definition binary_float_ufuncs : list string := ["np.remainder"; "np.fmod"; "np.arctan2"].
  Definition known_unary : list string :=
    ["np.logical_not"; "np.negative"; "np.positive"; "np.fabs"; "np.sqrt"] ++ unary_float_ufuncs.
  Definition known_binary : list string :=
    ["np.add"; "np.subtract"; "np.multiply"; "np.true_divide"; "np.float_power"; "np.logical_and"; "np.logical_or";
     "Op.gt"; "Op.ge"; "Op.eq"; "Op.neq"; "Op.le"; "Op.lt"; "np.minimum"; "np.maximum"] ++ binary_float_ufuncs.

  Definition ask (m : string) (a b : T) : result (value T) :=
    match oracle m a b with Some r => Ok (VF r) | None => Err ELookup end.

  (* element.method() *)
  Definition apply0 (m : string) : result (value T) :=
    if String.eqb m "lambda: np.pi" then Ok (VF npi) else Err ELookup.

  (* element.method(a) *)
  Definition apply1 (m : string) (a : value T) : result (value T) :=
    if negb (mem_str m known_unary) then Err ELookup
    else if String.eqb m "np.logical_not" then Ok (if known a then VB (negb (truth a)) else VBu)
    else if boolish a then
      (* np.negative / np.positive have no boolean loop: TypeError; the float ufuncs answer in float16 *)
      (if String.eqb m "np.negative" || String.eqb m "np.positive" then Err EInternal else Ok VN)
    else match a with
         | VF x =>
             if String.eqb m "np.negative" then Ok (VF (neg x))
             else if String.eqb m "np.positive" then Ok (VF x)
             else if String.eqb m "np.fabs" then Ok (VF (nabs x))
             else if String.eqb m "np.sqrt" then Ok (VF (nsqrt x))
             else ask m x zero
         | _ => Ok VN
         end.

  (* element.method(a, b) *)
  Definition apply2 (m : string) (a b : value T) : result (value T) :=
    if negb (mem_str m known_binary) then Err ELookup
    else
      let x := num a in let y := num b in
      let k := known a && known b in              (* both values determined *)
      let bb := boolish a && boolish b in         (* both of dtype bool *)
      let vb (r : bool) : value T := if k then VB r else VBu in
      let vf (r : T) : value T := if k then VF r else VN in
      if String.eqb m "np.add" then Ok (if bb then vb (truth a || truth b) else vf (add x y))          (* bool + bool = logical or *)
      else if String.eqb m "np.subtract" then (if bb then Err EInternal else Ok (vf (sub x y)))        (* bool - bool: TypeError *)
      else if String.eqb m "np.multiply" then Ok (if bb then vb (truth a && truth b) else vf (mul x y))
      else if String.eqb m "np.true_divide" then Ok (vf (div x y))
      else if String.eqb m "np.float_power" then (if k then ask m x y else Ok VN)
      else if String.eqb m "np.logical_and" then Ok (vb (truth a && truth b))
      else if String.eqb m "np.logical_or" then Ok (vb (truth a || truth b))
      else if String.eqb m "Op.gt" then Ok (vf (b2f (ltb y x)))                                        (* scalar(a > b) *)
      else if String.eqb m "Op.lt" then Ok (vf (b2f (ltb x y)))                                        (* scalar(a < b) *)
      else if String.eqb m "Op.ge" then Ok (vf (b2f (leb y x || eqnan x y)))                           (* scalar((a >= b) | isclose) *)
      else if String.eqb m "Op.le" then Ok (vf (b2f (leb x y || eqnan x y)))
      else if String.eqb m "Op.eq" then Ok (vf (b2f (eqnan x y)))                                      (* scalar(isclose) *)
      else if String.eqb m "Op.neq" then Ok (vf (b2f (negb (eqnan x y))))
      else if String.eqb m "np.minimum" then Ok (if bb then vb (truth a && truth b) else vf (npmin x y))   (* bool: logical and *)
      else if String.eqb m "np.maximum" then Ok (if bb then vb (truth a || truth b) else vf (npmax x y))
      else if k && negb bb then ask m x y                                                              (* remainder / fmod / arctan2 *)
      else Ok VN.                                                                                      (* two booleans: int8 / float16 *)

  (* ================= Function.Node.evaluate ================= *)
  Variable vars : list (string * T).      (* local_variables *)

  Fixpoint evaluate (t : fnode T) : result (value T) :=
    match t with
    | FConst c => Ok (VF c)
    | FVar v =>
        if String.eqb v "" then Ok (VF nan)                                   (* `elif self.variable:` is false: the constant, nan by default *)
        else match assoc v vars with Some x => Ok (VF x) | None => Err EValue end
    | FElem0 n =>
        match lookup tbl n with
        | None => Err ELookup
        | Some e => match en_arity e with
                    | O => apply0 (en_method e)
                    | 1%nat | 2%nat => Err EValue                             (* expected a node, but found none *)
                    | _ => Ok (VF nan)                                        (* result = scalar(nan) is returned untouched *)
                    end
        end
    | FElem1 n x =>
        match lookup tbl n with
        | None => Err ELookup
        | Some e => match en_arity e with
                    | O => apply0 (en_method e)
                    | 1%nat => do a <- evaluate x; apply1 (en_method e) a     (* self.left or self.right *)
                    | 2%nat => Err EValue                                     (* expected a left node *)
                    | _ => Ok (VF nan)
                    end
        end
    | FElem2 n l r =>
        match lookup tbl n with
        | None => Err ELookup
        | Some e => match en_arity e with
                    | O => apply0 (en_method e)
                    | 1%nat => do a <- evaluate l; apply1 (en_method e) a
                    | 2%nat => do a <- evaluate l; do b <- evaluate r; apply2 (en_method e) a b
                    | _ => Ok (VF nan)
                    end
        end
    end.
End Formula.

Section Membership.
  Context {T : Type} {NT : Num T}.
  Variable tbl : table.
  Variable oracle : string -> T -> T -> option T.

  (* the value as a number (True = 1) *)
  Definition value_num (v : value T) : option T :=
    match v with VF x => Some x | VB b => Some (b2f b) | _ => None end.

  (* array operands: one row of variable values per element *)
  Fixpoint evaluate_rows (rows : list (list (string * T))) (t : fnode T) : result (list (value T)) :=
    match rows with
    | [] => Ok []
    | vars :: tl => do v <- evaluate tbl oracle vars t; do vs <- evaluate_rows tl t; Ok (v :: vs)
    end.

  (* for variable in self.engine.variables: engine_variables[variable.name] = variable.value   (inputs, then outputs) *)
  Definition engine_variable_values (e : engine T) : list (string * T) :=
    map (fun iv => (iv_name iv, iv_value iv)) (e_inputs e) ++ map (fun ov => (ov_name ov, ov_value ov)) (e_outputs e).

  (* Function.membership(x); term_vars = self.variables (unique keys), root = self.root *)
  Definition membership (root : option (fnode T)) (term_vars : list (string * T)) (eng : option (engine T))
             (x : T) : result (value T) :=
    if mem_str "x" (map fst term_vars) then Err EValue                         (* 'x' is reserved: in self.variables *)
    else
      let ev := match eng with Some e => engine_variable_values e | None => [] end in
      if mem_str "x" (map fst ev) then Err EValue                              (* 'x' is reserved: an engine variable *)
      else
        let ev' := ("x", x) :: rev ev in                                       (* a dict: the LAST variable of a name wins *)
        if existsb (fun k => mem_str k (map fst ev')) (map fst term_vars) then Err EValue   (* overrides *)
        else match root with
             | None => Err ERuntime                                            (* function is not loaded *)
             | Some t => evaluate tbl oracle (term_vars ++ ev') t
             end.

  Definition function_membership (tm : term T) (eng : option (engine T)) (x : T) : result (value T) :=
    match tm with
    | TFunction _ root term_vars => membership root term_vars eng x
    | _ => Err ELookup
    end.
End Membership.
