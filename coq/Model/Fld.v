(* Fld.v — model of `fuzzylite.exporter.FldExporter` (exporter.py:537-805) and of `Op.increment`
   (operation.py:335).  Definitions only; the proofs are in Proofs/FldProofs.v.

   What is abstract (Section parameters, supplied by the harness tools/props/C18.py):
     pow_root v n   = int(round(pow(v, 1.0 / n))) exactly as the implementation computes it (libm pow + rounding)
     fmt            = the "%0.<decimals>f" formatting of one number
     outputs_of     = the output rows the engine produces for a batch of input rows (C01/C02 cover the engine)
     parse_float    = to_float on one whitespace-separated token (None = ValueError)
   Domain notes (not claims about the code): engines have >= 1 input variable in `write` (the model answers
   Err EInternal otherwise), reader contents are ASCII, the separator contains no '%' (numpy.savetxt builds one
   %-format string out of it), |values| is far below 2^53, Python lists given to `increment` have equal lengths
   (the only caller builds them so). *)
From Coq Require Import ZArith Bool List String Ascii.
From VF Require Import Num Core.
Import ListNotations.
Set Implicit Arguments.
Local Open Scope Z_scope.

(* ------------------------------------------------------------------ Op.increment *)
Fixpoint set_nth {A : Type} (i : nat) (v : A) (l : list A) : list A :=
  match l, i with
  | [], _ => []
  | _ :: tl, O => v :: tl
  | a :: tl, S j => a :: set_nth j v tl
  end.

(* the body of Op.increment at an explicit position:
     if x[position] < maximum[position]: x[position] += 1                      -> True
     else: x[position] = minimum[position]; position -= 1;
           incremented = (old position != 0); if position >= 0: incremented = increment(x, .., position) *)
Fixpoint increment_at (x mn mx : list Z) (position : nat) : bool * list Z :=
  let xp := nth position x 0 in
  if xp <? nth position mx 0 then (true, set_nth position (xp + 1) x)
  else
    let x' := set_nth position (nth position mn 0) x in
    match position with
    | O => (false, x')
    | S p => increment_at x' mn mx p
    end.

(* Op.increment(x, minimum, maximum, position=None): returns (incremented, the mutated x) *)
Definition increment (x mn mx : list Z) (position : option nat) : bool * list Z :=
  match x with
  | [] => (false, x)                                            (* `if not x ...: return False` *)
  | _ :: _ => increment_at x mn mx (match position with Some p => p | None => List.length x - 1 end)
  end.

(* ------------------------------------------------------------------ resolution *)
Inductive scope : Set := EachVariable | AllVariables.

(* documented root: the largest k with k^n <= v (linear search upwards, stops at the first failure) *)
Fixpoint kroot_up (fuel : nat) (v : Z) (n : nat) (k : Z) : Z :=
  match fuel with
  | O => k
  | S f => if (k + 1) ^ Z.of_nat n <=? v then kroot_up f v n (k + 1) else k
  end.
Definition kroot (v : Z) (n : nat) : Z := kroot_up (Z.to_nat v) v n 0.

(* `while root > 1 and root**inputs > values: root -= 1`; at most root - 1 iterations, fuel = root
   (FldProofs.root_down_exit: the loop condition is false of the result, i.e. the fuel suffices) *)
Fixpoint root_down (fuel : nat) (v : Z) (n : nat) (root : Z) : Z :=
  match fuel with
  | O => root
  | S f => if (1 <? root) && (v <? root ^ Z.of_nat n) then root_down f v n (root - 1) else root
  end.
(* `while (root + 1)**inputs <= values: root += 1` is kroot_up from `root`; at most values iterations, fuel = values
   (FldProofs.root_up_exit) *)

Section Resolution.
  Variable pow_root : Z -> nat -> Z.      (* int(round(pow(values, 1.0 / n))) as the implementation computes it *)

  (* exporter.py:682-695 (after the repair of F8): the float root is only a starting point, corrected with integers *)
  Definition resolution (s : scope) (values : Z) (n_inputs : nat) : result Z :=
    match s with
    | EachVariable => Ok (values - 1)
    | AllVariables =>
        match n_inputs with
        | O => Err EValue                                       (* "expected input variables in engine" *)
        | _ =>
            (* pow(negative int, non-integer float) is a complex number; round(complex) is a TypeError *)
            if (values <? 0) && (2 <=? n_inputs)%nat then Err EInternal
            else
              let root := Z.max 1 (pow_root values n_inputs) in
              let root := root_down (Z.to_nat root) values n_inputs root in
              let root := kroot_up (Z.to_nat values) values n_inputs root in
              Ok (root - 1)
        end
    end.

  (* the formula before the repair (finding F8), pow_root = int(pow(values, 1.0 / n)):
       resolution = -1 + max(1, int(pow(values, 1.0 / n)))
     kept for the refutation FldProofs.unrepaired_largest_k_refuted_if *)
  Definition resolution_unrepaired (s : scope) (values : Z) (n_inputs : nat) : result Z :=
    match s with
    | EachVariable => Ok (values - 1)
    | AllVariables =>
        match n_inputs with
        | O => Err EValue
        | _ =>
            if (values <? 0) && (2 <=? n_inputs)%nat then Err EInternal
            else Ok (-1 + Z.max 1 (pow_root values n_inputs))
        end
    end.
  (* number of distinct sample indices of an active variable: 0 .. max(0, resolution) *)
  Definition values_per_input (res : Z) : Z := Z.max 0 res + 1.
End Resolution.

(* ------------------------------------------------------------------ the grid loop (index vectors) *)
Definition fuel_of (mx : list Z) : nat :=
  fold_right (fun m acc => ((Z.to_nat (Z.max 0 m) + 1) * acc)%nat) 1%nat mx.

(*  incremented = True
    while incremented: rows.append(row(sample_values)); incremented = Op.increment(sample_values, min_values, max_values)
    `fuel` = number of rows still allowed; None = out of fuel (FldProofs.grid_total: never with fuel_of) *)
Fixpoint grid_loop (fuel : nat) (x mn mx : list Z) : option (list (list Z)) :=
  match fuel with
  | O => None
  | S f =>
      let '(inc, x') := increment x mn mx None in
      if inc then option_map (cons x) (grid_loop f x' mn mx) else Some [x]
  end.
Definition zeros (mx : list Z) : list Z := map (fun _ => 0) mx.
Definition grid (mx : list Z) : option (list (list Z)) := grid_loop (fuel_of mx) (zeros mx) (zeros mx) mx.

(* documented enumeration: the product of the ranges [0 .. max(0, m_i)], lexicographic, last position fastest *)
Fixpoint zrange_from (a : Z) (n : nat) : list Z :=
  match n with O => [] | S k => a :: zrange_from (a + 1) k end.
Fixpoint lex_enum (mx : list Z) : list (list Z) :=
  match mx with
  | [] => [[]]
  | m :: tl => flat_map (fun i => map (cons i) (lex_enum tl)) (zrange_from 0 (Z.to_nat (Z.max 0 m) + 1))
  end.

Fixpoint zipw {A B C : Type} (f : A -> B -> C) (la : list A) (lb : list B) : list C :=
  match la, lb with
  | a :: ta, b :: tb => f a b :: zipw f ta tb
  | _, _ => []
  end.

(* ------------------------------------------------------------------ write_from_scope / write *)
Record exporter : Set := { x_separator : string; x_headers : bool; x_inputs : bool; x_outputs : bool }.

(* minimal engine values for the harness and the examples: only names, ranges, lock-range and current value matter *)
Definition fld_input {T : Type} (name : string) (mn mx : T) (lock : bool) (value : T) : input_var T :=
  {| iv_name := name; iv_enabled := true; iv_min := mn; iv_max := mx; iv_lock_range := lock;
     iv_terms := []; iv_value := value |}.
Definition fld_output {T : Type} (name : string) (d : T) : output_var T :=
  {| ov_name := name; ov_enabled := true; ov_min := d; ov_max := d; ov_lock_range := false;
     ov_lock_previous := false; ov_default := d; ov_aggregation := None; ov_defuzzifier := None;
     ov_terms := []; ov_value := d; ov_previous := d; ov_fuzzy := [] |}.
Definition fld_engine {T : Type} (ins : list (input_var T)) (outs : list (output_var T)) : engine T :=
  {| e_name := ""%string; e_inputs := ins; e_outputs := outs; e_blocks := [] |}.

Section Fld.
  Context {T : Type} {N : Num T}.
  Variable pow_root : Z -> nat -> Z.
  Variable fmt : T -> string.
  Variable outputs_of : list (list T) -> list (list T).
  Variable parse_float : string -> option T.

  Definition zlit (z : Z) : T := lit z 0.                       (* a Python int used in float arithmetic *)
  Definition drange (iv : input_var T) : T := sub (iv_max iv) (iv_min iv).

  (* exporter.py:698-703.  active:   dx = drange / max(1.0, resolution); minimum + sample * dx
                          inactive: np.take(variable.value, -1), the variable's current last value *)
  Definition grid_value (res : Z) (iv : input_var T) (active : bool) (idx : Z) : T :=
    if active then add (iv_min iv) (mul (zlit idx) (div (drange iv) (pymax one (zlit res))))
    else iv_value iv.
  Fixpoint grid_row (res : Z) (ivs : list (input_var T)) (act : list bool) (idx : list Z) : list T :=
    match ivs, act, idx with
    | iv :: ivs', a :: act', i :: idx' => grid_value res iv a i :: grid_row res ivs' act' idx'
    | _, _, _ => []
    end.
  (* max_values = [resolution if iv in active_variables else 0 for iv in engine.input_variables] *)
  Definition active_flags (active : nat -> bool) (n : nat) : list bool := map active (seq 0 n).
  Definition max_values (res : Z) (act : list bool) : list Z := map (fun a : bool => if a then res else 0) act.

  (* the matrix `input_values` built by write_from_scope; `active i` = "input variable i is in active_variables" *)
  Definition scope_inputs (s : scope) (values : Z) (e : engine T) (active : nat -> bool) : result (list (list T)) :=
    let ivs := e_inputs e in
    let act := active_flags active (List.length ivs) in
    do res <- resolution pow_root s values (List.length ivs);
    match grid (max_values res act) with
    | None => Err EInternal                                     (* unreachable: FldProofs.grid_total *)
    | Some g => Ok (map (grid_row res ivs act) g)
    end.

  (* FldExporter.header *)
  Definition header_names (x : exporter) (e : engine T) : list string :=
    (if x_inputs x then map (@iv_name T) (e_inputs e) else []) ++
    (if x_outputs x then map (@ov_name T) (e_outputs e) else []).
  Definition header (x : exporter) (e : engine T) : string := String.concat (x_separator x) (header_names x e).

  (* numpy.clip(x, lo, hi) of the clip ufunc: min(max(x, lo), hi) with NaN x propagated *)
  Definition np_clip (x lo hi : T) : T :=
    let y := if isnan x then x else if ltb lo x then x else lo in
    if isnan y then y else if ltb y hi then y else hi.
  (* `variable.value = input_values[:, index]` through the Variable.value setter (lock-range clips) *)
  Definition assigned (iv : input_var T) (x : T) : T :=
    if iv_lock_range iv then np_clip x (iv_min iv) (iv_max iv) else x.
  (* engine.input_values after the assignment: one column per input variable, extra columns are dropped *)
  Definition engine_inputs (e : engine T) (rows : list (list T)) : list (list T) :=
    map (zipw assigned (e_inputs e)) rows.

  (* np.hstack([engine.input_values]? + [engine.output_values]?), or no row at all when both switches are off
     (np.hstack([[]]) has no rows) *)
  Definition table (x : exporter) (ins : list (list T)) : list (list T) :=
    if x_inputs x || x_outputs x then
      map (fun io => (if x_inputs x then fst io else []) ++ (if x_outputs x then snd io else []))
          (combine ins (outputs_of ins))
    else [].
  Definition line (x : exporter) (row : list T) : string :=
    String.concat (x_separator x) (map fmt row) ++ String "010"%char EmptyString.
  Definition header_line (x : exporter) (e : engine T) : string :=
    let h := header x e in
    if x_headers x && negb (String.eqb h EmptyString) then h ++ String "010"%char EmptyString else EmptyString.

  (* FldExporter.write *)
  Definition write (x : exporter) (e : engine T) (input_values : list (list T)) : result string :=
    match List.length (e_inputs e) with
    | O => Err EInternal                                        (* outside the modelled domain *)
    | n =>
        let width := match input_values with [] => O | r :: _ => List.length r end in  (* np.atleast_2d(..).shape[1] *)
        if (width <? n)%nat then Err EValue
        else Ok (header_line x e ++ String.concat EmptyString (map (line x) (table x (engine_inputs e input_values))))%string
    end.

  (* FldExporter.write_from_scope / to_string_from_scope *)
  Definition write_from_scope (x : exporter) (e : engine T) (values : Z) (s : scope) (active : nat -> bool) : result string :=
    do ins <- scope_inputs s values e active;
    write x e ins.

  (* ---------------------------------------------------------------- write_from_reader *)
  Definition newline : ascii := "010"%char.
  (* str.isspace on ASCII: \t \n \v \f \r, \x1c-\x1f, space *)
  Definition is_space (c : ascii) : bool :=
    let n := N_of_ascii c in ((9 <=? n) && (n <=? 13) || (28 <=? n) && (n <=? 32))%N.

  (* reader.readlines(): every line keeps its terminating "\n"; the last one may lack it *)
  Fixpoint readlines (s : string) : list string :=
    match s with
    | EmptyString => []
    | String c tl =>
        if Ascii.eqb c newline then String c EmptyString :: readlines tl
        else match readlines tl with
             | [] => [String c EmptyString]
             | l :: ls => String c l :: ls
             end
    end.
  Fixpoint lstrip (s : string) : string :=
    match s with
    | EmptyString => EmptyString
    | String c tl => if is_space c then lstrip tl else s
    end.
  Fixpoint rstrip (s : string) : string :=
    match s with
    | EmptyString => EmptyString
    | String c tl =>
        match rstrip tl with
        | EmptyString => if is_space c then EmptyString else String c EmptyString
        | r => String c r
        end
    end.
  Definition strip (s : string) : string := rstrip (lstrip s).
  (* str.split(): (the token touching the start of s, the remaining tokens) *)
  Fixpoint split_aux (s : string) : string * list string :=
    match s with
    | EmptyString => (EmptyString, [])
    | String c tl =>
        let '(cur, toks) := split_aux tl in
        if is_space c then (EmptyString, match cur with EmptyString => toks | _ => cur :: toks end)
        else (String c cur, toks)
    end.
  Definition split_ws (s : string) : list string :=
    let '(cur, toks) := split_aux s in match cur with EmptyString => toks | _ => cur :: toks end.

  (* `not line or line[0] == "#"` on the stripped line *)
  Definition blank_or_comment (s : string) : bool :=
    match s with EmptyString => true | String c _ => Ascii.eqb c "#"%char end.
  (* [to_float(x) for x in line.split()] *)
  Fixpoint parse_row (toks : list string) : result (list T) :=
    match toks with
    | [] => Ok []
    | t :: tl =>
        match parse_float t with
        | None => Err EValue                                    (* could not convert string to float *)
        | Some v => do rest <- parse_row tl; Ok (v :: rest)
        end
    end.
  (* for i, line in enumerate(reader.readlines()): ... *)
  Fixpoint reader_loop (i skip : Z) (lines : list string) : result (list (list T)) :=
    match lines with
    | [] => Ok []
    | l :: tl =>
        if i <? skip then reader_loop (i + 1) skip tl
        else
          let s := strip l in
          if blank_or_comment s then reader_loop (i + 1) skip tl
          else
            do row <- parse_row (split_ws s);
            do rest <- reader_loop (i + 1) skip tl;
            Ok (row :: rest)
    end.
  Definition same_length (rows : list (list T)) : bool :=
    match rows with
    | [] => true
    | r :: tl => forallb (fun r' => Nat.eqb (List.length r') (List.length r)) tl
    end.
  (* FldExporter.write_from_reader / to_string_from_reader *)
  Definition write_from_reader (x : exporter) (e : engine T) (text : string) (skip_lines : Z) : result string :=
    do rows <- reader_loop 0 skip_lines (readlines text);
    if same_length rows then write x e rows
    else Err EValue.                                            (* np.asarray: inhomogeneous shape *)
End Fld.
