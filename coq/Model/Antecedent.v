(* Antecedent.v — Antecedent.load / Antecedent.activation_degree (fuzzylite/rule.py 203-395),
   Aggregated.grouped_terms / activation_degree (term.py 481-513), Rule.activate_with (rule.py 833).
   Definitions only.  Scalar mode.  Components are referred to by position (Core.v).

   Python                                               here
   variables = {v.name: v for v in engine.variables}    lookup_variable: LAST variable of inputs ++ outputs with that name
   `if variable:`  (Variable.__len__ = number of terms) a variable without terms is NOT recognised
   terms = {t.name: t for t in proposition.variable.terms}   find_last on the terms: last one with that name
   `proposition` (the object last pushed, mutated in place)  the top of the stack (it is on top whenever it is mutated)
   token in hedge factory / factory.construct(token)    hedge_of_name (the translated enumeration, keyed by hedge_name)
   raise SyntaxError                                    Err ESyntax
   final-state check (rule.py:384-389, after the repair of F6: `state & (s_hedge | s_term)`)   Err ESyntax when the text stops
                                                        after the variable, after `is` or after a hedge *)
From Coq Require Import ZArith NArith Bool List String.
From VF Require Import Num GenNorm GenHedge GenTerm GenOpTable Core ShuntingYard.
Import ListNotations.
Local Open Scope string_scope.
Local Open Scope list_scope.

(* Rule.IS / Rule.AND / Rule.OR as translated from rule.py *)
Definition keyword (k : string) : string :=
  match find (fun p => String.eqb (fst p) k) rule_keywords with Some p => snd p | None => "" end.
Definition KW_IS : string := keyword "IS".
Definition KW_AND : string := keyword "AND".
Definition KW_OR : string := keyword "OR".

(* index of the last element satisfying p: what a dict comprehension keyed by name retains *)
Fixpoint find_last {A : Type} (p : A -> bool) (l : list A) : option nat :=
  match l with
  | [] => None
  | a :: tl => match find_last p tl with
               | Some j => Some (S j)
               | None => if p a then Some O else None
               end
  end.

Definition hedge_of_name (s : string) : option hedge := find (fun h => String.eqb (hedge_name h) s) all_hedges.

(* the five states, as bits *)
Definition s_variable : N := 1.
Definition s_is : N := 2.
Definition s_hedge : N := 4.
Definition s_term : N := 8.
Definition s_and_or : N := 16.
Definition has (state mask : N) : bool := negb (N.eqb (N.land state mask) 0).

Section Antecedent.
  Context {T : Type} {NT : Num T}.

  Definition lookup_variable (e : engine T) (name : string) : option varref :=
    match find_last (fun v => String.eqb (ov_name v) name) (e_outputs e) with
    | Some j => Some (VOut j)
    | None => match find_last (fun v => String.eqb (iv_name v) name) (e_inputs e) with
              | Some i => Some (VIn i)
              | None => None
              end
    end.

  Definition var_terms (e : engine T) (v : varref) : option (list (term T)) :=
    match v with
    | VIn i => option_map (@iv_terms T) (nth_error (e_inputs e) i)
    | VOut i => option_map (@ov_terms T) (nth_error (e_outputs e) i)
    end.
  Definition var_enabled (e : engine T) (v : varref) : option bool :=
    match v with
    | VIn i => option_map (@iv_enabled T) (nth_error (e_inputs e) i)
    | VOut i => option_map (@ov_enabled T) (nth_error (e_outputs e) i)
    end.

  (* variables.get(token) followed by `if variable:` *)
  Definition usable_variable (e : engine T) (token : string) : option varref :=
    match lookup_variable e token with
    | Some v => match var_terms e v with Some (_ :: _) => Some v | _ => None end
    | None => None
    end.

  Definition load_state : Type := (N * list expr)%type.     (* state, stack (head = top) *)

  (* one iteration of `for token in postfix.split()` *)
  Definition load_step (e : engine T) (token : string) (s : load_state) : result load_state :=
    let '(state, stack) := s in
    match (if has state s_variable then usable_variable e token else None) with
    | Some v => Ok (s_is, EProp v [] None :: stack)
    | None =>
    if has state s_is && String.eqb KW_IS token then Ok (N.lor s_hedge s_term, stack) else
    match (if has state s_hedge then hedge_of_name token else None) with
    | Some h =>
        match stack with
        | EProp v hs t :: rest =>
            Ok (if hedgex_is_any (HG h) then N.lor s_variable s_and_or else N.lor s_hedge s_term,
                EProp v (hs ++ [HG h]) t :: rest)
        | _ => Err EInternal                                  (* proposition is None / not a Proposition: unreachable *)
        end
    | None =>
    let term_case : result (option load_state) :=
      if has state s_term then
        match stack with
        | EProp v hs t :: rest =>
            match var_terms e v with
            | Some terms =>
                match find_last (fun tm => String.eqb (term_name tm) token) terms with
                | Some k => Ok (Some (N.lor s_variable s_and_or, EProp v hs (Some k) :: rest))
                | None => Ok None
                end
            | None => Err EInternal
            end
        | _ => Err EInternal
        end
      else Ok None in
    match term_case with
    | Err x => Err x
    | Ok (Some s') => Ok s'
    | Ok None =>
    if has state s_and_or && (String.eqb token KW_AND || String.eqb token KW_OR) then
      match stack with
      | xr :: xl :: rest => Ok (N.lor s_variable s_and_or, EOp (String.eqb token KW_AND) xl xr :: rest)   (* right = pop(); left = pop() *)
      | _ => Err ESyntax                                      (* operator expects 2 operands *)
      end
    else Err ESyntax                                          (* every remaining branch raises SyntaxError *)
    end end end.

  Fixpoint load_run (e : engine T) (tokens : list string) (s : load_state) : result load_state :=
    match tokens with
    | [] => Ok s
    | t :: ts => match load_step e t s with Ok s' => load_run e ts s' | Err x => Err x end
    end.

  (* the part of Antecedent.load after `postfix = Function.infix_to_postfix(self.text)`; tokens = postfix.split() *)
  Definition load (e : engine T) (postfix_tokens : list string) : result expr :=
    match load_run e postfix_tokens (s_variable, []) with
    | Err x => Err x
    | Ok (state, stack) =>
        if negb (has state (N.lor s_variable s_and_or)) && has state s_is then Err ESyntax
        else if negb (has state (N.lor s_variable s_and_or)) && has state (N.lor s_hedge s_term) then Err ESyntax   (* rule.py:388 *)
        else match stack with
             | [x] => Ok x
             | _ => Err ESyntax                               (* len(stack) != 1 *)
             end
    end.

  (* Antecedent.load(engine) on self.text *)
  Definition load_text (e : engine T) (text : string) : result expr :=
    if String.eqb text "" then Err ESyntax
    else match infix_to_postfix_text op_table KW_AND KW_OR text with
         | Ok toks => load e toks
         | Err x => Err x
         end.

  (* ---- Aggregated.grouped_terms(): name -> aggregated degree, in first-occurrence order; every assignment of a degree
          passes through the Activated.degree setter (sanitize) *)
  Fixpoint group_insert (agg : snormx) (name : string) (d : T) (groups : list (string * T)) : list (string * T) :=
    match groups with
    | [] => [(name, sanitize d)]
    | (n, g) :: rest => if String.eqb n name then (n, sanitize (snormx_compute agg g d)) :: rest
                        else (n, g) :: group_insert agg name d rest
    end.
  Definition grouped_terms (agg : option snormx) (fuzzy : list (activated T)) : list (string * T) :=
    let a := match agg with Some a => a | None => SN S_UnboundedSum end in
    fold_left (fun groups act => group_insert a (term_name (a_term act)) (a_degree act) groups) fuzzy [].
  (* Aggregated.activation_degree(term) *)
  Definition fuzzy_activation_degree (agg : option snormx) (fuzzy : list (activated T)) (name : string) : T :=
    match find (fun p => String.eqb (fst p) name) (grouped_terms agg fuzzy) with
    | Some p => snd p
    | None => zero
    end.

  (* for hedge in reversed(node.hedges): result = hedge.hedge(result) *)
  Definition apply_hedges (hs : list hedgex) (x : T) : T := fold_right hedgex_apply x hs.
  Definition last_is_any (hs : list hedgex) : bool :=
    match rev hs with h :: _ => hedgex_is_any h | [] => false end.

  (* ---- Antecedent.postfix(): str(Proposition) = "variable is hedges… term", operators after their operands;
          as the list of blank-separated tokens *)
  Definition var_name (e : engine T) (v : varref) : option string :=
    match v with
    | VIn i => option_map (@iv_name T) (nth_error (e_inputs e) i)
    | VOut i => option_map (@ov_name T) (nth_error (e_outputs e) i)
    end.
  Definition hedgex_name (h : hedgex) : string := match h with HG h => hedge_name h | HSharp => "sharp" end.
  Fixpoint postfix_tokens (e : engine T) (node : expr) : result (list string) :=
    match node with
    | EProp v hs t =>
        match var_name e v, var_terms e v with
        | Some name, Some terms =>
            match t with
            | None => Ok (name :: KW_IS :: map hedgex_name hs)
            | Some k => match nth_error terms k with
                        | Some tm => Ok (name :: KW_IS :: map hedgex_name hs ++ [term_name tm])
                        | None => Err EInternal end
            end
        | _, _ => Err EInternal
        end
    | EOp is_and l r =>
        do a <- postfix_tokens e l; do b <- postfix_tokens e r; Ok (a ++ b ++ [if is_and then KW_AND else KW_OR])
    end.

  Variable membership : term T -> T -> result T.     (* Term.membership in scalar mode; plugged by the engine model *)

  (* Antecedent.activation_degree(conjunction, disjunction, node) *)
  Fixpoint activation_degree (conj : option tnormx) (disj : option snormx) (e : engine T) (node : expr) : result T :=
    match node with
    | EProp v hs t =>
        match var_terms e v, var_enabled e v with
        | Some terms, Some enabled =>
            match terms with
            | [] => Err EValue                               (* `if not node.variable` : a variable without terms is falsy *)
            | _ :: _ =>
                if negb enabled then Ok zero
                else if last_is_any hs then Ok (apply_hedges hs nan)
                else match t with
                     | None => Err EValue                    (* expected a term *)
                     | Some k =>
                         match nth_error terms k with
                         | None => Err EInternal
                         | Some tm =>
                             do r <- match v with
                                     | VIn i => match nth_error (e_inputs e) i with
                                                | Some iv => membership tm (iv_value iv)
                                                | None => Err EInternal end
                                     | VOut i => match nth_error (e_outputs e) i with
                                                 | Some ov => Ok (fuzzy_activation_degree (ov_aggregation ov) (ov_fuzzy ov) (term_name tm))
                                                 | None => Err EInternal end
                                     end;
                             Ok (apply_hedges hs r)
                         end
                     end
            end
        | _, _ => Err EInternal                              (* dangling reference: not produced by load *)
        end
    | EOp true l r =>
        match conj with
        | None => Err EValue                                 (* expected a conjunction operator *)
        | Some c => do a <- activation_degree conj disj e l; do b <- activation_degree conj disj e r; Ok (tnormx_compute c a b)
        end
    | EOp false l r =>
        match disj with
        | None => Err EValue
        | Some d => do a <- activation_degree conj disj e l; do b <- activation_degree conj disj e r; Ok (snormx_compute d a b)
        end
    end.

  (* Rule.activate_with(conjunction, disjunction): self.weight * antecedent.activation_degree(...) *)
  Definition rule_activate_with (conj : option tnormx) (disj : option snormx) (e : engine T) (r : rule T) : result T :=
    if rule_loaded r then
      match r_antecedent r with
      | Some x => do d <- activation_degree conj disj e x; Ok (mul (r_weight r) d)
      | None => Err ERuntime
      end
    else Err ERuntime.
End Antecedent.
