(* Ready.v — Engine.is_ready (fuzzylite/engine.py 431-510) and an abstract interpretation of Engine.process
   (engine.py 409-429) that keeps exactly the control flow deciding WHETHER, and with which exception class,
   `process` raises.  Definitions only.  The numbers are abstracted away: the model is generic in the scalar type
   `T` and never computes with it (instantiate T := unit to evaluate it).

   Python                                                     here
   errors.append(f"...")                                      a `msg`: kind + index (+ the "needed by N rules" count), not a string
   name_or_index                                              the index of the rule block / output variable
   rule.antecedent.text                                       its token list  text.split(); Rule.parse ALWAYS stores
                                                              " ".join(tokens), so  f" {Rule.AND} " in text  <=>  the token `and`
                                                              occurs with at least one token before and one after it (text_has)
   `not x` on operators / defuzzifiers / activation           x = None (these classes define neither __len__ nor __bool__)
   `not variable` / `not rule_block.rules`                    no terms (Variable.__len__) / no rules
   raise ValueError / RuntimeError / TypeError                Some EValue / Some ERuntime / Some EInternal
   membership / tsukamoto of a term (the numeric layer,       the parameter `term_err t tsukamoto?` : what that call raises, if
     modelled in Gen/GenTerm.v, Model/Discrete.v, …)            anything (Discrete without pairs, Linear arity, Function not
                                                                loaded, Term.tsukamoto on a non-monotonic term, …)
   which rules a non-General activation method triggers       the parameter `trig i`: for rule block i, the indices of the rules
     (depends on the activation degrees)                        on which Rule.trigger is called, in call order
   OutputVariable.defuzzify after the defuzzifier returned    not modelled here (lock-previous / default cascade: Model/Cascade.v,
                                                                property C12, finding F2); assumed not to raise

   The disjunction check of is_ready is NESTED inside the `if conjunction_needed and not rule_block.conjunction:` branch in
   the code as written at the pinned commit (engine.py 492-502); `is_ready_as_written` mirrors that, `is_ready_fixed` is the
   repaired version with the check dedented (the code after the fix commit), and `is_ready` is whichever of the two mirrors
   the code currently in /repo — see THE SWITCH (now: fixed). *)
From Coq Require Import Bool List String Arith.
From VF Require Import GenTerm GenOpTable Core.
From VF Require GenSwitches.
Import ListNotations.
Local Open Scope string_scope.
Local Open Scope list_scope.

(* ---- Rule.AND / Rule.OR as translated from rule.py (Gen/GenOpTable.rule_keywords) *)
Definition rd_keyword (k : string) : string :=
  match find (fun p => String.eqb (fst p) k) rule_keywords with Some p => snd p | None => "" end.
Definition RD_AND : string := rd_keyword "AND".
Definition RD_OR : string := rd_keyword "OR".
Definition rd_kw (is_and : bool) : string := if is_and then RD_AND else RD_OR.

(* ---- the five removable operators and the messages of is_ready *)
Inductive opkind : Set := OpConjunction | OpDisjunction | OpImplication | OpAggregation | OpDefuzzifier.
Inductive msg : Set :=
  | MNoInputs                                   (* Engine '…' does not have any input variables *)
  | MNoOutputs                                  (* Engine '…' does not have any output variables *)
  | MNoBlocks                                   (* Engine '…' does not have any rule blocks *)
  | MOutNoTerms (j : nat)                       (* Output variable j does not have any terms *)
  | MBlockNoRules (i : nat)                     (* Rule block i does not have any rules *)
  | MMissing (op : opkind) (idx : nat) (needed : nat).
      (* OpConjunction/OpDisjunction/OpImplication: Rule block idx does not have any … operator and is needed by `needed` rules
         OpAggregation/OpDefuzzifier: Output variable idx does not have any aggregation operator / defuzzifier (needed = 0) *)

Definition opkind_eqb (a b : opkind) : bool :=
  match a, b with
  | OpConjunction, OpConjunction | OpDisjunction, OpDisjunction | OpImplication, OpImplication
  | OpAggregation, OpAggregation | OpDefuzzifier, OpDefuzzifier => true
  | _, _ => false
  end.
Definition msg_eqb (a b : msg) : bool :=
  match a, b with
  | MNoInputs, MNoInputs | MNoOutputs, MNoOutputs | MNoBlocks, MNoBlocks => true
  | MOutNoTerms j, MOutNoTerms j' => Nat.eqb j j'
  | MBlockNoRules i, MBlockNoRules i' => Nat.eqb i i'
  | MMissing o i n, MMissing o' i' n' => opkind_eqb o o' && Nat.eqb i i' && Nat.eqb n n'
  | _, _ => false
  end.
Fixpoint msgs_eqb (a b : list msg) : bool :=
  match a, b with
  | [], [] => true
  | x :: a', y :: b' => msg_eqb x y && msgs_eqb a' b'
  | _, _ => false
  end.
Definition opt_err_eqb (a b : option err) : bool :=
  match a, b with None, None => true | Some x, Some y => err_eqb x y | _, _ => false end.

(* ---- the textual test  f" {kw} " in " ".join(tokens) *)
(* some element other than the last one is kw *)
Fixpoint occurs_before_last (kw : string) (toks : list string) : bool :=
  match toks with
  | [] => false
  | t :: rest => match rest with
                 | [] => false
                 | _ :: _ => String.eqb t kw || occurs_before_last kw rest
                 end
  end.
Definition text_has (kw : string) (toks : list string) : bool :=
  match toks with [] => false | _ :: rest => occurs_before_last kw rest end.

(* antecedent texts: block index -> rule index -> antecedent.text.split() *)
Definition texts : Type := nat -> nat -> list string.
Definition texts_of (l : list (list (list string))) : texts := fun i k => nth k (nth i l []) [].

(* ---- the loaded tree *)
Fixpoint uses (is_and : bool) (x : expr) : bool :=
  match x with
  | EProp _ _ _ => false
  | EOp a l r => Bool.eqb a is_and || uses is_and l || uses is_and r
  end.
Definition last_is_any (hs : list hedgex) : bool :=
  match rev hs with h :: _ => hedgex_is_any h | [] => false end.

(* "whitespace-separated tokens": the token list is an infix rendering of the tree in which the connectives (and every
   parenthesis) are tokens of their own.  The tokens of a proposition are left unconstrained (non-empty). *)
Inductive renders : expr -> list string -> Prop :=
  | R_prop : forall v hs t tok toks, renders (EProp v hs t) (tok :: toks)
  | R_op : forall a l r tl tr, renders l tl -> renders r tr -> renders (EOp a l r) (tl ++ rd_kw a :: tr)
  | R_paren : forall x tx, renders x tx -> renders x ("(" :: tx ++ [")"]).

Definition is_nil {A : Type} (l : list A) : bool := match l with [] => true | _ :: _ => false end.
Definition is_some {A : Type} (o : option A) : bool := match o with Some _ => true | None => false end.
Definition is_integral (d : option defuzzifier) : bool :=
  match d with Some (DIntegral _ _) => true | _ => false end.

Section Ready.
  Context {T : Type}.

  (* ================================================================ Engine.is_ready *)
  Definition out_msgs (j : nat) (v : output_var T) : list msg :=
    (if is_nil (ov_terms v) then [MOutNoTerms j] else []) ++
    (if is_some (ov_defuzzifier v) then [] else [MMissing OpDefuzzifier j 0]) ++
    (if negb (is_some (ov_aggregation v)) && is_integral (ov_defuzzifier v) then [MMissing OpAggregation j 0] else []).
  Fixpoint outs_msgs (j : nat) (vs : list (output_var T)) : list msg :=
    match vs with [] => [] | v :: tl => out_msgs j v ++ outs_msgs (S j) tl end.

  (* sum of booleans over the rules of a block, the rule index running from k *)
  Fixpoint count_rules (f : nat -> rule T -> bool) (k : nat) (rs : list (rule T)) : nat :=
    match rs with [] => 0 | r :: tl => (if f k r then 1 else 0) + count_rules f (S k) tl end.

  (* isinstance(consequent.variable, OutputVariable) and isinstance(consequent.variable.defuzzifier, IntegralDefuzzifier) *)
  Definition concl_integral (e : engine T) (c : conclusion) : bool :=
    match nth_error (e_outputs e) (c_var c) with Some v => is_integral (ov_defuzzifier v) | None => false end.
  (* rule.is_loaded() and mamdani_consequents > 0 *)
  Definition rule_needs_implication (e : engine T) (r : rule T) : bool :=
    rule_loaded r && existsb (concl_integral e) (r_consequent r).

  Definition conjunction_needed (tx : texts) (i : nat) (b : block T) : nat :=
    count_rules (fun k _ => text_has RD_AND (tx i k)) 0 (b_rules b).
  Definition disjunction_needed (tx : texts) (i : nat) (b : block T) : nat :=
    count_rules (fun k _ => text_has RD_OR (tx i k)) 0 (b_rules b).
  Definition implication_needed (e : engine T) (b : block T) : nat :=
    count_rules (fun _ r => rule_needs_implication e r) 0 (b_rules b).

  Definition disjunction_msg (tx : texts) (i : nat) (b : block T) : list msg :=
    if (Nat.ltb 0 (disjunction_needed tx i b)) && negb (is_some (b_disjunction b))
    then [MMissing OpDisjunction i (disjunction_needed tx i b)] else [].
  Definition implication_msg (e : engine T) (i : nat) (b : block T) : list msg :=
    if (Nat.ltb 0 (implication_needed e b)) && negb (is_some (b_implication b))
    then [MMissing OpImplication i (implication_needed e b)] else [].

  (* engine.py 474-508 AS WRITTEN: the disjunction check sits inside the missing-conjunction branch *)
  Definition block_msgs_as_written (e : engine T) (tx : texts) (i : nat) (b : block T) : list msg :=
    (if is_nil (b_rules b) then [MBlockNoRules i] else []) ++
    (if (Nat.ltb 0 (conjunction_needed tx i b)) && negb (is_some (b_conjunction b))
     then MMissing OpConjunction i (conjunction_needed tx i b) :: disjunction_msg tx i b
     else []) ++
    implication_msg e i b.
  (* the repaired check: dedented *)
  Definition block_msgs_fixed (e : engine T) (tx : texts) (i : nat) (b : block T) : list msg :=
    (if is_nil (b_rules b) then [MBlockNoRules i] else []) ++
    (if (Nat.ltb 0 (conjunction_needed tx i b)) && negb (is_some (b_conjunction b))
     then [MMissing OpConjunction i (conjunction_needed tx i b)]
     else []) ++
    disjunction_msg tx i b ++
    implication_msg e i b.

  Section Gen.
    Variable block_msgs : engine T -> texts -> nat -> block T -> list msg.
    Fixpoint blocks_msgs (e : engine T) (tx : texts) (i : nat) (bs : list (block T)) : list msg :=
      match bs with [] => [] | b :: tl => block_msgs e tx i b ++ blocks_msgs e tx (S i) tl end.
    Definition is_ready_gen (e : engine T) (tx : texts) : list msg :=
      (if is_nil (e_inputs e) then [MNoInputs] else []) ++
      (if is_nil (e_outputs e) then [MNoOutputs] else []) ++
      outs_msgs 0 (e_outputs e) ++
      (if is_nil (e_blocks e) then [MNoBlocks] else []) ++
      blocks_msgs e tx 0 (e_blocks e).
  End Gen.

  Definition is_ready_as_written : engine T -> texts -> list msg := is_ready_gen block_msgs_as_written.
  Definition is_ready_fixed : engine T -> texts -> list msg := is_ready_gen block_msgs_fixed.

  (* ================================================================ Engine.process, exceptions only *)
  Variable term_err : term T -> bool -> option err.     (* term.membership(..) (false) / term.tsukamoto(..) (true) raises … *)
  Variable trig : nat -> list nat.                      (* rules triggered by the non-General activation method of block i *)

  (* an Activated term appended to a fuzzy output: its term and whether it carries an implication operator *)
  Record aact : Type := { aa_term : term T; aa_impl : bool }.
  (* all fuzzy outputs as one chronological log of (output variable index, Activated); process() starts by clearing them *)
  Definition flog : Type := list (nat * aact).
  Definition fuzzy_of (j : nat) (log : flog) : list aact :=
    map snd (filter (fun p => Nat.eqb (fst p) j) log).

  Definition var_info (e : engine T) (v : varref) : option (list (term T) * bool) :=
    match v with
    | VIn i => option_map (fun iv => (iv_terms iv, iv_enabled iv)) (nth_error (e_inputs e) i)
    | VOut j => option_map (fun ov => (ov_terms ov, ov_enabled ov)) (nth_error (e_outputs e) j)
    end.

  (* Antecedent.activation_degree (rule.py 203-290): the operator test comes BEFORE the operands are evaluated, the left
     operand before the right one; hedges and norms are numeric and do not raise *)
  Fixpoint antecedent_raises (conj disj : bool) (e : engine T) (x : expr) : option err :=
    match x with
    | EProp v hs t =>
        match var_info e v with
        | None => Some EInternal                           (* dangling reference: outside the index model *)
        | Some (terms, enabled) =>
            match terms with
            | [] => Some EValue                            (* `if not node.variable` *)
            | _ :: _ =>
                if negb enabled then None
                else if last_is_any hs then None
                else match t with
                     | None => Some EValue                 (* expected a term *)
                     | Some k =>
                         match nth_error terms k with
                         | None => Some EInternal
                         | Some tm => match v with
                                      | VIn _ => term_err tm false      (* node.term.membership(value) *)
                                      | VOut _ => None                  (* fuzzy.activation_degree: aggregation or UnboundedSum() *)
                                      end
                         end
                     end
            end
        end
    | EOp is_and l r =>
        if (if is_and then conj else disj) then
          match antecedent_raises conj disj e l with
          | Some x => Some x
          | None => antecedent_raises conj disj e r
          end
        else Some EValue                                   (* expected a conjunction / disjunction operator *)
    end.

  (* Rule.activate_with on a loaded rule *)
  Definition rule_activate (e : engine T) (b : block T) (r : rule T) : option err :=
    match r_antecedent r with
    | Some x => antecedent_raises (is_some (b_conjunction b)) (is_some (b_disjunction b)) e x
    | None => Some ERuntime
    end.

  (* Consequent.modify (rule.py 542-573) *)
  Fixpoint modify (e : engine T) (impl : bool) (cs : list conclusion) (log : flog) : result flog :=
    match cs with
    | [] => Ok log
    | c :: tl =>
        match nth_error (e_outputs e) (c_var c) with
        | None => Err EInternal                            (* dangling reference: outside the index model *)
        | Some v =>
            match ov_terms v with
            | [] => Err EValue                             (* `if not proposition.variable` *)
            | _ :: _ =>
                if ov_enabled v then
                  match nth_error (ov_terms v) (c_term c) with
                  | None => Err EInternal
                  | Some tm => modify e impl tl (log ++ [(c_var c, {| aa_term := tm; aa_impl := impl |})])
                  end
                else modify e impl tl log
            end
        end
    end.

  (* Rule.trigger *)
  Definition rule_trigger (e : engine T) (b : block T) (r : rule T) (log : flog) : result flog :=
    if rule_loaded r then
      if r_enabled r then modify e (is_some (b_implication b)) (r_consequent r) log else Ok log
    else Err ERuntime.

  (* General, First, Threshold (in order) and Last (in reverse order): activate_with then, if selected, trigger, rule by rule *)
  Fixpoint run_interleaved (e : engine T) (b : block T) (fires : nat -> bool) (krs : list (nat * rule T)) (log : flog) : result flog :=
    match krs with
    | [] => Ok log
    | (k, r) :: tl =>
        if rule_loaded r then
          match rule_activate e b r with
          | Some x => Err x
          | None =>
              if fires k then
                match rule_trigger e b r log with
                | Ok log' => run_interleaved e b fires tl log'
                | Err x => Err x
                end
              else run_interleaved e b fires tl log
          end
        else run_interleaved e b fires tl log
    end.

  (* Highest, Lowest, Proportional: first every loaded rule's degree, … *)
  Fixpoint run_degrees (e : engine T) (b : block T) (rs : list (rule T)) : option err :=
    match rs with
    | [] => None
    | r :: tl =>
        if rule_loaded r then
          match rule_activate e b r with Some x => Some x | None => run_degrees e b tl end
        else run_degrees e b tl
    end.
  (* … then the triggers in the order decided by the degrees (only loaded rules are ever queued) *)
  Fixpoint run_triggers (e : engine T) (b : block T) (order : list nat) (log : flog) : result flog :=
    match order with
    | [] => Ok log
    | k :: tl =>
        match nth_error (b_rules b) k with
        | Some r =>
            if rule_loaded r then
              match rule_trigger e b r log with
              | Ok log' => run_triggers e b tl log'
              | Err x => Err x
              end
            else run_triggers e b tl log
        | None => run_triggers e b tl log
        end
    end.

  Definition indexed (rs : list (rule T)) : list (nat * rule T) := combine (seq 0 (List.length rs)) rs.
  Definition fires_in (i : nat) (k : nat) : bool := existsb (Nat.eqb k) (trig i).

  (* RuleBlock.activate *)
  Definition block_activate (e : engine T) (i : nat) (b : block T) (log : flog) : result flog :=
    match b_activation b with
    | None => Err EValue                                   (* expected an activation method *)
    | Some AGeneral => run_interleaved e b (fun _ => true) (indexed (b_rules b)) log
    | Some (AFirst _ _) | Some (AThreshold _ _) => run_interleaved e b (fires_in i) (indexed (b_rules b)) log
    | Some (ALast _ _) => run_interleaved e b (fires_in i) (rev (indexed (b_rules b))) log
    | Some (AHighest _) | Some (ALowest _) | Some AProportional =>
        match run_degrees e b (b_rules b) with
        | Some x => Err x
        | None => run_triggers e b (trig i) log
        end
    end.

  Fixpoint run_blocks (e : engine T) (i : nat) (bs : list (block T)) (log : flog) : result flog :=
    match bs with
    | [] => Ok log
    | b :: tl =>
        if b_enabled b then
          match block_activate e i b log with
          | Ok log' => run_blocks e (S i) tl log'
          | Err x => Err x
          end
        else run_blocks e (S i) tl log
    end.

  (* ---- defuzzification *)
  (* the loop of Aggregated.membership: Activated.membership tests the implication, then evaluates the term *)
  Fixpoint activated_raise (acts : list aact) : option err :=
    match acts with
    | [] => None
    | a :: tl =>
        if aa_impl a then
          match term_err (aa_term a) false with Some x => Some x | None => activated_raise tl end
        else Some EValue                                   (* expected an implication operator *)
    end.
  (* IntegralDefuzzifier.defuzzify -> Aggregated.membership(x) *)
  Definition integral_raises (aggregation : bool) (acts : list aact) : option err :=
    match acts with
    | [] => None
    | _ :: _ => if aggregation then activated_raise acts else Some EValue    (* expected an aggregation operator *)
    end.

  (* WeightedDefuzzifier.infer_type *)
  Definition wtype_eqb (a b : wtype) : bool :=
    match a, b with WAutomatic, WAutomatic | WTakagiSugeno, WTakagiSugeno | WTsukamoto, WTsukamoto => true | _, _ => false end.
  Definition ready_term_wtype (t : term T) : wtype :=
    match t with
    | TShape _ (Sh_Constant _) => WTakagiSugeno
    | TShape _ s => if shape_monotonic s then WTsukamoto else WAutomatic
    | TDiscrete _ _ _ => WAutomatic
    | TLinear _ _ => WTakagiSugeno
    | TFunction _ _ _ => WTakagiSugeno
    end.
  Definition infer_wtype (acts : list aact) : result wtype :=
    match acts with
    | [] => Ok WAutomatic
    | a :: rest =>
        let ty := ready_term_wtype (aa_term a) in
        if forallb (fun b => wtype_eqb (ready_term_wtype (aa_term b)) ty) rest then Ok ty
        else Err EInternal                                 (* TypeError: cannot infer type …, got multiple types *)
    end.
  (* the terms of grouped_terms().values(): the first Activated of every name *)
  Fixpoint group_reps (seen : list string) (acts : list aact) : list (term T) :=
    match acts with
    | [] => []
    | a :: tl =>
        let n := term_name (aa_term a) in
        if existsb (String.eqb n) seen then group_reps seen tl else aa_term a :: group_reps (n :: seen) tl
    end.
  Fixpoint terms_raise (tsukamoto : bool) (ts : list (term T)) : option err :=
    match ts with
    | [] => None
    | t :: tl => match term_err t tsukamoto with Some x => Some x | None => terms_raise tsukamoto tl end
    end.
  (* WeightedAverage.defuzzify / WeightedSum.defuzzify: neither the aggregation nor the implication operator is required *)
  Definition weighted_raises (ty : wtype) (acts : list aact) : option err :=
    match (match ty with WAutomatic => infer_wtype acts | _ => Ok ty end) with
    | Err x => Some x
    | Ok this_type => terms_raise (wtype_eqb this_type WTsukamoto) (group_reps [] acts)
    end.

  (* OutputVariable.defuzzify up to the return of the defuzzifier *)
  Definition defuzz_raises (j : nat) (v : output_var T) (log : flog) : option err :=
    if negb (ov_enabled v) then None
    else match ov_defuzzifier v with
         | None => Some EValue                             (* expected a defuzzifier *)
         | Some (DIntegral _ _) => integral_raises (is_some (ov_aggregation v)) (fuzzy_of j log)
         | Some (DWeighted _ ty) => weighted_raises ty (fuzzy_of j log)
         end.
  Fixpoint defuzz_all (j : nat) (vs : list (output_var T)) (log : flog) : option err :=
    match vs with
    | [] => None
    | v :: tl => match defuzz_raises j v log with Some x => Some x | None => defuzz_all (S j) tl log end
    end.

  (* Engine.process: the first exception it raises, None when it completes *)
  Definition process_raises (e : engine T) : option err :=
    match run_blocks e 0 (e_blocks e) [] with
    | Err x => Some x
    | Ok log => defuzz_all 0 (e_outputs e) log
    end.

  (* ================================================================ the hypotheses of the property *)
  (* "its rule blocks have an activation method" (only the enabled ones matter) *)
  Definition has_activation (e : engine T) : Prop :=
    forall b, In b (e_blocks e) -> b_enabled b = true -> b_activation b <> None.

  (* "its rules are written with whitespace-separated tokens" *)
  Definition ws_tokens (e : engine T) (tx : texts) : Prop :=
    forall i b k r x, nth_error (e_blocks e) i = Some b -> nth_error (b_rules b) k = Some r ->
      rule_loaded r = true -> r_antecedent r = Some x -> renders x (tx i k).

  (* the generator's domain: references resolve, input variables used in rules have terms (is_ready deliberately does not
     check input variables), propositions not ending in `any` have a term, the numeric term layer does not raise on the
     terms it is applied to, weighted defuzzifiers of Automatic type see terms of one type only (else infer_type raises
     TypeError) *)
  Definition term_ref_ok (hs : list hedgex) (t : option nat) (terms : list (term T)) : bool :=
    last_is_any hs || match t with Some k => Nat.ltb k (List.length terms) | None => false end.
  Fixpoint expr_ok (e : engine T) (x : expr) : bool :=
    match x with
    | EProp (VIn i) hs t =>
        match nth_error (e_inputs e) i with
        | Some iv => negb (is_nil (iv_terms iv)) && term_ref_ok hs t (iv_terms iv)
        | None => false
        end
    | EProp (VOut j) hs t =>
        match nth_error (e_outputs e) j with
        | Some ov => is_nil (ov_terms ov) || term_ref_ok hs t (ov_terms ov)
        | None => false
        end
    | EOp _ l r => expr_ok e l && expr_ok e r
    end.
  Definition concl_ok (e : engine T) (c : conclusion) : bool :=
    match nth_error (e_outputs e) (c_var c) with
    | Some ov => is_nil (ov_terms ov) || Nat.ltb (c_term c) (List.length (ov_terms ov))
    | None => false
    end.
  Definition rule_ok (e : engine T) (r : rule T) : bool :=
    negb (rule_loaded r) ||
    (match r_antecedent r with Some x => expr_ok e x | None => true end && forallb (concl_ok e) (r_consequent r)).
  Definition tsukamoto_mode (ty : wtype) (t : term T) : bool :=
    match ty with
    | WTsukamoto => true
    | WTakagiSugeno => false
    | WAutomatic => wtype_eqb (ready_term_wtype t) WTsukamoto
    end.
  Definition out_terms_ok (v : output_var T) : Prop :=
    match ov_defuzzifier v with
    | None => True
    | Some (DIntegral _ _) => forall t, In t (ov_terms v) -> term_err t false = None
    | Some (DWeighted _ ty) =>
        (forall t, In t (ov_terms v) -> term_err t (tsukamoto_mode ty t) = None) /\
        (ty = WAutomatic -> forall t t', In t (ov_terms v) -> In t' (ov_terms v) -> ready_term_wtype t = ready_term_wtype t')
    end.
  Definition wf_terms (e : engine T) : Prop :=
    (forall b r, In b (e_blocks e) -> In r (b_rules b) -> rule_ok e r = true) /\
    (forall iv t, In iv (e_inputs e) -> In t (iv_terms iv) -> term_err t false = None) /\
    (forall v, In v (e_outputs e) -> out_terms_ok v).

  (* ================================================================ "needed" and "absent" *)
  (* the loaded rules of block i need the conjunction (and = true) / disjunction (and = false) operator *)
  Definition block_uses (is_and : bool) (b : block T) : Prop :=
    exists r x, In r (b_rules b) /\ rule_loaded r = true /\ r_antecedent r = Some x /\ uses is_and x = true.
  Definition needs (op : opkind) (idx : nat) (e : engine T) : Prop :=
    match op with
    | OpConjunction => exists b, nth_error (e_blocks e) idx = Some b /\ block_uses true b
    | OpDisjunction => exists b, nth_error (e_blocks e) idx = Some b /\ block_uses false b
    | OpImplication => exists b r, nth_error (e_blocks e) idx = Some b /\ In r (b_rules b) /\ rule_needs_implication e r = true
    | OpAggregation => exists v, nth_error (e_outputs e) idx = Some v /\ is_integral (ov_defuzzifier v) = true
    | OpDefuzzifier => exists v, nth_error (e_outputs e) idx = Some v
    end.
  Definition absent (op : opkind) (idx : nat) (e : engine T) : Prop :=
    match op with
    | OpConjunction => exists b, nth_error (e_blocks e) idx = Some b /\ b_conjunction b = None
    | OpDisjunction => exists b, nth_error (e_blocks e) idx = Some b /\ b_disjunction b = None
    | OpImplication => exists b, nth_error (e_blocks e) idx = Some b /\ b_implication b = None
    | OpAggregation => exists v, nth_error (e_outputs e) idx = Some v /\ ov_aggregation v = None
    | OpDefuzzifier => exists v, nth_error (e_outputs e) idx = Some v /\ ov_defuzzifier v = None
    end.

  (* the hole of the nested check, seen at run time: an ENABLED block without disjunction operator has a loaded rule using `or` *)
  Definition disjunction_hole (e : engine T) : Prop :=
    exists b, In b (e_blocks e) /\ b_enabled b = true /\ b_disjunction b = None /\ block_uses false b.
End Ready.

(* ================================================================ THE SWITCH
   true  : Engine.is_ready as written at the pinned commit (disjunction check nested, finding F9)
   false : after the `fix:` commit that dedents it ("fix: Engine.is_ready did not report a missing disjunction operator").
   Everything stated about `is_ready` below and in Properties/C19.v follows this one line; the correspondence check
   (tools/props/C19.py) compares `is_ready` with the code in /repo on every run, so a wrong setting shows as mismatches. *)
(* read off the AST of Engine.is_ready on every run (Gen/GenSwitches.v) *)
Definition disjunction_check_nested : bool := GenSwitches.is_ready_disjunction_nested.
Definition is_ready {T : Type} : engine T -> texts -> list msg :=
  if disjunction_check_nested then is_ready_as_written else is_ready_fixed.

(* ================================================================ the statements of property C19, for a given readiness check *)
Definition ready_fn : Type := forall T : Type, engine T -> texts -> list msg.

(* ready => process does not raise *)
Definition ready_process_ok_statement (rdy : ready_fn) : Prop :=
  forall (T : Type) (term_err : term T -> bool -> option err) (trig : nat -> list nat) (e : engine T) (tx : texts),
    rdy T e tx = [] -> has_activation e -> ws_tokens e tx -> wf_terms term_err e ->
    process_raises term_err trig e = None.

(* every needed-but-missing operator is reported *)
Definition missing_reported_statement (rdy : ready_fn) (op : opkind) : Prop :=
  forall (T : Type) (e : engine T) (tx : texts) (idx : nat),
    ws_tokens e tx -> needs op idx e -> absent op idx e -> exists n, In (MMissing op idx n) (rdy T e tx).
