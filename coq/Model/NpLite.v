(* NpLite.v — the small part of NumPy's array algebra that the vectorised pipeline of pyfuzzylite relies on
   (C02): values WITH THEIR SHAPES, because the code's behaviour depends on them (`.squeeze()`, `atleast_2d`,
   `.T`, broadcasting).  Definitions only; generic in the element type.

     Sc x        0-d array / NumPy scalar / Python float               shape ()
     Vec l       1-d array                                             shape (len l,)
     Mat rows    2-d array, C order, given as the list of its rows     shape (len rows, len (hd rows))

   A `Mat` is meant to be rectangular (`rect`); every operation below keeps rectangular matrices rectangular.
   Limits of the representation: a matrix without rows has lost its number of columns (shape (0, c) is `Mat []`),
   arrays of more than two dimensions do not exist here, and the Python *kind* of a value (float, numpy.float64,
   0-d ndarray) is not represented (all three are `Sc`).

   Broadcasting (`lift2`) is NumPy's rule on the shapes aligned at their LAST axis: along every axis the two
   lengths must be equal or one of them must be 1; otherwise `ValueError: operands could not be broadcast`
   = `Err EValue`. *)
From Coq Require Import Bool List Arith.
From VF Require Import Num Core NpSum.
Import ListNotations.
Set Implicit Arguments.
Local Notation length := List.length.

Inductive arr (X : Type) : Type :=
  | Sc (x : X)
  | Vec (l : list X)
  | Mat (rows : list (list X)).
Arguments Sc {X}. Arguments Vec {X}. Arguments Mat {X}.

(* [f x for x in l]: the first exception, in order *)
Fixpoint mapM_ {X Y : Type} (f : X -> result Y) (l : list X) : result (list Y) :=
  match l with
  | [] => Ok []
  | a :: tl => do b <- f a; do bs <- mapM_ f tl; Ok (b :: bs)
  end.

Section Generic.
  Variables X : Type.

  (* ---- shapes *)
  Definition ncols (rows : list (list X)) : nat := match rows with [] => 0 | r :: _ => length r end.
  Definition shape (a : arr X) : list nat :=
    match a with Sc _ => [] | Vec l => [length l] | Mat rows => [length rows; ncols rows] end.
  Definition ndim (a : arr X) : nat := length (shape a).
  Definition size (a : arr X) : nat := fold_right Nat.mul 1 (shape a).
  Definition rect (a : arr X) : Prop :=
    match a with Mat rows => forall r, In r rows -> length r = ncols rows | _ => True end.

  (* a.ravel(): the elements in C order *)
  Definition ravel (a : arr X) : list X :=
    match a with Sc x => [x] | Vec l => l | Mat rows => concat rows end.

  (* numpy.atleast_1d / atleast_2d *)
  Definition atleast_1d (a : arr X) : arr X := match a with Sc x => Vec [x] | _ => a end.
  Definition atleast_2d (a : arr X) : arr X :=
    match a with Sc x => Mat [[x]] | Vec l => Mat [l] | Mat _ => a end.
  Definition rows_of (a : arr X) : list (list X) :=
    match a with Sc x => [[x]] | Vec l => [l] | Mat rows => rows end.

  (* a.T : identity below two dimensions *)
  Fixpoint transpose_rows (rows : list (list X)) : list (list X) :=
    match rows with
    | [] => []
    | r :: tl =>
        match tl with
        | [] => map (fun x => [x]) r
        | _ :: _ => map2 (@cons X) r (transpose_rows tl)
        end
    end.
  Definition transpose (a : arr X) : arr X :=
    match a with Mat rows => Mat (transpose_rows rows) | _ => a end.

  (* a.squeeze(): drops EVERY axis of length 1 *)
  Definition squeeze (a : arr X) : arr X :=
    match a with
    | Sc x => Sc x
    | Vec [x] => Sc x
    | Vec l => Vec l
    | Mat [[x]] => Sc x                                   (* (1,1) -> () *)
    | Mat [r] => Vec r                                    (* (1,c) -> (c,) *)
    | Mat rows =>
        if Nat.eqb (ncols rows) 1 then Vec (concat rows)  (* (k,1) -> (k,) *)
        else Mat rows
    end.

  (* numpy.take(a, -1): the last element in C order; IndexError on an empty array *)
  Definition take_last (a : arr X) : result X :=
    match rev (ravel a) with [] => Err EInternal | x :: _ => Ok x end.

  (* values[:, i] *)
  Definition column (i : nat) (rows : list (list X)) : result (list X) :=
    mapM_ (fun r => match nth_error r i with Some x => Ok x | None => Err EInternal end) rows.
End Generic.

Section Lifts.
  Variables X Y Z : Type.

  (* a ufunc of one argument; numpy.full_like(a, v) is `lift1 (fun _ => v) a` *)
  Definition lift1 (f : X -> Y) (a : arr X) : arr Y :=
    match a with Sc x => Sc (f x) | Vec l => Vec (map f l) | Mat rows => Mat (map (map f) rows) end.
  Definition full_like (a : arr X) (v : Y) : arr Y := lift1 (fun _ => v) a.

  (* an elementwise function that may raise: the first exception in C order *)
  Definition lift1M (f : X -> result Y) (a : arr X) : result (arr Y) :=
    match a with
    | Sc x => do y <- f x; Ok (Sc y)
    | Vec l => do l' <- mapM_ f l; Ok (Vec l')
    | Mat rows => do r' <- mapM_ (mapM_ f) rows; Ok (Mat r')
    end.

  (* broadcasting along one axis: lengths equal, or one of them 1 *)
  Definition bcast (A B C : Type) (f : A -> B -> result C) (la : list A) (lb : list B) : result (list C) :=
    match la, lb with
    | [a], _ => mapM_ (f a) lb
    | _, [b] => mapM_ (fun a => f a b) la
    | _, _ => if Nat.eqb (length la) (length lb) then mapM_ (fun p => f (fst p) (snd p)) (combine la lb) else Err EValue
    end.

  Variable f : X -> Y -> Z.
  Definition bcast_row (la : list X) (lb : list Y) : result (list Z) := bcast (fun a b => Ok (f a b)) la lb.
  Definition bcast_rows (ra : list (list X)) (rb : list (list Y)) : result (list (list Z)) := bcast bcast_row ra rb.

  (* a ufunc of two arguments *)
  Definition lift2 (a : arr X) (b : arr Y) : result (arr Z) :=
    match a, b with
    | Sc x, Sc y => Ok (Sc (f x y))
    | Sc x, Vec l => Ok (Vec (map (f x) l))
    | Vec l, Sc y => Ok (Vec (map (fun a => f a y) l))
    | Sc x, Mat r => Ok (Mat (map (map (f x)) r))
    | Mat r, Sc y => Ok (Mat (map (map (fun a => f a y)) r))
    | Vec la, Vec lb => do l <- bcast_row la lb; Ok (Vec l)
    | Vec la, Mat rb => do r <- bcast_rows [la] rb; Ok (Mat r)
    | Mat ra, Vec lb => do r <- bcast_rows ra [lb]; Ok (Mat r)
    | Mat ra, Mat rb => do r <- bcast_rows ra rb; Ok (Mat r)
    end.
End Lifts.

Section Stack.
  Variable X : Type.

  (* numpy.broadcast_arrays on 1-d arrays: every length is the common length or 1 *)
  Definition common_length (ls : list (list X)) : nat :=
    fold_left (fun n l => if Nat.eqb (length l) 1 then n else length l) ls 1.
  Definition broadcast_to (n : nat) (l : list X) : result (list X) :=
    if Nat.eqb (length l) n then Ok l
    else match l with [x] => Ok (repeat x n) | _ => Err EValue end.
  Definition broadcast_vectors (ls : list (list X)) : result (list (list X)) :=
    mapM_ (broadcast_to (common_length ls)) ls.

  (* numpy.column_stack of 1-d arrays of equal length: the (k, n) matrix whose columns they are.
     cols_to_rows k cols: row i = the i-th element of every column *)
  Definition cols_to_rows (k : nat) (cols : list (list X)) : result (list (list X)) :=
    mapM_ (fun i => mapM_ (fun c => match nth_error c i with Some x => Ok x | None => Err EValue end) cols) (seq 0 k).
  Definition column_stack (cols : list (list X)) : result (arr X) :=
    match cols with
    | [] => Err EValue                                    (* need at least one array to concatenate *)
    | c :: tl =>
        if forallb (fun c' => Nat.eqb (length c') (length c)) tl
        then do rows <- cols_to_rows (length c) cols; Ok (Mat rows)
        else Err EValue                                   (* all the input array dimensions ... must match exactly *)
    end.

  (* the 1-d view used by column_stack / atleast_1d of a variable's value; a matrix value is not a variable value *)
  Definition as_vector (a : arr X) : result (list X) :=
    match a with Sc x => Ok [x] | Vec l => Ok l | Mat _ => Err EValue end.
End Stack.

(* ---- reductions along axis 1 (one result per row); the row functions are those of Model/NpSum.v *)
Section Reduce.
  Variables X Y : Type.
  Definition reduce_axis1 (g : list X -> Y) (a : arr X) : arr Y := Vec (map g (rows_of a)).
  Definition reduce_axis1M (g : list X -> result Y) (a : arr X) : result (arr Y) :=
    do l <- mapM_ g (rows_of a); Ok (Vec l).
End Reduce.

Section NumReduce.
  Context {T : Type} {N : Num T}.
  (* ndarray.sum(axis=1) of a C-contiguous 2-d array: NumPy's pairwise sum of every row *)
  Definition sum_axis1 (a : arr T) : arr T := reduce_axis1 np_sum a.
  Definition nanmean_axis1 (a : arr T) : arr T := reduce_axis1 nanmean a.
  Definition max_axis1 (a : arr T) : result (arr T) := reduce_axis1M amax a.
  Definition min_axis1 (a : arr T) : result (arr T) := reduce_axis1M amin a.
  Definition nanmax_axis1 (a : arr T) : result (arr T) := reduce_axis1M nanmax a.
  Definition nanmin_axis1 (a : arr T) : result (arr T) := reduce_axis1M nanmin a.
  Definition nancumsum_axis1 (a : arr T) : arr T := Mat (map nancumsum (rows_of a)).
End NumReduce.

(* element i of a batch value: a 0-d value stands for the same value on every row (broadcasting) *)
Definition aget {X : Type} (d : X) (a : arr X) (i : nat) : X :=
  match a with Sc x => x | Vec l => nth i l d | Mat rows => nth i (concat rows) d end.
