(* Core.v — the shared data types of the hand-written engine-level models (scalar mode).
   Components refer to each other by position (index into the engine's lists), the way the Python
   objects refer to each other by reference.  Generic over the numeric reading `Num T`. *)
From Coq Require Import ZArith Bool List String.
From VF Require Import Num GenNorm GenHedge GenTerm.
Import ListNotations.
Set Implicit Arguments.

(* ---- outcomes: the exception classes the properties distinguish *)
Inductive err : Set :=
  | ESyntax      (* SyntaxError *)
  | EValue       (* ValueError *)
  | ELookup      (* KeyError / IndexError raised deliberately as lookup failure *)
  | ERuntime     (* RuntimeError *)
  | EInternal.   (* TypeError / AttributeError / IndexError / RecursionError: a crash, never a clean rejection *)
Inductive result (A : Type) : Type := Ok (a : A) | Err (e : err).
Arguments Ok {A}. Arguments Err {A}.
Definition bind {A B} (r : result A) (f : A -> result B) : result B :=
  match r with Ok a => f a | Err e => Err e end.
Notation "'do' x <- r ; k" := (bind r (fun x => k)) (at level 200, x name, r at level 100, k at level 200).
Definition err_eqb (a b : err) : bool :=
  match a, b with ESyntax, ESyntax | EValue, EValue | ELookup, ELookup | ERuntime, ERuntime | EInternal, EInternal => true | _, _ => false end.

Section Core.
  Context {T : Type}.

  (* ---- operators: the registered classes (translated enumerations) plus the harness's
     "wiring-sharp" lambda operators  f(a,b) = a/2 + b/4 + 1/8  (T) and  a/4 + b/2 + 1/16 (S),
     which are neither commutative nor associative, so any swap of operands changes the bits. *)
  Inductive tnormx : Set := TN (n : tnorm) | TSharp.
  Inductive snormx : Set := SN (n : snorm) | SSharp.
  Inductive hedgex : Set := HG (h : hedge) | HSharp.   (* HSharp: x/2 + 1/8 *)

  (* ---- formula trees of Function terms (Function.Node: element / variable / constant, left, right) *)
  Inductive fnode : Type :=
    | FConst (c : T)
    | FVar (v : string)
    | FElem0 (name : string)
    | FElem1 (name : string) (operand : fnode)
    | FElem2 (name : string) (left right : fnode).

  (* ---- terms *)
  Inductive term : Type :=
    | TShape (name : string) (s : shape T)
    | TDiscrete (name : string) (xy : list (T * T)) (height : T)
    | TLinear (name : string) (coefficients : list T)
    | TFunction (name : string) (formula : option fnode) (variables : list (string * T)).
  Definition term_name (t : term) : string :=
    match t with TShape n _ | TDiscrete n _ _ | TLinear n _ | TFunction n _ _ => n end.

  (* ---- fuzzy outputs *)
  Record activated : Type := { a_term : term; a_degree : T; a_implication : option tnormx }.

  Inductive integral_kind : Set := Bisector | Centroid | LargestOfMaximum | MeanOfMaximum | SmallestOfMaximum.
  Inductive wtype : Set := WAutomatic | WTakagiSugeno | WTsukamoto.
  Inductive defuzzifier : Set :=
    | DIntegral (k : integral_kind) (resolution : nat)
    | DWeighted (average : bool) (ty : wtype).     (* average = true: WeightedAverage, false: WeightedSum *)

  (* ---- variables *)
  Record input_var : Type := {
    iv_name : string; iv_enabled : bool; iv_min : T; iv_max : T; iv_lock_range : bool;
    iv_terms : list term; iv_value : T }.
  Record output_var : Type := {
    ov_name : string; ov_enabled : bool; ov_min : T; ov_max : T; ov_lock_range : bool;
    ov_lock_previous : bool; ov_default : T;
    ov_aggregation : option snormx; ov_defuzzifier : option defuzzifier;
    ov_terms : list term; ov_value : T; ov_previous : T; ov_fuzzy : list activated }.

  (* ---- rules *)
  Inductive varref : Set := VIn (i : nat) | VOut (i : nat).
  (* Proposition(variable, hedges, term): hedges in textual order; term = index into the variable's terms,
     None when the proposition ends in the hedge `any` *)
  Inductive expr : Type :=
    | EProp (v : varref) (hedges : list hedgex) (t : option nat)
    | EOp (is_and : bool) (l r : expr).
  Record conclusion : Type := { c_var : nat; c_hedges : list hedgex; c_term : nat }.
  Record rule : Type := {
    r_enabled : bool; r_weight : T;
    r_antecedent : option expr;            (* None = not loaded *)
    r_consequent : list conclusion;        (* [] = not loaded *)
    r_degree : T; r_triggered : bool }.
  Definition rule_loaded (r : rule) : bool :=
    match r_antecedent r, r_consequent r with Some _, _ :: _ => true | _, _ => false end.

  Inductive comparator : Set := CmpLt | CmpLe | CmpEq | CmpNe | CmpGe | CmpGt.
  Inductive activation : Type :=
    | AGeneral | AFirst (n : Z) (threshold : T) | ALast (n : Z) (threshold : T)
    | AHighest (n : Z) | ALowest (n : Z) | AProportional | AThreshold (c : comparator) (threshold : T).
  Record block : Type := {
    b_name : string; b_enabled : bool;
    b_conjunction : option tnormx; b_disjunction : option snormx; b_implication : option tnormx;
    b_activation : option activation; b_rules : list rule }.

  Record engine : Type := {
    e_name : string; e_inputs : list input_var; e_outputs : list output_var; e_blocks : list block }.
End Core.
Arguments fnode T : clear implicits.
Arguments term T : clear implicits.
Arguments activated T : clear implicits.
Arguments input_var T : clear implicits.
Arguments output_var T : clear implicits.
Arguments rule T : clear implicits.
Arguments activation T : clear implicits.
Arguments block T : clear implicits.
Arguments engine T : clear implicits.

Section Ops.
  Context {T : Type} {N : Num T}.
  Definition tnormx_compute (n : tnormx) (a b : T) : T :=
    match n with TN n => tnorm_compute n a b
    | TSharp => add (add (div a (lit 2 0)) (div b (lit 4 0))) (lit 1 (-3)) end.
  Definition snormx_compute (n : snormx) (a b : T) : T :=
    match n with SN n => snorm_compute n a b
    | SSharp => add (add (div a (lit 4 0)) (div b (lit 2 0))) (lit 1 (-4)) end.
  Definition hedgex_apply (h : hedgex) (x : T) : T :=
    match h with HG h => hedge_apply h x | HSharp => add (div x (lit 2 0)) (lit 1 (-3)) end.
  Definition hedgex_is_any (h : hedgex) : bool := match h with HG H_Any => true | _ => false end.
  (* numpy.nan_to_num(value, nan=0, neginf=0, posinf=1): the Activated.degree setter *)
  Definition sanitize (d : T) : T :=
    if isnan d then zero else if isposinf d then one else if isneginf d then zero else d.
End Ops.
