(* Defuzz.v — Op.midpoints (fuzzylite/operation.py:319) and the five integral defuzzifiers
   (fuzzylite/defuzzifier.py:178-343), line by line, on one row of membership samples.  Definitions only.
   Generic over `Num T`.

   x = np.atleast_2d(Op.midpoints(minimum, maximum, resolution))      -- shape (1, r)
   y = np.atleast_2d(term.membership(x))                              -- shape (k, r): k = 1 scalar mode, k > 1 batch
   every later operation is row-wise (axis=1), so the batch result is the list of the row results
   (`defuzzify_batch`); that the implementation agrees with this is checked by the correspondence.

   Not modelled: the Python value kind of the result (0-d ndarray after .squeeze()), warnings, and NumPy
   broadcasting of a membership that does not have r columns (the empty Aggregated returns the scalar 0.0, which
   broadcasts; its r-column equivalent is the all-zero row, and both give NaN — checked by the correspondence). *)
From Coq Require Import ZArith Bool List.
From VF Require Import Num Core NpSum.
Import ListNotations.
Set Implicit Arguments.

Section Defuzz.
  Context {T : Type} {N : Num T}.

  Definition half : T := lit 1 (-1).     (* 0.5 *)

  (* start + (np.array(range(resolution)) + 0.5) * ((end - start) / resolution), element i *)
  Definition midpoint (start end_ : T) (r i : nat) : T :=
    add start (mul (add (of_nat i) half) (div (sub end_ start) (of_nat r))).
  Definition midpoints_list (start end_ : T) (r : nat) : list T := map (midpoint start end_ r) (seq 0 r).
  (* resolution 0: `(end - start) / 0` on Python floats raises ZeroDivisionError (IntegralDefuzzifier(0) itself
     silently takes the default 1000; 0 is reachable only by assigning the attribute) *)
  Definition midpoints (start end_ : T) (r : nat) : result (list T) :=
    if (r =? 0)%nat then Err EInternal else Ok (midpoints_list start end_ r).

  (* np.where(mask, x, np.nan) *)
  Definition select (mask : list bool) (xs : list T) : list T := map2 (fun b x => where_ b x nan) mask xs.

  (* Bisector.defuzzify *)
  Definition bisector_area (ys : list T) : result (list T) :=
    let area := nancumsum ys in                                            (* np.nancumsum(y, axis=1) *)
    do last <- last_elem area;                                             (* area[:, [-1]] *)
    Ok (map (fun a => nabs (sub (div a last) half)) area).                 (* np.abs((area / last) - 0.5) *)
  Definition bisector (xs ys : list T) : result T :=
    do area <- bisector_area ys;
    do m <- amin area;                                                     (* area.min(axis=1, keepdims=True) *)
    let index := map (fun a => eqb a m) area in                            (* area == min *)
    Ok (nanmean (select index xs)).                                        (* np.nanmean(np.where(index, x, nan), axis=1) *)

  (* Centroid.defuzzify: (x * y).sum(axis=1) / y.sum(axis=1) *)
  Definition centroid (xs ys : list T) : T := div (np_sum (map2 mul xs ys)) (np_sum ys).

  (* (y > 0) & (y == y.max(axis=1, keepdims=True)) *)
  Definition maxima_mask (ys : list T) : result (list bool) :=
    do m <- amax ys;
    Ok (map (fun y => gtb y zero && eqb y m) ys).

  Definition lom (xs ys : list T) : result T := do mask <- maxima_mask ys; nanmax (select mask xs).
  Definition mom (xs ys : list T) : result T := do mask <- maxima_mask ys; Ok (nanmean (select mask xs)).
  Definition som (xs ys : list T) : result T := do mask <- maxima_mask ys; nanmin (select mask xs).

  (* one row of samples; a row whose length differs from x's does not broadcast (ValueError) *)
  Definition defuzzify_samples (k : integral_kind) (xs ys : list T) : result T :=
    if negb (length xs =? length ys)%nat then Err EValue
    else match k with
         | Bisector => bisector xs ys
         | Centroid => Ok (centroid xs ys)
         | LargestOfMaximum => lom xs ys
         | MeanOfMaximum => mom xs ys
         | SmallestOfMaximum => som xs ys
         end.

  (* IntegralDefuzzifier.defuzzify(term, minimum, maximum) for a pointwise membership function *)
  Definition defuzzify (k : integral_kind) (resolution : nat) (mu : T -> T) (minimum maximum : T) : result T :=
    do xs <- midpoints minimum maximum resolution;
    defuzzify_samples k xs (map mu xs).

  (* batch mode: y has one row per set *)
  Definition defuzzify_batch (k : integral_kind) (xs : list T) (rows : list (list T)) : list (result T) :=
    map (defuzzify_samples k xs) rows.
End Defuzz.
