(* Observe.v — canonical observables of an engine state over binary64 and their exact comparison
   (used by the correspondence checks; floats compare with NaN = NaN and -0 = +0). *)
From Coq Require Import ZArith Bool List String PrimFloat.
From VF Require Import Num NumF Core.
Import ListNotations.

Definition obs : Type :=
  (list (float * float) * list (list (string * float)) * list (list (float * bool)))%type.
  (* per output: (value, previous); per output: fuzzy terms (term name, degree); per block: rules (degree, triggered) *)

Definition observe (e : engine float) : obs :=
  (map (fun ov => (ov_value ov, ov_previous ov)) (e_outputs e),
   map (fun ov => map (fun a => (term_name (a_term a), a_degree a)) (ov_fuzzy ov)) (e_outputs e),
   map (fun b => map (fun r => (r_degree r, r_triggered r)) (b_rules b)) (e_blocks e)).

Fixpoint list_eqb {A : Type} (eq : A -> A -> bool) (a b : list A) : bool :=
  match a, b with
  | [], [] => true
  | x :: a', y :: b' => eq x y && list_eqb eq a' b'
  | _, _ => false
  end.

Definition obs_eqb (a b : obs) : bool :=
  let '(v1, f1, r1) := a in
  let '(v2, f2, r2) := b in
  list_eqb (fun p q => feq (fst p) (fst q) && feq (snd p) (snd q)) v1 v2
  && list_eqb (list_eqb (fun p q => String.eqb (fst p) (fst q) && feq (snd p) (snd q))) f1 f2
  && list_eqb (list_eqb (fun p q => feq (fst p) (fst q) && Bool.eqb (snd p) (snd q))) r1 r2.

Definition err_code (e : err) : nat :=
  match e with ESyntax => 1 | EValue => 2 | ELookup => 3 | ERuntime => 4 | EInternal => 5 end.

(* expected: inl observables | inr error code *)
Definition result_obs_eqb (r : result (engine float)) (expected : obs + nat) : bool :=
  match r, expected with
  | Ok e, inl o => obs_eqb (observe e) o
  | Err x, inr c => Nat.eqb (err_code x) c
  | _, _ => false
  end.

(* ---- stores of engines (property C13) *)
Definition store_obs : Type := (list obs * nat)%type.
Definition observe_store (s : list (engine float) * nat) : store_obs := (map observe (fst s), snd s).
Definition store_obs_eqb (a b : store_obs) : bool := list_eqb obs_eqb (fst a) (fst b) && Nat.eqb (snd a) (snd b).
Definition step_result_eqb (r : result (list (engine float) * nat)) (expected : store_obs + nat) : bool :=
  match r, expected with
  | Ok s, inl o => store_obs_eqb (observe_store s) o
  | Err x, inr c => Nat.eqb (err_code x) c
  | _, _ => false
  end.
Fixpoint steps_eqb (rs : list (result (list (engine float) * nat))) (es : list (store_obs + nat)) : bool :=
  match rs, es with
  | [], [] => true
  | r :: rs', e :: es' => step_result_eqb r e && steps_eqb rs' es'
  | _, _ => false
  end.
