(* Batch.v — Engine.process on BATCHES (input variables holding arrays of k values), following the shapes of
   the vectorised code (C02), and the REFERENCE semantics `process_rows` (the scalar Engine.process of
   Model/Engine.v folded over the rows).  Definitions only; proofs are in Proofs/BatchProofs.v.

   Values carry their NumPy shape (Model/NpLite.v: Sc / Vec / Mat); a degree is 0-d when it does not depend on the
   inputs (disabled variable, hedge `any`, the initial 0.0) and a (k,) vector otherwise.

   Python                                                     here
   v.value = values[:, i]  (clipping setter)                  input_values_set / set_value_b
   Engine.input_values getter (column_stack of the            input_values_get
     values broadcast to a common length)
   Term.membership(x) on an array: elementwise ufuncs         term_membership_b = lift1 of the scalar function
   Linear.membership: (coefficients * input_values)           linear_membership_b: one value per ROW of the input
     .sum(axis=1) + constant                                    matrix, whatever the shape of x
   hedge.hedge(x), norm.compute(a, b)                         lift1 / lift2 (NumPy broadcasting; mismatch = EValue)
   Activated.membership(x):                                   activated_membership_b:
     implication(atleast_2d(degree).T, term.membership(x))      squeeze (lift2 imp (transpose (atleast_2d d)) (mu x))
     .squeeze()
   Aggregated.membership(x): fold from scalar(0.0)            aggregated_membership_b (fold of lift2 from Sc 0)
   IntegralDefuzzifier.defuzzify:                             integral_defuzzify_b: one `defuzzify_samples` per row of
     x = atleast_2d(midpoints), y = atleast_2d(mu(x)),          atleast_2d y (x broadcast along a row when it has one
     reductions along axis 1, .squeeze()                        column), squeeze
   WeightedAverage / WeightedSum                              weighted_defuzzify_b (elementwise on the degree arrays)
   OutputVariable.defuzzify                                   output_defuzzify_b through Model/Cascade.v (batch = list)
   General.activate                                           rules_step_b (deactivate; if loaded: activate_with, trigger)

   Activation methods other than General are NOT modelled on batches (they reject vector degrees through
   `assert_is_not_vector`, Model/Activation.v): `Err EValue`.
   Function terms are not modelled on batches (`Err EInternal`; formula evaluation is C17's subject): the reference
   semantics is instantiated with the same convention (`no_function`), exactly as the scalar correspondence C01 does.
   The General loop is written as a fold over the rules carrying the fuzzy outputs (the form in which
   Proofs/EngineProofs.v restates the scalar loop, `rules_step`), and returns the rule records as well. *)
From Coq Require Import ZArith Bool List String.
From VF Require Import Num GenNorm GenHedge GenTerm Core Discrete NpSum NpLite Defuzz Antecedent Consequent Activation
  Weighted Cascade Engine.
Import ListNotations.
Set Implicit Arguments.
Local Notation length := List.length.
Local Open Scope list_scope.

Section Batch.
  Context {T : Type} {N : Num T}.

  (* the convention for Function terms (see the header) *)
  Definition no_function : engine T -> fnode T -> list (string * T) -> T -> result T := fun _ _ _ _ => Err EInternal.

  (* an Activated term whose degree is an array *)
  Record bactivated : Type := { ba_term : term T; ba_degree : arr T; ba_implication : option tnormx }.

  (* the state of a batch run: the engine as it was before (configuration, and the value / previous value the
     output variables start from), the input arrays, and per output variable the fuzzy output, value, previous value *)
  Record boutput : Type := { bo_fuzzy : list bactivated; bo_value : arr T; bo_previous : T }.
  Record brule : Type := { br_degree : arr T; br_triggered : arr bool }.
  Record bstate : Type := {
    bs_e : engine T;
    bs_inputs : list (arr T);
    bs_outputs : list boutput;
    bs_rules : list (list brule) }.

  (* ============================================================================ input values *)
  (* the clipping Variable.value setter on an array *)
  Definition set_value_b (lock_range : bool) (lo hi : T) (v : arr T) : arr T :=
    if lock_range then lift1 (clip lo hi) v else v.
  Definition iv_set_value (iv : input_var T) (v : arr T) : arr T :=
    set_value_b (iv_lock_range iv) (iv_min iv) (iv_max iv) v.

  (* per-variable assignment `iv.value = v_i` for every input variable *)
  Definition inputs_assign (e : engine T) (vs : list (arr T)) : list (arr T) := map2 iv_set_value (e_inputs e) vs.

  (* the Engine.input_values setter; result = the value of every input variable *)
  Definition input_values_matrix (n : nat) (values : arr T) : list (list T) :=
    match values with
    | Sc x => [repeat x n]                                                       (* np.full((1, n), x) *)
    | Vec _ => if Nat.eqb n 1 then rows_of (transpose (atleast_2d values))      (* one input variable: a column *)
               else rows_of (atleast_2d values)                                  (* several: ONE row *)
    | Mat rows => rows
    end.
  Definition input_values_set (e : engine T) (values : arr T) : result (list (arr T)) :=
    let n := length (e_inputs e) in
    if Nat.eqb n 0 then Err ERuntime
    else
      let m := input_values_matrix n values in
      if negb (Nat.eqb (ncols m) n) then Err EValue
      else mapM_ (fun i => match nth_error (e_inputs e) i with
                           | Some iv => do c <- column i m; Ok (iv_set_value iv (Vec c))
                           | None => Err EInternal end) (seq 0 n).

  (* the Engine.input_values getter (as repaired: values broadcast to a common length, then column_stack) *)
  Definition stack_values (vs : list (arr T)) : result (arr T) :=
    match vs with
    | [] => Ok (Vec [])                                                          (* np.array(()) *)
    | _ => do ls <- mapM_ (@as_vector T) vs; do bs <- broadcast_vectors ls; column_stack bs
    end.
  Definition input_values_get (st : bstate) : result (arr T) := stack_values (bs_inputs st).
  Definition output_values_get (st : bstate) : result (arr T) := stack_values (map bo_value (bs_outputs st)).

  (* ============================================================================ terms *)
  Definition linear_membership_b (st : bstate) (cs : list T) : result (arr T) :=
    let n := length (e_inputs (bs_e st)) in
    if negb (Nat.eqb (length cs) n || Nat.eqb (length cs) (S n)) then Err EValue
    else
      let coefficients := firstn n cs in
      let constant := if Nat.ltb n (length cs) then last cs zero else zero in
      do m <- input_values_get st;
      Ok (Vec (map (fun row => add (np_sum (map2 mul coefficients row)) constant) (rows_of m))).

  Definition term_membership_b (st : bstate) (t : term T) (x : arr T) : result (arr T) :=
    match t with
    | TShape _ s => Ok (lift1 (shape_membership s) x)
    | TDiscrete _ xy h => match xy with [] => Err EValue | _ => Ok (lift1 (Discrete_membership xy h) x) end
    | TLinear _ cs => linear_membership_b st cs
    | TFunction _ (Some _) _ => Err EInternal             (* not modelled *)
    | TFunction _ None _ => Err ERuntime
    end.

  Definition term_tsukamoto_b (t : term T) (y : arr T) : result (arr T) :=
    match t with
    | TShape _ s => match shape_tsukamoto s with Some f => Ok (lift1 f y) | None => Err ERuntime end
    | _ => Err ERuntime
    end.

  (* ============================================================================ grouped terms *)
  Definition bact_name (a : bactivated) : string := term_name (ba_term a).
  Definition new_group_b (a : bactivated) : bactivated :=
    {| ba_term := ba_term a; ba_degree := lift1 sanitize (ba_degree a); ba_implication := None |}.
  Definition update_group_b (s : snormx) (g a : bactivated) : result bactivated :=
    do d <- lift2 (snormx_compute s) (ba_degree g) (ba_degree a);
    Ok {| ba_term := ba_term g; ba_degree := lift1 sanitize d; ba_implication := ba_implication g |}.
  Fixpoint group_insert_b (s : snormx) (a : bactivated) (groups : list bactivated) : result (list bactivated) :=
    match groups with
    | [] => Ok [new_group_b a]
    | g :: rest => if String.eqb (bact_name g) (bact_name a) then do g' <- update_group_b s g a; Ok (g' :: rest)
                   else do rest' <- group_insert_b s a rest; Ok (g :: rest')
    end.
  Fixpoint grouped_from_b (s : snormx) (l : list bactivated) (groups : list bactivated) : result (list bactivated) :=
    match l with
    | [] => Ok groups
    | a :: tl => do groups' <- group_insert_b s a groups; grouped_from_b s tl groups'
    end.
  Definition grouped_terms_b (agg : option snormx) (l : list bactivated) : result (list bactivated) :=
    grouped_from_b (agg_or_sum agg) l [].
  (* Aggregated.activation_degree(term) *)
  Definition fuzzy_activation_degree_b (agg : option snormx) (l : list bactivated) (name : string) : result (arr T) :=
    do groups <- grouped_terms_b agg l;
    match find (fun g => String.eqb (bact_name g) name) groups with
    | Some g => Ok (ba_degree g)
    | None => Ok (Sc zero)
    end.

  (* ============================================================================ antecedent *)
  Fixpoint activation_degree_b (st : bstate) (conj : option tnormx) (disj : option snormx) (node : expr) : result (arr T) :=
    let e := bs_e st in
    match node with
    | EProp v hs t =>
        match var_terms e v, var_enabled e v with
        | Some terms, Some enabled =>
            match terms with
            | [] => Err EValue
            | _ :: _ =>
                if negb enabled then Ok (Sc zero)
                else if last_is_any hs then Ok (Sc (Antecedent.apply_hedges hs nan))
                else match t with
                     | None => Err EValue
                     | Some k =>
                         match nth_error terms k with
                         | None => Err EInternal
                         | Some tm =>
                             do r <- match v with
                                     | VIn i => match nth_error (bs_inputs st) i with
                                                | Some x => term_membership_b st tm x
                                                | None => Err EInternal end
                                     | VOut i => match nth_error (e_outputs e) i, nth_error (bs_outputs st) i with
                                                 | Some ov, Some bo =>
                                                     fuzzy_activation_degree_b (ov_aggregation ov) (bo_fuzzy bo) (term_name tm)
                                                 | _, _ => Err EInternal end
                                     end;
                             Ok (lift1 (Antecedent.apply_hedges hs) r)        (* hedges are elementwise *)
                         end
                     end
            end
        | _, _ => Err EInternal
        end
    | EOp true l r =>
        match conj with
        | None => Err EValue
        | Some c => do a <- activation_degree_b st conj disj l; do b <- activation_degree_b st conj disj r;
                    lift2 (tnormx_compute c) a b
        end
    | EOp false l r =>
        match disj with
        | None => Err EValue
        | Some d => do a <- activation_degree_b st conj disj l; do b <- activation_degree_b st conj disj r;
                    lift2 (snormx_compute d) a b
        end
    end.

  (* Rule.activate_with: self.weight * antecedent degree *)
  Definition rule_activate_with_b (st : bstate) (conj : option tnormx) (disj : option snormx) (r : rule T) : result (arr T) :=
    if rule_loaded r then
      match r_antecedent r with
      | Some x => do d <- activation_degree_b st conj disj x; Ok (lift1 (mul (r_weight r)) d)
      | None => Err ERuntime
      end
    else Err ERuntime.

  (* ============================================================================ consequent *)
  Definition mk_bactivated (t : term T) (d : arr T) (impl : option tnormx) : bactivated :=
    {| ba_term := t; ba_degree := lift1 sanitize d; ba_implication := impl |}.
  Definition bo_append (a : bactivated) (bo : boutput) : boutput :=
    {| bo_fuzzy := bo_fuzzy bo ++ [a]; bo_value := bo_value bo; bo_previous := bo_previous bo |}.

  (* Consequent.modify with an array degree (same loop as Model/Consequent.v, `carry` = the code's reuse of the
     hedged degree, finding modify:hedged-degree-leaks) *)
  Fixpoint modify_loop_b (e : engine T) (carry : bool) (degree : arr T) (impl : option tnormx) (cs : list conclusion)
           (outs : list boutput) : result (list boutput) :=
    match cs with
    | [] => Ok outs
    | c :: rest =>
        match nth_error (e_outputs e) (c_var c) with
        | None => Err EInternal
        | Some v =>
            if negb (var_truthy v) then Err EValue
            else if ov_enabled v then
              let degree' := lift1 (Consequent.apply_hedges (c_hedges c)) degree in
              match nth_error (ov_terms v) (c_term c) with
              | None => Err EInternal
              | Some t =>
                  modify_loop_b e carry (if carry then degree' else degree) impl rest
                    (update_nth (c_var c) (bo_append (mk_bactivated t degree' impl)) outs)
              end
            else modify_loop_b e carry degree impl rest outs
        end
    end.
  Definition modify_b (e : engine T) (degree : arr T) (impl : option tnormx) (cs : list conclusion)
             (outs : list boutput) : result (list boutput) :=
    if is_nil cs then Err ERuntime else modify_loop_b e code_has_F1 degree impl cs outs.

  (* ============================================================================ General activation *)
  Definition with_outputs_b (st : bstate) (outs : list boutput) : bstate :=
    {| bs_e := bs_e st; bs_inputs := bs_inputs st; bs_outputs := outs; bs_rules := bs_rules st |}.

  (* one rule: deactivate; if loaded: activate_with, trigger *)
  Definition rule_step_b (st : bstate) (cj : option tnormx) (dj : option snormx) (im : option tnormx)
      (outs : list boutput) (r : rule T) : result (brule * list boutput) :=
    if rule_loaded r then
      do d <- rule_activate_with_b (with_outputs_b st outs) cj dj r;
      if r_enabled r then
        do outs' <- modify_b (bs_e st) d im (r_consequent r) outs;
        Ok ({| br_degree := d; br_triggered := lift1 (fun x => gtb x zero) d |}, outs')
      else Ok ({| br_degree := d; br_triggered := Sc false |}, outs)
    else Ok ({| br_degree := Sc zero; br_triggered := Sc false |}, outs).

  Fixpoint rules_step_b (st : bstate) cj dj im (outs : list boutput) (rs : list (rule T))
      : result (list brule * list boutput) :=
    match rs with
    | [] => Ok ([], outs)
    | r :: tl => do ro <- rule_step_b st cj dj im outs r;
                 do rest <- rules_step_b st cj dj im (snd ro) tl;
                 Ok (fst ro :: fst rest, snd rest)
    end.

  Definition is_general_b (b : block T) : bool := match b_activation b with Some AGeneral => true | _ => false end.

  Fixpoint blocks_step_b (st : bstate) (outs : list boutput) (bs : list (block T)) (recs : list (list brule))
      : result (list (list brule) * list boutput) :=
    match bs with
    | [] => Ok ([], outs)
    | b :: tl =>
        let old := match recs with r :: _ => r | [] => [] end in
        let recs' := match recs with _ :: t => t | [] => [] end in
        if b_enabled b then
          if is_general_b b then
            do ro <- rules_step_b st (b_conjunction b) (b_disjunction b) (b_implication b) outs (b_rules b);
            do rest <- blocks_step_b st (snd ro) tl recs';
            Ok (fst ro :: fst rest, snd rest)
          else Err EValue                                   (* no activation method / a method that is not modelled on batches *)
        else do rest <- blocks_step_b st outs tl recs'; Ok (old :: fst rest, snd rest)
    end.

  (* ============================================================================ defuzzifiers *)
  (* Activated.membership(x) *)
  Definition activated_membership_b (st : bstate) (a : bactivated) (x : arr T) : result (arr T) :=
    match ba_implication a with
    | None => Err EValue
    | Some imp =>
        do m <- term_membership_b st (ba_term a) x;
        do y <- lift2 (tnormx_compute imp) (transpose (atleast_2d (ba_degree a))) m;
        Ok (squeeze y)
    end.

  (* Aggregated.membership(x) *)
  Fixpoint aggregate_from_b (st : bstate) (agg : snormx) (y : arr T) (l : list bactivated) (x : arr T) : result (arr T) :=
    match l with
    | [] => Ok y
    | a :: tl => do m <- activated_membership_b st a x;
                 do y' <- lift2 (snormx_compute agg) y m;
                 aggregate_from_b st agg y' tl x
    end.
  Definition aggregated_membership_b (st : bstate) (agg : option snormx) (l : list bactivated) (x : arr T) : result (arr T) :=
    match l, agg with
    | [], _ => Ok (Sc zero)
    | _ :: _, None => Err EValue
    | l, Some a => aggregate_from_b st a (Sc zero) l x
    end.

  (* one row of y against the row x of sample points, with NumPy's broadcasting between them:
       same length            the five defuzzifiers of Model/Defuzz.v;
       x has ONE column       x is repeated along the row (resolution 1: finding batch:resolution-1 reads a (k,) vector of
                              degrees-per-row as one row of k samples);
       y has ONE column       (the empty fuzzy output: Aggregated.membership returns the 0-d 0.0) the reductions of y see one
                              element, the products and masks are broadcast against x;
       otherwise              ValueError. *)
  Definition defuzz_narrow (k : integral_kind) (xs : list T) (c : T) : result T :=
    match k with
    | Centroid => Ok (div (np_sum (map (fun x => mul x c) xs)) (np_sum [c]))
    | Bisector =>
        do area <- bisector_area [c];
        do m <- amin area;
        let index := match area with a :: _ => eqb a m | [] => false end in
        Ok (nanmean (map (fun x => where_ index x nan) xs))
    | LargestOfMaximum => do mask <- maxima_mask [c]; nanmax (map (fun x => where_ (hd false mask) x nan) xs)
    | MeanOfMaximum => do mask <- maxima_mask [c]; Ok (nanmean (map (fun x => where_ (hd false mask) x nan) xs))
    | SmallestOfMaximum => do mask <- maxima_mask [c]; nanmin (map (fun x => where_ (hd false mask) x nan) xs)
    end.
  Definition defuzz_row (k : integral_kind) (xs ys : list T) : result T :=
    if Nat.eqb (length xs) (length ys) then defuzzify_samples k xs ys
    else match xs, ys with
         | [x0], _ => defuzzify_samples k (repeat x0 (length ys)) ys
         | _, [c] => defuzz_narrow k xs c
         | _, _ => Err EValue
         end.

  Definition integral_defuzzify_b (st : bstate) (k : integral_kind) (res : nat) (lo hi : T)
      (agg : option snormx) (fz : list bactivated) : result (arr T) :=
    do xs <- midpoints lo hi res;
    do y <- aggregated_membership_b st agg fz (Mat [xs]);         (* x = atleast_2d(midpoints) *)
    do zs <- mapM_ (defuzz_row k xs) (rows_of y);                 (* y = atleast_2d(...); axis 1 *)
    Ok (squeeze (Vec zs)).

  (* weighted defuzzifiers *)
  Definition static_activated (a : bactivated) : activated T :=
    {| a_term := ba_term a; a_degree := zero; a_implication := ba_implication a |}.
  Definition term_value_b (st : bstate) (this_type : wtype) (t : term T) (w : arr T) : result (arr T) :=
    match this_type with WTsukamoto => term_tsukamoto_b t w | _ => term_membership_b st t w end.
  Fixpoint wloop_b (st : bstate) (this_type : wtype) (groups : list bactivated) (acc : arr T * arr T) : result (arr T * arr T) :=
    match groups with
    | [] => Ok acc
    | g :: rest =>
        let w := ba_degree g in
        do z <- term_value_b st this_type (ba_term g) w;
        do wz <- lift2 wcontrib w z;                      (* np.where(w == 0.0, 0.0, w * z) *)
        do ws <- lift2 add (fst acc) wz;
        do wt <- lift2 add (snd acc) w;
        wloop_b st this_type rest (ws, wt)
    end.
  Definition winit_b (l : list bactivated) : arr T * arr T :=
    (Sc (match l with [] => nan | _ :: _ => zero end), Sc zero).
  Definition wfinal_b (average : bool) (acc : arr T * arr T) : result (arr T) :=
    do q <- lift2 div (fst acc) (snd acc);
    if average then Ok (squeeze q) else do y <- lift2 mul q (snd acc); Ok (squeeze y).
  Definition weighted_defuzzify_b (st : bstate) (average : bool) (ty : wtype) (agg : option snormx) (l : list bactivated) : result (arr T) :=
    do this_type <- resolve_type ty (map static_activated l);
    do groups <- grouped_terms_b agg l;
    do acc <- wloop_b st this_type groups (winit_b l);
    wfinal_b average acc.

  Definition defuzzifier_value_b (st : bstate) (ov : output_var T) (fz : list bactivated) (d : defuzzifier) : result (arr T) :=
    match d with
    | DIntegral k res => integral_defuzzify_b st k res (ov_min ov) (ov_max ov) (ov_aggregation ov) fz
    | DWeighted average ty => weighted_defuzzify_b st average ty (ov_aggregation ov) fz
    end.

  (* OutputVariable.defuzzify: the cascade of Model/Cascade.v on the elements of the defuzzified array; the committed
     value has the shape of the defuzzified one.  A 2-d defuzzified value is not modelled. *)
  Definition reshape_like (a : arr T) (l : list T) : arr T :=
    match a, l with Sc _, [v] => Sc v | _, _ => Vec l end.
  Definition output_defuzzify_b (st : bstate) (ov : output_var T) (bo : boutput) : result boutput :=
    if negb (ov_enabled ov) then Ok bo
    else match ov_defuzzifier ov with
    | None => Err EValue
    | Some d =>
        do a <- defuzzifier_value_b st ov (bo_fuzzy bo) d;
        do ds <- match a with Mat _ => Err EInternal | _ => Ok (ravel a) end;
        let cst := {| cs_value := ravel (bo_value bo); cs_previous := bo_previous bo; cs_fuzzy := bo_fuzzy bo |} in
        let '(cst', er) := defuzzify_fields true true (ov_lock_previous ov) (ov_default ov) (ov_lock_range ov)
                                            (ov_min ov) (ov_max ov) (Ok ds) cst in
        match er with
        | Some x => Err x
        | None => Ok {| bo_fuzzy := bo_fuzzy bo; bo_value := reshape_like a (cs_value cst'); bo_previous := cs_previous cst' |}
        end
    end.

  (* for variable in self.output_variables: variable.defuzzify()  (a defuzzifier reads the engine only through the input
     values, Linear terms; the other output variables' values would matter to Function terms only) *)
  Definition defuzzify_outputs_b (st : bstate) (ovs : list (output_var T)) (outs : list boutput) : result (list boutput) :=
    if Nat.eqb (length ovs) (length outs)
    then mapM_ (fun p => output_defuzzify_b st (fst p) (snd p)) (combine ovs outs)
    else Err EInternal.

  (* ============================================================================ Engine.process on a batch *)
  (* the state in which a batch run starts: the scalar state of e, the input arrays just assigned *)
  Definition init_bstate (e : engine T) (ins : list (arr T)) : bstate :=
    {| bs_e := e; bs_inputs := ins;
       bs_outputs := map (fun ov => {| bo_fuzzy := map (fun a => {| ba_term := a_term a; ba_degree := Sc (a_degree a);
                                                                     ba_implication := a_implication a |}) (ov_fuzzy ov);
                                       bo_value := Sc (ov_value ov); bo_previous := ov_previous ov |}) (e_outputs e);
       bs_rules := map (fun b => map (fun r => {| br_degree := Sc (r_degree r); br_triggered := Sc (r_triggered r) |}) (b_rules b))
                       (e_blocks e) |}.

  Definition bo_clear_fuzzy (bo : boutput) : boutput :=
    {| bo_fuzzy := []; bo_value := bo_value bo; bo_previous := bo_previous bo |}.

  Definition process_b (st : bstate) : result bstate :=
    let e := bs_e st in
    do ro <- blocks_step_b st (map bo_clear_fuzzy (bs_outputs st)) (e_blocks e) (bs_rules st);
    do outs <- defuzzify_outputs_b st (e_outputs e) (snd ro);
    Ok {| bs_e := e; bs_inputs := bs_inputs st; bs_outputs := outs; bs_rules := fst ro |}.

  (* engine.input_values = values; engine.process() *)
  Definition process_batch (e : engine T) (values : arr T) : result bstate :=
    do ins <- input_values_set e values; process_b (init_bstate e ins).
  (* iv.value = v_i for every input variable; engine.process() *)
  Definition process_batch_vars (e : engine T) (vs : list (arr T)) : result bstate :=
    process_b (init_bstate e (inputs_assign e vs)).

  (* ============================================================================ the reference: row by row *)
  (* the scalar Engine.process on every row in turn; row i+1 starts from the state left by row i (the output
     variables' value / previous value — and everything else — carried over); the engine after every row *)
  Fixpoint process_rows (e : engine T) (rows : list (list T)) : result (list (engine T)) :=
    match rows with
    | [] => Ok []
    | r :: tl => do e' <- process no_function (set_inputs e r);
                 do rest <- process_rows e' tl;
                 Ok (e' :: rest)
    end.

  (* ---- observables, row for row *)
  (* row i of a batch state: the value and the fuzzy output (term, degree) of every output variable *)
  Definition row_fuzzy (i : nat) (l : list bactivated) : list (string * T) :=
    map (fun a => (bact_name a, aget nan (ba_degree a) i)) l.
  Definition batch_row (st : bstate) (i : nat) : list (T * list (string * T)) :=
    map (fun bo => (aget nan (bo_value bo) i, row_fuzzy i (bo_fuzzy bo))) (bs_outputs st).
  Definition engine_row (e : engine T) : list (T * list (string * T)) :=
    map (fun ov => (ov_value ov, map (fun a => (term_name (a_term a), a_degree a)) (ov_fuzzy ov))) (e_outputs e).
  Definition batch_rows (k : nat) (st : bstate) : list (list (T * list (string * T))) := map (batch_row st) (seq 0 k).

  (* hypotheses of the composed theorem *)
  Definition r_ok (e : engine T) (k : nat) : Prop :=
    k = 1 \/ forall ov kind res, In ov (e_outputs e) -> ov_defuzzifier ov = Some (DIntegral kind res) -> 2 <= res.
End Batch.
Arguments bactivated T : clear implicits.
Arguments boutput T : clear implicits.
Arguments brule T : clear implicits.
Arguments bstate T : clear implicits.
