(* Engine.v — Engine.process in scalar mode, composed from the component models:
   Antecedent (rule degrees), Consequent (trigger/modify), Activation (the seven methods),
   Defuzz / Weighted (defuzzifiers), Cascade (lock-previous / default / lock-range).  Definitions only. *)
From Coq Require Import ZArith Bool List String.
From VF Require Import Num GenNorm GenHedge GenTerm Core Discrete NpSum Defuzz Antecedent Consequent Activation Weighted Cascade.
Import ListNotations.
Set Implicit Arguments.
Local Notation length := List.length.

Section Engine.
  Context {T : Type} {N : Num T}.

  (* Function terms: evaluation of the formula tree is supplied by the formula model (C17); None = no model plugged *)
  Variable function_eval : engine T -> fnode T -> list (string * T) -> T -> result T.

  Fixpoint mapM {A B : Type} (f : A -> result B) (l : list A) : result (list B) :=
    match l with
    | [] => Ok []
    | a :: tl => do b <- f a; do bs <- mapM f tl; Ok (b :: bs)
    end.

  Fixpoint set_nth {A : Type} (i : nat) (x : A) (l : list A) : list A :=
    match l, i with
    | [], _ => []
    | _ :: tl, O => x :: tl
    | a :: tl, S i' => a :: set_nth i' x tl
    end.

  (* ---- Term.membership(x) in scalar mode *)
  Definition linear_membership (e : engine T) (cs : list T) : result T :=
    let n := length (e_inputs e) in
    if negb (Nat.eqb (length cs) n || Nat.eqb (length cs) (S n)) then Err EValue
    else
      let coefficients := firstn n cs in
      let constant := if Nat.ltb n (length cs) then last cs zero else zero in
      let inputs := map (fun iv => iv_value iv) (e_inputs e) in
      Ok (add (np_sum (map2 mul coefficients inputs)) constant).

  Definition term_membership (e : engine T) (t : term T) (x : T) : result T :=
    match t with
    | TShape _ s => Ok (shape_membership s x)
    | TDiscrete _ xy h => match xy with [] => Err EValue | _ => Ok (Discrete_membership xy h x) end
    | TLinear _ cs => linear_membership e cs
    | TFunction _ (Some f) vars => function_eval e f vars x
    | TFunction _ None _ => Err ERuntime
    end.

  Definition term_tsukamoto (t : term T) (y : T) : result T :=
    match t with
    | TShape _ s => match shape_tsukamoto s with Some f => Ok (f y) | None => Err ERuntime end
    | _ => Err ERuntime
    end.

  (* ---- Activated.membership / Aggregated.membership at one point *)
  Definition activated_membership (e : engine T) (a : activated T) (x : T) : result T :=
    match a_implication a with
    | None => Err EValue
    | Some imp => do m <- term_membership e (a_term a) x; Ok (tnormx_compute imp (a_degree a) m)
    end.

  Fixpoint aggregate_from (e : engine T) (agg : snormx) (y : T) (l : list (activated T)) (x : T) : result T :=
    match l with
    | [] => Ok y
    | a :: tl => do m <- activated_membership e a x; aggregate_from e agg (snormx_compute agg y m) tl x
    end.

  Definition aggregated_membership (e : engine T) (ov : output_var T) (x : T) : result T :=
    match ov_fuzzy ov, ov_aggregation ov with
    | [], _ => Ok zero
    | _ :: _, None => Err EValue
    | l, Some agg => aggregate_from e agg zero l x
    end.

  (* ---- the defuzzifier of one output variable *)
  Definition defuzzifier_value (e : engine T) (ov : output_var T) (d : defuzzifier) : result T :=
    match d with
    | DIntegral k res =>
        do xs <- midpoints (ov_min ov) (ov_max ov) res;
        do ys <- mapM (aggregated_membership e ov) xs;
        defuzzify_samples k xs ys
    | DWeighted average ty =>
        weighted_defuzzify (term_membership e) term_tsukamoto average ty (ov_aggregation ov) (ov_fuzzy ov)
    end.

  (* OutputVariable.defuzzify through the cascade model; scalar value = one-element batch *)
  Definition output_defuzzify (e : engine T) (ov : output_var T) : result (output_var T) :=
    let d := match ov_defuzzifier ov with
             | Some d => if ov_enabled ov then do v <- defuzzifier_value e ov d; Ok [v] else Ok []
             | None => Ok [] end in
    let st := {| cs_value := [ov_value ov]; cs_previous := ov_previous ov; cs_fuzzy := ov_fuzzy ov |} in
    let '(st', er) := defuzzify_fields (ov_enabled ov) (match ov_defuzzifier ov with Some _ => true | None => false end)
                                       (ov_lock_previous ov) (ov_default ov) (ov_lock_range ov) (ov_min ov) (ov_max ov) d st in
    match er with
    | Some x => Err x
    | None =>
        Ok {| ov_name := ov_name ov; ov_enabled := ov_enabled ov; ov_min := ov_min ov; ov_max := ov_max ov;
              ov_lock_range := ov_lock_range ov; ov_lock_previous := ov_lock_previous ov; ov_default := ov_default ov;
              ov_aggregation := ov_aggregation ov; ov_defuzzifier := ov_defuzzifier ov; ov_terms := ov_terms ov;
              ov_value := last (cs_value st') nan; ov_previous := cs_previous st'; ov_fuzzy := ov_fuzzy ov |}
    end.

  (* ---- rule blocks: the state of the activation loops is the whole engine *)
  Definition with_outputs (e : engine T) (outs : list (output_var T)) : engine T :=
    {| e_name := e_name e; e_inputs := e_inputs e; e_outputs := outs; e_blocks := e_blocks e |}.
  Definition with_rule (e : engine T) (bi ri : nat) (r : rule T) : engine T :=
    match nth_error (e_blocks e) bi with
    | None => e
    | Some b =>
        let b' := {| b_name := b_name b; b_enabled := b_enabled b; b_conjunction := b_conjunction b;
                     b_disjunction := b_disjunction b; b_implication := b_implication b;
                     b_activation := b_activation b; b_rules := set_nth ri r (b_rules b) |} in
        {| e_name := e_name e; e_inputs := e_inputs e; e_outputs := e_outputs e; e_blocks := set_nth bi b' (e_blocks e) |}
    end.
  Definition get_rule (e : engine T) (bi ri : nat) : option (block T * rule T) :=
    match nth_error (e_blocks e) bi with
    | None => None
    | Some b => match nth_error (b_rules b) ri with None => None | Some r => Some (b, r) end
    end.
  Definition rule_with_degree (r : rule T) (d : T) : rule T :=
    {| r_enabled := r_enabled r; r_weight := r_weight r; r_antecedent := r_antecedent r;
       r_consequent := r_consequent r; r_degree := d; r_triggered := r_triggered r |}.
  Definition rule_deactivated (r : rule T) : rule T :=
    {| r_enabled := r_enabled r; r_weight := r_weight r; r_antecedent := r_antecedent r;
       r_consequent := r_consequent r; r_degree := zero; r_triggered := false |}.

  Definition block_ops (bi : nat) : rule_ops T (engine T) := {|
    op_is_loaded := fun e ri => match get_rule e bi ri with Some (_, r) => rule_loaded r | None => false end;
    op_deactivate := fun e ri => match get_rule e bi ri with Some (_, r) => with_rule e bi ri (rule_deactivated r) | None => e end;
    op_activate_with := fun e ri =>
      match get_rule e bi ri with
      | Some (b, r) =>
          do d <- rule_activate_with (term_membership e) (b_conjunction b) (b_disjunction b) e r;
          Ok (d, with_rule e bi ri (rule_with_degree r d))
      | None => Err EInternal
      end;
    op_trigger := fun e ri =>
      match get_rule e bi ri with
      | Some (b, r) =>
          do ro <- trigger r (b_implication b) (e_outputs e);
          Ok (with_outputs (with_rule e bi ri (fst ro)) (snd ro))
      | None => Err EInternal
      end;
    op_degree := fun e ri => match get_rule e bi ri with Some (_, r) => r_degree r | None => nan end;
    op_set_degree := fun e ri d => match get_rule e bi ri with Some (_, r) => with_rule e bi ri (rule_with_degree r d) | None => e end;
    op_degree_size := fun _ _ => 1%nat
  |}.

  Definition activate_block (e : engine T) (bi : nat) (b : block T) : result (engine T) :=
    match b_activation b with
    | None => Err EValue
    | Some m => activate (block_ops bi) m (length (b_rules b)) e
    end.

  Fixpoint activate_blocks (e : engine T) (bi : nat) (bs : list (block T)) : result (engine T) :=
    match bs with
    | [] => Ok e
    | b :: tl => if b_enabled b then do e' <- activate_block e bi b; activate_blocks e' (S bi) tl
                 else activate_blocks e (S bi) tl
    end.

  Definition clear_fuzzy (ov : output_var T) : output_var T := with_fuzzy ov [].

  Fixpoint defuzzify_outputs (e : engine T) (oi : nat) (todo : list (output_var T)) : result (engine T) :=
    match todo with
    | [] => Ok e
    | _ :: tl =>
        match nth_error (e_outputs e) oi with
        | None => Err EInternal
        | Some ov => do ov' <- output_defuzzify e ov; defuzzify_outputs (with_outputs e (set_nth oi ov' (e_outputs e))) (S oi) tl
        end
    end.

  (* Engine.process *)
  Definition process (e : engine T) : result (engine T) :=
    let e0 := with_outputs e (map clear_fuzzy (e_outputs e)) in
    do e1 <- activate_blocks e0 0 (e_blocks e0);
    defuzzify_outputs e1 0 (e_outputs e1).

  Definition set_inputs (e : engine T) (xs : list T) : engine T :=
    {| e_name := e_name e;
       e_inputs := map2 (fun iv x => {| iv_name := iv_name iv; iv_enabled := iv_enabled iv; iv_min := iv_min iv; iv_max := iv_max iv;
                                         iv_lock_range := iv_lock_range iv; iv_terms := iv_terms iv;
                                         iv_value := if iv_lock_range iv then clip (iv_min iv) (iv_max iv) x else x |}) (e_inputs e) xs;
       e_outputs := e_outputs e; e_blocks := e_blocks e |}.
End Engine.
