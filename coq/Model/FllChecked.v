(* FllChecked.v — the FuzzyLite Language importer INCLUDING the two loading steps that Model/Fll.v's `import_` leaves out:

     FllImporter.rule(line, engine)  = Rule.create(text, engine): rule.parse(text); `if engine: rule.load(engine)`
         (importer.py 303-313, rule.py 890-902).  The engine is the one under construction: the variables of the blocks
         processed BEFORE this rule block (the importer processes a block when the next header or the end of the text is
         reached).  An exception of Rule.load propagates unchanged (SyntaxError; there is no collection of rule errors
         here: RuleBlock.load_rules / Engine(load=True), which raise RuntimeError, are not called by the importer).
         Model: RuleText.load_rule (C16) on the value of the `rule:` line, against `core_engine` of the engine so far.
     FllImporter.term(line, engine) for a Function: term.configure(formula) = `self.formula = formula; self.load()`
         (term.py 2976-2983) -> Function.parse(formula), SyntaxError when the formula is ill-formed.
         Model: Formula.parse_text (C17) on the formula; whether an operand is a number or a variable name plays no
         role for acceptance, so every operand is read as a name.

   `import_checked` repeats the block structure of `import_` (Fll.process / Fll.engine_loop) with the two checks placed
   exactly where the code performs them: after the line's own parsing, before the next line is looked at.  `import_`
   and the theorems about it are unchanged.  Definitions only; proofs in Proofs/FllCheckedProofs.v. *)
From Coq Require Import ZArith Bool List String Ascii.
From VF Require Import Num GenNorm GenTerm GenOpTable Core Fll.
From VF Require ShuntingYard Antecedent RuleText Formula.
Import ListNotations.
Local Open Scope string_scope.
Local Open Scope list_scope.
Set Implicit Arguments.

Section Checked.
  Variable num : Type.
  Variable parse : string -> option num.
  Variables n_nan n_pinf n_ninf n_one n_zero : num.

  (* ---- the engine-level view the rule loader needs: names of variables and of their terms, in order.
     (Parameters are carried over where Core has a place for them; the loader reads only the names.) *)
  Definition core_term (t : fll_term num) : term num :=
    match t with
    | FShape n c ps h =>
        match shape_make c (match lookup_term c with Some r => if row_height r then ps ++ [h] else ps | None => ps end) with
        | Some s => TShape n s
        | None => TLinear n ps
        end
    | FDiscrete n xy h => TDiscrete n xy h
    | FLinear n cs _ => TLinear n cs
    | FFunction n _ _ => TFunction n None []
    end.
  Definition core_input (v : fll_input num) : input_var num :=
    {| iv_name := fi_name v; iv_enabled := fi_enabled v; iv_min := fi_min v; iv_max := fi_max v;
       iv_lock_range := fi_lock_range v; iv_terms := map core_term (fi_terms v); iv_value := n_nan |}.
  Definition core_output (v : fll_output num) : output_var num :=
    {| ov_name := fo_name v; ov_enabled := fo_enabled v; ov_min := fo_min v; ov_max := fo_max v;
       ov_lock_range := fo_lock_range v; ov_lock_previous := fo_lock_previous v; ov_default := fo_default v;
       ov_aggregation := option_map (@SN) (fo_aggregation v); ov_defuzzifier := None;
       ov_terms := map core_term (fo_terms v); ov_value := n_nan; ov_previous := n_nan; ov_fuzzy := [] |}.
  (* rule blocks are not consulted by Rule.load *)
  Definition core_engine (e : fll_engine num) : engine num :=
    {| e_name := fe_name e; e_inputs := map core_input (fe_inputs e); e_outputs := map core_output (fe_outputs e);
       e_blocks := [] |}.

  (* float(token) does not raise *)
  Definition is_float (s : string) : bool := match parse s with Some _ => true | None => false end.

  (* Rule.create(value, engine), outcome only *)
  Definition check_rule (e : fll_engine num) (value : string) : result unit :=
    match RuleText.load_rule is_float (core_engine e) value with Ok _ => Ok tt | Err x => Err x end.
  (* Function.load() of an imported Function term *)
  Definition check_formula (t : fll_term num) : result unit :=
    match t with
    | FFunction _ f _ =>
        match Formula.parse_text op_table (fun _ : string => @None num) Antecedent.KW_AND Antecedent.KW_OR f with
        | Ok _ => Ok tt
        | Err x => Err x
        end
    | _ => Ok tt
    end.

  (* the line handlers of Fll with the check of the line placed first among the effects that follow its own parsing *)
  Definition term_check (kraw key value : string) : result unit :=
    if String.eqb key "term" then do t <- import_term parse n_nan n_one kraw value; check_formula t else Ok tt.
  Definition rule_check (e : fll_engine num) (kraw key value : string) : result unit :=
    if String.eqb key "rule" then do r <- import_rule parse n_one kraw value; check_rule e value else Ok tt.

  Definition input_line_checked (kraw key value : string) (v : fll_input num) : result (fll_input num) :=
    do _ <- term_check kraw key value; input_line parse n_nan n_one kraw key value v.
  Definition output_line_checked (kraw key value : string) (v : fll_output num) : result (fll_output num) :=
    do _ <- term_check kraw key value; output_line parse n_nan n_one kraw key value v.
  Definition block_line_checked (e : fll_engine num) (kraw key value : string) (b : fll_block num) : result (fll_block num) :=
    do _ <- rule_check e kraw key value; block_line parse n_one n_zero kraw key value b.

  Definition import_input_checked (block : list string) : result (fll_input num) :=
    do v <- fold_block input_line_checked block (input_default n_pinf n_ninf);
    let '(Build_fll_input nm de en lo hi lk ts) := v in
    Ok (Build_fll_input (as_identifier nm) de en lo hi lk ts).
  Definition import_output_checked (block : list string) : result (fll_output num) :=
    do v <- fold_block output_line_checked block (output_default n_nan n_pinf n_ninf);
    let '(Build_fll_output nm de en lo hi lk ag df dv lp ts) := v in
    Ok (Build_fll_output (as_identifier nm) de en lo hi lk ag df dv lp ts).
  Definition import_block_checked (e : fll_engine num) (block : list string) : result (fll_block num) :=
    fold_block (block_line_checked e) block (block_default num).

  (* FllImporter._process *)
  Definition process_checked (component : string) (block : list string) (e : fll_engine num) : result (fll_engine num) :=
    let '(Build_fll_engine nm de ins outs bs) := e in
    if String.eqb component "Engine" then fold_block (@engine_line num) block e
    else if String.eqb component "InputVariable" then do v <- import_input_checked block; Ok (Build_fll_engine nm de (ins ++ [v]) outs bs)
    else if String.eqb component "OutputVariable" then do v <- import_output_checked block; Ok (Build_fll_engine nm de ins (outs ++ [v]) bs)
    else if String.eqb component "RuleBlock" then do b <- import_block_checked e block; Ok (Build_fll_engine nm de ins outs (bs ++ [b]))
    else Ok e.

  (* FllImporter.engine *)
  Fixpoint engine_loop_checked (lines : list string) (component : string) (block : list string) (e : fll_engine num)
    : result (fll_engine num) :=
    match lines with
    | [] => if String.eqb component "" then Ok e else process_checked component block e
    | line :: rest =>
        let l := clean_line line in
        if String.eqb l "" then engine_loop_checked rest component block e else
        do k <- key_value l;
        let '(_, key, _) := k in
        if is_header key then
          do e' <- (if String.eqb component "" then Ok e else process_checked component block e);
          engine_loop_checked rest key [l] e'
        else engine_loop_checked rest component (block ++ [l]) e
    end.
  Definition import_checked (lines : list string) : result (fll_engine num) :=
    engine_loop_checked lines "" [] (engine_default num).
End Checked.

(* at the token instance of Fll.v *)
Definition tn_import_checked (tbl : list string) (one zero : string) (lines : list string) : result (fll_engine tnum) :=
  import_checked (tn_parse tbl) (TN "nan" false) (TN "inf" false) (TN "-inf" false) (TN one true) (TN zero false) lines.
