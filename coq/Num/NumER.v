(* NumER — the reals extended with +inf, -inf and NaN, with IEEE 754's rules for the special values.
   No rounding, no overflow, no signed zero (x/0 takes 0 as +0).  Everything the properties say about
   NaN and the infinities is read here. *)
From Coq Require Import ZArith Reals Bool Lra.
From VF Require Import Num NumR.
Local Open Scope R_scope.

Inductive ER : Type := Fin (r : R) | PInf | NInf | NaN.

Definition Rsgn (r : R) : comparison := if Rlt_dec 0 r then Gt else if Rlt_dec r 0 then Lt else Eq.

Definition ERneg (a : ER) : ER := match a with Fin r => Fin (- r) | PInf => NInf | NInf => PInf | NaN => NaN end.
Definition ERadd (a b : ER) : ER :=
  match a, b with
  | NaN, _ | _, NaN => NaN
  | PInf, NInf | NInf, PInf => NaN
  | PInf, _ | _, PInf => PInf
  | NInf, _ | _, NInf => NInf
  | Fin x, Fin y => Fin (x + y)
  end.
Definition ERsub (a b : ER) : ER := ERadd a (ERneg b).
Definition ERsigned_inf (c : comparison) : ER := match c with Gt => PInf | Lt => NInf | Eq => NaN end.
Definition ERsgn (a : ER) : comparison := match a with Fin r => Rsgn r | PInf => Gt | NInf => Lt | NaN => Eq end.
Definition cmul (a b : comparison) : comparison :=
  match a, b with Eq, _ | _, Eq => Eq | Gt, Gt | Lt, Lt => Gt | _, _ => Lt end.
Definition ERmul (a b : ER) : ER :=
  match a, b with
  | NaN, _ | _, NaN => NaN
  | Fin x, Fin y => Fin (x * y)
  | _, _ => ERsigned_inf (cmul (ERsgn a) (ERsgn b))        (* inf * 0 = NaN *)
  end.
Definition ERdiv (a b : ER) : ER :=
  match a, b with
  | NaN, _ | _, NaN => NaN
  | Fin x, Fin y => if Req_EM_T y 0 then ERsigned_inf (Rsgn x)     (* x/0: +-inf, 0/0 = NaN; the zero is +0 *)
                    else Fin (x / y)
  | Fin _, _ => Fin 0
  | _, Fin y => if Req_EM_T y 0 then a else ERsigned_inf (cmul (ERsgn a) (Rsgn y))
  | _, _ => NaN                                                    (* inf / inf *)
  end.
Definition ERabs (a : ER) : ER := match a with Fin r => Fin (Rabs r) | PInf | NInf => PInf | NaN => NaN end.
Definition ERsqrt (a : ER) : ER :=
  match a with Fin r => if Rlt_dec r 0 then NaN else Fin (sqrt r) | PInf => PInf | NInf => NaN | NaN => NaN end.
Definition ERltb (a b : ER) : bool :=
  match a, b with
  | NaN, _ | _, NaN => false
  | Fin x, Fin y => Rltb x y
  | NInf, NInf | PInf, PInf => false
  | NInf, _ | _, PInf => true
  | _, _ => false
  end.
Definition EReqb (a b : ER) : bool :=
  match a, b with Fin x, Fin y => Reqb x y | PInf, PInf | NInf, NInf => true | _, _ => false end.
Definition ERleb (a b : ER) : bool := ERltb a b || EReqb a b.
Definition ERisnan (a : ER) : bool := match a with NaN => true | _ => false end.
Definition ERmin (a b : ER) : ER := if ERisnan a then a else if ERisnan b then b else if ERltb b a then b else a.
Definition ERmax (a b : ER) : ER := if ERisnan a then a else if ERisnan b then b else if ERltb a b then b else a.
Definition ERexp (a : ER) : ER := match a with Fin r => Fin (exp r) | PInf => PInf | NInf => Fin 0 | NaN => NaN end.
Definition ERlog (a : ER) : ER :=
  match a with Fin r => if Rlt_dec 0 r then Fin (ln r) else if Req_EM_T r 0 then NInf else NaN | PInf => PInf | _ => NaN end.
Definition ERcos (a : ER) : ER := match a with Fin r => Fin (cos r) | _ => NaN end.
(* numpy.power, for the cases the modelled kernels reach (non-negative base); anything else is NaN here *)
Definition ERpow (a b : ER) : ER :=
  match a, b with
  | NaN, _ | _, NaN => NaN
  | Fin x, Fin y => if Rlt_dec x 0 then NaN
                    else if Req_EM_T x 0 then (if Rlt_dec 0 y then Fin 0 else if Req_EM_T y 0 then Fin 1 else PInf)
                    else Fin (Rpower x y)
  | PInf, Fin y => if Rlt_dec 0 y then PInf else if Req_EM_T y 0 then Fin 1 else Fin 0
  | _, _ => NaN
  end.

#[export] Instance NumER : Num ER := {
  lit := fun m e => Fin (Rlit m e); nan := NaN; pinf := PInf; ninf := NInf; npi := Fin PI;
  add := ERadd; sub := ERsub; mul := ERmul; div := ERdiv;
  neg := ERneg; nabs := ERabs; nsqrt := ERsqrt;
  square := fun x => ERmul x x; spow2 := fun x => ERmul x x; pypow2 := fun x => ERmul x x;
  nmin := ERmin; nmax := ERmax;
  ltb := ERltb; leb := ERleb; eqb := EReqb;
  isnan := ERisnan; isfinite := fun a => match a with Fin _ => true | _ => false end;
  isposinf := fun a => match a with PInf => true | _ => false end;
  isneginf := fun a => match a with NInf => true | _ => false end;
  fexp := ERexp; flog := ERlog; fcos := ERcos; fpow := ERpow
}.

(* unfold the interface at ER *)
Ltac unER :=
  cbv [zero one b2f where_ gtb geb neqb pymin pymax
       lit nan pinf ninf npi add sub mul div neg nabs nsqrt square spow2 pypow2
       nmin nmax ltb leb eqb isnan isfinite isposinf isneginf fexp flog fcos fpow NumER] in *.

(* finite arguments without exceptional operations behave like the reals *)
Lemma ERadd_fin x y : ERadd (Fin x) (Fin y) = Fin (x + y). Proof. reflexivity. Qed.
Lemma ERsub_fin x y : ERsub (Fin x) (Fin y) = Fin (x - y). Proof. reflexivity. Qed.
Lemma ERmul_fin x y : ERmul (Fin x) (Fin y) = Fin (x * y). Proof. reflexivity. Qed.
Lemma ERdiv_fin x y : y <> 0 -> ERdiv (Fin x) (Fin y) = Fin (x / y).
Proof. intros H; unfold ERdiv; destruct (Req_EM_T y 0); [contradiction|reflexivity]. Qed.
Lemma ERltb_fin x y : ERltb (Fin x) (Fin y) = Rltb x y. Proof. reflexivity. Qed.
Lemma EReqb_fin x y : EReqb (Fin x) (Fin y) = Reqb x y. Proof. reflexivity. Qed.
Lemma ERleb_fin x y : ERleb (Fin x) (Fin y) = Rleb x y.
Proof.
  unfold ERleb; cbn. destruct (Rltb_spec x y), (Reqb_spec x y), (Rleb_spec x y); cbn; try reflexivity; exfalso; lra.
Qed.
