(* NumF — Coq's primitive binary64 floats.  Executable with vm_compute; this is the reading
   that is compared bit for bit with NumPy.  Functions that are not IEEE-basic are looked up
   in a table of (function, argument, argument2) -> result recorded from the implementation. *)
From Coq Require Import ZArith Bool List Uint63 PrimFloat FloatOps.
From VF Require Import Num.
Import ListNotations.

Definition feq (a b : float) : bool :=                (* bit equality up to NaN = NaN, -0 = +0 *)
  PrimFloat.eqb a b || (PrimFloat.is_nan a && PrimFloat.is_nan b).
Definition fsame (a b : float) : bool :=               (* argument identity for oracle lookup: also distinguishes -0/+0 *)
  (PrimFloat.is_nan a && PrimFloat.is_nan b) ||
  (PrimFloat.eqb a b && Bool.eqb (PrimFloat.get_sign a) (PrimFloat.get_sign b)).

(* oracle entries: tag 0 exp, 1 log, 2 cos, 3 power(a,b), 4 pow2 (libm pow(a,2)) *)
Definition oracle := list (nat * float * float * float).
Definition omiss : float := 0x1.deadbeefp-900%float.  (* distinguished value of a lookup miss *)
Fixpoint olook (tbl : oracle) (tag : nat) (a b : float) : float :=
  match tbl with
  | [] => omiss
  | (t, x, y, r) :: tl => if Nat.eqb t tag && fsame x a && fsame y b then r else olook tl tag a b
  end.

Definition Flit (m e : Z) : float :=
  let a := PrimFloat.of_uint63 (Uint63.of_Z (Z.abs m)) in
  let v := Z.ldexp a e in
  if (m <? 0)%Z then PrimFloat.opp v else v.

Definition Fisfinite (x : float) : bool := negb (PrimFloat.is_nan x) && negb (PrimFloat.is_infinity x).
(* numpy.minimum / maximum propagate NaN *)
Definition Fmin (a b : float) : float :=
  if PrimFloat.is_nan a then a else if PrimFloat.is_nan b then b else if PrimFloat.ltb b a then b else a.
Definition Fmax (a b : float) : float :=
  if PrimFloat.is_nan a then a else if PrimFloat.is_nan b then b else if PrimFloat.ltb a b then b else a.

(* scalar_mode = true : operands are numpy.float64 scalars (float input); false : ndarray batch *)
Definition NumF (scalar_mode : bool) (tbl : oracle) : Num float := {|
  lit := Flit; nan := PrimFloat.nan; pinf := PrimFloat.infinity; ninf := PrimFloat.neg_infinity;
  npi := 0x1.921fb54442d18p+1%float;
  add := PrimFloat.add; sub := PrimFloat.sub; mul := PrimFloat.mul; div := PrimFloat.div;
  neg := PrimFloat.opp; nabs := PrimFloat.abs; nsqrt := PrimFloat.sqrt;
  square := fun x => PrimFloat.mul x x;
  spow2 := fun x => if scalar_mode then olook tbl 4 x 0%float else PrimFloat.mul x x;
  pypow2 := fun x => olook tbl 4 x 0%float;
  nmin := Fmin; nmax := Fmax;
  ltb := PrimFloat.ltb; leb := PrimFloat.leb; eqb := PrimFloat.eqb;
  isnan := PrimFloat.is_nan; isfinite := Fisfinite;
  isposinf := fun x => PrimFloat.eqb x PrimFloat.infinity; isneginf := fun x => PrimFloat.eqb x PrimFloat.neg_infinity;
  fexp := fun x => olook tbl 0 x 0%float; flog := fun x => olook tbl 1 x 0%float;
  fcos := fun x => olook tbl 2 x 0%float; fpow := fun a b => olook tbl 3 a b
|}.
