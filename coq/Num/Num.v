(* Num.v — the numeric interface over which every kernel of the model is written.
   One Gallina definition, three readings: NumR (reals), NumER (reals + inf/nan),
   NumF (primitive binary64 floats, executable, bit-exact against NumPy). *)
From Coq Require Import ZArith Bool.

Class Num (T : Type) := {
  lit : Z -> Z -> T;                (* lit m e = m * 2^e, exactly: every literal of the source *)
  nan : T; pinf : T; ninf : T; npi : T;
  add : T -> T -> T; sub : T -> T -> T; mul : T -> T -> T; div : T -> T -> T;
  neg : T -> T; nabs : T -> T; nsqrt : T -> T;
  square : T -> T;                  (* numpy.square, ndarray ** 2 : exact x*x *)
  spow2 : T -> T;                   (* (numpy.float64 expression) ** 2 : libm pow in scalar mode, square on arrays *)
  pypow2 : T -> T;                  (* (Python float) ** 2 : libm pow *)
  nmin : T -> T -> T; nmax : T -> T -> T;  (* numpy.minimum/maximum: NaN-propagating *)
  ltb : T -> T -> bool; leb : T -> T -> bool; eqb : T -> T -> bool;  (* IEEE: false on NaN *)
  isnan : T -> bool; isfinite : T -> bool;
  isposinf : T -> bool; isneginf : T -> bool;   (* x == inf, x == -inf *)
  fexp : T -> T; flog : T -> T; fcos : T -> T;
  fpow : T -> T -> T                (* numpy.power *)
}.

Section Derived.
  Context {T : Type} {N : Num T}.
  Definition zero : T := lit 0 0.
  Definition one : T := lit 1 0.
  Definition b2f (b : bool) : T := if b then one else zero.
  Definition where_ (c : bool) (a b : T) : T := if c then a else b.
  Definition gtb (a b : T) : bool := ltb b a.
  Definition geb (a b : T) : bool := leb b a.
  Definition neqb (a b : T) : bool := negb (eqb a b).
  (* Python builtins min(a, b) / max(a, b) on floats: keep the first unless the second is strictly better *)
  Definition pymin (a b : T) : T := if ltb b a then b else a.
  Definition pymax (a b : T) : T := if ltb a b then b else a.
End Derived.
