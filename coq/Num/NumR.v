(* NumR — the reals: every law, closed form, bound, monotonicity and inverse statement is read here. *)
From Coq Require Import ZArith Reals Bool Lra.
From VF Require Import Num.
Local Open Scope R_scope.

Definition Rlit (m e : Z) : R :=
  if (0 <=? e)%Z then IZR (m * 2 ^ e) else IZR m / IZR (2 ^ (- e)).
Definition Rltb (a b : R) : bool := if Rlt_dec a b then true else false.
Definition Rleb (a b : R) : bool := if Rle_dec a b then true else false.
Definition Reqb (a b : R) : bool := if Req_EM_T a b then true else false.
(* numpy.power on the reals: only used with a non-negative base (|.|) in the modelled kernels *)
Definition Rpow (a b : R) : R := if Req_EM_T a 0 then (if Req_EM_T b 0 then 1 else 0) else Rpower a b.

#[export] Instance NumR : Num R := {
  lit := Rlit; nan := 0; pinf := 0; ninf := 0; npi := PI;
  add := Rplus; sub := Rminus; mul := Rmult; div := Rdiv;
  neg := Ropp; nabs := Rabs; nsqrt := sqrt;
  square := fun x => x * x; spow2 := fun x => x * x; pypow2 := fun x => x * x;
  nmin := Rmin; nmax := Rmax;
  ltb := Rltb; leb := Rleb; eqb := Reqb;
  isnan := fun _ => false; isfinite := fun _ => true;
  isposinf := fun _ => false; isneginf := fun _ => false;
  fexp := exp; flog := ln; fcos := cos; fpow := Rpow
}.

Lemma Rltb_spec a b : reflect (a < b) (Rltb a b).
Proof. unfold Rltb; destruct (Rlt_dec a b); constructor; assumption. Qed.
Lemma Rleb_spec a b : reflect (a <= b) (Rleb a b).
Proof. unfold Rleb; destruct (Rle_dec a b); constructor; assumption. Qed.
Lemma Reqb_spec a b : reflect (a = b) (Reqb a b).
Proof. unfold Reqb; destruct (Req_EM_T a b); constructor; assumption. Qed.

(* Unfold the Num interface at R down to plain real arithmetic. *)
Ltac unR :=
  cbv [zero one b2f where_ gtb geb neqb pymin pymax
       lit nan pinf ninf npi add sub mul div neg nabs nsqrt square spow2 pypow2
       nmin nmax ltb leb eqb isnan isfinite isposinf isneginf fexp flog fcos fpow NumR Rlit] in *;
  cbn [Z.leb Z.compare Z.mul Z.pow Z.pow_pos Pos.iter Pos.mul Z.opp Pos.compare Pos.compare_cont] in *.

(* Split every boolean comparison in the goal into its real-number meaning. *)
Ltac splitR :=
  repeat match goal with
  | |- context [Rltb ?a ?b] => destruct (Rltb_spec a b)
  | |- context [Rleb ?a ?b] => destruct (Rleb_spec a b)
  | |- context [Reqb ?a ?b] => destruct (Reqb_spec a b)
  end; cbn [negb andb orb] in *.
