From Coq Require Import List Arith Lia Bool.
Import ListNotations.

Section SYG.
Variable op : Type.
Variable prec : op -> nat.
Variable rassoc : op -> bool.
Variable fn : Type.
Variable fprec : fn -> nat.
Variable word : Type.
Hypothesis same_prec_same_assoc : forall o o', prec o = prec o' -> rassoc o = rassoc o'.

Inductive tok := TW (w : word) | TOp (o : op) | TF (f : fn) | TL | TR | TC.
Inductive sitem := SOp (o : op) | SFun (f : fn) | SL.
Inductive otok := OW (w : word) | OO (o : op) | OF (f : fn).

Definition pops (o : op) (p : nat) : bool := if rassoc o then prec o <? p else prec o <=? p.

Fixpoint pop_while (o : op) (st : list sitem) : list otok * list sitem :=
  match st with
  | SOp o' :: st' => if pops o (prec o') then let '(ps, r) := pop_while o st' in (OO o' :: ps, r) else ([], st)
  | SFun f :: st' => if pops o (fprec f) then let '(ps, r) := pop_while o st' in (OF f :: ps, r) else ([], st)
  | _ => ([], st)
  end.

(* pop until SL, keeping it *)
Fixpoint pop_to_paren (st : list sitem) : option (list otok * list sitem) :=
  match st with
  | [] => None
  | SL :: st' => Some ([], st)
  | SOp o :: st' => match pop_to_paren st' with Some (ps, r) => Some (OO o :: ps, r) | None => None end
  | SFun f :: st' => match pop_to_paren st' with Some (ps, r) => Some (OF f :: ps, r) | None => None end
  end.

Fixpoint pop_all (st : list sitem) : option (list otok) :=
  match st with
  | [] => Some []
  | SL :: _ => None
  | SOp o :: st' => match pop_all st' with Some ps => Some (OO o :: ps) | None => None end
  | SFun f :: st' => match pop_all st' with Some ps => Some (OF f :: ps) | None => None end
  end.

Definition step (t : tok) (s : list otok * list sitem) : option (list otok * list sitem) :=
  let '(out, st) := s in
  match t with
  | TW w => Some (out ++ [OW w], st)
  | TF f => Some (out, SFun f :: st)
  | TOp o => let '(ps, r) := pop_while o st in Some (out ++ ps, SOp o :: r)
  | TL => Some (out, SL :: st)
  | TC => match pop_to_paren st with Some (ps, r) => Some (out ++ ps, r) | None => None end
  | TR => match pop_to_paren st with
          | Some (ps, SL :: SFun f :: r) => Some (out ++ ps ++ [OF f], r)
          | Some (ps, SL :: r) => Some (out ++ ps, r)
          | _ => None
          end
  end.

Fixpoint run (ts : list tok) (s : list otok * list sitem) : option (list otok * list sitem) :=
  match ts with
  | [] => Some s
  | t :: ts' => match step t s with Some s' => run ts' s' | None => None end
  end.

Definition sy (ts : list tok) : option (list otok) :=
  match run ts ([], []) with
  | Some (out, st) => match pop_all st with Some ps => Some (out ++ ps) | None => None end
  | None => None
  end.

Lemma run_app ts1 ts2 s : run (ts1 ++ ts2) s = match run ts1 s with Some s' => run ts2 s' | None => None end.
Proof. revert s; induction ts1 as [|t ts1 IH]; intros s; cbn; [reflexivity|]. destruct (step t s); [apply IH|reflexivity]. Qed.

(* trees *)
Inductive tree :=
| Leaf (ws : list word)
| Const0 (f : fn)
| Bin (o : op) (l r : tree)
| Un (o : op) (e : tree)
| Call (f : fn) (a : tree) (args : list tree).   (* at least one argument *)

Fixpoint postfix (t : tree) : list otok :=
  match t with
  | Leaf ws => map OW ws
  | Const0 f => [OF f]
  | Bin o l r => postfix l ++ postfix r ++ [OO o]
  | Un o e => postfix e ++ [OO o]
  | Call f a args => postfix a ++ flat_map postfix args ++ [OF f]
  end.

Definition llevel (o : op) := if rassoc o then S (2 * prec o) else 2 * prec o.
Definition rlevel (o : op) := if rassoc o then 2 * prec o else S (2 * prec o).

Inductive Prints : nat -> tree -> list tok -> Prop :=
| P_leaf lvl ws : Prints lvl (Leaf ws) (map TW ws)
| P_const lvl f : lvl <= 2 * fprec f -> Prints lvl (Const0 f) [TF f]
| P_bin lvl o l r tl tr : lvl <= 2 * prec o -> Prints (llevel o) l tl -> Prints (rlevel o) r tr ->
    Prints lvl (Bin o l r) (tl ++ TOp o :: tr)
| P_un lvl o e te : rassoc o = true -> lvl <= 2 * prec o -> Prints (2 * prec o) e te ->
    Prints lvl (Un o e) (TOp o :: te)
| P_call lvl f a ta args targs : Prints 0 a ta -> PrintsArgs args targs ->
    Prints lvl (Call f a args) (TF f :: TL :: ta ++ targs ++ [TR])
| P_paren lvl t ts : Prints 0 t ts -> Prints lvl t (TL :: ts ++ [TR])
with PrintsArgs : list tree -> list tok -> Prop :=
| PA_nil : PrintsArgs [] []
| PA_cons a ta args targs : Prints 0 a ta -> PrintsArgs args targs -> PrintsArgs (a :: args) (TC :: ta ++ targs).

Scheme Prints_ind2 := Induction for Prints Sort Prop
with PrintsArgs_ind2 := Induction for PrintsArgs Sort Prop.
Combined Scheme Prints_mut from Prints_ind2, PrintsArgs_ind2.

Inductive pitem := PO (o : op) | PF (f : fn).
Definition plevel (p : pitem) := match p with PO o => 2 * prec o | PF f => 2 * fprec f end.
Definition pst (p : pitem) : sitem := match p with PO o => SOp o | PF f => SFun f end.
Definition pout (p : pitem) : otok := match p with PO o => OO o | PF f => OF f end.
Definition sops (pend : list pitem) := map pst pend.
Definition flush (pend : list pitem) := map pout pend.

(* open segment: only operators, each safe for expressions of level >= lvl on its right *)
Fixpoint open_ok (lvl : nat) (st : list sitem) : Prop :=
  match st with
  | SOp o :: st' => rlevel o <= lvl /\ open_ok lvl st'
  | SFun _ :: _ => False
  | _ => True
  end.

Lemma open_ok_mono l1 l2 st : l1 <= l2 -> open_ok l1 st -> open_ok l2 st.
Proof. induction st as [|[o|f|] st IH]; cbn; auto. intros H [H1 H2]; split; [lia|auto]. Qed.

Lemma pops_pending o p : llevel o <= 2 * p -> pops o p = true.
Proof.
  unfold llevel, pops. destruct (rassoc o); intros H.
  - apply Nat.ltb_lt. lia.
  - apply Nat.leb_le. lia.
Qed.

Lemma not_pops_open o o' : rlevel o' <= 2 * prec o -> pops o (prec o') = false.
Proof.
  unfold rlevel, pops. intros H.
  destruct (rassoc o') eqn:Ho'.
  - (* o' right-assoc: prec o' <= prec o *)
    destruct (Nat.eq_dec (prec o) (prec o')) as [E|NE].
    + rewrite (same_prec_same_assoc _ _ E), Ho'. apply Nat.ltb_ge. lia.
    + destruct (rassoc o); [apply Nat.ltb_ge | apply Nat.leb_gt]; lia.
  - destruct (rassoc o); [apply Nat.ltb_ge | apply Nat.leb_gt]; lia.
Qed.

Lemma pop_while_pend (o : op) pend st :
  Forall (fun p => llevel o <= plevel p) pend -> open_ok (2 * prec o) st ->
  pop_while o (sops pend ++ st) = (flush pend, st).
Proof.
  unfold sops, flush. induction pend as [|p pend IH]; cbn; intros Hp Hst.
  - destruct st as [|[o'|f|] st]; cbn in *; try reflexivity; [|contradiction].
    destruct Hst as [Hlt _]. now rewrite not_pops_open.
  - inversion Hp; subst. destruct p as [q|f]; cbn in *; rewrite pops_pending by assumption;
    rewrite IH by assumption; reflexivity.
Qed.

Lemma pop_to_paren_pend pend st : pop_to_paren (sops pend ++ SL :: st) = Some (flush pend, SL :: st).
Proof. unfold sops, flush. induction pend as [|[q|f] pend IH]; cbn; [reflexivity| |]; rewrite IH; reflexivity. Qed.

Lemma pop_all_pend pend : pop_all (sops pend) = Some (flush pend).
Proof. unfold sops, flush. induction pend as [|[q|f] pend IH]; cbn; [reflexivity| |]; rewrite IH; reflexivity. Qed.

Lemma run_words ws out st : run (map TW ws) (out, st) = Some (out ++ map OW ws, st).
Proof. revert out; induction ws as [|w ws IH]; intros out; cbn; [now rewrite app_nil_r|]. rewrite IH, <- app_assoc. reflexivity. Qed.

Definition Good lvl t ts := forall out st, open_ok lvl st ->
  exists w pend, run ts (out, st) = Some (out ++ w, sops pend ++ st)
     /\ Forall (fun p => lvl <= plevel p) pend /\ w ++ flush pend = postfix t.
Definition GoodArgs (args : list tree) ts := forall out st0 pend0,
  exists w pend, run ts (out, sops pend0 ++ SL :: st0) = Some (out ++ w, sops pend ++ SL :: st0)
     /\ w ++ flush pend = flush pend0 ++ flat_map postfix args.

Lemma main : (forall lvl t ts, Prints lvl t ts -> Good lvl t ts) /\
             (forall args ts, PrintsArgs args ts -> GoodArgs args ts).
Proof.
  apply Prints_mut.
  - (* leaf *) intros lvl ws out st Hst. exists (map OW ws), []. cbn. rewrite run_words, app_nil_r. auto.
  - (* const0 *) intros lvl f Hl out st Hst. exists [], [PF f]. cbn. rewrite app_nil_r. repeat split; auto.
  - (* bin *) intros lvl o l r tl tr Hlvl Hl IHl Hr IHr out st Hst.
    assert (Hll : lvl <= llevel o) by (unfold llevel; destruct (rassoc o); lia).
    destruct (IHl out st) as (wl & pl & Rl & Fl & El); [eapply open_ok_mono; eauto|].
    rewrite run_app, Rl. cbn [run step].
    rewrite pop_while_pend; [| exact Fl | eapply open_ok_mono; eauto].
    destruct (IHr ((out ++ wl) ++ flush pl) (SOp o :: st)) as (wr & pr & Rr & Fr & Er).
    { cbn. split; [lia|]. eapply open_ok_mono; [|exact Hst]. unfold rlevel; destruct (rassoc o); lia. }
    rewrite Rr. exists (wl ++ flush pl ++ wr), (pr ++ [PO o]). split; [|split].
    + f_equal. f_equal; [now rewrite !app_assoc|]. unfold sops. rewrite map_app. cbn. now rewrite <- app_assoc.
    + apply Forall_app; split; [|repeat constructor; cbn; lia]. eapply Forall_impl; [|exact Fr].
      cbn; intros a Ha. unfold rlevel in Ha. destruct (rassoc o); lia.
    + cbn. unfold flush in *. rewrite map_app. cbn. rewrite <- El, <- Er. now rewrite <- !app_assoc.
  - (* un *) intros lvl o e te Hra Hlvl He IHe out st Hst.
    cbn [run step].
    assert (Hpw : pop_while o st = ([], st)).
    { change st with (sops [] ++ st). apply (pop_while_pend o []); [constructor|]. eapply open_ok_mono; eauto. }
    rewrite Hpw, app_nil_r.
    destruct (IHe out (SOp o :: st)) as (w & pend & R & F & E).
    { cbn. split; [unfold rlevel; rewrite Hra; lia|]. eapply open_ok_mono; eauto. }
    rewrite R. exists w, (pend ++ [PO o]). split; [|split].
    + f_equal. f_equal. unfold sops. rewrite map_app. cbn. now rewrite <- app_assoc.
    + apply Forall_app; split; [|repeat constructor; cbn; lia]. eapply Forall_impl; [|exact F]. cbn; intros; lia.
    + cbn. unfold flush in *. rewrite map_app. cbn. rewrite app_assoc, E. reflexivity.
  - (* call *) intros lvl f a ta args targs Ha IHa Hargs IHargs out st Hst.
    cbn [run step].
    destruct (IHa out (SL :: SFun f :: st) I) as (w & pend & R & F & E).
    rewrite run_app, R.
    destruct (IHargs (out ++ w) (SFun f :: st) pend) as (w2 & pend2 & R2 & E2).
    rewrite run_app, R2. cbn [run step]. rewrite pop_to_paren_pend.
    exists (w ++ w2 ++ flush pend2 ++ [OF f]), []. cbn. rewrite !app_nil_r. split; [|split; [constructor|]].
    + f_equal. f_equal. now rewrite <- !app_assoc.
    + rewrite <- E. rewrite <- (app_assoc w (flush pend)). f_equal.
      rewrite (app_assoc w2), E2. now rewrite <- app_assoc.
  - (* paren *) intros lvl t ts Ht IH out st Hst.
    cbn [run step]. destruct (IH out (SL :: st) I) as (w & pend & R & F & E).
    rewrite run_app, R. cbn [run step]. rewrite pop_to_paren_pend.
    destruct st as [|[o|f|] st]; cbn in Hst; try contradiction;
    (exists (w ++ flush pend), []; cbn; rewrite !app_nil_r, ?app_assoc; auto).
  - (* args nil *) intros out st0 pend0. exists [], pend0. cbn. rewrite !app_nil_r. auto.
  - (* args cons *) intros a ta args targs Ha IHa Hargs IHargs out st0 pend0.
    cbn [run step]. rewrite pop_to_paren_pend.
    destruct (IHa (out ++ flush pend0) (SL :: st0) I) as (wa & penda & Ra & Fa & Ea).
    rewrite run_app, Ra.
    destruct (IHargs ((out ++ flush pend0) ++ wa) st0 penda) as (w' & pend & R' & E').
    rewrite R'. exists (flush pend0 ++ wa ++ w'), pend. split.
    + f_equal. f_equal. now rewrite <- !app_assoc.
    + cbn. rewrite <- Ea. rewrite <- !app_assoc. f_equal. f_equal. exact E'.
Qed.

Theorem sy_complete t ts : Prints 0 t ts -> sy ts = Some (postfix t).
Proof.
  intros H. destruct (proj1 main _ _ _ H [] [] I) as (w & pend & R & _ & E).
  unfold sy. rewrite R. cbn. rewrite app_nil_r, pop_all_pend. now rewrite E.
Qed.
End SYG.

Print Assumptions sy_complete.
