From Coq Require Import Reals Lra Psatz Bool.
Open Scope R_scope.

Definition Rltb x y := if Rlt_dec x y then true else false.
Definition Rleb x y := if Rle_dec x y then true else false.
Lemma Rltb_spec x y : reflect (x < y) (Rltb x y).
Proof. unfold Rltb; destruct (Rlt_dec x y); constructor; auto. Qed.
Lemma Rleb_spec x y : reflect (x <= y) (Rleb x y).
Proof. unfold Rleb; destruct (Rle_dec x y); constructor; auto. Qed.

Definition where_ (c : bool) (a b : R) := if c then a else b.
Definition sq x := x * x.

(* as the translator would emit it (R instance unfolded) *)
Definition SShape_membership (s e h x : R) : R :=
  let s_shape :=
    where_ (Rleb x s) 0
      (where_ (Rleb x (0.5 * (s + e))) (2 * sq ((x - s) / (e - s)))
         (where_ (Rltb x e) (1 - 2 * sq ((x - e) / (e - s))) 1)) in
  h * 1 * s_shape.

Definition SShape_tsukamoto (s e h y : R) : R :=
  where_ (Rleb y (h / 2)) (s + (e - s) * sqrt (y / (2 * h))) (e - (e - s) * sqrt ((h - y) / (2 * h))).

Ltac splitb := repeat match goal with
  | |- context [Rleb ?a ?b] => destruct (Rleb_spec a b)
  | |- context [Rltb ?a ?b] => destruct (Rltb_spec a b)
  end.

Lemma div_bounds a b n d : 0 < d -> a * d <= n <= b * d -> a <= n / d <= b.
Proof.
  intros Hd [H1 H2]. split.
  - apply Rmult_le_reg_r with d; [lra|]. unfold Rdiv. rewrite Rmult_assoc, Rinv_l by lra. lra.
  - apply Rmult_le_reg_r with d; [lra|]. unfold Rdiv. rewrite Rmult_assoc, Rinv_l by lra. lra.
Qed.

Definition SShape_shape (s e x : R) : R :=
    where_ (Rleb x s) 0
      (where_ (Rleb x (0.5 * (s + e))) (2 * sq ((x - s) / (e - s)))
         (where_ (Rltb x e) (1 - 2 * sq ((x - e) / (e - s))) 1)).
Lemma SShape_unfold s e h x : SShape_membership s e h x = h * 1 * SShape_shape s e x.
Proof. reflexivity. Qed.
Lemma scale_range h v : 0 < h -> 0 <= v <= 1 -> 0 <= h * 1 * v <= h.
Proof. intros; nra. Qed.
Lemma scale_mono h v w : 0 < h -> v <= w -> h * 1 * v <= h * 1 * w.
Proof. intros; nra. Qed.

Lemma SShape_shape_range s e x : s < e -> 0 <= SShape_shape s e x <= 1.
Proof.
  intros Hse. assert (Hd : 0 < e - s) by lra.
  unfold SShape_shape, where_, sq.
  destruct (Rleb_spec x s); [lra|].
  destruct (Rleb_spec x (0.5 * (s + e))).
  - pose proof (div_bounds 0 (1/2) (x - s) (e - s) Hd ltac:(lra)).
    set (u := (x - s) / (e - s)) in *. clearbody u. nra.
  - destruct (Rltb_spec x e); [|lra].
    pose proof (div_bounds (-1/2) 0 (x - e) (e - s) Hd ltac:(lra)).
    set (u := (x - e) / (e - s)) in *. clearbody u. nra.
Qed.
Lemma SShape_range s e h x : s < e -> 0 < h -> 0 <= SShape_membership s e h x <= h.
Proof. intros. rewrite SShape_unfold. apply scale_range; [assumption|]. now apply SShape_shape_range. Qed.

Lemma SShape_shape_mono s e x1 x2 : s < e -> x1 <= x2 -> SShape_shape s e x1 <= SShape_shape s e x2.
Proof.
  intros Hse Hx. assert (Hd : 0 < e - s) by lra.
  pose proof (SShape_shape_range s e x1 Hse) as R1. pose proof (SShape_shape_range s e x2 Hse) as R2.
  revert R1 R2. unfold SShape_shape, where_, sq.
  assert (Hm : forall a b, a <= b -> a / (e - s) <= b / (e - s)).
  { intros a b Hab. unfold Rdiv. apply Rmult_le_compat_r; [left; apply Rinv_0_lt_compat; lra|lra]. }
  destruct (Rleb_spec x1 s); destruct (Rleb_spec x2 s); try lra;
  destruct (Rleb_spec x1 (0.5 * (s + e))); destruct (Rleb_spec x2 (0.5 * (s + e))); try lra;
  destruct (Rltb_spec x1 e); destruct (Rltb_spec x2 e); try lra; intros R1 R2; try lra.
  - pose proof (Hm (x1 - s) (x2 - s) ltac:(lra)).
    pose proof (div_bounds 0 (1/2) (x1 - s) (e - s) Hd ltac:(lra)).
    pose proof (div_bounds 0 (1/2) (x2 - s) (e - s) Hd ltac:(lra)).
    set (u := (x1 - s) / (e - s)) in *; set (v := (x2 - s) / (e - s)) in *; clearbody u v. nra.
  - pose proof (div_bounds 0 (1/2) (x1 - s) (e - s) Hd ltac:(lra)).
    pose proof (div_bounds (-1/2) 0 (x2 - e) (e - s) Hd ltac:(lra)).
    set (u := (x1 - s) / (e - s)) in *; set (v := (x2 - e) / (e - s)) in *; clearbody u v. nra.
  - pose proof (Hm (x1 - e) (x2 - e) ltac:(lra)).
    pose proof (div_bounds (-1/2) 0 (x1 - e) (e - s) Hd ltac:(lra)).
    pose proof (div_bounds (-1/2) 0 (x2 - e) (e - s) Hd ltac:(lra)).
    set (u := (x1 - e) / (e - s)) in *; set (v := (x2 - e) / (e - s)) in *; clearbody u v. nra.
Qed.

Lemma SShape_inverse s e h y : s < e -> 0 < h -> 0 < y < h ->
  SShape_membership s e h (SShape_tsukamoto s e h y) = y.
Proof.
  intros Hse Hh Hy. assert (Hd : 0 < e - s) by lra.
  unfold SShape_tsukamoto, where_. destruct (Rleb_spec y (h/2)) as [Hle|Hgt].
  - set (u := sqrt (y / (2 * h))).
    assert (Hu2 : u * u = y / (2*h)) by (apply sqrt_sqrt; apply Rmult_le_pos; [lra| left; apply Rinv_0_lt_compat; lra]).
    assert (Hu0 : 0 < u) by (apply sqrt_lt_R0; apply Rmult_lt_0_compat; [lra| apply Rinv_0_lt_compat; lra]).
    assert (Hyh : y / (2*h) <= 1/4).
    { apply Rmult_le_reg_r with (2*h); [lra|]. unfold Rdiv. rewrite Rmult_assoc, Rinv_l by lra. lra. }
    assert (Hu : u <= 1/2) by nra.
    unfold SShape_membership, where_.
    destruct (Rleb_spec (s + (e - s) * u) s); [nra|].
    destruct (Rleb_spec (s + (e - s) * u) (0.5 * (s + e))); [|nra].
    replace ((s + (e - s) * u - s) / (e - s)) with u by (field; lra).
    unfold sq. rewrite Hu2. field. lra.
  - set (u := sqrt ((h - y) / (2 * h))).
    assert (Hu2 : u * u = (h - y) / (2*h)) by (apply sqrt_sqrt; apply Rmult_le_pos; [lra| left; apply Rinv_0_lt_compat; lra]).
    assert (Hu0 : 0 < u) by (apply sqrt_lt_R0; apply Rmult_lt_0_compat; [lra| apply Rinv_0_lt_compat; lra]).
    assert (Hyh : (h - y) / (2*h) < 1/4).
    { apply Rmult_lt_reg_r with (2*h); [lra|]. unfold Rdiv. rewrite Rmult_assoc, Rinv_l by lra. lra. }
    assert (Hu : u < 1/2) by nra.
    unfold SShape_membership, where_.
    destruct (Rleb_spec (e - (e - s) * u) s); [nra|].
    destruct (Rleb_spec (e - (e - s) * u) (0.5 * (s + e))); [nra|].
    destruct (Rltb_spec (e - (e - s) * u) e); [|nra].
    replace ((e - (e - s) * u - e) / (e - s)) with (- u) by (field; lra).
    unfold sq. replace (- u * - u) with (u * u) by ring. rewrite Hu2. field. lra.
Qed.

Definition Sigmoid_membership (i s h x : R) := h * 1 / (1 + exp (- s * (x - i))).
Definition Sigmoid_tsukamoto (i s h y : R) := i + ln (h / y - 1) / - s.
Lemma Sigmoid_inverse i s h y : s <> 0 -> 0 < h -> 0 < y < h ->
  Sigmoid_membership i s h (Sigmoid_tsukamoto i s h y) = y.
Proof.
  intros Hs Hh Hy. unfold Sigmoid_membership, Sigmoid_tsukamoto.
  assert (Hpos : 0 < h / y - 1).
  { assert (1 < h / y); [|lra]. apply Rmult_lt_reg_r with y; [lra|]. unfold Rdiv. rewrite Rmult_assoc, Rinv_l by lra. lra. }
  replace (- s * (i + ln (h / y - 1) / - s - i)) with (ln (h / y - 1)) by (field; lra).
  rewrite exp_ln by exact Hpos. field. lra.
Qed.
Print Assumptions Sigmoid_inverse.
