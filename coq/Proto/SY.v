From Coq Require Import List Arith Lia Bool.
Import ListNotations.

Section SY.
Variable op : Type.
Variable prec : op -> nat.       (* all binary, left-associative *)
Variable word : Type.

Inductive tok := TW (w : word) | TOp (o : op) | TL | TR.
Inductive sitem := SOp (o : op) | SL.
Inductive otok := OW (w : word) | OO (o : op).

(* pop operators while predicate holds *)
Fixpoint pop_while (p : op -> bool) (st : list sitem) : list otok * list sitem :=
  match st with
  | SOp o :: st' => if p o then let '(ps, r) := pop_while p st' in (OO o :: ps, r) else ([], st)
  | _ => ([], st)
  end.

Fixpoint pop_to_paren (st : list sitem) : option (list otok * list sitem) :=
  match st with
  | [] => None
  | SL :: st' => Some ([], st')
  | SOp o :: st' => match pop_to_paren st' with Some (ps, r) => Some (OO o :: ps, r) | None => None end
  end.

Fixpoint pop_all (st : list sitem) : option (list otok) :=
  match st with
  | [] => Some []
  | SL :: _ => None
  | SOp o :: st' => match pop_all st' with Some ps => Some (OO o :: ps) | None => None end
  end.

Definition step (t : tok) (s : list otok * list sitem) : option (list otok * list sitem) :=
  let '(out, st) := s in
  match t with
  | TW w => Some (out ++ [OW w], st)
  | TOp o => let '(ps, r) := pop_while (fun top => prec o <=? prec top) st in Some (out ++ ps, SOp o :: r)
  | TL => Some (out, SL :: st)
  | TR => match pop_to_paren st with Some (ps, r) => Some (out ++ ps, r) | None => None end
  end.

Fixpoint run (ts : list tok) (s : list otok * list sitem) : option (list otok * list sitem) :=
  match ts with
  | [] => Some s
  | t :: ts' => match step t s with Some s' => run ts' s' | None => None end
  end.

Definition sy (ts : list tok) : option (list otok) :=
  match run ts ([], []) with
  | Some (out, st) => match pop_all st with Some ps => Some (out ++ ps) | None => None end
  | None => None
  end.

Lemma run_app ts1 ts2 s : run (ts1 ++ ts2) s = match run ts1 s with Some s' => run ts2 s' | None => None end.
Proof. revert s; induction ts1 as [|t ts1 IH]; intros s; cbn; [reflexivity|]. destruct (step t s); [apply IH|reflexivity]. Qed.

(* trees *)
Inductive tree := Leaf (ws : list word) | Bin (o : op) (l r : tree).
Fixpoint postfix (t : tree) : list otok :=
  match t with Leaf ws => map OW ws | Bin o l r => postfix l ++ postfix r ++ [OO o] end.

Inductive Prints : nat -> tree -> list tok -> Prop :=
| P_leaf lvl ws : ws <> [] -> Prints lvl (Leaf ws) (map TW ws)
| P_bin lvl o l r tl tr : lvl <= prec o -> Prints (prec o) l tl -> Prints (S (prec o)) r tr ->
    Prints lvl (Bin o l r) (tl ++ TOp o :: tr)
| P_paren lvl t ts : Prints 0 t ts -> Prints lvl t (TL :: ts ++ [TR]).

Definition flush (pend : list op) : list otok := map OO pend.
Definition sops (pend : list op) : list sitem := map SOp pend.

(* open segment of the stack: ops above the first SL all have prec < lvl *)
Fixpoint open_lt (lvl : nat) (st : list sitem) : Prop :=
  match st with
  | SOp o :: st' => prec o < lvl /\ open_lt lvl st'
  | _ => True
  end.

Lemma open_lt_mono l1 l2 st : l1 <= l2 -> open_lt l1 st -> open_lt l2 st.
Proof. induction st as [|[o|] st IH]; cbn; auto. intros H [H1 H2]; split; [lia|auto]. Qed.

Lemma pop_while_pend (o : op) pend st :
  Forall (fun o' => prec o <= prec o') pend -> open_lt (prec o) st ->
  pop_while (fun top => prec o <=? prec top) (sops pend ++ st) = (flush pend, st).
Proof.
  unfold sops, flush. induction pend as [|p pend IH]; cbn; intros Hp Hst.
  - destruct st as [|[o'|] st]; cbn; try reflexivity.
    destruct Hst as [Hlt _]. destruct (Nat.leb_spec (prec o) (prec o')); [lia|reflexivity].
  - inversion Hp; subst. destruct (Nat.leb_spec (prec o) (prec p)); [|lia].
    rewrite IH by assumption. reflexivity.
Qed.

Lemma pop_to_paren_pend pend st : pop_to_paren (sops pend ++ SL :: st) = Some (flush pend, st).
Proof. unfold sops, flush. induction pend as [|p pend IH]; cbn; [reflexivity|]. rewrite IH. reflexivity. Qed.

Lemma pop_all_pend pend : pop_all (sops pend) = Some (flush pend).
Proof. unfold sops, flush. induction pend as [|p pend IH]; cbn; [reflexivity|]. rewrite IH. reflexivity. Qed.

Lemma run_words ws out st : run (map TW ws) (out, st) = Some (out ++ map OW ws, st).
Proof. revert out; induction ws as [|w ws IH]; intros out; cbn; [now rewrite app_nil_r|]. rewrite IH, <- app_assoc. reflexivity. Qed.

Lemma main lvl t ts : Prints lvl t ts -> forall out st, open_lt lvl st ->
  exists w pend, run ts (out, st) = Some (out ++ w, sops pend ++ st)
     /\ Forall (fun o' => lvl <= prec o') pend /\ w ++ flush pend = postfix t.
Proof.
  induction 1 as [lvl ws Hne | lvl o l r tl tr Hlvl Hl IHl Hr IHr | lvl t ts Ht IH]; intros out st Hst.
  - exists (map OW ws), []. cbn. rewrite run_words, app_nil_r. auto.
  - destruct (IHl out st) as (wl & pl & Rl & Fl & El); [eapply open_lt_mono; eauto|].
    rewrite run_app, Rl. cbn [run step].
    rewrite pop_while_pend; [| exact Fl | eapply open_lt_mono; eauto].
    destruct (IHr ((out ++ wl) ++ flush pl) (SOp o :: st)) as (wr & pr & Rr & Fr & Er).
    { cbn. split; [lia|]. eapply open_lt_mono; [|exact Hst]. lia. }
    rewrite Rr. exists (wl ++ flush pl ++ wr), (pr ++ [o]). split; [|split].
    + f_equal. f_equal; [now rewrite !app_assoc|]. unfold sops. rewrite map_app. cbn. now rewrite <- app_assoc.
    + apply Forall_app; split; [|repeat constructor; lia]. eapply Forall_impl; [|exact Fr]. cbn; intros; lia.
    + cbn. unfold flush in *. rewrite map_app. cbn. rewrite <- El, <- Er. now rewrite <- !app_assoc.
  - cbn [run step]. destruct (IH out (SL :: st)) as (w & pend & R & F & E); [exact I|].
    rewrite run_app, R. cbn [run step]. rewrite pop_to_paren_pend.
    exists (w ++ flush pend), []. cbn. rewrite !app_nil_r, app_assoc. auto.
Qed.

Theorem sy_complete t ts : Prints 0 t ts -> sy ts = Some (postfix t).
Proof.
  intros H. destruct (main _ _ _ H [] [] I) as (w & pend & R & _ & E).
  unfold sy. rewrite R. cbn. rewrite app_nil_r, pop_all_pend. now rewrite E.
Qed.
End SY.
Print Assumptions sy_complete.
