(* C19 — an engine reported ready can be processed.  About Model/Ready.v:
     is_ready e tx          the message list of Engine.is_ready (engine.py 431-510); tx = the antecedent texts, as token lists
     process_raises … e     the first exception Engine.process() raises on finite inputs (None: it completes); the numeric
                            layers are parameters: `term_err` (what a term's membership/tsukamoto raises) and `trig` (which
                            rules a non-General activation method triggers) — every theorem quantifies over both.
   Statement (properties.jsonl): ready /\ activation methods /\ whitespace-separated rule texts => process() completes;
   and every needed-but-missing conjunction, disjunction, implication, aggregation operator or defuzzifier is reported.

   History (finding F9): at the pinned commit the missing-disjunction check of is_ready was nested inside the
   missing-conjunction branch and both statements were FALSE (`or` rules, disjunction operator absent, conjunction present
   or not needed: reported ready, then ValueError).  /repo now carries the fix (check dedented); `is_ready` follows
   Ready.disjunction_check_nested (= false: the repaired code) and the FULL statements below are about it.  The refutations
   for the check as written are kept as lemmas about `is_ready_as_written` in Proofs/ReadyProofs.v
   (ready_process_ok_refuted, ready_process_ok_witness, missing_reported_refuted, w2_ready_and_raises).
   Only imports and final statements; the proofs are in Proofs/ReadyProofs.v. *)
From Coq Require Import Bool List String.
From VF Require Import GenTerm Core Ready ReadyProofs.
Import ListNotations.

(* ======================================================= (A) ready => process() completes *)

(* A1. the FULL statement, for the readiness check of the code in /repo *)
Theorem C19_ready_process_ok :
  forall (T : Type) (term_err : term T -> bool -> option err) (trig : nat -> list nat) (e : engine T) (tx : texts),
    is_ready e tx = [] -> has_activation e -> ws_tokens e tx -> wf_terms term_err e ->
    process_raises term_err trig e = None.
Proof. exact ready_process_ok. Qed.
Print Assumptions C19_ready_process_ok.

(* A2. the same, through the switch: were the disjunction check still nested, this would be the refutation *)
Theorem C19_ready_process_ok_current :
  if disjunction_check_nested then ~ ready_process_ok_statement (@is_ready)
  else ready_process_ok_statement (@is_ready).
Proof. exact ready_process_ok_current. Qed.
Print Assumptions C19_ready_process_ok_current.

(* A3. robust to the switch (true of the check as written too): the statement under the extra hypothesis that no enabled
       block lacking a disjunction operator has a loaded rule that uses `or` … *)
Theorem C19_ready_process_ok_partial :
  forall (T : Type) (term_err : term T -> bool -> option err) (trig : nat -> list nat) (e : engine T) (tx : texts),
    is_ready e tx = [] -> has_activation e -> ws_tokens e tx -> wf_terms term_err e ->
    ~ disjunction_hole e -> process_raises term_err trig e = None.
Proof. exact ready_process_ok_partial. Qed.
Print Assumptions C19_ready_process_ok_partial.

(* … which is exactly what the nested check failed to establish: a ready engine completes iff it has no such block
   (for the repaired check both sides are simply true) *)
Theorem C19_ready_process_iff_no_hole :
  forall (T : Type) (term_err : term T -> bool -> option err) (trig : nat -> list nat) (e : engine T) (tx : texts),
    is_ready e tx = [] -> has_activation e -> ws_tokens e tx -> wf_terms term_err e ->
    (process_raises term_err trig e = None <-> ~ disjunction_hole e).
Proof. exact ready_process_iff_no_hole. Qed.
Print Assumptions C19_ready_process_iff_no_hole.

(* A4. stated on the repaired check by name (independent of the switch) *)
Theorem C19_ready_fixed_process_ok :
  forall (T : Type) (term_err : term T -> bool -> option err) (trig : nat -> list nat) (e : engine T) (tx : texts),
    is_ready_fixed e tx = [] -> has_activation e -> ws_tokens e tx -> wf_terms term_err e ->
    process_raises term_err trig e = None.
Proof. exact ready_fixed_process_ok. Qed.
Print Assumptions C19_ready_fixed_process_ok.

(* ======================================================= (B) every needed-but-missing operator is reported *)

(* the full statement, per operator kind, is `missing_reported_statement rdy op`:
     forall T (e : engine T) tx idx, ws_tokens e tx -> needs op idx e -> absent op idx e -> exists n, In (MMissing op idx n) (rdy T e tx) *)

(* B1. the FULL statement, all five kinds — conjunction, disjunction, implication (per rule block), aggregation,
       defuzzifier (per output variable) — for the readiness check of the code in /repo *)
Theorem C19_missing_reported :
  forall (op : opkind) (T : Type) (e : engine T) (tx : texts) (idx : nat),
    ws_tokens e tx -> needs op idx e -> absent op idx e -> exists n, In (MMissing op idx n) (is_ready e tx).
Proof. exact missing_reported. Qed.
Print Assumptions C19_missing_reported.

(* B2. the disjunction through the switch: were the check still nested, this would be the refutation *)
Theorem C19_missing_disjunction_reported_current :
  if disjunction_check_nested then ~ missing_reported_statement (@is_ready) OpDisjunction
  else missing_reported_statement (@is_ready) OpDisjunction.
Proof. exact missing_disjunction_reported_current. Qed.
Print Assumptions C19_missing_disjunction_reported_current.

(* B3. stated on the repaired check by name (independent of the switch) *)
Theorem C19_missing_reported_fixed :
  forall (op : opkind) (T : Type) (e : engine T) (tx : texts) (idx : nat),
    ws_tokens e tx -> needs op idx e -> absent op idx e -> exists n, In (MMissing op idx n) (is_ready_fixed e tx).
Proof. exact missing_reported_fixed. Qed.
Print Assumptions C19_missing_reported_fixed.

(* ======================================================= (C) the text test and the loaded tree *)
(* under whitespace-separated tokens the textual test `" and " in text` / `" or " in text` sees every connective of the tree *)
Theorem C19_text_test_sees_connectives : forall (x : expr) (toks : list string) (is_and : bool),
  renders x toks -> uses is_and x = true -> text_has (rd_kw is_and) toks = true.
Proof. exact renders_text_has. Qed.
Print Assumptions C19_text_test_sees_connectives.

(* a completed process() had the disjunction operator wherever a loaded rule of an enabled block walks through an `or` *)
Theorem C19_process_none_no_hole :
  forall (T : Type) (term_err : term T -> bool -> option err) (trig : nat -> list nat) (e : engine T),
    process_raises term_err trig e = None -> ~ disjunction_hole e.
Proof. exact @process_none_no_hole. Qed.
Print Assumptions C19_process_none_no_hole.

(* ======================================================= non-vacuity *)
(* an engine using every operator (two inputs, an integral and a weighted output variable, a General and a Highest block,
   rules with `and`, `or`, parentheses, a hedge, two conclusions) satisfies ALL the hypotheses of (A) at once *)
Example C19_ready_hypotheses_inhabited :
  is_ready_fixed g_engine g_texts = [] /\ is_ready_as_written g_engine g_texts = [] /\
  has_activation g_engine /\ ws_tokens g_engine g_texts /\ wf_terms no_term_err g_engine /\
  needs OpConjunction 0 g_engine /\ needs OpDisjunction 0 g_engine /\ needs OpDisjunction 1 g_engine /\
  needs OpImplication 0 g_engine /\ needs OpAggregation 0 g_engine /\
  process_raises no_term_err g_trig g_engine = None.
Proof. exact ready_hypotheses_inhabited. Qed.

(* the same engine stripped of its operators satisfies the hypotheses of (B) for each of the five kinds; the repaired check
   reports the six absences, the check as written (pinned commit) missed the disjunction of block 1 (whose rule uses only `or`) *)
Example C19_missing_hypotheses_inhabited :
  ws_tokens g_engine_stripped g_texts /\
  (needs OpConjunction 0 g_engine_stripped /\ absent OpConjunction 0 g_engine_stripped) /\
  (needs OpDisjunction 0 g_engine_stripped /\ absent OpDisjunction 0 g_engine_stripped) /\
  (needs OpDisjunction 1 g_engine_stripped /\ absent OpDisjunction 1 g_engine_stripped) /\
  (needs OpImplication 0 g_engine_stripped /\ absent OpImplication 0 g_engine_stripped) /\
  (needs OpAggregation 0 g_engine_stripped /\ absent OpAggregation 0 g_engine_stripped) /\
  (needs OpDefuzzifier 1 g_engine_stripped /\ absent OpDefuzzifier 1 g_engine_stripped) /\
  is_ready_fixed g_engine_stripped g_texts =
    [MMissing OpAggregation 0 0; MMissing OpDefuzzifier 1 0;
     MMissing OpConjunction 0 1; MMissing OpDisjunction 0 1; MMissing OpImplication 0 1; MMissing OpDisjunction 1 1] /\
  is_ready_as_written g_engine_stripped g_texts =
    [MMissing OpAggregation 0 0; MMissing OpDefuzzifier 1 0;
     MMissing OpConjunction 0 1; MMissing OpDisjunction 0 1; MMissing OpImplication 0 1].
Proof. exact missing_hypotheses_inhabited. Qed.

(* the hole hypothesis of A3 is not empty either: the F9 witness engine (ReadyProofs.w_engine) has one *)
Example C19_hole_inhabited : disjunction_hole w_engine.
Proof. exact w_hole. Qed.
