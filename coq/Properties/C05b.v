(* C05b — the hedge laws at the BINARY64 level: the GENERATED kernels of Gen/GenHedge.v at NumF m tbl (Coq primitive
   floats = IEEE-754 binary64; for every scalar_mode m and oracle table tbl: the hedge kernels use only - * sqrt <=),
   for ALL binary64 x with 0 <= x <= 1 (unitF) — no sampling.  Proofs: Proofs/HedgeFloat.v over Proofs/FloatLevel.v.

     hrangeF H     H x is finite and in [0,1]            hendsF H v0 v1   H 0 = v0 and H 1 = v1 (bit equality)
     hmonoF H      x <= y -> H x <= H y                  hantiF H         x <= y -> H y <= H x

   The inverse-pair laws of C05 (proved over R) hold only up to rounding: each is REFUTED by a binary64 witness
   (not_inverseF H G : exists x in [0,1], H (G x) and x finite with different real values). *)
From Coq Require Import Reals Floats.
From VF Require Import Num NumF GenHedge FloatLevel NormFloat HedgeFloat.
Local Open Scope R_scope.

Theorem C05b_Any_float : forall m tbl, let H := @Any_hedge _ (NumF m tbl) in
  hrangeF H /\ hmonoF H /\ (forall x, H x = 1%float).
Proof. exact Any_float. Qed.
Print Assumptions C05b_Any_float.

Theorem C05b_Not_float : forall m tbl, let H := @Not_hedge _ (NumF m tbl) in
  hrangeF H /\ hantiF H /\ hendsF H 1 0.
Proof. exact Not_float. Qed.
Print Assumptions C05b_Not_float.

Theorem C05b_Very_float : forall m tbl, let H := @Very_hedge _ (NumF m tbl) in
  hrangeF H /\ hmonoF H /\ hendsF H 0 1.
Proof. exact Very_float. Qed.
Print Assumptions C05b_Very_float.

Theorem C05b_Somewhat_float : forall m tbl, let H := @Somewhat_hedge _ (NumF m tbl) in
  hrangeF H /\ hmonoF H /\ hendsF H 0 1.
Proof. exact Somewhat_float. Qed.
Print Assumptions C05b_Somewhat_float.

Theorem C05b_Extremely_float : forall m tbl, let H := @Extremely_hedge _ (NumF m tbl) in
  hrangeF H /\ hmonoF H /\ hendsF H 0 1.
Proof. exact Extremely_float. Qed.
Print Assumptions C05b_Extremely_float.

Theorem C05b_Seldom_float : forall m tbl, let H := @Seldom_hedge _ (NumF m tbl) in
  hrangeF H /\ hmonoF H /\ hendsF H 0 1.
Proof. exact Seldom_float. Qed.
Print Assumptions C05b_Seldom_float.

(* concentration below the identity, dilation above — exactly, for every binary64 x of [0,1] *)
Theorem C05b_very_le_id_le_somewhat_float : forall m tbl x, unitF x ->
  R_of (@Very_hedge _ (NumF m tbl) x) <= R_of x <= R_of (@Somewhat_hedge _ (NumF m tbl) x).
Proof. exact very_le_id_le_somewhat_float. Qed.
Print Assumptions C05b_very_le_id_le_somewhat_float.

(* not (not x) = x fails: 1 - (1 - 0.1) = 0.09999999999999998; and 1 - (1 - 2^-60) = 0 *)
Theorem C05b_not_involution_refuted : forall m tbl, not_inverseF (@Not_hedge _ (NumF m tbl)) (@Not_hedge _ (NumF m tbl)).
Proof. exact not_involution_refuted. Qed.
Print Assumptions C05b_not_involution_refuted.
Theorem C05b_not_involution_refuted_tiny : forall m tbl,
  not_inverseF (@Not_hedge _ (NumF m tbl)) (@Not_hedge _ (NumF m tbl)).
Proof. exact not_involution_refuted_tiny. Qed.
Print Assumptions C05b_not_involution_refuted_tiny.

(* somewhat (very x) <> x (x = 2^-600: the square underflows to 0), very (somewhat 0.2) <> 0.2,
   seldom (extremely 0.9) <> 0.9, extremely (seldom 0.1) <> 0.1 *)
Theorem C05b_inverse_pairs_refuted : forall m tbl,
  not_inverseF (@Somewhat_hedge _ (NumF m tbl)) (@Very_hedge _ (NumF m tbl)) /\
  not_inverseF (@Very_hedge _ (NumF m tbl)) (@Somewhat_hedge _ (NumF m tbl)) /\
  not_inverseF (@Seldom_hedge _ (NumF m tbl)) (@Extremely_hedge _ (NumF m tbl)) /\
  not_inverseF (@Extremely_hedge _ (NumF m tbl)) (@Seldom_hedge _ (NumF m tbl)).
Proof. exact inverse_pairs_refuted. Qed.
Print Assumptions C05b_inverse_pairs_refuted.

(* non-vacuity: interior points, both branches of extremely / seldom *)
Example C05b_nonvacuous :
  unitF 0.25%float /\ unitF 0.75%float /\
  @Extremely_hedge _ (NumF true nil) 0.25%float = 0.125%float /\
  @Extremely_hedge _ (NumF false nil) 0.75%float = 0.875%float /\
  @Seldom_hedge _ (NumF true nil) 0.125%float = 0.25%float /\
  @Seldom_hedge _ (NumF true nil) 0.875%float = 0.75%float /\
  @Very_hedge _ (NumF true nil) 0.5%float = 0.25%float /\ @Somewhat_hedge _ (NumF true nil) 0.25%float = 0.5%float.
Proof.
  split; [apply unitb_ok; vm_compute; reflexivity |]. split; [apply unitb_ok; vm_compute; reflexivity |].
  repeat split; vm_compute; reflexivity.
Qed.
Print Assumptions C05b_nonvacuous.
