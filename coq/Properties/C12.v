(* C12 — output values follow the lock-previous / default / lock-range cascade.
   Model: Model/Cascade.v (OutputVariable.defuzzify / clear / the clipping value setter, as the code is).
   All proofs live in Proofs/CascadeProofs.v; this file only quotes the final statements.

   The theorems are generic in the numeric reading N; what they need to know about numbers is packaged as
     minmax_laws N : isnan nan, and numpy.maximum/minimum = "NaN of the first operand, else NaN of the second,
                     else the comparison"     (needed by every theorem that looks through the clipping setter)
     order_laws N  : <= is reflexive and total on non-NaN values and false on NaN (only for the range theorem).
   Both are proved for the exact reading NumXZ (integers + inf, -inf, NaN with mathematically defined max/min) and
   for the executable binary64 reading NumF that the correspondence check runs against NumPy (theorems C12_laws_XZ, C12_laws_F).

   State: cs_value (batch; a scalar is a one-element batch), cs_previous, cs_fuzzy.  A step returns the state
   after the call and the exception it raised, if any. *)
From Coq Require Import ZArith Bool List.
From VF Require Import Num Core Cascade CascadeProofs.
Import ListNotations.

(* ---- the laws are inhabited (so nothing below is vacuous), twice ---------------------------------- *)
Theorem C12_laws_XZ : minmax_laws NumXZ /\ order_laws NumXZ.
Proof. exact (conj NumXZ_minmax NumXZ_order). Qed.
Print Assumptions C12_laws_XZ.

Theorem C12_laws_F : forall m t, minmax_laws (NumF.NumF m t) /\ order_laws (NumF.NumF m t).
Proof. exact (fun m t => conj (NumF_minmax m t) (NumF_order m t)). Qed.
Print Assumptions C12_laws_F.

(* ---- step_spec: a call that goes through commits, row by row, the documented cascade:
        out_i = d_i; if NaN and lock_previous: the most recent value (final value of row i-1, or for row 0 the
        last value held before the call); if still NaN and a default is set: the default; clipped if lock_range *)
Theorem C12_step_spec : forall (T : Type) (N : Num T) (F : Type), minmax_laws N ->
  forall (c : cascade_cfg T) (ds : list T) (st : cstate T F) (p : T),
  callable c -> take_last (cs_value st) = Ok p -> (cc_lock_previous c = false \/ ds <> []) ->
  defuzzify_step c (Ok ds) st
  = ({| cs_value := spec_rows c p ds; cs_previous := p; cs_fuzzy := cs_fuzzy st |}, None).
Proof. intros T N F L. exact (step_spec_L L). Qed.
Print Assumptions C12_step_spec.

Theorem C12_step_spec_rowwise : forall (T : Type) (N : Num T) (F : Type), minmax_laws N ->
  forall (c : cascade_cfg T) (ds : list T) (st : cstate T F) (p : T),
  callable c -> take_last (cs_value st) = Ok p -> (cc_lock_previous c = false \/ ds <> []) ->
  let st' := fst (defuzzify_step c (Ok ds) st) in
  snd (defuzzify_step c (Ok ds) st) = None /\
  length (cs_value st') = length ds /\
  forall i, i < length ds ->
    nth i (cs_value st') nan
    = row c (match i with 0 => p | S j => nth j (cs_value st') nan end) (nth i ds nan).
Proof. intros T N F L. exact (step_spec_rowwise_L L). Qed.
Print Assumptions C12_step_spec_rowwise.

(* ---- split_invariance: however a non-empty sequence of defuzzified values is cut into successive non-empty
        calls, the values (concatenated over the calls) are those of a single call on the whole sequence *)
Theorem C12_split_invariance : forall (T : Type) (N : Num T) (F : Type), minmax_laws N ->
  forall (c : cascade_cfg T) (chunks : list (list T)) (st : cstate T F),
  callable c -> cs_value st <> [] -> chunks <> [] -> Forall (fun ch => ch <> []) chunks ->
  fst (fst (run_calls c chunks st)) = cs_value (fst (defuzzify_step c (Ok (concat chunks)) st))
  /\ snd (run_calls c chunks st) = None
  /\ snd (defuzzify_step c (Ok (concat chunks)) st) = None.
Proof. intros T N F L. exact (split_invariance_L L). Qed.
Print Assumptions C12_split_invariance.

(* ---- previous value, disabled, failure, clear ------------------------------------------------------- *)
Theorem C12_previous_is_last_before_call : forall (T : Type) (N : Num T) (F : Type)
  (c : cascade_cfg T) (d : result (list T)) (st st' : cstate T F),
  cc_enabled c = true -> defuzzify_step c d st = (st', None) ->
  cs_value st <> [] /\ cs_previous st' = last (cs_value st) nan.
Proof. exact @previous_is_last_before_call. Qed.
Print Assumptions C12_previous_is_last_before_call.

Theorem C12_disabled_untouched : forall (T : Type) (N : Num T) (F : Type)
  (c : cascade_cfg T) (d : result (list T)) (st : cstate T F),
  cc_enabled c = false -> defuzzify_step c d st = (st, None).
Proof. exact @disabled_untouched. Qed.
Print Assumptions C12_disabled_untouched.

(* a missing defuzzifier is a ValueError, a raising defuzzifier propagates; value, previous value, fuzzy unchanged *)
Theorem C12_failure_atomic : forall (T : Type) (N : Num T) (F : Type) (c : cascade_cfg T) (st : cstate T F),
  cc_enabled c = true ->
  (cc_has_defuzzifier c = false -> forall d, defuzzify_step c d st = (st, Some EValue)) /\
  (cc_has_defuzzifier c = true -> forall e, defuzzify_step c (Err e) st = (st, Some e)).
Proof. exact @failure_atomic. Qed.
Print Assumptions C12_failure_atomic.

(* every raise leaves the state unchanged, except ONE corner of the code: an EMPTY batch under lock_previous
   (np.nditer refuses zero-sized operands after previous_value was assigned) *)
Theorem C12_raise_cases : forall (T : Type) (N : Num T) (F : Type)
  (c : cascade_cfg T) (d : result (list T)) (st st' : cstate T F) (e : err),
  defuzzify_step c d st = (st', Some e) ->
  st' = st \/
  (cc_lock_previous c = true /\ d = Ok [] /\ e = EValue /\
   st' = {| cs_value := cs_value st; cs_previous := last (cs_value st) nan; cs_fuzzy := cs_fuzzy st |}).
Proof. exact @raise_cases. Qed.
Print Assumptions C12_raise_cases.

Theorem C12_clear_resets : forall (T : Type) (N : Num T) (F : Type), minmax_laws N ->
  forall (c : cascade_cfg T) (st : cstate T F),
  clear c st = {| cs_value := [nan]; cs_previous := nan; cs_fuzzy := [] |}.
Proof. intros T N F L. exact (clear_resets_L L). Qed.
Print Assumptions C12_clear_resets.

(* ---- range ---------------------------------------------------------------------------------------- *)
Theorem C12_value_in_range_when_locked : forall (T : Type) (N : Num T) (F : Type), minmax_laws N -> order_laws N ->
  forall (c : cascade_cfg T) (d : result (list T)) (st st' : cstate T F) (v : T),
  cc_enabled c = true -> cc_lock_range c = true -> leb (cc_min c) (cc_max c) = true ->
  defuzzify_step c d st = (st', None) ->
  In v (cs_value st') -> isnan v = false ->
  leb (cc_min c) v = true /\ leb v (cc_max c) = true.
Proof. intros T N F L O. exact (value_in_range_when_locked_L L O). Qed.
Print Assumptions C12_value_in_range_when_locked.

(* with lock_previous off the committed values are history-free (what C13 builds on) *)
Theorem C12_no_lock_previous_history_free : forall (T : Type) (N : Num T) (F : Type), minmax_laws N ->
  forall (c : cascade_cfg T) (ds : list T) (st1 st2 : cstate T F),
  cc_lock_previous c = false -> cs_value st1 <> [] -> cs_value st2 <> [] ->
  cs_value (fst (defuzzify_step c (Ok ds) st1)) = cs_value (fst (defuzzify_step c (Ok ds) st2))
  \/ cc_enabled c = false \/ cc_has_defuzzifier c = false.
Proof. intros T N F L. exact (no_lock_previous_history_free_L L). Qed.
Print Assumptions C12_no_lock_previous_history_free.

(* ================================================================================================== *)
(* Non-vacuity: concrete objects satisfying the hypotheses, evaluated.                                  *)

(* exact reading: range [0,10], lock_previous, default 7 (in range), lock_range; fresh variable;
   batch [NaN; 5; NaN; 12; NaN] then [NaN; -3]:
     row 0: NaN, previous NaN -> default 7;  5;  NaN -> 5;  12 -> clipped 10;  NaN -> 12 carried -> clipped 10
     next call: previous = 10 (last of the committed value), NaN -> 10; -3 -> clipped 0                      *)
Definition ex_cfg : cascade_cfg xz :=
  {| cc_enabled := true; cc_has_defuzzifier := true; cc_lock_previous := true; cc_default := XFin 7;
     cc_lock_range := true; cc_min := XFin 0; cc_max := XFin 10 |}.
Definition ex_st0 : cstate xz nat := @cstate_init xz NumXZ nat [1; 2].

Example C12_example_cascade_XZ :
  callable ex_cfg /\ take_last (cs_value ex_st0) = Ok XNaN /\
  @run_calls xz NumXZ nat ex_cfg [[XNaN; XFin 5; XNaN; XFin 12; XNaN]; [XNaN; XFin (-3)]] ex_st0
  = ([XFin 7; XFin 5; XFin 5; XFin 10; XFin 10; XFin 10; XFin 0],
     {| cs_value := [XFin 10; XFin 0]; cs_previous := XFin 10; cs_fuzzy := [1; 2] |}, None)
  /\ fst (@defuzzify_step xz NumXZ nat ex_cfg (Ok [XNaN; XFin 5; XNaN; XFin 12; XNaN; XNaN; XFin (-3)]) ex_st0)
  = {| cs_value := [XFin 7; XFin 5; XFin 5; XFin 10; XFin 10; XFin 10; XFin 0]; cs_previous := XNaN; cs_fuzzy := [1; 2] |}.
Proof. repeat split. Qed.
Print Assumptions C12_example_cascade_XZ.

(* the hypotheses of split invariance are met by that object, and every other cut agrees as well *)
Example C12_example_split_XZ :
  let chunks := [[XNaN]; [XFin 5; XNaN]; [XFin 12]; [XNaN; XNaN; XFin (-3)]] in
  callable ex_cfg /\ cs_value ex_st0 <> [] /\ chunks <> [] /\ Forall (fun ch => ch <> []) chunks /\
  fst (fst (@run_calls xz NumXZ nat ex_cfg chunks ex_st0)) = [XFin 7; XFin 5; XFin 5; XFin 10; XFin 10; XFin 10; XFin 0].
Proof. cbv zeta. repeat split; try discriminate. repeat constructor; discriminate. Qed.
Print Assumptions C12_example_split_XZ.

(* binary64 reading: range [0,1], lock_previous, default 5 (OUT of range), lock_range *)
Section FloatExample.
Import PrimFloat.   (* float literals; local to this section *)
Definition exF_cfg : cascade_cfg PrimFloat.float :=
  {| cc_enabled := true; cc_has_defuzzifier := true; cc_lock_previous := true; cc_default := 5%float;
     cc_lock_range := true; cc_min := 0%float; cc_max := 1%float |}.
Example C12_example_cascade_F :
  let N := NumF.NumF true [] in
  @run_calls _ N nat exF_cfg [[PrimFloat.nan; 0.5%float]; [PrimFloat.nan; 2%float; PrimFloat.nan; (-1)%float]] (@cstate_init _ N nat [])
  = ([1%float; 0.5%float; 0.5%float; 1%float; 1%float; 0%float],
     {| cs_value := [0.5%float; 1%float; 1%float; 0%float]; cs_previous := 0.5%float; cs_fuzzy := [] |}, None).
Proof. vm_compute. reflexivity. Qed.
End FloatExample.
Print Assumptions C12_example_cascade_F.

(* range theorem: hypotheses inhabited (min <= max, lock_range, a non-NaN committed value) *)
Example C12_example_range_XZ :
  @leb xz NumXZ (cc_min ex_cfg) (cc_max ex_cfg) = true /\
  exists st', @defuzzify_step xz NumXZ nat ex_cfg (Ok [XFin 12; XNInf]) ex_st0 = (st', None) /\ cs_value st' = [XFin 10; XFin 0].
Proof. split; [reflexivity |]. eexists; split; reflexivity. Qed.
Print Assumptions C12_example_range_XZ.

(* failure, disabled, clear on concrete objects *)
Example C12_example_failure_disabled_clear :
  let st := fst (@defuzzify_step xz NumXZ nat ex_cfg (Ok [XFin 3]) ex_st0) in
  @defuzzify_step xz NumXZ nat ex_cfg (Err ERuntime) st = (st, Some ERuntime) /\
  @defuzzify_step xz NumXZ nat (with_flags ex_cfg true false) (Ok [XFin 4]) st = (st, Some EValue) /\
  @defuzzify_step xz NumXZ nat (with_flags ex_cfg false true) (Ok [XFin 4]) st = (st, None) /\
  cs_value st = [XFin 3] /\
  @clear xz NumXZ nat ex_cfg st = {| cs_value := [XNaN]; cs_previous := XNaN; cs_fuzzy := [] |}.
Proof. repeat split. Qed.
Print Assumptions C12_example_failure_disabled_clear.

(* ---- the corners: why split invariance asks for non-empty chunks, and where a raise is not atomic ---- *)
(* an empty batch without lock_previous is committed; the NEXT call then dies in np.take (IndexError) *)
Example C12_empty_chunk_corner :
  let c := {| cc_enabled := true; cc_has_defuzzifier := true; cc_lock_previous := false; cc_default := XNaN;
              cc_lock_range := false; cc_min := XFin 0; cc_max := XFin 10 |} in
  @run_calls xz NumXZ nat c [[XFin 1]; []; [XFin 2]] ex_st0
  = ([XFin 1], {| cs_value := []; cs_previous := XFin 1; cs_fuzzy := [1; 2] |}, Some EInternal)
  /\ fst (@defuzzify_step xz NumXZ nat c (Ok (concat [[XFin 1]; []; [XFin 2]])) ex_st0)
     = {| cs_value := [XFin 1; XFin 2]; cs_previous := XNaN; cs_fuzzy := [1; 2] |}.
Proof. repeat split. Qed.
Print Assumptions C12_empty_chunk_corner.

(* an empty batch under lock_previous raises ValueError AFTER previous_value was overwritten *)
Example C12_empty_batch_not_atomic :
  let st := fst (@defuzzify_step xz NumXZ nat ex_cfg (Ok [XFin 3]) ex_st0) in
  cs_previous st = XNaN /\
  @defuzzify_step xz NumXZ nat ex_cfg (Ok []) st
  = ({| cs_value := [XFin 3]; cs_previous := XFin 3; cs_fuzzy := [1; 2] |}, Some EValue).
Proof. repeat split. Qed.
Print Assumptions C12_empty_batch_not_atomic.
