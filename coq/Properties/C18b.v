(* C18b — the FuzzyLite Dataset export through the ENGINE model (no `outputs_of` parameter).
   Model/FldEngine.v: `write_engine` = FldExporter.write with Ops.restart, the per-variable assignment of the input
   columns through the clipping setter, the vectorised Engine.process of Model/Batch.v (C02), the input_values /
   output_values getters, np.hstack, and the header / row printer of Model/Fld.v;  `write_engine_rows` = the same export
   read row by row through the scalar Engine.process of Model/Engine.v (C01): restart, then every row in grid order, each
   from the state left by the previous one (lock-previous carried).  Proofs: Proofs/FldEngineProofs.v.

   What is proved.
   * C18_rows_are_pipeline_outputs: every row of the row-by-row export = the inputs the scalar engine holds for that row
     (through the clipping setter) ++ the output values `Engine.process` leaves after that row — directly, for every engine.
   * C18_batch_is_pipeline_rows: under the hypotheses of C02's `batch_eq_rows` for the restarted engine (General activation,
     no Linear term under an integral defuzzifier, resolution >= 2 or one row, rectangular non-empty rows) the matrix of
     the vectorised export IS the matrix of the row-by-row export, and both fail with the same exception otherwise.
     Extra hypothesis, on the batch result: every output value is a (k,) vector (`colshape`).  BatchProofs establishes
     `rowshape k` of every defuzzified array internally but does not export it; 0-d output values (disabled output variable,
     degrees independent of the inputs) are broadcast by the getter and are not covered by this theorem (they are covered
     by the correspondence, which evaluates `write_engine` itself).
   * C18_write_starts_from_restart: the export depends on the engine only through `restart e`. *)
From Coq Require Import ZArith Bool List String Ascii PrimFloat.
From VF Require Import Num NumF GenNorm GenHedge GenTerm Core NpLite Cascade Engine Pipeline CascadeProofs Batch BatchProofs Ops
  Fld FldProofs FldEngine FldEngineProofs.
Import ListNotations.
Local Notation length := List.length.
Local Open Scope list_scope.

(* ---- rows = inputs ++ what the scalar engine model produces, in grid order from the restarted state *)
Theorem C18_rows_are_pipeline_outputs : forall (T : Type) (N : Num T) x (e : engine T) input_values m,
  rows_matrix x e input_values = Ok m -> (x_inputs x || x_outputs x) = true ->
  let rows := used_rows (length (e_inputs e)) input_values in
  exists es, pipeline_rows e rows = Ok es /\ length es = length rows /\ length m = length rows /\
    forall r, r < length rows ->
      nth r m [] = (if x_inputs x then row_inputs_of e (nth r rows []) else []) ++
                   (if x_outputs x then row_outputs_of (nth r es e) else []).
Proof. exact @rows_matrix_rows. Qed.
Print Assumptions C18_rows_are_pipeline_outputs.

(* the engines of `pipeline_rows`: the first row is processed from `restart e`, every other from its predecessor's result *)
Theorem C18_pipeline_rows_order : forall (T : Type) (N : Num T) (e : engine T) r rows,
  pipeline_rows e (r :: rows) =
  (do e' <- process no_function (set_inputs (restart e) r);
   do rest <- process_rows e' rows; Ok (e' :: rest)).
Proof. reflexivity. Qed.
Print Assumptions C18_pipeline_rows_order.

(* ---- the vectorised export is the row-by-row export (via C02's batch_eq_rows) *)
Theorem C18_batch_is_pipeline_rows : forall (T : Type) (N : Num T) x (e : engine T) input_values,
  let n := length (e_inputs e) in
  let rows := used_rows n input_values in
  let e0 := restart e in
  e_inputs e <> [] -> rows <> [] -> rect_rows n rows ->
  general_only e0 -> integral_simple e0 -> r_ok e0 (length rows) -> @zero_laws T N -> minmax_laws N ->
  match process_batch_vars e0 (columns n rows) with
  | Ok st =>
      bs_outputs st <> [] -> Forall (colshape (length rows)) (map (@bo_value T) (bs_outputs st)) ->
      engine_matrix x e input_values = rows_matrix x e input_values
  | Err er => engine_matrix x e input_values = Err er /\ rows_matrix x e input_values = Err er
  end.
Proof. exact @engine_matrix_eq_rows. Qed.
Print Assumptions C18_batch_is_pipeline_rows.

(* the printed text follows the matrix *)
Theorem C18_write_engine_of_matrix : forall (T : Type) (N : Num T) fmt x (e : engine T) input_values,
  engine_matrix x e input_values = rows_matrix x e input_values ->
  write_engine fmt x e input_values = write_engine_rows fmt x e input_values.
Proof. intros T N fmt x e iv H. unfold write_engine, write_engine_rows. rewrite H. reflexivity. Qed.
Print Assumptions C18_write_engine_of_matrix.

(* ---- the export starts from a restarted engine *)
Theorem C18_write_starts_from_restart : forall (T : Type) (N : Num T) fmt x (e1 e2 : engine T) rows,
  restart e1 = restart e2 -> write_engine fmt x e1 rows = write_engine fmt x e2 rows.
Proof. exact @write_starts_from_restart. Qed.
Print Assumptions C18_write_starts_from_restart.

Theorem C18_write_engine_restart : forall (T : Type) (N : Num T) fmt x (e : engine T) rows,
  write_engine fmt x (restart e) rows = write_engine fmt x e rows /\
  write_engine_rows fmt x (restart e) rows = write_engine_rows fmt x e rows.
Proof. intros. split; [apply write_engine_restart | apply write_engine_rows_restart]. Qed.
Print Assumptions C18_write_engine_restart.

Theorem C18_restart_idempotent : forall (T : Type) (N : Num T) (e : engine T), restart (restart e) = restart e.
Proof. exact @restart_idem. Qed.
Print Assumptions C18_restart_idempotent.

Theorem C18_restart_forgets_inputs : forall (T : Type) (N : Num T) (e : engine T) xs,
  length xs = length (e_inputs e) -> restart (set_inputs e xs) = restart e.
Proof. exact @restart_set_inputs. Qed.
Print Assumptions C18_restart_forgets_inputs.

(* ---- non-vacuity: a whole export computed from the engine model alone (binary64, array mode) *)
Local Open Scope float_scope.
Definition NFb : Num float := NumF false [].
(* x in [0, 1]: lo = Ramp 1 0, hi = Ramp 0 1; y = WeightedAverage(TakagiSugeno) of A = 0.25, B = 0.75;
   if x is lo then y is A; if x is hi then y is B *)
Definition exb_engine (xv yv yprev d0 : float) (fz : list (activated float)) : engine float :=
  Build_engine "t"
    [Build_input_var "x" true 0 1 false [TShape "lo" (Sh_Ramp 1 0 1); TShape "hi" (Sh_Ramp 0 1 1)] xv]
    [Build_output_var "y" true 0 1 false false PrimFloat.nan None (Some (DWeighted true WTakagiSugeno))
       [TShape "A" (Sh_Constant 0.25); TShape "B" (Sh_Constant 0.75)] yv yprev fz]
    [Build_block "rb" true None None None (Some AGeneral)
       [Build_rule true 1 (Some (EProp (VIn 0) [] (Some 0%nat))) [Build_conclusion 0 [] 0] d0 false;
        Build_rule true 1 (Some (EProp (VIn 0) [] (Some 1%nat))) [Build_conclusion 0 [] 1] 0 false]].
Definition exb_clean : engine float := exb_engine PrimFloat.nan PrimFloat.nan PrimFloat.nan 0 [].
Definition exb_dirty : engine float :=
  exb_engine 0.375 0.5 0.875 0.625 [Build_activated (TShape "A" (Sh_Constant 0.25)) 0.625 None].
Definition exb_fmt (v : float) : string :=
  if PrimFloat.eqb v 0 then "0.00" else if PrimFloat.eqb v 0.5 then "0.50" else if PrimFloat.eqb v 1 then "1.00" else
  if PrimFloat.eqb v 0.25 then "0.25" else if PrimFloat.eqb v 0.75 then "0.75" else "?".
Definition exb_x : exporter := {| x_separator := " "; x_headers := true; x_inputs := true; x_outputs := true |}.
Definition nl : string := String "010"%char "".
Definition exb_text : string :=
  ("x y" ++ nl ++ "0.00 0.25" ++ nl ++ "0.50 0.50" ++ nl ++ "1.00 0.75" ++ nl)%string.

Example C18b_export_example :
  @write_engine_from_scope float NFb exb_fmt (fun _ _ => 0%Z) exb_x exb_clean 3 EachVariable (fun _ => true) = Ok exb_text.
Proof. vm_compute. reflexivity. Qed.
Print Assumptions C18b_export_example.

(* an engine holding values, a fuzzy output and rule degrees exports the same text; so does the row-by-row reading *)
Example C18b_dirty_example :
  @write_engine_from_scope float NFb exb_fmt (fun _ _ => 0%Z) exb_x exb_dirty 3 EachVariable (fun _ => true) = Ok exb_text /\
  @restart float NFb exb_dirty = @restart float NFb exb_clean /\
  @write_engine_rows float NFb exb_fmt exb_x exb_dirty [[0]; [0.5]; [1]] = Ok exb_text.
Proof. vm_compute. repeat split; reflexivity. Qed.
Print Assumptions C18b_dirty_example.

(* the conclusion of C18_batch_is_pipeline_rows on this engine, and its shape hypothesis, by computation *)
Example C18b_batch_rows_example :
  @engine_matrix float NFb exb_x exb_dirty [[0]; [0.5]; [1]] = @rows_matrix float NFb exb_x exb_dirty [[0]; [0.5]; [1]] /\
  @engine_matrix float NFb exb_x exb_dirty [[0]; [0.5]; [1]] = Ok [[0; 0.25]; [0.5; 0.5]; [1; 0.75]] /\
  match @process_batch_vars float NFb (@restart float NFb exb_dirty) (@columns float NFb 1 [[0]; [0.5]; [1]]) with
  | Ok st => map (fun bo => match bo_value bo with Vec l => length l | _ => 0%nat end) (bs_outputs st) = [3%nat]
  | Err _ => False
  end.
Proof. vm_compute. repeat split; reflexivity. Qed.
Print Assumptions C18b_batch_rows_example.

(* lock-previous is carried from row to row: with `lock-previous` an undefined row repeats the previous row's value *)
Definition exb_lock : engine float :=
  Build_engine "t"
    [Build_input_var "x" true 0 1 false [TShape "lo" (Sh_Ramp 0.5 0 1)] PrimFloat.nan]
    [Build_output_var "y" true 0 1 false true PrimFloat.nan None (Some (DWeighted true WTakagiSugeno))
       [TShape "A" (Sh_Constant 0.25)] PrimFloat.nan PrimFloat.nan []]
    [Build_block "rb" true None None None (Some AGeneral)
       [Build_rule true 1 (Some (EProp (VIn 0) [] (Some 0%nat))) [Build_conclusion 0 [] 0] 0 false]].
Example C18b_lock_previous_example :
  @engine_matrix float NFb exb_x exb_lock [[1]; [0]; [1]] = Ok [[1; PrimFloat.nan]; [0; 0.25]; [1; 0.25]] /\
  @rows_matrix float NFb exb_x exb_lock [[1]; [0]; [1]] = Ok [[1; PrimFloat.nan]; [0; 0.25]; [1; 0.25]].
Proof. vm_compute. split; reflexivity. Qed.
Print Assumptions C18b_lock_previous_example.

(* repaired code: when every output value is 0-d (here: the only output variable is disabled) the one row of output values
   is repeated for every grid point instead of np.hstack raising *)
Definition exb_disabled : engine float :=
  Build_engine "t"
    [Build_input_var "x" true 0 1 false [TShape "lo" (Sh_Ramp 1 0 1)] PrimFloat.nan]
    [Build_output_var "y" false 0 1 false false PrimFloat.nan None (Some (DWeighted true WTakagiSugeno))
       [TShape "A" (Sh_Constant 0.25)] PrimFloat.nan PrimFloat.nan []]
    [Build_block "rb" true None None None (Some AGeneral)
       [Build_rule true 1 (Some (EProp (VIn 0) [] (Some 0%nat))) [Build_conclusion 0 [] 0] 0 false]].
Example C18b_all_scalar_outputs_example :
  @engine_matrix float NFb exb_x exb_disabled [[0]; [0.5]; [1]] = Ok [[0; PrimFloat.nan]; [0.5; PrimFloat.nan]; [1; PrimFloat.nan]] /\
  @rows_matrix float NFb exb_x exb_disabled [[0]; [0.5]; [1]] = Ok [[0; PrimFloat.nan]; [0.5; PrimFloat.nan]; [1; PrimFloat.nan]].
Proof. vm_compute. split; reflexivity. Qed.
Print Assumptions C18b_all_scalar_outputs_example.
