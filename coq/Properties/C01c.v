(* C01, part c: the refinement with Function terms evaluated by the formula model (what the correspondence executes). *)
From Coq Require Import ZArith Bool List String.
From VF Require Import Num Core Engine EngineF Pipeline EngineFProofs.

Theorem C01_process_with_formulas_refines_pipeline :
  forall (T : Type) (N : Num T) (oracle : string -> T -> T -> option T) (e : engine T),
  general_only e ->
  match process_f oracle e, pipeline_outputs (feval oracle) e with
  | Ok e', Ok outs => e_outputs e' = outs /\ e_inputs e' = e_inputs e
  | Err x, Err y => x = y
  | _, _ => False
  end.
Proof. intros T N. exact (@process_f_refines_pipeline T N). Qed.
Print Assumptions C01_process_with_formulas_refines_pipeline.

Theorem C01_formula_model_reads_only_variables :
  forall (T : Type) (N : Num T) (oracle : string -> T -> T -> option T) (e1 e2 : engine T),
  e_inputs e1 = e_inputs e2 -> e_outputs e1 = e_outputs e2 -> feval oracle e1 = feval oracle e2.
Proof. intros T N. exact (@feval_ext T N). Qed.
Print Assumptions C01_formula_model_reads_only_variables.
