(* C05 — hedges: the generated kernels of fuzzylite/hedge.py, read over R, equal the documented
   formulas, map [0,1] into [0,1], fix the endpoints, are monotone (Not: antitone), are ordered
   very <= id <= somewhat, and very/somewhat, extremely/seldom, not/not are mutually inverse on [0,1].
   Only imports and final statements; all proofs live in Proofs/HedgeR.v. *)
From Coq Require Import Reals Lra.
From VF Require Import Num NumR GenHedge SpecHedge HedgeR.
Local Open Scope R_scope.

(* ---- closed forms *)
Theorem C05_Any_spec : forall x : R, Any_hedge x = 1.
Proof. exact Any_eq. Qed.
Print Assumptions C05_Any_spec.

Theorem C05_Extremely_spec : forall x : R,
  Extremely_hedge x = if Rle_dec x (1 / 2) then 2 * (x * x) else 1 - 2 * ((1 - x) * (1 - x)).
Proof. exact Extremely_eq. Qed.
Print Assumptions C05_Extremely_spec.

Theorem C05_Not_spec : forall x : R, Not_hedge x = 1 - x.
Proof. exact Not_eq. Qed.
Print Assumptions C05_Not_spec.

Theorem C05_Seldom_spec : forall x : R,
  Seldom_hedge x = if Rle_dec x (1 / 2) then sqrt (x / 2) else 1 - sqrt ((1 - x) / 2).
Proof. exact Seldom_eq. Qed.
Print Assumptions C05_Seldom_spec.

Theorem C05_Somewhat_spec : forall x : R, Somewhat_hedge x = sqrt x.
Proof. exact Somewhat_eq. Qed.
Print Assumptions C05_Somewhat_spec.

Theorem C05_Very_spec : forall x : R, Very_hedge x = x * x.
Proof. exact Very_eq. Qed.
Print Assumptions C05_Very_spec.

(* ---- range *)
Theorem C05_Any_range : forall x : R, unit x -> unit (Any_hedge x).
Proof. intros x; rewrite Any_eq; apply Any_range. Qed.
Print Assumptions C05_Any_range.

Theorem C05_Extremely_range : forall x : R, unit x -> unit (Extremely_hedge x).
Proof. intros x; rewrite Extremely_eq; apply Extremely_range. Qed.
Print Assumptions C05_Extremely_range.

Theorem C05_Not_range : forall x : R, unit x -> unit (Not_hedge x).
Proof. intros x; rewrite Not_eq; apply Not_range. Qed.
Print Assumptions C05_Not_range.

Theorem C05_Seldom_range : forall x : R, unit x -> unit (Seldom_hedge x).
Proof. intros x; rewrite Seldom_eq; apply Seldom_range. Qed.
Print Assumptions C05_Seldom_range.

Theorem C05_Somewhat_range : forall x : R, unit x -> unit (Somewhat_hedge x).
Proof. intros x; rewrite Somewhat_eq; apply Somewhat_range. Qed.
Print Assumptions C05_Somewhat_range.

Theorem C05_Very_range : forall x : R, unit x -> unit (Very_hedge x).
Proof. intros x; rewrite Very_eq; apply Very_range. Qed.
Print Assumptions C05_Very_range.

(* ---- endpoints *)
Theorem C05_Any_const : forall x : R, unit x -> Any_hedge x = 1.
Proof. intros x _; exact (Any_eq x). Qed.
Print Assumptions C05_Any_const.

Theorem C05_Extremely_0 : Extremely_hedge 0 = 0.
Proof. rewrite Extremely_eq; exact Extremely_0. Qed.
Print Assumptions C05_Extremely_0.
Theorem C05_Extremely_1 : Extremely_hedge 1 = 1.
Proof. rewrite Extremely_eq; exact Extremely_1. Qed.
Print Assumptions C05_Extremely_1.

Theorem C05_Seldom_0 : Seldom_hedge 0 = 0.
Proof. rewrite Seldom_eq; exact Seldom_0. Qed.
Print Assumptions C05_Seldom_0.
Theorem C05_Seldom_1 : Seldom_hedge 1 = 1.
Proof. rewrite Seldom_eq; exact Seldom_1. Qed.
Print Assumptions C05_Seldom_1.

Theorem C05_Somewhat_0 : Somewhat_hedge 0 = 0.
Proof. rewrite Somewhat_eq; exact Somewhat_0. Qed.
Print Assumptions C05_Somewhat_0.
Theorem C05_Somewhat_1 : Somewhat_hedge 1 = 1.
Proof. rewrite Somewhat_eq; exact Somewhat_1. Qed.
Print Assumptions C05_Somewhat_1.

Theorem C05_Very_0 : Very_hedge 0 = 0.
Proof. rewrite Very_eq; exact Very_0. Qed.
Print Assumptions C05_Very_0.
Theorem C05_Very_1 : Very_hedge 1 = 1.
Proof. rewrite Very_eq; exact Very_1. Qed.
Print Assumptions C05_Very_1.

Theorem C05_Not_0 : Not_hedge 0 = 1.
Proof. rewrite Not_eq; exact Not_0. Qed.
Print Assumptions C05_Not_0.
Theorem C05_Not_1 : Not_hedge 1 = 0.
Proof. rewrite Not_eq; exact Not_1. Qed.
Print Assumptions C05_Not_1.

(* ---- monotonicity *)
Theorem C05_Any_monotone : forall x y : R, unit x -> unit y -> x <= y -> Any_hedge x <= Any_hedge y.
Proof. intros x y; rewrite !Any_eq; apply Any_mono. Qed.
Print Assumptions C05_Any_monotone.

Theorem C05_Extremely_monotone : forall x y : R,
  unit x -> unit y -> x <= y -> Extremely_hedge x <= Extremely_hedge y.
Proof. intros x y; rewrite !Extremely_eq; apply Extremely_mono. Qed.
Print Assumptions C05_Extremely_monotone.

Theorem C05_Seldom_monotone : forall x y : R,
  unit x -> unit y -> x <= y -> Seldom_hedge x <= Seldom_hedge y.
Proof. intros x y; rewrite !Seldom_eq; apply Seldom_mono. Qed.
Print Assumptions C05_Seldom_monotone.

Theorem C05_Somewhat_monotone : forall x y : R,
  unit x -> unit y -> x <= y -> Somewhat_hedge x <= Somewhat_hedge y.
Proof. intros x y; rewrite !Somewhat_eq; apply Somewhat_mono. Qed.
Print Assumptions C05_Somewhat_monotone.

Theorem C05_Very_monotone : forall x y : R,
  unit x -> unit y -> x <= y -> Very_hedge x <= Very_hedge y.
Proof. intros x y; rewrite !Very_eq; apply Very_mono. Qed.
Print Assumptions C05_Very_monotone.

Theorem C05_Not_antitone : forall x y : R,
  unit x -> unit y -> x <= y -> Not_hedge y <= Not_hedge x.
Proof. intros x y; rewrite !Not_eq; apply Not_anti. Qed.
Print Assumptions C05_Not_antitone.

(* ---- ordering: concentration below the identity, dilation above *)
Theorem C05_very_le_id_le_somewhat : forall x : R, unit x -> Very_hedge x <= x <= Somewhat_hedge x.
Proof. intros x; rewrite Very_eq, Somewhat_eq; apply Very_le_Somewhat. Qed.
Print Assumptions C05_very_le_id_le_somewhat.

(* ---- inverse pairs *)
Theorem C05_somewhat_very_inverse : forall x : R, unit x -> Somewhat_hedge (Very_hedge x) = x.
Proof. intros x; rewrite Somewhat_eq, Very_eq; apply Somewhat_Very. Qed.
Print Assumptions C05_somewhat_very_inverse.

Theorem C05_very_somewhat_inverse : forall x : R, unit x -> Very_hedge (Somewhat_hedge x) = x.
Proof. intros x; rewrite Very_eq, Somewhat_eq; apply Very_Somewhat. Qed.
Print Assumptions C05_very_somewhat_inverse.

Theorem C05_seldom_extremely_inverse : forall x : R, unit x -> Seldom_hedge (Extremely_hedge x) = x.
Proof. intros x; rewrite Seldom_eq, Extremely_eq; apply Seldom_Extremely. Qed.
Print Assumptions C05_seldom_extremely_inverse.

Theorem C05_extremely_seldom_inverse : forall x : R, unit x -> Extremely_hedge (Seldom_hedge x) = x.
Proof. intros x; rewrite Extremely_eq, Seldom_eq; apply Extremely_Seldom. Qed.
Print Assumptions C05_extremely_seldom_inverse.

Theorem C05_not_involutive : forall x : R, unit x -> Not_hedge (Not_hedge x) = x.
Proof. intros x _; rewrite !Not_eq; apply Not_involutive. Qed.
Print Assumptions C05_not_involutive.

(* ---- non-vacuity: concrete interior points, both branches *)
Example C05_Extremely_example : unit (3 / 4) /\ Extremely_hedge (3 / 4) = 7 / 8.
Proof.
  split; [unfold SpecNorm.unit; lra |].
  rewrite C05_Extremely_spec. destruct (Rle_dec (3 / 4) (1 / 2)); lra.
Qed.
Print Assumptions C05_Extremely_example.

Example C05_Seldom_example : unit (7 / 8) /\ Seldom_hedge (7 / 8) = 3 / 4.
Proof.
  split; [unfold SpecNorm.unit; lra |].
  rewrite <- (proj2 C05_Extremely_example).
  apply C05_seldom_extremely_inverse. unfold SpecNorm.unit; lra.
Qed.
Print Assumptions C05_Seldom_example.

Example C05_Very_example : Very_hedge (1 / 2) = 1 / 4 /\ Somewhat_hedge (1 / 4) = 1 / 2.
Proof.
  assert (H : Very_hedge (1 / 2) = 1 / 4) by (rewrite C05_Very_spec; lra).
  split; [exact H |].
  rewrite <- H. apply C05_somewhat_very_inverse. unfold SpecNorm.unit; lra.
Qed.
Print Assumptions C05_Very_example.
