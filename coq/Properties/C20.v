(* C20 — temporary settings are always restored.  About Model/Settings.v (`Settings.context`,
   fuzzylite/library.py:194-232; `Op.str`, `Op.is_close` read the record current at call time):
   every setting named by a context has its previous value again when the context is left, normally or by
   an exception, for every nesting; settings not named are never touched by the context; the helpers see
   the temporary values inside and the old ones again afterwards.  All statements quantify over EVERY body
   program (any nesting depth, a raise at any point, direct assignments anywhere) and every initial record.
   Only imports and final statements; the proofs are in Proofs/SettingsProofs.v. *)
From Coq Require Import ZArith Bool List String.
From VF Require Import Settings SettingsProofs.
Import ListNotations.
Local Open Scope Z_scope.

(* ---- (1) the named settings are restored, whether the body ends normally or raises *)
Theorem C20_ctx_restores_named : forall kw body s k,
  In k (named kw) ->
  get k (out_settings (run (Ctx kw body) s)) = get k s.
Proof. exact ctx_restores_named. Qed.
Print Assumptions C20_ctx_restores_named.

Theorem C20_ctx_restores_named_raising : forall kw body s k,
  out_raised (run (Ctx kw body) s) = true -> In k (named kw) ->
  get k (out_settings (run (Ctx kw body) s)) = get k s.
Proof. exact ctx_restores_named_raising. Qed.
Print Assumptions C20_ctx_restores_named_raising.

(* ---- (2) frame: settings not named hold whatever the body left in them *)
Theorem C20_ctx_frame : forall kw body s k,
  ~ In k (named kw) ->
  get k (apply_settings (context_settings kw) s) = get k s /\
  get k (out_settings (run (Ctx kw body) s))
  = get k (out_settings (run body (apply_settings (context_settings kw) s))).
Proof. exact ctx_frame. Qed.
Print Assumptions C20_ctx_frame.

(* ---- (3) an observation at the start of the body sees the named values (keyword arguments are distinct) *)
Theorem C20_inside_observes_temporary : forall kw body s,
  NoDup (map fst kw) ->
  exists s' rest,
    out_trace (run (Ctx kw (Seq Observe body)) s) = observe s' :: rest /\
    (forall k v, In (k, Some v) kw -> get k s' = Some v) /\
    (forall k, ~ In k (named kw) -> get k s' = get k s).
Proof. exact inside_observes_temporary. Qed.
Print Assumptions C20_inside_observes_temporary.

Theorem C20_inside_helpers_temporary : forall kw body s,
  NoDup (map fst kw) ->
  exists o rest,
    out_trace (run (Ctx kw (Seq Observe body)) s) = o :: rest /\
    (forall d, In (KDecimals, Some d) kw -> o_str o = op_str_third (Some d)) /\
    (forall a r, In (KAtol, Some a) kw -> In (KRtol, Some r) kw ->
                 o_close o = op_is_close_1_10005 (Some a) (Some r)).
Proof. exact inside_helpers_temporary. Qed.
Print Assumptions C20_inside_helpers_temporary.

(* ... and only inside: the observation after the context (left either way) sees the old values again *)
Theorem C20_after_observes_restored : forall kw body s,
  exists s'',
    out_trace (run (Seq (Catch (Ctx kw body)) Observe) s)
    = out_trace (run (Ctx kw body) s) ++ [observe s''] /\
    s'' = out_settings (run (Ctx kw body) s) /\
    (forall k, In k (named kw) -> get k s'' = get k s).
Proof. exact after_observes_restored. Qed.
Print Assumptions C20_after_observes_restored.

(* ---- (4) exceptions raised inside propagate out, and do not prevent the restore *)
Theorem C20_ctx_exception_propagates : forall kw body s,
  out_raised (run (Ctx kw body) s) = out_raised (run body (apply_settings (context_settings kw) s)).
Proof. exact ctx_exception_propagates. Qed.
Print Assumptions C20_ctx_exception_propagates.

Theorem C20_ctx_raise_restores : forall kw p s,
  out_raised (run (Ctx kw (Seq p Raise)) s) = true /\
  (forall k, In k (named kw) -> get k (out_settings (run (Ctx kw (Seq p Raise)) s)) = get k s).
Proof. exact ctx_raise_restores. Qed.
Print Assumptions C20_ctx_raise_restores.

(* ---- nestings *)
Theorem C20_nested_ctx_restores : forall kw1 kw2 p s k,
  In k (named kw1) \/ In k (named kw2) ->
  get k (out_settings (run (Ctx kw1 (Ctx kw2 p)) s)) = get k s.
Proof. exact nested_ctx_restores. Qed.
Print Assumptions C20_nested_ctx_restores.

Theorem C20_nested_ctx_frame : forall kw1 kw2 p s k,
  ~ In k (named kw1) -> ~ In k (named kw2) ->
  get k (out_settings (run (Ctx kw1 (Ctx kw2 p)) s))
  = get k (out_settings (run p (enter_all [kw1; kw2] s))).
Proof. exact nested_ctx_frame. Qed.
Print Assumptions C20_nested_ctx_frame.

Theorem C20_nested_ctx_exception_propagates : forall kw1 kw2 p s,
  out_raised (run (Ctx kw1 (Ctx kw2 p)) s) = out_raised (run p (enter_all [kw1; kw2] s)).
Proof. exact nested_ctx_exception_propagates. Qed.
Print Assumptions C20_nested_ctx_exception_propagates.

(* any depth: `nest [kw1; ...; kwn] p` = Ctx kw1 (... (Ctx kwn p)) *)
Theorem C20_nest_restores : forall kws p s k,
  (exists kw, In kw kws /\ In k (named kw)) ->
  get k (out_settings (run (nest kws p) s)) = get k s.
Proof. exact nest_restores. Qed.
Print Assumptions C20_nest_restores.

Theorem C20_nest_frame : forall kws p s k,
  (forall kw, In kw kws -> ~ In k (named kw)) ->
  get k (enter_all kws s) = get k s /\
  get k (out_settings (run (nest kws p) s)) = get k (out_settings (run p (enter_all kws s))).
Proof. exact nest_frame. Qed.
Print Assumptions C20_nest_frame.

Theorem C20_nest_exception_propagates : forall kws p s,
  out_raised (run (nest kws p) s) = out_raised (run p (enter_all kws s)).
Proof. exact nest_exception_propagates. Qed.
Print Assumptions C20_nest_exception_propagates.

(* ---- whole programs (induction over programs): a program changes only the settings it assigns directly
   (or creates lazily) outside every context naming them, wherever it raises *)
Theorem C20_run_preserves_unescaped : forall p s k,
  ~ In k (escapes p) -> get k (out_settings (run p s)) = get k s.
Proof. exact run_preserves_unescaped. Qed.
Print Assumptions C20_run_preserves_unescaped.

Theorem C20_run_without_escape_is_identity : forall p s,
  escapes p = [] -> out_settings (run p s) = s.
Proof. exact run_without_escape_is_identity. Qed.
Print Assumptions C20_run_without_escape_is_identity.

Theorem C20_helpers_unchanged_after : forall p s,
  (~ In KDecimals (escapes p) -> o_str (observe (out_settings (run p s))) = o_str (observe s)) /\
  (~ In KAtol (escapes p) -> ~ In KRtol (escapes p) ->
   o_close (observe (out_settings (run p s))) = o_close (observe s)).
Proof. exact helpers_unchanged_after. Qed.
Print Assumptions C20_helpers_unchanged_after.

(* the comparison used by the check to tie the model to the code is exact *)
Theorem C20_outcome_eqb_exact : forall a b, outcome_eqb a b = true <-> a = b.
Proof. exact outcome_eqb_eq. Qed.
Print Assumptions C20_outcome_eqb_exact.

(* ---- non-vacuity: a depth-3 nesting over overlapping sets, with direct assignments to a named setting
   (decimals, restored) and to an unnamed one (alias, kept), a lazily created factory manager, and a raise in
   the innermost body.  `decimals=None` in the outer call is dropped by the context. *)
Definition C20_example_prog : prog :=
  Ctx [(KDecimals, Some 5); (KAtol, Some 2); (KRtol, None)]
    (Seq Observe
      (Ctx [(KFloatType, Some 32); (KDecimals, Some 7); (KFactory, Some 41)]
        (Seq (Assign KAlias (Some 9))
          (Ctx [(KAtol, Some 4); (KRtol, Some 3); (KLogger, Some 2)]
            (Seq Observe
              (Seq (Assign KDecimals (Some 1))
                (Seq (Assign KRtol (Some 8))
                  (Seq Observe Raise)))))))).

Example C20_example_runs :
  depth C20_example_prog = 3%nat /\
  run C20_example_prog default_settings =
  mkOut
    (* afterwards: everything as before except the direct assignment to the never-named alias *)
    (mkS (Some 64) (Some 3) (Some 10) (Some 0) (Some 9) (Some 0) None)
    true   (* the exception escapes all three contexts *)
    [ mkObs (mkS (Some 64) (Some 5) (Some 2) (Some 0) (Some 0) (Some 0) None) (Some "0.33333"%string) (Some false);
      mkObs (mkS (Some 32) (Some 7) (Some 4) (Some 3) (Some 9) (Some 2) (Some 41)) (Some "0.3333333"%string) (Some true);
      mkObs (mkS (Some 32) (Some 1) (Some 4) (Some 8) (Some 9) (Some 2) (Some 41)) (Some "0.3"%string) (Some true) ].
Proof. split; vm_compute; reflexivity. Qed.
Print Assumptions C20_example_runs.

(* the theorems apply to it non-trivially: named sets are non-empty, the body raises, the escape set is {alias} *)
Example C20_example_hypotheses :
  named [(KDecimals, Some 5); (KAtol, Some 2); (KRtol, None)] = [KDecimals; KAtol] /\
  escapes C20_example_prog = [KAlias] /\
  out_raised (run C20_example_prog default_settings) = true /\
  get KDecimals (out_settings (run C20_example_prog default_settings)) = Some 3 /\
  get KAlias (out_settings (run C20_example_prog default_settings)) = Some 9.
Proof. repeat split; vm_compute; reflexivity. Qed.
Print Assumptions C20_example_hypotheses.

(* caught in the middle: the exception leaves the two inner contexts, is caught inside the outer one, whose
   body goes on and observes the inner settings restored and its own still in force; lazy creation of the
   factory manager inside escapes (nothing names it) *)
Example C20_example_catch :
  run (Ctx [(KDecimals, Some 5)]
        (Seq (Catch (Ctx [(KDecimals, Some 7); (KAtol, Some 1)] (Ctx [(KAtol, Some 0)] (Seq (ReadFM 77) Raise))))
             Observe))
      default_settings
  = mkOut (mkS (Some 64) (Some 3) (Some 10) (Some 0) (Some 0) (Some 0) (Some 77)) false
      [ mkObs (mkS (Some 64) (Some 5) (Some 10) (Some 0) (Some 0) (Some 0) (Some 77)) (Some "0.33333"%string) (Some true) ].
Proof. vm_compute; reflexivity. Qed.
Print Assumptions C20_example_catch.

(* a factory manager named by a context while the slot is still None: the slot is None again afterwards *)
Example C20_example_lazy_factory :
  run (Ctx [(KFactory, Some 5)] (Seq Observe (Seq (Assign KFactory None) (Seq (ReadFM 6) Observe)))) default_settings
  = mkOut default_settings false
      [ mkObs (set KFactory (Some 5) default_settings) (Some "0.333"%string) (Some true);
        mkObs (set KFactory (Some 6) default_settings) (Some "0.333"%string) (Some true) ].
Proof. vm_compute; reflexivity. Qed.
Print Assumptions C20_example_lazy_factory.
