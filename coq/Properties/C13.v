(* C13 — Processing is history-free; restart and copy give clean independent engines.

   Subject: `process` (Model/Engine.v) and the operations of Model/Ops.v (`restart`, `fresh`, `step`, `run` on a store of
   engine VALUES).  Model level, generic in the numeric reading `Num T`.
   Hypotheses on the engine: `general_only` (General activation in the enabled blocks; C01's scope) and
   `no_lock_previous`.  `same_structure e1 e2` = equal after erasing input values, ov_value / ov_previous / ov_fuzzy of the
   outputs and r_degree / r_triggered of the rules (`erase`).
   Formula model: `fe0` (no Function terms — what the correspondence plugs); `_any_formula_model`: every formula model
   that reads the inputs and the CONFIGURATION of the outputs only (DESIGN: refs_well_founded, strongest form).

   What is NOT a theorem: engines are values here, `copy` is the identity on them; that the Python object graphs of an
   engine and of its deepcopy / of a restarted engine share no mutable object is checked by the correspondence only.
   What the model REFUTES of the informal statement: a DISABLED output variable keeps its old value through process, so
   "the outputs depend only on the inputs of that step" holds for the enabled output variables only
   (C13_history_free_all_values_refuted); the theorems claim the enabled ones, and idempotence claims all.
   Only statements here; the proofs are in Proofs/EngineProofs.v. *)
From Coq Require Import ZArith Bool List String PrimFloat.
From VF Require Import Num NumF GenNorm GenHedge GenTerm Core Antecedent Consequent Cascade CascadeProofs Engine Ops Pipeline EngineProofs.
Import ListNotations.
Local Open Scope list_scope.

(* ---- 1. history-freedom *)
(* two states of the same engine structure with the same inputs: both runs fail alike, or both succeed and every output
   variable agrees on everything but previous_value — and on the value when it is enabled *)
Theorem C13_history_free : forall (T : Type) (N : Num T) (e1 e2 : engine T),
  general_only e1 -> no_lock_previous e1 -> same_structure e1 e2 -> e_inputs e1 = e_inputs e2 ->
  res_rel (fun a b => Forall2 ov_same_result (e_outputs a) (e_outputs b)) (process fe0 e1) (process fe0 e2).
Proof. intros T N. exact (history_free fe0 fe0_no_output_values). Qed.
Print Assumptions C13_history_free.

Theorem C13_history_free_values : forall (T : Type) (N : Num T) (e1 e2 : engine T),
  general_only e1 -> no_lock_previous e1 -> same_structure e1 e2 -> e_inputs e1 = e_inputs e2 ->
  res_rel (fun a b => enabled_values (e_outputs a) = enabled_values (e_outputs b) /\
                      map (@ov_fuzzy T) (e_outputs a) = map (@ov_fuzzy T) (e_outputs b))
          (process fe0 e1) (process fe0 e2).
Proof. intros T N. exact (history_free_values fe0 fe0_no_output_values). Qed.
Print Assumptions C13_history_free_values.

Theorem C13_history_free_any_formula_model :
  forall (T : Type) (N : Num T) (function_eval : engine T -> fnode T -> list (string * T) -> T -> result T),
  (forall e1 e2 : engine T, e_inputs e1 = e_inputs e2 -> map ov_static (e_outputs e1) = map ov_static (e_outputs e2) ->
                            function_eval e1 = function_eval e2) ->
  forall e1 e2 : engine T,
  general_only e1 -> no_lock_previous e1 -> same_structure e1 e2 -> e_inputs e1 = e_inputs e2 ->
  res_rel (fun a b => Forall2 ov_same_result (e_outputs a) (e_outputs b)) (process function_eval e1) (process function_eval e2).
Proof. exact @history_free. Qed.
Print Assumptions C13_history_free_any_formula_model.

(* processing twice: the second run succeeds and reproduces every value and every fuzzy output *)
Theorem C13_process_idempotent_strong : forall (T : Type) (N : Num T) (e e1 : engine T),
  general_only e -> no_lock_previous e -> process fe0 e = Ok e1 ->
  exists e2, process fe0 e1 = Ok e2 /\
             Forall2 (fun a b => ov_ev a = ov_ev b /\ ov_value a = ov_value b) (e_outputs e1) (e_outputs e2).
Proof. intros T N. exact (process_idempotent_strong fe0 fe0_no_output_values). Qed.
Print Assumptions C13_process_idempotent_strong.

Theorem C13_process_idempotent : forall (T : Type) (N : Num T) (e e1 e2 : engine T),
  general_only e -> no_lock_previous e -> process fe0 e = Ok e1 -> process fe0 e1 = Ok e2 ->
  map (@ov_value T) (e_outputs e2) = map (@ov_value T) (e_outputs e1) /\
  map (@ov_fuzzy T) (e_outputs e2) = map (@ov_fuzzy T) (e_outputs e1).
Proof. intros T N. exact (process_idempotent fe0 fe0_no_output_values). Qed.
Print Assumptions C13_process_idempotent.

(* process changes state only: the structure and the inputs stay *)
Theorem C13_process_preserves_structure : forall (T : Type) (N : Num T) (e e' : engine T),
  general_only e -> process fe0 e = Ok e' -> same_structure e e' /\ e_inputs e' = e_inputs e.
Proof. intros T N. exact (process_preserves_structure fe0 fe0_no_output_values). Qed.
Print Assumptions C13_process_preserves_structure.

(* ---- 2. restart *)
(* restart reads the structure only: whatever their histories, two engines of the same structure are EQUAL after restart *)
Theorem C13_restart_erases_history : forall (T : Type) (N : Num T) (e1 e2 : engine T),
  same_structure e1 e2 -> restart e1 = restart e2.
Proof. exact @restart_erases_history. Qed.
Print Assumptions C13_restart_erases_history.

(* `fresh` (the state the constructors build) is `restart` by definition in Model/Ops.v; the content is the line above *)
Theorem C13_restart_eq_fresh : forall (T : Type) (N : Num T) (e1 e2 : engine T),
  same_structure e1 e2 -> restart e1 = fresh e2.
Proof. exact @restart_eq_fresh_of_structure. Qed.
Print Assumptions C13_restart_eq_fresh.

Theorem C13_restart_then_process_eq_fresh : forall (T : Type) (N : Num T) (e1 e2 : engine T) (xs : list T),
  same_structure e1 e2 -> process fe0 (set_inputs (restart e1) xs) = process fe0 (set_inputs (fresh e2) xs).
Proof. intros T N. exact (restart_then_process_eq_fresh fe0). Qed.
Print Assumptions C13_restart_then_process_eq_fresh.

Theorem C13_restart_idempotent : forall (T : Type) (N : Num T) (e : engine T), restart (restart e) = restart e.
Proof. exact @restart_idempotent. Qed.
Print Assumptions C13_restart_idempotent.

Theorem C13_restart_same_structure : forall (T : Type) (N : Num T) (e : engine T), same_structure e (restart e).
Proof. exact @restart_same_structure. Qed.
Print Assumptions C13_restart_same_structure.

(* inputs and outputs hold nan passed through the clipping setter, previous values nan, fuzzy outputs empty, degrees 0,
   triggered flags off *)
Theorem C13_restart_state : forall (T : Type) (N : Num T) (e : engine T), restarted_state (restart e).
Proof. exact @restart_state. Qed.
Print Assumptions C13_restart_state.

Theorem C13_clip_nan_binary64 : forall m t (lo hi : float), @clip float (NumF m t) lo hi (@nan float (NumF m t)) = @nan float (NumF m t).
Proof. intros m t lo hi. exact (clip_nan (F_Hmax m t) (F_Hmin m t) lo hi _ (F_Hnan m t)). Qed.
Print Assumptions C13_clip_nan_binary64.

(* on binary64 (np.clip(nan, lo, hi) is nan) every value is NaN after restart *)
Theorem C13_restart_values_nan_binary64 : forall m t (e : engine float),
  Forall (fun iv => iv_value iv = PrimFloat.nan) (e_inputs (@restart float (NumF m t) e)) /\
  Forall (fun ov => ov_value ov = PrimFloat.nan /\ ov_previous ov = PrimFloat.nan /\ ov_fuzzy ov = [])
         (e_outputs (@restart float (NumF m t) e)).
Proof. intros m t e. exact (@restart_values_nan float (NumF m t) e (C13_clip_nan_binary64 m t)). Qed.
Print Assumptions C13_restart_values_nan_binary64.

(* restart clears the output variables (and the inputs) INDEPENDENTLY of the rule blocks: with any other list of blocks —
   none at all, or blocks without rules — the outputs after restart are the same cleared ones *)
Theorem C13_restart_outputs_independent_of_blocks : forall (T : Type) (N : Num T) (e : engine T) (bs : list (block T)),
  e_inputs (restart (with_blocks e bs)) = e_inputs (restart e) /\
  e_outputs (restart (with_blocks e bs)) = e_outputs (restart e) /\
  e_blocks (restart (with_blocks e bs)) = map (@block_deactivated T N) bs.
Proof. exact @restart_with_blocks. Qed.
Print Assumptions C13_restart_outputs_independent_of_blocks.

(* an engine WITHOUT rule blocks is in the restarted state after restart: every output it has is cleared *)
Theorem C13_restart_without_blocks_state : forall (T : Type) (N : Num T) (e : engine T),
  restarted_state (restart (with_blocks e [])) /\ e_blocks (restart (with_blocks e [])) = [] /\
  List.length (e_outputs (restart (with_blocks e []))) = List.length (e_outputs e).
Proof. exact @restart_without_blocks_state. Qed.
Print Assumptions C13_restart_without_blocks_state.

(* a state assigned by hand to an output variable (value, previous value, one more activated term) is erased *)
Theorem C13_restart_erases_hand_state : forall (T : Type) (N : Num T) (e : engine T) oi ov v p t d,
  nth_error (e_outputs e) oi = Some ov ->
  restart (with_outputs e (set_nth oi (ov_with_state ov v p t d) (e_outputs e))) = restart e.
Proof. exact @restart_erases_hand_state. Qed.
Print Assumptions C13_restart_erases_hand_state.

(* the scripts the correspondence runs: remove the rule blocks of a (used) engine, restart: the current engine is the
   freshly built block-less engine, its outputs the cleared ones; assign a state by hand, restart: the restarted engine *)
Theorem C13_remove_blocks_then_restart : forall (T : Type) (N : Num T) (s : @store T) e,
  nth_error (fst s) (snd s) = Some e ->
  exists s1 s2, run fe0 s [ORemoveBlocks; ORestart] = [Ok s1; Ok s2] /\
                nth_error (fst s2) (snd s2) = Some (fresh (with_blocks e [])) /\
                e_outputs (fresh (with_blocks e [])) = e_outputs (restart e).
Proof. intros T N. exact (run_remove_blocks_restart fe0). Qed.
Print Assumptions C13_remove_blocks_then_restart.

Theorem C13_set_state_then_restart : forall (T : Type) (N : Num T) (s : @store T) e oi ov v p ti t d,
  nth_error (fst s) (snd s) = Some e -> nth_error (e_outputs e) oi = Some ov -> nth_error (ov_terms ov) ti = Some t ->
  exists s1 s2, run fe0 s [OSetOutputState oi v p ti d; ORestart] = [Ok s1; Ok s2] /\
                nth_error (fst s2) (snd s2) = Some (restart e).
Proof. intros T N. exact (run_set_state_restart fe0). Qed.
Print Assumptions C13_set_state_then_restart.

(* ---- 3. copies: true BY CONSTRUCTION of the model (values have no aliasing) — see the header *)
(* an operation touches the current engine only *)
Theorem C13_step_touches_current_only : forall (T : Type) (N : Num T) (s s' : @store T) (o : op) k e,
  step fe0 s o = Ok s' -> nth_error (fst s) k = Some e -> snd s <> k -> o <> OSwitch k ->
  nth_error (fst s') k = Some e /\ snd s' <> k.
Proof. intros T N. exact (step_frame fe0). Qed.
Print Assumptions C13_step_touches_current_only.

Theorem C13_untouched_when_not_current : forall (T : Type) (N : Num T) (ops : list op) (s : @store T) k e,
  nth_error (fst s) k = Some e -> snd s <> k -> ~ In (OSwitch k) ops ->
  Forall (fun r => match r with Ok s' => nth_error (fst s') k = Some e | Err _ => True end) (run fe0 s ops).
Proof. intros T N. exact (untouched_when_not_current fe0). Qed.
Print Assumptions C13_untouched_when_not_current.

(* copy(): the copy is the same value (hence the same results), it becomes current, and nothing done afterwards changes
   the original until the script switches back to it *)
Theorem C13_copy_independent_by_construction : forall (T : Type) (N : Num T) (s s1 : @store T) (ops : list op) e,
  nth_error (fst s) (snd s) = Some e -> step fe0 s OCopy = Ok s1 ->
  nth_error (fst s1) (snd s1) = Some e /\ snd s1 = List.length (fst s) /\
  (~ In (OSwitch (snd s)) ops ->
   Forall (fun r => match r with Ok s' => nth_error (fst s') (snd s) = Some e | Err _ => True end) (run fe0 s1 ops)).
Proof. intros T N. exact (copy_independent_by_construction fe0). Qed.
Print Assumptions C13_copy_independent_by_construction.

(* ---- 4. non-vacuity and the refutation, on a binary64 engine, by computation
   input x in [0,1] with low = Ramp(1,0), high = Ramp(0,1); output y in [0,1] with small = Triangle(0,.25,.5),
   big = Triangle(.5,.75,1), Maximum, Centroid(10), lock-previous off; rules: if x is low then y is small;
   if x is high then y is big with 0.5 *)
Definition NF : Num float := NumF true [].
Definition ex_input (x : float) : input_var float :=
  {| iv_name := "x"; iv_enabled := true; iv_min := 0%float; iv_max := 1%float; iv_lock_range := false;
     iv_terms := [TShape "low" (Sh_Ramp 1 0 1)%float; TShape "high" (Sh_Ramp 0 1 1)%float]; iv_value := x |}.
Definition ex_output (enabled : bool) (v : float) : output_var float :=
  {| ov_name := "y"; ov_enabled := enabled; ov_min := 0%float; ov_max := 1%float; ov_lock_range := false;
     ov_lock_previous := false; ov_default := PrimFloat.nan;
     ov_aggregation := Some (SN S_Maximum); ov_defuzzifier := Some (DIntegral Centroid 10);
     ov_terms := [TShape "small" (Sh_Triangle 0 0.25 0.5 1)%float; TShape "big" (Sh_Triangle 0.5 0.75 1 1)%float];
     ov_value := v; ov_previous := PrimFloat.nan; ov_fuzzy := [] |}.
Definition ex_rule (w : float) (t : nat) : rule float :=
  {| r_enabled := true; r_weight := w; r_antecedent := Some (EProp (VIn 0) [] (Some t));
     r_consequent := [{| c_var := 0; c_hedges := []; c_term := t |}]; r_degree := 0%float; r_triggered := false |}.
Definition ex_block : block float :=
  {| b_name := "rules"; b_enabled := true; b_conjunction := Some (TN T_Minimum); b_disjunction := Some (SN S_Maximum);
     b_implication := Some (TN T_Minimum); b_activation := Some AGeneral; b_rules := [ex_rule 1 0; ex_rule 0.5 1] |}.
Definition ex_engine (enabled : bool) (x v : float) : engine float :=
  {| e_name := "ex"; e_inputs := [ex_input x]; e_outputs := [ex_output enabled v]; e_blocks := [ex_block] |}.
(* the state left by an earlier step on another input, with the inputs of the new step *)
Definition ex_used (x0 x : float) : engine float :=
  match @process float NF fe0 (ex_engine true x0 PrimFloat.nan) with
  | Ok e => @set_inputs float NF e [x]
  | Err _ => ex_engine true x PrimFloat.nan
  end.

(* the hypotheses of C13_history_free hold of a fresh engine and a used one, whose states differ *)
Example C13_example_hypotheses :
  general_only (ex_engine true 0.25 PrimFloat.nan) /\ @no_lock_previous float (ex_engine true 0.25 PrimFloat.nan) /\
  @same_structure float NF (ex_engine true 0.25 PrimFloat.nan) (ex_used 0.75 0.25) /\
  e_inputs (ex_engine true 0.25 PrimFloat.nan) = e_inputs (ex_used 0.75 0.25) /\
  map (fun ov => PrimFloat.is_nan (ov_value ov)) (e_outputs (ex_used 0.75 0.25)) = [false] /\
  map (fun ov => List.length (ov_fuzzy ov)) (e_outputs (ex_used 0.75 0.25)) = [2%nat].
Proof.
  split; [intros b [<- | []] _; reflexivity|]. split; [intros ov [<- | []]; reflexivity|].
  vm_compute. repeat split; reflexivity.
Qed.
Print Assumptions C13_example_hypotheses.

(* and the two runs give the same value and fuzzy output, a number and two activated terms *)
Example C13_example_history_free :
  match @process float NF fe0 (ex_engine true 0.25 PrimFloat.nan), @process float NF fe0 (ex_used 0.75 0.25) with
  | Ok a, Ok b => map (@ov_value float) (e_outputs a) = map (@ov_value float) (e_outputs b) /\
                  map (@ov_fuzzy float) (e_outputs a) = map (@ov_fuzzy float) (e_outputs b) /\
                  map (fun ov => PrimFloat.is_nan (ov_value ov)) (e_outputs a) = [false] /\
                  map (fun ov => List.length (ov_fuzzy ov)) (e_outputs a) = [2%nat] /\
                  map (@ov_previous float) (e_outputs a) <> map (@ov_previous float) (e_outputs b)
  | _, _ => False
  end.
Proof.
  vm_compute. repeat split; try reflexivity.
  intros H. apply (f_equal (fun l => match l with x :: _ => PrimFloat.is_nan x | [] => false end)) in H.
  vm_compute in H. discriminate H.
Qed.
Print Assumptions C13_example_history_free.

(* REFUTED for all output values: a disabled output variable keeps whatever value it had *)
Theorem C13_history_free_all_values_refuted :
  exists e1 e2 : engine float,
    general_only e1 /\ @no_lock_previous float e1 /\ @same_structure float NF e1 e2 /\ e_inputs e1 = e_inputs e2 /\
    exists a b, @process float NF fe0 e1 = Ok a /\ @process float NF fe0 e2 = Ok b /\
                map (@ov_value float) (e_outputs a) <> map (@ov_value float) (e_outputs b).
Proof.
  exists (ex_engine false 0.25 0.5), (ex_engine false 0.25 0.75).
  split; [intros b [<- | []] _; reflexivity|]. split; [intros ov [<- | []]; reflexivity|].
  split; [vm_compute; reflexivity|]. split; [reflexivity|].
  eexists. eexists. split; [vm_compute; reflexivity|]. split; [vm_compute; reflexivity|].
  intros H. apply (f_equal (fun l => match l with x :: _ => PrimFloat.eqb x 0.5 | [] => false end)) in H.
  vm_compute in H. discriminate H.
Qed.
Print Assumptions C13_history_free_all_values_refuted.

(* restart of the used engine = the fresh engine; a script: set, process, copy, work on the copy, switch back *)
Example C13_example_restart_and_copy :
  @restart float NF (ex_used 0.75 0.25) = @fresh float NF (ex_engine true 0.5 0.125) /\
  match @run float NF fe0 ([ex_engine true 0.25 PrimFloat.nan], 0%nat)
          [OProcess; OCopy; OSet 0 0.75%float; OProcess; OEditRule 0 0 false 1%float; OProcess; ORestart; OSwitch 0; OProcess] with
  | [Ok s1; Ok s2; Ok s3; Ok s4; Ok s5; Ok s6; Ok s7; Ok s8; Ok s9] =>
      snd s2 = 1%nat /\ nth_error (fst s2) 1 = nth_error (fst s1) 0 /\
      nth_error (fst s7) 0 = nth_error (fst s1) 0 /\
      nth_error (fst s4) 1 <> nth_error (fst s2) 1 /\
      nth_error (fst s9) 1 = nth_error (fst s7) 1 /\
      option_map (fun e => map (@ov_value float) (e_outputs e)) (nth_error (fst s9) 0)
        = option_map (fun e => map (@ov_value float) (e_outputs e)) (nth_error (fst s1) 0)
  | _ => False
  end.
Proof.
  split; [vm_compute; reflexivity|]. vm_compute. repeat split; try reflexivity.
  intros H. apply (f_equal (fun o => match o with
                                    | Some e => match e_inputs e with iv :: _ => PrimFloat.eqb (iv_value iv) 0.25 | [] => false end
                                    | None => false end)) in H.
  vm_compute in H. discriminate H.
Qed.
Print Assumptions C13_example_restart_and_copy.

(* an engine WITHOUT rule blocks whose output carries state: the used engine with its blocks removed, and a block-less
   engine whose state is assigned by hand (value 0.5, previous value 0.25, activated term big@0.75); both carry a
   number, a previous value and a non-empty fuzzy output before restart; after restart both ARE the freshly built
   block-less engine: value and previous value NaN, fuzzy output empty.  Same with a block that has no rules. *)
Example C13_example_restart_without_blocks :
  match @run float NF fe0 ([ex_engine true 0.25 PrimFloat.nan], 0%nat)
          [OProcess; OSet 0 0.75%float; OProcess; ORemoveBlocks; ORestart],
        @run float NF fe0 ([with_blocks (ex_engine true 0.25 PrimFloat.nan) []], 0%nat)
          [OSetOutputState 0 0.5%float 0.25%float 1 0.75%float; ORestart],
        @run float NF fe0 ([ex_engine true 0.25 PrimFloat.nan], 0%nat)
          [OProcess; ODropRules 0; ORestart] with
  | [Ok _; Ok _; Ok _; Ok s4; Ok s5], [Ok t1; Ok t2], [Ok _; Ok u2; Ok u3] =>
      option_map (fun e => (List.length (e_blocks e),
                            map (fun ov => (PrimFloat.is_nan (ov_value ov), PrimFloat.is_nan (ov_previous ov), List.length (ov_fuzzy ov))) (e_outputs e)))
                 (nth_error (fst s4) 0) = Some (0%nat, [(false, false, 2%nat)]) /\
      option_map (fun e => map (fun ov => (PrimFloat.eqb (ov_value ov) 0.5, PrimFloat.eqb (ov_previous ov) 0.25,
                                           map (fun a => (term_name (a_term a), a_degree a)) (ov_fuzzy ov))) (e_outputs e))
                 (nth_error (fst t1) 0) = Some [(true, true, [("big"%string, 0.75%float)])] /\
      nth_error (fst s5) 0 = Some (@fresh float NF (with_blocks (ex_engine true 0.5 0.125) [])) /\
      nth_error (fst t2) 0 = Some (@fresh float NF (with_blocks (ex_engine true 0.5 0.125) [])) /\
      option_map (fun e => map (fun ov => (PrimFloat.is_nan (ov_value ov), PrimFloat.is_nan (ov_previous ov), ov_fuzzy ov)) (e_outputs e))
                 (nth_error (fst s5) 0) = Some [(true, true, [])] /\
      option_map (fun e => (map (fun b => List.length (b_rules b)) (e_blocks e),
                            map (fun ov => (PrimFloat.is_nan (ov_value ov), List.length (ov_fuzzy ov))) (e_outputs e)))
                 (nth_error (fst u2) 0) = Some ([0%nat], [(false, 2%nat)]) /\
      option_map (fun e => map (fun ov => (PrimFloat.is_nan (ov_value ov), PrimFloat.is_nan (ov_previous ov), ov_fuzzy ov)) (e_outputs e))
                 (nth_error (fst u3) 0) = Some [(true, true, [])]
  | _, _, _ => False
  end.
Proof. vm_compute. repeat split; reflexivity. Qed.
Print Assumptions C13_example_restart_without_blocks.
