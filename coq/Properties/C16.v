(* C16 — malformed rule and FLL text is rejected cleanly, never accepted or crashed on.
   Model: Model/RuleText.v (Rule.parse, Rule.load / unload / is_loaded / create, RuleBlock.load_rules) over
   Model/ShuntingYard.v (Function.format_infix / infix_to_postfix), Model/Antecedent.v, Model/Consequent.v;
   Model/Fll.v (FllImporter).  Only imports and final statements; all proofs live in Proofs/RejectProofs.v.

   WHICH FINAL-STATE CHECK IS THE CURRENT CODE:  RuleText.code_has_F6 = false, i.e. `load_rule` = `load_fixed`: /repo has the
   repaired check `if state & (s_hedge | s_term)` (commit "fix: Antecedent.load raised TypeError for antecedents ending in
   `is` or a hedge").  Section A proves "never an internal error" for it in full; the refutation for the check as the
   snapshot had it (`stack & …`: TypeError, finding F6) is kept as theorems about `load_as_written`, with the exact
   characterisation of the texts that hit it.  C16_rule_load_no_internal_error_status holds for either value of the switch;
   C16_rule_load_no_internal_error only while the switch says "repaired".

   `is_float` (float(token) does not raise) is a parameter of every theorem; the harness instantiates it with the decidable
   class RuleText.ascii_float_syntax, checked against Python's float() on every token of a run.

   Side conditions of the rejection theorems (section D):
   * `rule_shape a c w`: the text is the blank-joined token list  if a… then c… [with w]  where no token contains a blank or
     `#`, antecedent tokens contain no formula-operator character (so Function.format_infix leaves them whole; parentheses
     are tokens of their own), `then` / `with` occur only as the keywords, w is a number;
   * `names_distinct e`: variable names, term names and the reserved words (hedges, is, and, or, parentheses, comma) of the
     engine are pairwise disjoint classes;
   * `balanced e a` / `cbalanced e c`: what EVERY accepted antecedent / consequent satisfies (C16_accepted_*_balanced), in
     particular every antecedent printed from the grammar of Spec/Grammar.v (C16_grammar_balanced).
   The implementation also accepts antecedents already in postfix order; no theorem claims soundness w.r.t. the grammar. *)
From Coq Require Import Bool String List Reals.
From VF Require Import Num NumR GenNorm GenHedge GenTerm GenOpTable Core ShuntingYard Antecedent Consequent Grammar
  AntecedentProofs ConsequentProofs RuleText RejectProofs.
From VF Require Fll.
Import ListNotations.
Local Open Scope string_scope.
Local Open Scope list_scope.

(* ===================================================================== A. never an internal error *)
Theorem C16_rule_load_no_internal_error : forall (T : Type) (is_float : string -> bool) (e : engine T) (text : string),
  load_rule is_float e text <> Err EInternal.
Proof. intros T is_float e text. exact (rule_load_no_internal_error_fixed is_float e text). Qed.
Print Assumptions C16_rule_load_no_internal_error.

(* every failure of Rule.create(text, engine) is a SyntaxError or (non-numeric weight) a ValueError *)
Theorem C16_rule_load_error_classes : forall (T : Type) (is_float : string -> bool) (e : engine T) text x,
  load_rule is_float e text = Err x -> x = ESyntax \/ x = EValue \/ (x = EInternal /\ code_has_F6 = true).
Proof. intros T is_float e text x. exact (@load_error_classes T is_float e code_has_F6 text x). Qed.
Print Assumptions C16_rule_load_error_classes.

(* the same statement for either value of the switch: refuted (witness) while the code has F6, proved once repaired *)
Theorem C16_rule_load_no_internal_error_status :
  if code_has_F6 then exists text, @load_rule R isf (@w_engine R NumR) text = Err EInternal
  else forall (T : Type) (is_float : string -> bool) (e : engine T) text, load_rule is_float e text <> Err EInternal.
Proof. exact (no_internal_error_status code_has_F6). Qed.
Print Assumptions C16_rule_load_no_internal_error_status.

(* FINDING F6 (repaired in /repo): with the check as the snapshot had it, `if a is then x is p` raises TypeError *)
Theorem C16_rule_load_no_internal_error_refuted_as_written :
  exists (e : engine R) text, load_as_written isf e text = Err EInternal.
Proof. exists (@w_engine R NumR), "if a is then x is p". exact (@w_F6_as_written R NumR). Qed.
Print Assumptions C16_rule_load_no_internal_error_refuted_as_written.

(* … exactly for the texts whose antecedent reaches the final-state check in the state hedge|term … *)
Theorem C16_load_internal_error_iff : forall (T : Type) (is_float : string -> bool) (e : engine T) text,
  load_as_written is_float e text = Err EInternal <->
  exists a c w, parse_rule is_float text = Ok (a, c, w) /\ ends_in_prop_state e (join_sp a).
Proof. intros T is_float e text. exact (load_internal_error_iff is_float e text). Qed.
Print Assumptions C16_load_internal_error_iff.

(* … i.e. the postfix form of the antecedent ends with `is` or with a hedge other than `any` *)
Theorem C16_final_state_prop : forall (T : Type) (e : engine T) p stack,
  Antecedent.load_run e p (Antecedent.s_variable, []) = Ok (st_prop, stack) ->
  exists p' tok, p = p' ++ [tok] /\ (tok = "is" \/ exists h, hedge_of_name tok = Some h /\ hedgex_is_any (HG h) = false).
Proof. intros T e p stack. exact (@final_state_prop T e p stack). Qed.
Print Assumptions C16_final_state_prop.

(* the repaired variant, for any engine *)
Theorem C16_rule_load_no_internal_error_fixed : forall (T : Type) (is_float : string -> bool) (e : engine T) text,
  load_fixed is_float e text <> Err EInternal.
Proof. intros T is_float e text. exact (rule_load_no_internal_error_fixed is_float e text). Qed.
Print Assumptions C16_rule_load_no_internal_error_fixed.

(* this file's antecedent loader and Model/Antecedent.v's (C06) agree, except possibly on the class of the exception raised in
   the final state hedge|term *)
Theorem C16_antecedent_load_agrees : forall (T : Type) (e : engine T) f6 text,
  antecedent_load f6 e text = Antecedent.load_text e text \/
  (exists p stack, infix_to_postfix_text op_table KW_AND KW_OR text = Ok p /\
                   Antecedent.load_run e p (Antecedent.s_variable, []) = Ok (st_prop, stack)).
Proof. intros T e f6 text. exact (antecedent_load_agrees e f6 text). Qed.
Print Assumptions C16_antecedent_load_agrees.

(* the shunting-yard and Consequent.load only raise SyntaxError *)
Theorem C16_shunting_yard_errors : forall tbl toks x, infix_to_postfix tbl toks = Err x -> x = ESyntax.
Proof. exact sy_err. Qed.
Print Assumptions C16_shunting_yard_errors.
Theorem C16_consequent_errors : forall (T : Type) (e : engine T) toks x, Consequent.load e toks = Err x -> x = ESyntax.
Proof. intros T e toks x. exact (@consequent_err T e toks x). Qed.
Print Assumptions C16_consequent_errors.

(* ===================================================================== B. never loaded after a failed load *)
Theorem C16_failed_load_not_loaded : forall (T : Type) (is_float : string -> bool) (e : engine T) text x,
  load_rule is_float e text = Err x -> is_loaded (state_after is_float e text) = false.
Proof. intros T is_float e text x. exact (@failed_load_not_loaded_gen T is_float e code_has_F6 text x). Qed.
Print Assumptions C16_failed_load_not_loaded.

(* Rule.load on an arbitrary rule object (e.g. one that was loaded against another engine before) *)
Theorem C16_failed_reload_not_loaded : forall (T : Type) (e : engine T) f6 o x,
  snd (rule_load f6 e o) = Some x -> is_loaded (fst (rule_load f6 e o)) = false.
Proof. intros T e f6 o x. exact (@failed_reload_not_loaded T e f6 o x). Qed.
Print Assumptions C16_failed_reload_not_loaded.

(* RuleBlock.load_rules: the only exception is RuntimeError, raised iff some rule is not loaded afterwards *)
Theorem C16_load_rules_outcome : forall (T : Type) (e : engine T) rules,
  match load_rules e rules with
  | (rules', None) => Forall (loaded_ok e) rules'
  | (rules', Some x) => x = ERuntime /\ exists o', In o' rules' /\ is_loaded o' = false
  end.
Proof. intros T e rules. exact (load_rules_outcome e code_has_F6 rules). Qed.
Print Assumptions C16_load_rules_outcome.

(* ===================================================================== C. an accepted rule is well formed *)
(* the loaded tree refers to existing variables with terms and to existing terms (or ends in `any`), every operator has two
   operands (the type `expr`), the consequent is non-empty and refers to existing output variables and terms *)
Theorem C16_accepted_rule_well_formed : forall (T : Type) (is_float : string -> bool) (e : engine T) text o,
  load_rule is_float e text = Ok o ->
  is_loaded o = true /\
  (exists x, ro_expression o = Some x /\ expr_ok e x /\ ro_conclusions o <> [] /\ wf (e_outputs e) (ro_conclusions o)) /\
  parse_text is_float text = Ok (ro_text o).
Proof.
  intros T is_float e text o H. destruct (@accepted_rule_loaded T is_float e code_has_F6 text o H) as [[H1 H2] H3]. auto.
Qed.
Print Assumptions C16_accepted_rule_well_formed.

(* … so it exports (Antecedent.postfix) and evaluates: Rule.activate_with and Rule.trigger raise none of their structural
   errors, whatever the operators, the weight, the degree and the enabled flag (Term.membership assumed not to raise) *)
Theorem C16_accepted_rule_exports_and_evaluates :
  forall (T : Type) (NT : Num T) (e : engine T) (membership : term T -> T -> result T),
  (forall tm x, exists y, membership tm x = Ok y) ->
  forall is_float text o w conj disj degree imp enabled,
  load_rule is_float e text = Ok o ->
  exists x cs, ro_expression o = Some x /\ ro_conclusions o = cs /\
    let r := {| r_enabled := enabled; r_weight := w; r_antecedent := Some x; r_consequent := cs; r_degree := degree; r_triggered := false |} in
    rule_loaded r = true /\
    (exists p, postfix_tokens e x = Ok p) /\
    (exists d, rule_activate_with membership (Some conj) (Some disj) e r = Ok d) /\
    (exists r' outs', Consequent.trigger r imp (e_outputs e) = Ok (r', outs')).
Proof.
  intros T NT e membership Hm is_float text o w conj disj degree imp enabled H.
  exact (@accepted_rule_evaluates T NT e membership Hm is_float code_has_F6 text o w conj disj degree imp enabled H).
Qed.
Print Assumptions C16_accepted_rule_exports_and_evaluates.

(* ===================================================================== D. the listed classes are never accepted *)
(* `rejected is_float e text`: for either variant of the code Rule.create(text, engine) raises; SyntaxError once repaired *)
Theorem C16_rejected_means : forall (T : Type) (is_float : string -> bool) (e : engine T) text,
  rejected is_float e text -> (exists x, load_rule is_float e text = Err x) /\ load_fixed is_float e text = Err ESyntax.
Proof. intros T is_float e text H. split; [now apply rejected_current|now apply rejected_fixed]. Qed.
Print Assumptions C16_rejected_means.

(* ---- what every accepted rule satisfies *)
Theorem C16_accepted_antecedent_balanced : forall (T : Type) (e : engine T), names_distinct e -> forall f6 text x,
  antecedent_load f6 e text = Ok x -> balanced e (format_infix_tokens op_table KW_AND KW_OR text).
Proof. intros T e D f6 text x. exact (@accepted_antecedent_balanced T e D f6 text x). Qed.
Print Assumptions C16_accepted_antecedent_balanced.
Theorem C16_accepted_consequent_balanced : forall (T : Type) (e : engine T), names_distinct e -> forall toks cs,
  Consequent.load e toks = Ok cs -> cbalanced e toks.
Proof. intros T e D toks cs. exact (@accepted_consequent_balanced T e D toks cs). Qed.
Print Assumptions C16_accepted_consequent_balanced.
(* every antecedent written according to the grammar is balanced *)
Theorem C16_grammar_balanced : forall (T : Type) (e : engine T) t ta,
  Prints 0 t ta -> names_ok e t -> names_distinct e -> balanced e ta.
Proof. intros T e t ta. exact (@grammar_balanced T e t ta). Qed.
Print Assumptions C16_grammar_balanced.
(* the rules the rejection theorems start from exist for every grammar tree: an antecedent written according to the grammar
   (C06) with a consequent that loads is accepted, with the tree the grammar denotes *)
Theorem C16_grammar_rule_accepted : forall (T : Type) (is_float : string -> bool) (e : engine T) f6 t a c w x cs,
  rule_shape is_float a c w -> Prints 0 t a -> names_ok e t -> resolve e t = Some x -> Consequent.load e c = Ok cs ->
  load_rule_gen is_float f6 e (join_sp (rule_toks a c w)) =
  Ok {| ro_text := {| rt_antecedent := join_sp a; rt_consequent := join_sp c; rt_weight := w |};
        ro_expression := Some x; ro_conclusions := cs |}.
Proof. intros T is_float e f6 t a c w x cs. exact (@grammar_rule_accepted T is_float e f6 t a c w x cs). Qed.
Print Assumptions C16_grammar_rule_accepted.
(* the shunting-yard conserves every token but parentheses and commas, and accepts balanced parentheses only *)
Theorem C16_shunting_yard_conserves : forall P toks p, paren_free P -> infix_to_postfix op_table toks = Ok p -> cnt P p = cnt P toks.
Proof. intros P toks p HP H. exact (sy_conserves ShuntingYardProofs.op_table_ok toks HP H). Qed.
Print Assumptions C16_shunting_yard_conserves.
Theorem C16_shunting_yard_balanced : forall toks p, infix_to_postfix op_table toks = Ok p -> cnt is_lp toks = cnt is_rp toks.
Proof. intros toks p H. exact (sy_balanced ShuntingYardProofs.op_table_ok toks H). Qed.
Print Assumptions C16_shunting_yard_balanced.

(* ---- keywords and weight *)
Theorem C16_missing_if : forall (T : Type) (is_float : string -> bool) (e : engine T) toks,
  Forall clean_tok toks -> hd_error toks <> Some "if" -> rejected is_float e (join_sp toks).
Proof. intros T is_float e toks. exact (@missing_if T is_float e toks). Qed.
Print Assumptions C16_missing_if.
Theorem C16_missing_then : forall (T : Type) (is_float : string -> bool) (e : engine T) rest,
  Forall clean_tok ("if" :: rest) -> free_of "then" rest -> rejected is_float e (join_sp ("if" :: rest)).
Proof. intros T is_float e rest. exact (@missing_then T is_float e rest). Qed.
Print Assumptions C16_missing_then.
Theorem C16_non_numeric_weight : forall (T : Type) (is_float : string -> bool) (e : engine T) a c t rest,
  Forall clean_tok ("if" :: a ++ "then" :: c ++ "with" :: t :: rest) -> free_of "then" a -> free_of "with" c -> is_float t = false ->
  load_rule is_float e (join_sp ("if" :: a ++ "then" :: c ++ "with" :: t :: rest)) = Err EValue.
Proof. intros T is_float e a c t rest. exact (@non_numeric_weight T is_float e a c t rest code_has_F6). Qed.
Print Assumptions C16_non_numeric_weight.
Theorem C16_missing_weight : forall (T : Type) (is_float : string -> bool) (e : engine T) a c,
  Forall clean_tok ("if" :: a ++ "then" :: c ++ ["with"]) -> free_of "then" a -> free_of "with" c ->
  rejected is_float e (join_sp ("if" :: a ++ "then" :: c ++ ["with"])).
Proof. intros T is_float e a c. exact (@missing_weight T is_float e a c). Qed.
Print Assumptions C16_missing_weight.
Theorem C16_trailing_token_after_weight : forall (T : Type) (is_float : string -> bool) (e : engine T) a c t extra rest,
  Forall clean_tok ("if" :: a ++ "then" :: c ++ "with" :: t :: extra :: rest) -> free_of "then" a -> free_of "with" c -> is_float t = true ->
  rejected is_float e (join_sp ("if" :: a ++ "then" :: c ++ "with" :: t :: extra :: rest)).
Proof. intros T is_float e a c t extra rest. exact (@trailing_token_after_weight T is_float e a c t extra rest). Qed.
Print Assumptions C16_trailing_token_after_weight.
(* any token after a consequent that loads *)
Theorem C16_trailing_token_after_consequent : forall (T : Type) (is_float : string -> bool) (e : engine T) a c extra,
  rule_shape is_float a (c ++ [extra]) None -> (exists cs, Consequent.load e c = Ok cs) ->
  rejected is_float e (join_sp (rule_toks a (c ++ [extra]) None)).
Proof. intros T is_float e a c extra. exact (@trailing_token_after_consequent T is_float e a c extra). Qed.
Print Assumptions C16_trailing_token_after_consequent.

(* ---- the antecedent: one token too few, too many, or replaced by an unknown name *)
Theorem C16_unbalanced_antecedent_rejected : forall (T : Type) (is_float : string -> bool) (e : engine T), names_distinct e ->
  forall a c w, rule_shape is_float a c w -> ~ balanced e a -> rejected is_float e (join_sp (rule_toks a c w)).
Proof. intros T is_float e D a c w. exact (@unbalanced_rejected T is_float e D a c w). Qed.
Print Assumptions C16_unbalanced_antecedent_rejected.
Theorem C16_missing_is : forall (T : Type) (is_float : string -> bool) (e : engine T), names_distinct e -> forall pre post c w,
  balanced e (pre ++ "is" :: post) -> rule_shape is_float (pre ++ post) c w -> rejected is_float e (join_sp (rule_toks (pre ++ post) c w)).
Proof. intros T is_float e D pre post c w. exact (@missing_is T is_float e D pre post c w). Qed.
Print Assumptions C16_missing_is.
Theorem C16_missing_variable : forall (T : Type) (is_float : string -> bool) (e : engine T), names_distinct e -> forall pre v post c w,
  var_named e v = true -> balanced e (pre ++ v :: post) -> rule_shape is_float (pre ++ post) c w ->
  rejected is_float e (join_sp (rule_toks (pre ++ post) c w)).
Proof. intros T is_float e D pre v post c w. exact (@missing_variable T is_float e D pre v post c w). Qed.
Print Assumptions C16_missing_variable.
Theorem C16_missing_term : forall (T : Type) (is_float : string -> bool) (e : engine T), names_distinct e -> forall pre t post c w,
  term_named e t = true \/ t = "any" -> balanced e (pre ++ t :: post) -> rule_shape is_float (pre ++ post) c w ->
  rejected is_float e (join_sp (rule_toks (pre ++ post) c w)).
Proof. intros T is_float e D pre t post c w. exact (@missing_term T is_float e D pre t post c w). Qed.
Print Assumptions C16_missing_term.
(* missing operand: a whole proposition removed (so a connective keeps one operand) … *)
Theorem C16_missing_operand : forall (T : Type) (is_float : string -> bool) (e : engine T), names_distinct e -> forall pre v hs tg post c w,
  var_named e v = true -> (match tg with TTerm n => term_named e n = true | TAny => True end) ->
  balanced e (pre ++ prop_tokens v hs tg ++ post) -> rule_shape is_float (pre ++ post) c w ->
  rejected is_float e (join_sp (rule_toks (pre ++ post) c w)).
Proof.
  intros T is_float e D pre v hs tg post c w V Htg. exact (@missing_operand T is_float e D pre (prop_tokens v hs tg) post c w (proposition_segment D v hs tg V Htg)).
Qed.
Print Assumptions C16_missing_operand.
(* … a dangling or doubled connective … *)
Theorem C16_dangling_connective : forall (T : Type) (is_float : string -> bool) (e : engine T), names_distinct e -> forall pre o post c w,
  is_conn o = true -> balanced e (pre ++ post) -> rule_shape is_float (pre ++ o :: post) c w ->
  rejected is_float e (join_sp (rule_toks (pre ++ o :: post) c w)).
Proof. intros T is_float e D pre o post c w. exact (@dangling_connective T is_float e D pre o post c w). Qed.
Print Assumptions C16_dangling_connective.
(* … or a missing connective *)
Theorem C16_missing_connective : forall (T : Type) (is_float : string -> bool) (e : engine T), names_distinct e -> forall pre o post c w,
  is_conn o = true -> balanced e (pre ++ o :: post) -> rule_shape is_float (pre ++ post) c w ->
  rejected is_float e (join_sp (rule_toks (pre ++ post) c w)).
Proof. intros T is_float e D pre o post c w. exact (@missing_connective T is_float e D pre o post c w). Qed.
Print Assumptions C16_missing_connective.
Theorem C16_unknown_variable : forall (T : Type) (is_float : string -> bool) (e : engine T), names_distinct e -> forall pre v u post c w,
  var_named e v = true -> unknown_name e u -> balanced e (pre ++ v :: post) -> rule_shape is_float (pre ++ u :: post) c w ->
  rejected is_float e (join_sp (rule_toks (pre ++ u :: post) c w)).
Proof. intros T is_float e D pre v u post c w. exact (@unknown_variable T is_float e D pre v u post c w). Qed.
Print Assumptions C16_unknown_variable.
Theorem C16_unknown_term : forall (T : Type) (is_float : string -> bool) (e : engine T), names_distinct e -> forall pre t u post c w,
  term_named e t = true -> unknown_name e u -> balanced e (pre ++ t :: post) -> rule_shape is_float (pre ++ u :: post) c w ->
  rejected is_float e (join_sp (rule_toks (pre ++ u :: post) c w)).
Proof. intros T is_float e D pre t u post c w. exact (@unknown_term T is_float e D pre t u post c w). Qed.
Print Assumptions C16_unknown_term.
(* unbalanced parentheses: any antecedent with more "(" than ")" or conversely — no hypothesis on the names *)
Theorem C16_unbalanced_parenthesis : forall (T : Type) (is_float : string -> bool) (e : engine T) a c w,
  rule_shape is_float a c w -> cnt is_lp a <> cnt is_rp a -> rejected is_float e (join_sp (rule_toks a c w)).
Proof. intros T is_float e a c w. exact (@unbalanced_parentheses_rejected T is_float e a c w). Qed.
Print Assumptions C16_unbalanced_parenthesis.

(* ---- the consequent: `is`, `and`, a variable or a term too few or too many, or an unknown name *)
Theorem C16_unbalanced_consequent_rejected : forall (T : Type) (is_float : string -> bool) (e : engine T), names_distinct e ->
  forall a c w, rule_shape is_float a c w -> ~ cbalanced e c -> rejected is_float e (join_sp (rule_toks a c w)).
Proof. intros T is_float e D a c w. exact (@unbalanced_consequent_rejected T is_float e D a c w). Qed.
Print Assumptions C16_unbalanced_consequent_rejected.
Theorem C16_consequent_token_deleted : forall (T : Type) (is_float : string -> bool) (e : engine T), names_distinct e -> forall a pre t post w,
  ccounted e t -> cbalanced e (pre ++ t :: post) -> rule_shape is_float a (pre ++ post) w ->
  rejected is_float e (join_sp (rule_toks a (pre ++ post) w)).
Proof. intros T is_float e D a pre t post w. exact (@consequent_token_deleted_rejected T is_float e D a pre t post w). Qed.
Print Assumptions C16_consequent_token_deleted.
Theorem C16_consequent_token_inserted : forall (T : Type) (is_float : string -> bool) (e : engine T), names_distinct e -> forall a pre t post w,
  ccounted e t -> cbalanced e (pre ++ post) -> rule_shape is_float a (pre ++ t :: post) w ->
  rejected is_float e (join_sp (rule_toks a (pre ++ t :: post) w)).
Proof. intros T is_float e D a pre t post w. exact (@consequent_token_inserted_rejected T is_float e D a pre t post w). Qed.
Print Assumptions C16_consequent_token_inserted.
Theorem C16_consequent_unknown_name : forall (T : Type) (is_float : string -> bool) (e : engine T), names_distinct e -> forall a pre t u post w,
  var_named e t = true \/ term_named e t = true -> unknown_name e u -> cbalanced e (pre ++ t :: post) ->
  rule_shape is_float a (pre ++ u :: post) w -> rejected is_float e (join_sp (rule_toks a (pre ++ u :: post) w)).
Proof. intros T is_float e D a pre t u post w. exact (@consequent_unknown_name T is_float e D a pre t u post w). Qed.
Print Assumptions C16_consequent_unknown_name.

(* ===================================================================== E. FuzzyLite Language import *)
(* every failure of FllImporter.from_string (Model/Fll.v's import_, which does not include rule loading against the engine
   — section A — nor Function formulas) is a SyntaxError, ValueError or KeyError, never an internal error *)
Theorem C16_fll_import_no_internal_error : forall (num : Type) (parse : string -> option num) n_nan n_pinf n_ninf n_one n_zero lines,
  Fll.import_ parse n_nan n_pinf n_ninf n_one n_zero lines <> Err EInternal.
Proof. intros num parse. exact (@FllReject.fll_import_no_internal_error num parse). Qed.
Print Assumptions C16_fll_import_no_internal_error.
Theorem C16_fll_import_error_classes : forall (num : Type) (parse : string -> option num) n_nan n_pinf n_ninf n_one n_zero lines x,
  Fll.import_ parse n_nan n_pinf n_ninf n_one n_zero lines = Err x -> x = ESyntax \/ x = EValue \/ x = ELookup.
Proof. intros num parse. exact (@FllReject.fll_import_error_classes num parse). Qed.
Print Assumptions C16_fll_import_error_classes.

(* ===================================================================== F. non-vacuity *)
(* engine w: inputs a {lo, hi}, b {lo, hi}; outputs x {p}, y {q}.  The valid rule is accepted with the expected tree … *)
Example C16_witness_accepted : forall f6,
  @load_rule_gen R isf f6 (@w_engine R NumR) "if a is lo and ( b is very hi or a is any ) then x is p and y is not q with 0.5" =
  Ok {| ro_text := {| rt_antecedent := join_sp w_ante; rt_consequent := join_sp w_cons; rt_weight := Some "0.5" |};
        ro_expression := Some w_expr; ro_conclusions := w_concl |}.
Proof. exact (@w_accepted R NumR). Qed.
Print Assumptions C16_witness_accepted.
(* … its names are distinct, its antecedent balanced … *)
Example C16_witness_hypotheses : names_distinct (@w_engine R NumR) /\ balanced (@w_engine R NumR) w_ante /\
  rule_shape isf w_ante_no_is w_cons (Some "0.5").
Proof. exact (conj (@w_distinct R NumR) (conj (@w_balanced R NumR) w_shape_no_is)). Qed.
Print Assumptions C16_witness_hypotheses.
(* … one injected error of each listed class is rejected with SyntaxError (19 texts, computed on the model, both variants) … *)
Example C16_witness_mutants_rejected : forall f6,
  forallb (fun m => match @load_rule_gen R isf f6 (@w_engine R NumR) (snd m) with Err ESyntax => true | _ => false end) w_mutants = true.
Proof. exact (@w_mutants_rejected R NumR). Qed.
Print Assumptions C16_witness_mutants_rejected.
Example C16_witness_non_numeric_weight : forall f6,
  @load_rule_gen R isf f6 (@w_engine R NumR) "if a is lo then x is p with heavy" = Err EValue.
Proof. exact (@w_non_numeric_weight R NumR). Qed.
Print Assumptions C16_witness_non_numeric_weight.
(* … and the theorem C16_missing_is applies to it *)
Example C16_witness_missing_is_by_theorem : rejected isf (@w_engine R NumR) (join_sp (rule_toks w_ante_no_is w_cons (Some "0.5"))).
Proof. exact (@w_missing_is_by_theorem R NumR). Qed.
Print Assumptions C16_witness_missing_is_by_theorem.
(* F6 on the witness engine: TypeError as written, SyntaxError once repaired; also for an antecedent ending in a hedge *)
Example C16_witness_F6 :
  @load_as_written R isf (@w_engine R NumR) "if a is then x is p" = Err EInternal /\
  @load_fixed R isf (@w_engine R NumR) "if a is then x is p" = Err ESyntax /\
  @load_as_written R isf (@w_engine R NumR) "if a is very then x is p" = Err EInternal.
Proof. exact (conj (@w_F6_as_written R NumR) (conj (@w_F6_fixed R NumR) (@w_F6_hedge_as_written R NumR))). Qed.
Print Assumptions C16_witness_F6.
(* a failure in the consequent leaves the antecedent loaded and the rule not loaded *)
Example C16_witness_consequent_failure : forall f6,
  let o := @state_after_gen R isf f6 (@w_engine R NumR) "if a is lo then x is" in
  @load_rule_gen R isf f6 (@w_engine R NumR) "if a is lo then x is" = Err ESyntax /\
  antecedent_loaded o = true /\ consequent_loaded o = false /\ is_loaded o = false.
Proof. exact (@w_consequent_failure R NumR). Qed.
Print Assumptions C16_witness_consequent_failure.
(* RuleBlock.load_rules with one good and one bad rule: RuntimeError, the good rule stays loaded *)
Example C16_witness_load_rules : forall f6,
  let rules := [fst (@create_gen R isf f6 (@w_engine R NumR) "if a is lo then x is p"); fst (@create_gen R isf f6 (@w_engine R NumR) "if a is lo then z is p")] in
  let r := load_rules_gen f6 (@w_engine R NumR) rules in
  snd r = Some ERuntime /\ map is_loaded (fst r) = [true; false].
Proof. exact (@w_load_rules R NumR). Qed.
Print Assumptions C16_witness_load_rules.
