(* C08 — activation methods trigger exactly the rules their definition selects.

   Subject: the seven `activate` loops of fuzzylite/activation.py as modelled in Model/Activation.v, run on
   a block of ANY number of rules with arbitrary fixed degrees (`run m b`, every call logged).
   Specification: Spec/Selection.v (`select`), read on the (position, degree) list of the loaded rules
   (`loaded_degrees b`); `selection m b = select m (loaded_degrees b)`.

   `good_run m b s'` (Proofs/ActivationProofs.v) bundles, for a scalar block: the run succeeds with final
   state s'; the trigger calls (position, degree at the call) are exactly `selection m b`, in that order;
   every rule is deactivated and every loaded rule evaluated, in iteration order; no rule is evaluated
   before its deactivation or triggered before its evaluation; every rule's final degree/flag (`post`).

   General, First, Last, Threshold, Proportional: for every numeric reading `Num T` (R and binary64 alike,
   NaN degrees included).  Highest, Lowest: for every reading that satisfies the order laws `PosOrder`,
   which are proved for R and for binary64 (`NumF`, from the FloatAxioms specification of primitive floats).
   Only imports and final statements; all proofs live in Proofs/ActivationProofs.v. *)
From Coq Require Import ZArith Bool List Reals Lra Sorting.Sorted Sorting.Permutation PrimFloat.
From VF Require Import Num NumR NumF Core Activation Selection ActivationProofs.
Import ListNotations.

(* ---- 1. <Method>_selects: the trigger calls are the documented selection *)
Theorem C08_General_selects : forall (T : Type) (N : Num T) (b : list (crule T)),
  scalar_block b -> exists s', good_run AGeneral b s'.
Proof. exact @General_good. Qed.
Print Assumptions C08_General_selects.

Theorem C08_First_selects : forall (T : Type) (N : Num T) (n : Z) (t : T) (b : list (crule T)),
  scalar_block b -> exists s', good_run (AFirst n t) b s'.
Proof. exact @First_good. Qed.
Print Assumptions C08_First_selects.

Theorem C08_Last_selects : forall (T : Type) (N : Num T) (n : Z) (t : T) (b : list (crule T)),
  scalar_block b -> exists s', good_run (ALast n t) b s'.
Proof. exact @Last_good. Qed.
Print Assumptions C08_Last_selects.

Theorem C08_Threshold_selects : forall (T : Type) (N : Num T) (c : comparator) (t : T) (b : list (crule T)),
  scalar_block b -> exists s', good_run (AThreshold c t) b s'.
Proof. exact @Threshold_good. Qed.
Print Assumptions C08_Threshold_selects.

Theorem C08_Proportional_selects : forall (T : Type) (N : Num T) (b : list (crule T)),
  scalar_block b -> exists s', good_run AProportional b s'.
Proof. exact @Proportional_good. Qed.
Print Assumptions C08_Proportional_selects.

Theorem C08_Highest_selects : forall (T : Type) (N : Num T), PosOrder N ->
  forall (n : Z) (b : list (crule T)), scalar_block b -> exists s', good_run (AHighest n) b s'.
Proof. exact @Highest_good. Qed.
Print Assumptions C08_Highest_selects.

Theorem C08_Lowest_selects : forall (T : Type) (N : Num T), PosOrder N ->
  forall (n : Z) (b : list (crule T)), scalar_block b -> exists s', good_run (ALowest n) b s'.
Proof. exact @Lowest_good. Qed.
Print Assumptions C08_Lowest_selects.

Theorem C08_order_laws_R : PosOrder NumR.
Proof. exact NumR_PosOrder. Qed.
Print Assumptions C08_order_laws_R.

Theorem C08_Highest_selects_R : forall (n : Z) (b : list (crule R)),
  scalar_block b -> exists s', good_run (AHighest n) b s'.
Proof. exact (Highest_good NumR_PosOrder). Qed.
Print Assumptions C08_Highest_selects_R.

Theorem C08_Lowest_selects_R : forall (n : Z) (b : list (crule R)),
  scalar_block b -> exists s', good_run (ALowest n) b s'.
Proof. exact (Lowest_good NumR_PosOrder). Qed.
Print Assumptions C08_Lowest_selects_R.

Theorem C08_order_laws_F : forall sm tbl, PosOrder (NumF sm tbl).
Proof. exact NumF_PosOrder. Qed.
Print Assumptions C08_order_laws_F.

Theorem C08_Highest_selects_F : forall sm tbl (n : Z) (b : list (crule float)),
  @scalar_block float b -> exists s', @good_run float (NumF sm tbl) (AHighest n) b s'.
Proof. exact (fun sm tbl => Highest_good (NumF_PosOrder sm tbl)). Qed.
Print Assumptions C08_Highest_selects_F.

Theorem C08_Lowest_selects_F : forall sm tbl (n : Z) (b : list (crule float)),
  @scalar_block float b -> exists s', @good_run float (NumF sm tbl) (ALowest n) b s'.
Proof. exact (fun sm tbl => Lowest_good (NumF_PosOrder sm tbl)). Qed.
Print Assumptions C08_Lowest_selects_F.

(* the statement in the form `trigger_calls (activate m b) = selection m b` *)
Theorem C08_selects : forall (T : Type) (N : Num T) (m : activation T) (b : list (crule T)) (s' : cstate T),
  good_run m b s' -> trigger_calls (run m b) = selection m b.
Proof. exact @run_selects. Qed.
Print Assumptions C08_selects.

(* ---- 2. the sort of Highest/Lowest: the model pops the heap minimum repeatedly; that is the unique
   arrangement of the positive loaded rules sorted by (degree descending/ascending, position ascending) *)
Theorem C08_highest_order_is_sorted : forall (T : Type) (N : Num T), PosOrder N -> forall l : list (nat * T),
  Forall (fun p => positive p = true) l -> NoDup (map fst l) ->
  Permutation l (sort_by before_desc l) /\ StronglySorted (fun p q => before_desc p q = true) (sort_by before_desc l).
Proof. exact @sort_by_is_sorted_arrangement_desc. Qed.
Print Assumptions C08_highest_order_is_sorted.

Theorem C08_lowest_order_is_sorted : forall (T : Type) (N : Num T), PosOrder N -> forall l : list (nat * T),
  Forall (fun p => positive p = true) l -> NoDup (map fst l) ->
  Permutation l (sort_by before_asc l) /\ StronglySorted (fun p q => before_asc p q = true) (sort_by before_asc l).
Proof. exact @sort_by_is_sorted_arrangement_asc. Qed.
Print Assumptions C08_lowest_order_is_sorted.

Theorem C08_highest_order_unique : forall (T : Type) (N : Num T), PosOrder N -> forall l l1 l2 : list (nat * T),
  sorted_arrangement before_desc l l1 -> sorted_arrangement before_desc l l2 -> l1 = l2.
Proof. exact @sorted_arrangement_unique_desc. Qed.
Print Assumptions C08_highest_order_unique.

Theorem C08_lowest_order_unique : forall (T : Type) (N : Num T), PosOrder N -> forall l l1 l2 : list (nat * T),
  sorted_arrangement before_asc l l1 -> sorted_arrangement before_asc l l2 -> l1 = l2.
Proof. exact @sorted_arrangement_unique_asc. Qed.
Print Assumptions C08_lowest_order_unique.

(* ---- 3. what activation leaves in every rule *)
(* rule j afterwards = its static data, degree := degree of its trigger call if selected, else the evaluated
   degree (0 when not loaded); triggered := selected, enabled and that degree > 0 *)
Theorem C08_final_rule : forall (T : Type) (N : Num T) (m : activation T) (b : list (crule T)) (s' : cstate T),
  good_run m b s' -> forall j r, nth_error b j = Some r ->
  nth_error (cs_rules s') j = Some (outcome r (lookup j (selection m b))).
Proof. exact @run_final_rule. Qed.
Print Assumptions C08_final_rule.

Theorem C08_triggered_flag_iff : forall (T : Type) (N : Num T) (m : activation T) (b : list (crule T)) (s' : cstate T),
  good_run m b s' -> forall j r', nth_error (cs_rules s') j = Some r' ->
  (cr_triggered r' = true <->
   (exists d, In (j, d) (selection m b)) /\ rs_enabled (cr_static r') = true /\ gtb (cr_degree r') zero = true).
Proof. exact @run_triggered_flag_iff. Qed.
Print Assumptions C08_triggered_flag_iff.

Theorem C08_unselected_untouched : forall (T : Type) (N : Num T) (m : activation T) (b : list (crule T)) (s' : cstate T),
  good_run m b s' -> forall j r, nth_error b j = Some r ->
  (forall d, ~ In (j, d) (selection m b)) ->
  (forall d, ~ In (j, d) (triggers_of (cs_events s'))) /\
  nth_error (cs_rules s') j =
    Some (mk (cr_static r) (if rs_loaded (cr_static r) then rs_value (cr_static r) else zero) false).
Proof. exact @run_unselected_untouched. Qed.
Print Assumptions C08_unselected_untouched.

Theorem C08_unloaded_untouched : forall (T : Type) (N : Num T) (m : activation T) (b : list (crule T)) (s' : cstate T),
  good_run m b s' -> forall j r, nth_error b j = Some r -> rs_loaded (cr_static r) = false ->
  In j (deactivations_of (cs_events s')) /\ ~ In j (evals_of (cs_events s')) /\
  (forall d, ~ In (j, d) (triggers_of (cs_events s'))) /\
  nth_error (cs_rules s') j = Some (mk (cr_static r) zero false).
Proof. exact @run_unloaded_untouched. Qed.
Print Assumptions C08_unloaded_untouched.

Theorem C08_deactivates_all : forall (T : Type) (N : Num T) (m : activation T) (b : list (crule T)) (s' : cstate T),
  good_run m b s' -> Permutation (deactivations_of (cs_events s')) (seq 0 (length b)).
Proof. exact @run_deactivates_all. Qed.
Print Assumptions C08_deactivates_all.

Theorem C08_evaluates_every_loaded_rule : forall (T : Type) (N : Num T) (m : activation T) (b : list (crule T)) (s' : cstate T),
  good_run m b s' -> Permutation (evals_of (cs_events s')) (map fst (loaded_degrees b)).
Proof. exact @run_evaluates_loaded. Qed.
Print Assumptions C08_evaluates_every_loaded_rule.

Theorem C08_calls_ordered : forall (T : Type) (N : Num T) (m : activation T) (b : list (crule T)) (s' : cstate T),
  good_run m b s' -> ordered [] [] (cs_events s') = true.
Proof. exact @gr_ordered. Qed.
Print Assumptions C08_calls_ordered.

(* ---- 4. Proportional *)
Theorem C08_proportional_degrees : forall (T : Type) (N : Num T) (b : list (crule T)) (s' : cstate T) j v r',
  good_run AProportional b s' ->
  In (j, v) (filter positive (loaded_degrees b)) -> nth_error (cs_rules s') j = Some r' ->
  cr_degree r' = div v (sum_degrees (filter positive (loaded_degrees b))).
Proof. exact @proportional_degrees. Qed.
Print Assumptions C08_proportional_degrees.

Theorem C08_proportional_sums_to_one : forall b : list (crule R),
  filter positive (loaded_degrees b) <> [] -> total_degree (selection AProportional b) = 1%R.
Proof. exact proportional_sums_to_one. Qed.
Print Assumptions C08_proportional_sums_to_one.

(* ---- 5. batches: every method but General raises ValueError as soon as a loaded rule's degree is a vector *)
Theorem C08_rejects_vectors : forall (T : Type) (N : Num T) (m : activation T) (b : list (crule T)),
  vector_block b -> m <> AGeneral -> run m b = Err EValue.
Proof. exact @rejects_vectors. Qed.
Print Assumptions C08_rejects_vectors.

Theorem C08_general_accepts_vectors : forall (T : Type) (N : Num T) (b : list (crule T)),
  exists s', run AGeneral b = Ok s'.
Proof. exact @general_accepts_vectors. Qed.
Print Assumptions C08_general_accepts_vectors.

(* ---- 6. non-vacuity: a block with ties, a zero, a NaN, a disabled and an unloaded rule *)
(* block_R (Proofs/ActivationProofs.v), positions:  0: 1/2   1: 0   2: 1 disabled   3: 1/2 (tie with 0)   4: 1 unloaded   5: 1/4
   block_F: the same over binary64 plus  6: NaN *)
Definition block_F : list (crule float) :=
  [rule_ex true true 0.5 7; rule_ex true true 0 7; rule_ex true false 1 7;
   rule_ex true true 0.5 7; rule_ex false true 1 7; rule_ex true true 0.25 7; rule_ex true true PrimFloat.nan 7]%float.

Example C08_block_R_scalar : scalar_block block_R.
Proof. exact block_R_scalar. Qed.
Print Assumptions C08_block_R_scalar.

(* over R: the theorems apply to block_R, and the selections are what the documentation says *)
Example C08_example_R_first :
  selection (AFirst 2 (1/2)%R) block_R = [(0%nat, 1/2); (2%nat, 1)]%R /\
  selection (ALast 2 (1/2)%R) block_R = [(3%nat, 1/2); (2%nat, 1)]%R /\
  trigger_calls (run (AFirst 2 (1/2)%R) block_R) = [(0%nat, 1/2); (2%nat, 1)]%R.
Proof. exact example_R_first. Qed.
Print Assumptions C08_example_R_first.

Example C08_example_R_highest :
  selection (AHighest 3) block_R = [(2%nat, 1); (0%nat, 1/2); (3%nat, 1/2)]%R /\
  selection (ALowest 2) block_R = [(5%nat, 1/4); (0%nat, 1/2)]%R /\
  trigger_calls (run (AHighest 3) block_R) = [(2%nat, 1); (0%nat, 1/2); (3%nat, 1/2)]%R.
Proof. exact example_R_highest. Qed.
Print Assumptions C08_example_R_highest.

(* over binary64, by computation: model run = documented selection, with ties, zero, NaN, disabled, unloaded *)
Definition NF : Num float := NumF true [].
Definition events_F (m : activation float) := match @run float NF m block_F with Ok s => cs_events s | Err _ => [] end.
Definition calls_agree (m : activation float) : bool :=
  let a := @trigger_calls float (@run float NF m block_F) in
  let b := @selection float NF m block_F in
  (length a =? length b)%nat && forallb (fun p => (fst (fst p) =? fst (snd p))%nat && feq (snd (fst p)) (snd (snd p))) (combine a b).
Example C08_example_F_all_methods :
  forallb calls_agree
    [AGeneral; AFirst 2 0.5; AFirst 0 0; AFirst (-1) 0; AFirst 9 0.5; ALast 2 0.5; ALast 1 0;
     AHighest 3; AHighest 0; AHighest 9; ALowest 2; ALowest 9; AProportional;
     AThreshold CmpLt 0.5; AThreshold CmpLe 0.5; AThreshold CmpEq 0.5; AThreshold CmpNe 0.5;
     AThreshold CmpGe 0.5; AThreshold CmpGt 0.5]%float = true
  /\ map fst (@trigger_calls float (@run float NF (AHighest 3) block_F)) = [2; 0; 3]%nat
  /\ map fst (@trigger_calls float (@run float NF (ALowest 9) block_F)) = [5; 0; 3; 2]%nat
  /\ map fst (@trigger_calls float (@run float NF (AThreshold CmpNe 0.5%float) block_F)) = [1; 2; 5; 6]%nat
  /\ map fst (@trigger_calls float (@run float NF (ALast 2 0.5%float) block_F)) = [3; 2]%nat.
Proof. vm_compute. repeat split; reflexivity. Qed.
Print Assumptions C08_example_F_all_methods.

(* a batch degree is rejected by every method but General; the model run shows it *)
Definition block_vec : list (crule float) :=
  [rule_ex true true 0.5 7;
   {| cr_static := {| rs_loaded := true; rs_enabled := true; rs_value := 0.25; rs_size := 2 |}; cr_degree := 0; cr_triggered := false |}]%float.
Example C08_example_vectors :
  vector_block block_vec /\
  @run float NF (AFirst 1 0%float) block_vec = Err EValue /\
  @run float NF (AHighest 1) block_vec = Err EValue /\
  (exists s, @run float NF AGeneral block_vec = Ok s).
Proof.
  split; [|split; [|split]].
  - exists (nth 1 block_vec (rule_ex true true 0%float 0%float)). cbn. split; [right; left; reflexivity | split; [reflexivity | repeat constructor]].
  - vm_compute. reflexivity.
  - vm_compute. reflexivity.
  - apply C08_general_accepts_vectors.
Qed.
Print Assumptions C08_example_vectors.
