(* C03e — membership range of the piecewise-linear terms at the BINARY64 level: the GENERATED kernels of
   Gen/GenTerm.v (through the generated dispatcher shape_membership) at NumF m tbl — Coq primitive floats = IEEE-754
   binary64, for every scalar_mode m and oracle table tbl (these kernels use only - * / and comparisons) — for finite
   parameters in valid order, a finite height h >= 0 (in particular 0 < h <= 1) and EVERY binary64 x, including
   +-infinity and NaN:

     mu_ok mu h  :=  forall x, (mu x is NaN <-> x is NaN) /\ (x not NaN -> mu x finite /\ 0 <= mu x <= h).

   Triangle, Trapezoid and Ramp divide (x - a) by (b - a): the statement needs that b - a does not overflow
   (`fin (b - a)`, true whenever |a|, |b| <= 2^1022: C03e_no_overflow_small); without it the kernel returns NaN for a
   finite x (inf / inf) — C03e_*_overflow_refuted.  Proofs: Proofs/TermFloat.v over Proofs/FloatLevel.v (Flocq). *)
From Coq Require Import Reals Floats.
From Flocq Require Import Core.
From VF Require Import Num NumF GenTerm FloatLevel NormFloat TermFloat.
Local Open Scope R_scope.

Theorem C03e_Rectangle_float : forall m tbl s e h, fin s -> fin e -> fin h -> 0 <= R_of h ->
  mu_ok (@shape_membership _ (NumF m tbl) (Sh_Rectangle s e h)) h.
Proof. exact Rectangle_float. Qed.
Print Assumptions C03e_Rectangle_float.

Theorem C03e_Binary_float : forall m tbl s d h, fin s -> fin d -> fin h -> 0 <= R_of h ->
  mu_ok (@shape_membership _ (NumF m tbl) (Sh_Binary s d h)) h.
Proof. exact Binary_float. Qed.
Print Assumptions C03e_Binary_float.

Theorem C03e_Ramp_float : forall m tbl s e h, fin s -> fin e -> R_of s <> R_of e -> fin (e - s)%float ->
  fin h -> 0 <= R_of h ->
  mu_ok (@shape_membership _ (NumF m tbl) (Sh_Ramp s e h)) h.
Proof. exact Ramp_float. Qed.
Print Assumptions C03e_Ramp_float.

Theorem C03e_Triangle_float : forall m tbl a b c h, fin a -> fin b -> fin c -> R_of a <= R_of b -> R_of b <= R_of c ->
  fin (b - a)%float -> fin (c - b)%float -> fin h -> 0 <= R_of h ->
  mu_ok (@shape_membership _ (NumF m tbl) (Sh_Triangle a b c h)) h.
Proof. exact Triangle_float. Qed.
Print Assumptions C03e_Triangle_float.

Theorem C03e_Trapezoid_float : forall m tbl a b c d h, fin a -> fin b -> fin c -> fin d ->
  R_of a <= R_of b -> R_of b <= R_of c -> R_of c <= R_of d ->
  fin (b - a)%float -> fin (d - c)%float -> fin h -> 0 <= R_of h ->
  mu_ok (@shape_membership _ (NumF m tbl) (Sh_Trapezoid a b c d h)) h.
Proof. exact Trapezoid_float. Qed.
Print Assumptions C03e_Trapezoid_float.

(* the no-overflow hypothesis holds for all parameters of magnitude at most 2^1022 (about 4.5e307) *)
Theorem C03e_no_overflow_small : forall a b, fin a -> fin b ->
  Rabs (R_of a) <= bpow radix2 1022 -> Rabs (R_of b) <= bpow radix2 1022 -> fin (a - b)%float.
Proof. exact sub_fin_small. Qed.
Print Assumptions C03e_no_overflow_small.

(* and it cannot be dropped: a = -1.5*2^1023, b = c = 1.5*2^1023, x = 2^1023 give inf / inf = NaN *)
Theorem C03e_Triangle_overflow_refuted : forall m tbl,
  Triangle_overflow (fun a b c h => @shape_membership _ (NumF m tbl) (Sh_Triangle a b c h)).
Proof. exact Triangle_overflow_refuted. Qed.
Print Assumptions C03e_Triangle_overflow_refuted.
Theorem C03e_Trapezoid_overflow_refuted : forall m tbl,
  Trapezoid_overflow (fun a b c d h => @shape_membership _ (NumF m tbl) (Sh_Trapezoid a b c d h)).
Proof. exact Trapezoid_overflow_refuted. Qed.
Print Assumptions C03e_Trapezoid_overflow_refuted.
Theorem C03e_Ramp_overflow_refuted : forall m tbl,
  Ramp_overflow (fun s e h => @shape_membership _ (NumF m tbl) (Sh_Ramp s e h)).
Proof. exact Ramp_overflow_refuted. Qed.
Print Assumptions C03e_Ramp_overflow_refuted.

(* non-vacuity: a valid parameterisation with non-unit height, interior points on both slopes, x = +inf and NaN *)
Example C03e_nonvacuous :
  (fin 0%float /\ fin 1%float /\ fin 3%float /\ fin (1 - 0)%float /\ fin (3 - 1)%float /\ fin 0.5%float) /\
  @shape_membership _ (NumF true nil) (Sh_Triangle 0 1 3 0.5)%float 2%float = 0.25%float /\
  @shape_membership _ (NumF true nil) (Sh_Triangle 0 1 3 0.5)%float 0.5%float = 0.25%float /\
  @shape_membership _ (NumF false nil) (Sh_Trapezoid 0 1 2 4 0.5)%float 3%float = 0.25%float /\
  @shape_membership _ (NumF false nil) (Sh_Ramp 4 0 0.5)%float 1%float = 0.375%float /\
  @shape_membership _ (NumF true nil) (Sh_Triangle 0 1 3 0.5)%float PrimFloat.infinity = 0%float /\
  PrimFloat.is_nan (@shape_membership _ (NumF true nil) (Sh_Triangle 0 1 3 0.5)%float PrimFloat.nan) = true.
Proof.
  split; [repeat split; apply fin_is_finite; vm_compute; reflexivity |].
  repeat split; vm_compute; reflexivity.
Qed.
Print Assumptions C03e_nonvacuous.
