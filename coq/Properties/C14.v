(* C14 — FuzzyLite Language export/import round-trips engines.
   Model: Model/Fll.v (`export`, `import_`, `normalize`, `wf`, `representable`, `stable` over the FLL-level syntax tree
   `fll_engine`; numbers abstract, assumptions A-fmt bundled in `A_fmt`).  Proofs: Proofs/FllProofs.v.
   Only final statements here.  What the theorems say, for every number system satisfying A-fmt:
     * import (export d e) = Ok (normalize d e) for every well-formed engine e (identifier names, single-line values
       without "#", registered term classes with their configure arity, no printed height on a Constant);
       `normalize` rounds every number to d decimals, reads heights / weights within the tolerance of 1 as 1, turns a
       non-unit Linear height into one more coefficient, drops a Function height, and ENABLES EVERY RULE (finding F5);
     * export d (normalize d e) = export d e when no printed height / weight is rounded into the tolerance of 1
       (`stable`); without that hypothesis the fixed point is refuted (C14_fixpoint_needs_stable_refuted);
     * whatever the importer accepts is well formed, hence is normalised by one cycle;
     * a representable engine is its own normal form (so by C01 original and re-import compute the same outputs). *)
From Coq Require Import ZArith Bool List String.
From VF Require Import Num GenNorm GenTerm Core Fll FllProofs.
Import ListNotations.
Local Open Scope string_scope.

Theorem C14_import_export :
  forall (num : Type) fmt parse round close1 (n_nan n_pinf n_ninf n_one n_zero : num),
  A_fmt fmt parse round close1 n_one ->
  forall d e, wf close1 e = true ->
  import_ parse n_nan n_pinf n_ninf n_one n_zero (export fmt close1 d e) = Ok (normalize round close1 n_one d e).
Proof. exact final_import_export. Qed.
Print Assumptions C14_import_export.

Theorem C14_export_normalize :
  forall (num : Type) fmt parse round close1 (n_one : num),
  A_fmt fmt parse round close1 n_one ->
  forall d e, wf close1 e = true -> stable round close1 d e ->
  export fmt close1 d (normalize round close1 n_one d e) = export fmt close1 d e.
Proof. exact final_export_normalize. Qed.
Print Assumptions C14_export_normalize.

Theorem C14_export_import_export_fixpoint :
  forall (num : Type) fmt parse round close1 (n_nan n_pinf n_ninf n_one n_zero : num),
  A_fmt fmt parse round close1 n_one ->
  forall d e, wf close1 e = true -> stable round close1 d e ->
  exists e2, import_ parse n_nan n_pinf n_ninf n_one n_zero (export fmt close1 d e) = Ok e2
             /\ export fmt close1 d e2 = export fmt close1 d e.
Proof. exact final_fixpoint. Qed.
Print Assumptions C14_export_import_export_fixpoint.

Theorem C14_import_yields_wf :
  forall (num : Type) fmt parse round close1 (n_nan n_pinf n_ninf n_one n_zero : num),
  A_fmt fmt parse round close1 n_one ->
  forall lines e, Forall nonl lines ->
  import_ parse n_nan n_pinf n_ninf n_one n_zero lines = Ok e -> wf close1 e = true.
Proof. exact final_import_yields_wf. Qed.
Print Assumptions C14_import_yields_wf.

Theorem C14_accepted_text_normalises :
  forall (num : Type) fmt parse round close1 (n_nan n_pinf n_ninf n_one n_zero : num),
  A_fmt fmt parse round close1 n_one ->
  forall lines e d, Forall nonl lines ->
  import_ parse n_nan n_pinf n_ninf n_one n_zero lines = Ok e ->
  import_ parse n_nan n_pinf n_ninf n_one n_zero (export fmt close1 d e) = Ok (normalize round close1 n_one d e).
Proof. exact final_accepted_text_normalises. Qed.
Print Assumptions C14_accepted_text_normalises.

Theorem C14_accepted_text_fixed_point :
  forall (num : Type) fmt parse round close1 (n_nan n_pinf n_ninf n_one n_zero : num),
  A_fmt fmt parse round close1 n_one ->
  forall lines e d, Forall nonl lines ->
  import_ parse n_nan n_pinf n_ninf n_one n_zero lines = Ok e -> stable round close1 d e ->
  exists e2, import_ parse n_nan n_pinf n_ninf n_one n_zero (export fmt close1 d e) = Ok e2
             /\ export fmt close1 d e2 = export fmt close1 d e.
Proof. exact final_accepted_text_fixed_point. Qed.
Print Assumptions C14_accepted_text_fixed_point.

Theorem C14_representable_same :
  forall (num : Type) fmt parse round close1 (n_one : num),
  A_fmt fmt parse round close1 n_one ->
  forall d e, representable round close1 n_one d e -> normalize round close1 n_one d e = e.
Proof. exact final_representable_same. Qed.
Print Assumptions C14_representable_same.

Theorem C14_representable_roundtrip :
  forall (num : Type) fmt parse round close1 (n_nan n_pinf n_ninf n_one n_zero : num),
  A_fmt fmt parse round close1 n_one ->
  forall d e, wf close1 e = true -> representable round close1 n_one d e ->
  import_ parse n_nan n_pinf n_ninf n_one n_zero (export fmt close1 d e) = Ok e.
Proof. exact final_representable_roundtrip. Qed.
Print Assumptions C14_representable_roundtrip.

(* the exported lines contain no newline, so "\n".join(lines).split("\n") = lines: the list-of-lines model is the text *)
Theorem C14_export_no_newline :
  forall (num : Type) fmt parse round close1 (n_one : num),
  A_fmt fmt parse round close1 n_one ->
  forall d e, wf close1 e = true -> Forall nonl (export fmt close1 d e).
Proof. exact final_export_no_newline. Qed.
Print Assumptions C14_export_no_newline.

(* finding F5 as a theorem about the model: the re-imported engine has every rule enabled, whatever the original says *)
Theorem C14_reimported_rules_are_enabled :
  forall (num : Type) fmt parse round close1 (n_nan n_pinf n_ninf n_one n_zero : num),
  A_fmt fmt parse round close1 n_one ->
  forall d e e2, wf close1 e = true ->
  import_ parse n_nan n_pinf n_ninf n_one n_zero (export fmt close1 d e) = Ok e2 ->
  Forall (fun b => Forall (fun r => fr_enabled r = true) (fb_rules b)) (fe_blocks e2).
Proof. exact final_rules_enabled. Qed.
Print Assumptions C14_reimported_rules_are_enabled.

(* ---------------------------------------------------------------------------------------------- non-vacuity *)
(* A-fmt is satisfiable: the token instance used by the correspondence, for every closeness table *)
Example C14_A_fmt_inhabited : forall tbl one, A_fmt tn_fmt (tn_parse tbl) (tn_round tbl) tn_close1 (TN one true).
Proof. exact tn_A_fmt. Qed.

Definition ex_tbl : list string := ["1.000"].
Definition ex_engine : fll_engine tnum :=
  {| fe_name := "heater"; fe_description := "a small controller: two inputs, one output";
     fe_inputs :=
       [ {| fi_name := "temperature"; fi_description := "room temperature"; fi_enabled := true;
            fi_min := TN "0.000" false; fi_max := TN "40.000" false; fi_lock_range := false;
            fi_terms := [ FShape "cold" "Ramp" [TN "18.000" false; TN "5.000" false] (TN "1.000" true);
                          FShape "warm" "Triangle" [TN "15.000" false; TN "21.000" false; TN "27.000" false] (TN "0.800" false);
                          FDiscrete "odd" [(TN "0.000" false, TN "0.250" false); (TN "40.000" false, TN "0.750" false)] (TN "0.500" false) ] |};
         {| fi_name := "draught"; fi_description := ""; fi_enabled := false;
            fi_min := TN "-inf" false; fi_max := TN "inf" false; fi_lock_range := true;
            fi_terms := [ FShape "some" "Sigmoid" [TN "0.500" false; TN "-10.000" false] (TN "1.000" true) ] |} ];
     fe_outputs :=
       [ {| fo_name := "power"; fo_description := "heater power"; fo_enabled := true;
            fo_min := TN "0.000" false; fo_max := TN "1.000" true; fo_lock_range := true;
            fo_aggregation := Some S_Maximum; fo_defuzzifier := Some (FDIntegral Centroid 100%Z);
            fo_default := TN "nan" false; fo_lock_previous := true;
            fo_terms := [ FShape "low" "Trapezoid" [TN "0.000" false; TN "0.000" false; TN "0.200" false; TN "0.400" false] (TN "1.000" true);
                          FShape "high" "Constant" [TN "0.900" false] (TN "1.000" true);
                          FLinear "lin" [TN "0.010" false; TN "0.000" false; TN "0.100" false] (TN "1.000" true);
                          FFunction "fn" "0.020 * temperature + 0.100" (TN "1.000" true) ] |} ];
     fe_blocks :=
       [ {| fb_name := "rules"; fb_description := ""; fb_enabled := true;
            fb_conjunction := Some T_Minimum; fb_disjunction := None; fb_implication := Some T_AlgebraicProduct;
            fb_activation := Some (AFirst 2%Z (TN "0.100" false));
            fb_rules := [ {| fr_enabled := true; fr_antecedent := ["temperature"; "is"; "cold"; "and"; "draught"; "is"; "not"; "some"];
                             fr_consequent := ["power"; "is"; "high"]; fr_weight := TN "0.750" false |};
                          {| fr_enabled := true; fr_antecedent := ["temperature"; "is"; "warm"];
                             fr_consequent := ["power"; "is"; "very"; "low"]; fr_weight := TN "1.000" true |} ] |} ] |}.

Example C14_example_wf : wf tn_close1 ex_engine = true.
Proof. vm_compute. reflexivity. Qed.

Example C14_example_text :
  tn_export 3 ex_engine =
  [ "Engine: heater";
    "  description: a small controller: two inputs, one output";
    "InputVariable: temperature";
    "  description: room temperature";
    "  enabled: true";
    "  range: 0.000 40.000";
    "  lock-range: false";
    "  term: cold Ramp 18.000 5.000";
    "  term: warm Triangle 15.000 21.000 27.000 0.800";
    "  term: odd Discrete 0.000 0.250 40.000 0.750 0.500";
    "InputVariable: draught";
    "  enabled: false";
    "  range: -inf inf";
    "  lock-range: true";
    "  term: some Sigmoid 0.500 -10.000";
    "OutputVariable: power";
    "  description: heater power";
    "  enabled: true";
    "  range: 0.000 1.000";
    "  lock-range: true";
    "  aggregation: Maximum";
    "  defuzzifier: Centroid 100";
    "  default: nan";
    "  lock-previous: true";
    "  term: low Trapezoid 0.000 0.000 0.200 0.400";
    "  term: high Constant 0.900";
    "  term: lin Linear 0.010 0.000 0.100";
    "  term: fn Function 0.020 * temperature + 0.100";
    "RuleBlock: rules";
    "  enabled: true";
    "  conjunction: Minimum";
    "  disjunction: none";
    "  implication: AlgebraicProduct";
    "  activation: First 2 0.100";
    "  rule: if temperature is cold and draught is not some then power is high with 0.750";
    "  rule: if temperature is warm then power is very low";
    "" ].
Proof. vm_compute. reflexivity. Qed.

(* the whole engine comes back unchanged (it is representable at 3 decimals) *)
Example C14_example_roundtrip : tn_import ex_tbl "1.000" "0.000" (tn_export 3 ex_engine) = Ok ex_engine.
Proof. vm_compute. reflexivity. Qed.

Example C14_example_representable : representable (tn_round ex_tbl) tn_close1 (TN "1.000" true) 3 ex_engine.
Proof. solve_concrete. Qed.

Example C14_example_stable : stable (tn_round ex_tbl) tn_close1 3 ex_engine.
Proof. solve_concrete. Qed.

(* an accepted variant (comments, blank lines, reordered keys, a duplicated key, blanks before a colon) normalises to the
   same lines after one cycle *)
Example C14_example_variant :
  match tn_import ex_tbl "1.000" "0.000"
          [ "# a controller"; "Engine: heater   # name"; "";
            "  description: a small controller: two inputs, one output";
            "InputVariable: draught"; "  lock-range: true"; "  enabled: true"; "  term: some Sigmoid 0.500 -10.000 1.000";
            "  enabled : false   # the later value wins" ] with
  | Ok e => tn_export 3 e =
            [ "Engine: heater"; "  description: a small controller: two inputs, one output";
              "InputVariable: draught"; "  enabled: false"; "  range: -inf inf"; "  lock-range: true";
              "  term: some Sigmoid 0.500 -10.000"; "" ]
  | Err _ => False
  end.
Proof. vm_compute. reflexivity. Qed.

(* ---------------------------------------------------------------------------------------------- what is NOT preserved *)
(* without `stable` the text is not a fixed point: a height outside the tolerance of 1 that is printed as a number
   inside the tolerance (1.04 at one decimal: "1.0") disappears from the second export.  The three-number system
   satisfies A-fmt. *)
Example C14_fixpoint_needs_stable_refuted :
  A_fmt n3_fmt n3_parse n3_round n3_close1 NB /\ wf n3_close1 n3_engine = true /\
  exists e2, n3_import (n3_export n3_engine) = Ok e2 /\ n3_export e2 <> n3_export n3_engine.
Proof. exact n3_fixpoint_fails. Qed.
Print Assumptions C14_fixpoint_needs_stable_refuted.

(* the statement of `export_normalize` without the stability hypothesis, kept visible: it is FALSE of the model (and of
   the code: the check reports the same input on the implementation under the signature "fll:height-rounds-into-tolerance") *)
Definition C14_export_normalize_unconditional : Prop :=
  forall (num : Type) fmt parse round close1 (n_one : num),
  A_fmt fmt parse round close1 n_one ->
  forall d e, wf close1 e = true ->
  export fmt close1 d (normalize round close1 n_one d e) = export fmt close1 d e.
Theorem C14_export_normalize_unconditional_refuted : ~ C14_export_normalize_unconditional.
Proof. intros H. exact (n3_export_normalize_fails (H n3 n3_fmt n3_parse n3_round n3_close1 NB n3_A_fmt 1%nat n3_engine eq_refl)). Qed.
Print Assumptions C14_export_normalize_unconditional_refuted.

(* a disabled rule comes back enabled *)
Definition ex_disabled : fll_engine tnum :=
  {| fe_name := "e"; fe_description := ""; fe_inputs := []; fe_outputs := [];
     fe_blocks := [ {| fb_name := "b"; fb_description := ""; fb_enabled := true; fb_conjunction := None; fb_disjunction := None;
                       fb_implication := None; fb_activation := Some AGeneral;
                       fb_rules := [ {| fr_enabled := false; fr_antecedent := ["a"; "is"; "b"]; fr_consequent := ["c"; "is"; "d"];
                                        fr_weight := TN "1.000" true |} ] |} ] |}.
Example C14_rule_enabled_lost_refuted :
  wf tn_close1 ex_disabled = true /\
  exists e2, tn_import ex_tbl "1.000" "0.000" (tn_export 3 ex_disabled) = Ok e2 /\
             tn_result_eqb (Ok e2) (Ok ex_disabled) = false /\ tn_export 3 e2 = tn_export 3 ex_disabled.
Proof. split; [vm_compute; reflexivity|]. eexists. split; [vm_compute; reflexivity|]. split; vm_compute; reflexivity. Qed.

(* the height attribute of a Constant term is printed when it is not 1 and the importer rejects the extra value *)
Example C14_constant_height_rejected : n3_import (n3_export n3_constant_engine) = Err EValue.
Proof. vm_compute. reflexivity. Qed.
