(* C02b — the two readings of the numeric kernels that C02 compares are the same function.
   Float mode feeds the kernels numpy.float64 scalars (reading NumF true tbl: `(numpy.float64 expr) ** 2` is libm pow),
   batch mode feeds them arrays (reading NumF false tbl: `array ** 2` is the exact square).  The two instances differ ONLY
   in the field `spow2`; the theorems below say that no kernel generated from the current source reads that field, so
   every term, inverse, norm and hedge computes bit-identical values in both modes, whatever the libm table.  This closes
   the gap left by C02_batch_eq_rows (generic in ONE reading N): a kernel written with `(x - m) ** 2` on a numpy scalar
   instead of numpy.square makes `reflexivity` fail here (seeded change C02_2). *)
From Coq Require Import ZArith Bool List String PrimFloat.
From VF Require Import Num NumF GenNorm GenHedge GenTerm.
Import ListNotations.
Local Open Scope list_scope.

Theorem C02b_membership_mode_independent : forall (tbl : oracle) (s : shape float) (x : float),
  @shape_membership float (NumF true tbl) s x = @shape_membership float (NumF false tbl) s x.
Proof. intros tbl s x; destruct s; reflexivity. Qed.
Print Assumptions C02b_membership_mode_independent.

Theorem C02b_tsukamoto_mode_independent : forall (tbl : oracle) (s : shape float),
  @shape_tsukamoto float (NumF true tbl) s = @shape_tsukamoto float (NumF false tbl) s.
Proof. intros tbl s; destruct s; reflexivity. Qed.
Print Assumptions C02b_tsukamoto_mode_independent.

Theorem C02b_tnorm_mode_independent : forall (tbl : oracle) (n : tnorm) (a b : float),
  @tnorm_compute float (NumF true tbl) n a b = @tnorm_compute float (NumF false tbl) n a b.
Proof. intros tbl n a b; destruct n; reflexivity. Qed.
Print Assumptions C02b_tnorm_mode_independent.

Theorem C02b_snorm_mode_independent : forall (tbl : oracle) (n : snorm) (a b : float),
  @snorm_compute float (NumF true tbl) n a b = @snorm_compute float (NumF false tbl) n a b.
Proof. intros tbl n a b; destruct n; reflexivity. Qed.
Print Assumptions C02b_snorm_mode_independent.

Theorem C02b_hedge_mode_independent : forall (tbl : oracle) (h : hedge) (x : float),
  @hedge_apply float (NumF true tbl) h x = @hedge_apply float (NumF false tbl) h x.
Proof. intros tbl h x; destruct h; reflexivity. Qed.
Print Assumptions C02b_hedge_mode_independent.

(* non-vacuity: the two readings are different instances — they disagree on spow2 as soon as the table holds a libm
   value that is not the exact square (here a made-up entry), so the equalities above are facts about the kernels *)
Example C02b_modes_differ :
  let tbl := [(4%nat, 3%float, 0%float, 10%float)] in
  @spow2 float (NumF true tbl) 3%float = 10%float /\ @spow2 float (NumF false tbl) 3%float = 9%float.
Proof. vm_compute. split; reflexivity. Qed.
