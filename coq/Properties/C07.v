(* C07 — each conclusion of a triggered rule contributes exactly its own activation.
   Model: Model/Consequent.v (load, modify, trigger) + Core.sanitize (the Activated.degree setter).
   Only imports and final statements; all proofs live in Proofs/ConsequentProofs.v.

   WHICH LOOP IS THE CURRENT CODE:  Consequent.code_has_F1 = true, i.e. `modify` = `modify_as_written`: the loop of
   /repo, whose hedged degree leaks into the following conclusions (finding F1, a KNOWN finding: the repair breaks
   the repository's golden-file test, so the code stays as written).  For that loop the documented statement
   `modify_spec_for` is REFUTED (C07_modify_spec_refuted); the theorems of section B say what it computes
   (C07_modify_running_spec) and exactly when it meets the documented statement (C07_modify_spec_when_unhedged,
   C07_conclusions_independent_when_unhedged).  Section C proves the documented statement for the repaired loop
   `modify_fixed`.  If /repo is ever repaired: set `code_has_F1 := false` in Model/Consequent.v (one line); every
   theorem here still compiles, and the two `_current` theorems of section A then state the documented property
   of the current code instead of its refutation. *)
From Coq Require Import Bool String List Permutation Reals PrimFloat.
From VF Require Import Num NumR NumF GenNorm GenHedge GenTerm Core Consequent ConsequentProofs.
Import ListNotations.
Local Open Scope list_scope.

(* ===================================================================== A. the model of the CURRENT code *)
(* the documented statement (modify_spec_for: every output variable's fuzzy list = old list ++ [activated term_c
   (sanitize (c's own hedges over d)) imp | c in conclusions of that variable, variable enabled], in order), read
   over the reals: refuted while the code has F1, proved once it is repaired *)
Theorem C07_modify_spec_current :
  if code_has_F1 then ~ @modify_spec_for R NumR modify else @modify_spec_for R NumR modify.
Proof. exact (modify_spec_status code_has_F1). Qed.
Print Assumptions C07_modify_spec_current.

Theorem C07_conclusions_independent_current :
  if code_has_F1 then ~ @independent_for R NumR modify else @independent_for R NumR modify.
Proof. exact (independence_status code_has_F1). Qed.
Print Assumptions C07_conclusions_independent_current.

Theorem C07_disabled_rule_adds_nothing : forall (T : Type) (NT : Num T) (r : rule T) imp outs,
  rule_loaded r = true -> r_enabled r = false -> trigger r imp outs = Ok (set_triggered r false, outs).
Proof. intros; now apply disabled_rule_adds_nothing_gen. Qed.
Print Assumptions C07_disabled_rule_adds_nothing.

Theorem C07_not_loaded_rule_raises : forall (T : Type) (NT : Num T) (r : rule T) imp outs,
  rule_loaded r = false -> trigger r imp outs = Err ERuntime.
Proof. intros; now apply not_loaded_rule_raises. Qed.
Print Assumptions C07_not_loaded_rule_raises.

Theorem C07_enabled_rule_triggered_iff_positive : forall (T : Type) (NT : Num T) (r : rule T) imp outs outs',
  rule_loaded r = true -> r_enabled r = true -> modify (r_degree r) imp (r_consequent r) outs = Ok outs' ->
  trigger r imp outs = Ok (set_triggered r (gtb (r_degree r) zero), outs').
Proof. intros; now apply enabled_rule_triggers. Qed.
Print Assumptions C07_enabled_rule_triggered_iff_positive.

Theorem C07_disabled_variable_gets_nothing : forall (T : Type) (NT : Num T) (d : T) imp cs outs outs' i v,
  cs <> [] -> wf outs cs -> modify d imp cs outs = Ok outs' ->
  nth_error outs i = Some v -> ov_enabled v = false -> nth_error outs' i = Some v.
Proof. intros T NT d imp cs outs outs' i v. exact (@disabled_variable_gets_nothing_gen T NT code_has_F1 d imp cs outs outs' i v). Qed.
Print Assumptions C07_disabled_variable_gets_nothing.

Theorem C07_one_activated_per_enabled_conclusion : forall (T : Type) (NT : Num T) (d : T) imp cs outs outs' i v v',
  cs <> [] -> wf outs cs -> modify d imp cs outs = Ok outs' ->
  nth_error outs i = Some v -> nth_error outs' i = Some v' ->
  List.length (ov_fuzzy v') = List.length (ov_fuzzy v) +
    (if ov_enabled v then List.length (filter (fun c => Nat.eqb (c_var c) i) cs) else 0).
Proof. intros T NT d imp cs outs outs' i v v'. exact (@one_activated_per_enabled_conclusion_gen T NT code_has_F1 d imp cs outs outs' i v v'). Qed.
Print Assumptions C07_one_activated_per_enabled_conclusion.

(* everything added is appended after the old activations, carries the block's implication and a term of its variable *)
Theorem C07_added_terms : forall (T : Type) (NT : Num T) (d : T) imp cs outs outs' i v v',
  cs <> [] -> wf outs cs -> modify d imp cs outs = Ok outs' ->
  nth_error outs i = Some v -> nth_error outs' i = Some v' ->
  exists l, v' = extend_fuzzy v l /\ Forall (fun a => a_implication a = imp /\ In (a_term a) (ov_terms v)) l.
Proof. intros T NT d imp cs outs outs' i v v'. exact (@added_terms_gen T NT code_has_F1 d imp cs outs outs' i v v'). Qed.
Print Assumptions C07_added_terms.

(* ===================================================================== B. the loop as written (pinned commit) *)
(* FINDING F1: `then x is very p and y is q`, degree 1/2: y receives 1/4, documented 1/2 *)
Theorem C07_modify_spec_refuted : ~ @modify_spec_for R NumR modify_as_written.
Proof. exact modify_spec_refuted. Qed.
Print Assumptions C07_modify_spec_refuted.

Theorem C07_modify_spec_refuted_floats : ~ @modify_spec_for float (NumF true []) (@modify_as_written float (NumF true [])).
Proof. exact modify_spec_refuted_F. Qed.
Print Assumptions C07_modify_spec_refuted_floats.

(* swapping the two conclusions changes what y receives (not even the same multiset) *)
Theorem C07_conclusions_order_refuted : ~ @order_insensitive_for R modify_as_written.
Proof. exact conclusions_order_refuted. Qed.
Print Assumptions C07_conclusions_order_refuted.

(* what the loop as written computes: conclusion k receives the degree hedged by the hedges of all ENABLED
   conclusions up to and including k *)
Theorem C07_modify_running_spec : forall (T : Type) (NT : Num T) (d : T) imp cs outs, cs <> [] -> wf outs cs ->
  exists outs', modify_as_written d imp cs outs = Ok outs' /\
    extended outs outs' (fun i => running_contributions outs d imp i cs).
Proof. intros T NT. exact (@modify_running_spec T NT). Qed.
Print Assumptions C07_modify_running_spec.

(* the documented statement holds for the loop as written when no hedged enabled conclusion is followed by an
   enabled conclusion (in particular when only the last enabled conclusion is hedged, or none is) *)
Theorem C07_modify_spec_when_unhedged : forall (T : Type) (NT : Num T) (d : T) imp cs outs,
  cs <> [] -> wf outs cs -> leak_free outs cs ->
  exists outs', modify_as_written d imp cs outs = Ok outs' /\ extended outs outs' (fun i => contributions outs d imp i cs).
Proof. intros T NT. exact (@modify_spec_when_unhedged T NT). Qed.
Print Assumptions C07_modify_spec_when_unhedged.

Theorem C07_modify_spec_no_hedges : forall (T : Type) (NT : Num T) (d : T) imp cs outs,
  cs <> [] -> wf outs cs -> Forall (fun c => c_hedges c = []) cs ->
  exists outs', modify_as_written d imp cs outs = Ok outs' /\ extended outs outs' (fun i => contributions outs d imp i cs).
Proof. intros T NT. exact (@modify_spec_no_hedges T NT). Qed.
Print Assumptions C07_modify_spec_no_hedges.

Theorem C07_conclusions_independent_when_unhedged : forall (T : Type) (NT : Num T) (d : T) imp cs cs' outs,
  cs <> [] -> wf outs cs -> Permutation cs cs' -> leak_free outs cs -> leak_free outs cs' ->
  exists o1 o2, modify_as_written d imp cs outs = Ok o1 /\ modify_as_written d imp cs' outs = Ok o2 /\
    forall i v, nth_error outs i = Some v ->
      nth_error o1 i = Some (extend_fuzzy v (flat_map (contribution outs d imp i) cs)) /\
      nth_error o2 i = Some (extend_fuzzy v (flat_map (contribution outs d imp i) cs')) /\
      Permutation (flat_map (contribution outs d imp i) cs) (flat_map (contribution outs d imp i) cs').
Proof. intros T NT. exact (@independent_when_unhedged T NT). Qed.
Print Assumptions C07_conclusions_independent_when_unhedged.

(* ===================================================================== C. the repaired loop *)
Theorem C07_modify_spec : forall (T : Type) (NT : Num T), @modify_spec_for T NT modify_fixed.
Proof. intros T NT. exact (@modify_fixed_spec T NT). Qed.
Print Assumptions C07_modify_spec.

Theorem C07_conclusions_independent : forall (T : Type) (NT : Num T), @independent_for T NT modify_fixed.
Proof. intros T NT. exact (@conclusions_independent_fixed T NT). Qed.
Print Assumptions C07_conclusions_independent.

Theorem C07_conclusions_order_insensitive : forall (T : Type) (NT : Num T), @order_insensitive_for T (@modify_fixed T NT).
Proof. intros T NT. exact (independent_implies_order_insensitive (@conclusions_independent_fixed T NT)). Qed.
Print Assumptions C07_conclusions_order_insensitive.

(* ===================================================================== D. the degree setter *)
Theorem C07_sanitize_spec : forall (T : Type) (NT : Num T) (d : T),
  (isnan d = true -> sanitize d = zero) /\
  (isnan d = false -> isposinf d = true -> sanitize d = one) /\
  (isnan d = false -> isposinf d = false -> isneginf d = true -> sanitize d = zero) /\
  (isnan d = false -> isposinf d = false -> isneginf d = false -> sanitize d = d).
Proof. intros T NT d. exact (conj (@sanitize_nan T NT d) (conj (@sanitize_posinf T NT d) (conj (@sanitize_neginf T NT d) (@sanitize_finite T NT d)))). Qed.
Print Assumptions C07_sanitize_spec.

Theorem C07_sanitize_floats :
  @sanitize float (NumF true []) PrimFloat.nan = 0%float /\
  @sanitize float (NumF true []) PrimFloat.neg_infinity = 0%float /\
  @sanitize float (NumF true []) PrimFloat.infinity = 1%float /\
  (forall d : float, Fisfinite d = true -> @sanitize float (NumF true []) d = d).
Proof. exact (conj sanitize_F_nan (conj sanitize_F_neginf (conj sanitize_F_posinf sanitize_F_finite))). Qed.
Print Assumptions C07_sanitize_floats.

Theorem C07_sanitize_reals : forall d : R, sanitize d = d.
Proof. exact sanitize_R. Qed.
Print Assumptions C07_sanitize_reals.

(* ===================================================================== E. load *)
(* a successful load yields at least one conclusion; every conclusion names an existing output variable and one of
   its terms — the hypotheses `cs <> []` and `wf outs cs` of the theorems above *)
Theorem C07_load_wf : forall (T : Type) (NT : Num T) (e : engine T) tokens cs,
  load e tokens = Ok cs -> cs <> [] /\ wf (e_outputs e) cs.
Proof. intros T NT. exact (@load_wf T). Qed.
Print Assumptions C07_load_wf.

Theorem C07_load_empty : forall (T : Type) (NT : Num T) (e : engine T), load e [] = Err ESyntax.
Proof. intros T NT. exact (@load_empty T). Qed.
Print Assumptions C07_load_empty.

(* loading a consequent that is already loaded REPLACES its conclusions (never extends them): a second load gives the
   conclusions of a first load, whatever was there before; a failed load leaves the consequent unloaded *)
Theorem C07_reload_replaces : forall (T : Type) (e : engine T) tokens previous,
  (forall cs, load e tokens = Ok cs -> consequent_reload e tokens previous = (cs, None)) /\
  (forall x, load e tokens = Err x -> consequent_reload e tokens previous = ([], Some x)) /\
  consequent_reload e tokens (fst (consequent_reload e tokens previous)) = consequent_reload e tokens [].
Proof. intros T e tokens previous. exact (conj (@reload_ok T e tokens previous) (conj (@reload_failed T e tokens previous) eq_refl)). Qed.
Print Assumptions C07_reload_replaces.

(* ===================================================================== F. non-vacuity *)
(* the witness is what `load` produces from the rule text, it satisfies the hypotheses, and the numbers are 1/4, 1/2 *)
Example C07_witness_loads : @load R w_engine w_tokens = Ok w_cs /\ w_cs <> [] /\ @wf R w_outs w_cs.
Proof. exact (conj w_load (conj (fun H => @nil_cons _ w_c1 [w_c2] (eq_sym H)) w_wf)). Qed.
Print Assumptions C07_witness_loads.

Example C07_witness_as_written : forall imp o, modify_as_written (@w_d R NumR) imp w_cs w_outs = Ok o ->
  option_map (fun v => map (@a_degree R) (ov_fuzzy v)) (nth_error o 1) = Some [(1 / 4)%R].
Proof. exact w_as_written_y_R. Qed.
Print Assumptions C07_witness_as_written.

Example C07_witness_fixed : forall imp o, modify_fixed (@w_d R NumR) imp w_cs w_outs = Ok o ->
  option_map (fun v => map (@a_degree R) (ov_fuzzy v)) (nth_error o 1) = Some [(1 / 2)%R].
Proof. exact w_fixed_y_R. Qed.
Print Assumptions C07_witness_fixed.

(* a hedged consequent that satisfies leak_free: the hedged conclusion comes last *)
Example C07_leak_free_example : @leak_free R w_outs [w_c2; w_c1] /\ ~ @leak_free R w_outs w_cs.
Proof. exact leak_free_example. Qed.
Print Assumptions C07_leak_free_example.
