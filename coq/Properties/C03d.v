(* C03 (Discrete) — membership functions match their documented definitions: the Discrete term.
   Model/Discrete.v (hand model of height * numpy.interp(x, xp, fp), tied bit for bit to NumPy on every run), read over
   R, is the documented piecewise-linear interpolation through the pairs (x_i, y_i) scaled by the height, clamped to the
   end values outside the table (Spec/SpecDiscrete.v); it lies between h * min y and h * max y (in [0, h] for ordinates
   in [0, 1]), is continuous when the abscissae are strictly increasing, non-decreasing when the ordinates are, and —
   read over ER (reals + inf + NaN) on a table of finite values with at least two points — is NaN exactly when x is NaN,
   with the end values at +-inf.  Repeated abscissae (vertical edges): at such an abscissa the LAST pair with it gives
   the value; coming from the left the function tends to the FIRST pair's ordinate.  A one-point table (not a valid
   parameterisation) ignores x altogether, NaN included (`..._one_point_...`).
   `nth i xy pt0` is the pair (x_i, y_i), `last xy pt0` the last pair; `lerp p q x` the line through p and q.
   Only imports and final statements; all proofs live in Proofs/DiscreteProofs.v. *)
From Coq Require Import Reals Lra Bool List Sorted.
From VF Require Import Num NumR NumER Discrete SpecDiscrete DiscreteProofs.
Import ListNotations.
Local Open Scope R_scope.

(* ---- 1. the documented definition *)

(* sorted table (repeated abscissae allowed), x_i <= x < x_{i+1}:  h * (y_i + (x - x_i)(y_{i+1} - y_i)/(x_{i+1} - x_i)) *)
Theorem C03_Discrete_spec : forall (xy : table) (h x : R) (i : nat),
  sorted_x xy -> (S i < length xy)%nat ->
  let p := nth i xy pt0 in let q := nth (S i) xy pt0 in
  fst p <= x < fst q ->
  Discrete_membership xy h x = h * (snd p + (x - fst p) * (snd q - snd p) / (fst q - fst p)).
Proof. exact Discrete_spec. Qed.
Print Assumptions C03_Discrete_spec.

(* strictly increasing abscissae: the same on the closed interval x_i <= x <= x_{i+1} *)
Theorem C03_Discrete_spec_strict : forall (xy : table) (h x : R) (i : nat),
  strict_x xy -> (S i < length xy)%nat ->
  let p := nth i xy pt0 in let q := nth (S i) xy pt0 in
  fst p <= x <= fst q ->
  Discrete_membership xy h x = h * (snd p + (x - fst p) * (snd q - snd p) / (fst q - fst p)).
Proof. exact Discrete_spec_strict. Qed.
Print Assumptions C03_Discrete_spec_strict.

(* left of the table: h * y_first;  at or right of the last abscissa: h * y_last *)
Theorem C03_Discrete_left : forall (xy : table) (h x : R),
  sorted_x xy -> (2 <= length xy)%nat -> x < fst (nth 0 xy pt0) -> Discrete_membership xy h x = h * snd (nth 0 xy pt0).
Proof. intros xy h x HS HL. apply Discrete_left; [exact HS|intros ->; inversion HL]. Qed.
Print Assumptions C03_Discrete_left.

Theorem C03_Discrete_right : forall (xy : table) (h x : R),
  sorted_x xy -> (2 <= length xy)%nat -> fst (last xy pt0) <= x -> Discrete_membership xy h x = h * snd (last xy pt0).
Proof. intros xy h x HS HL. apply Discrete_right; [exact HS|intros ->; inversion HL]. Qed.
Print Assumptions C03_Discrete_right.

(* strictly increasing abscissae: at every abscissa x_i the value is h * y_i (the end points included) *)
Theorem C03_Discrete_at_node : forall (xy : table) (h : R) (i : nat),
  strict_x xy -> (i < length xy)%nat -> Discrete_membership xy h (fst (nth i xy pt0)) = h * snd (nth i xy pt0).
Proof. exact Discrete_at_node. Qed.
Print Assumptions C03_Discrete_at_node.

(* repeated abscissae: the LAST pair with abscissa x_i gives the value at x_i *)
Theorem C03_Discrete_at_repeated_abscissa : forall (xy : table) (h : R) (i : nat),
  sorted_x xy -> (i < length xy)%nat ->
  (forall j, (i < j < length xy)%nat -> fst (nth i xy pt0) < fst (nth j xy pt0)) ->
  Discrete_membership xy h (fst (nth i xy pt0)) = h * snd (nth i xy pt0).
Proof. exact Discrete_at_abscissa. Qed.
Print Assumptions C03_Discrete_at_repeated_abscissa.

(* the whole function at once: height * the recursive reading of Spec/SpecDiscrete.v *)
Theorem C03_Discrete_eq_shape : forall (xy : table) (h x : R),
  sorted_x xy -> xy <> [] -> Discrete_membership xy h x = h * Discrete_shape xy x.
Proof. exact Discrete_eq_shape. Qed.
Print Assumptions C03_Discrete_eq_shape.

(* ---- 2. range *)
Theorem C03_Discrete_range : forall (xy : table) (h x : R),
  sorted_x xy -> (2 <= length xy)%nat -> ys_within 0 1 xy -> 0 < h <= 1 -> 0 <= Discrete_membership xy h x <= h.
Proof. intros xy h x HS HL. apply Discrete_range; [exact HS|intros ->; inversion HL]. Qed.
Print Assumptions C03_Discrete_range.

Theorem C03_Discrete_between_min_max : forall (xy : table) (h lo hi x : R),
  sorted_x xy -> (2 <= length xy)%nat -> ys_within lo hi xy -> 0 <= h ->
  h * lo <= Discrete_membership xy h x <= h * hi.
Proof. intros xy h lo hi x HS HL. apply Discrete_between; [exact HS|intros ->; inversion HL]. Qed.
Print Assumptions C03_Discrete_between_min_max.

(* ---- 3. continuity (strictly increasing abscissae) and monotonicity *)

(* the formulas of the intervals [x_i, x_{i+1}] and [x_{i+1}, x_{i+2}] agree at x_{i+1}: both give y_{i+1} *)
Theorem C03_Discrete_continuous_at_nodes : forall (xy : table) (i : nat),
  strict_x xy -> (S (S i) < length xy)%nat ->
  lerp (nth i xy pt0) (nth (S i) xy pt0) (fst (nth (S i) xy pt0)) = snd (nth (S i) xy pt0) /\
  lerp (nth (S i) xy pt0) (nth (S (S i)) xy pt0) (fst (nth (S i) xy pt0)) = snd (nth (S i) xy pt0).
Proof. exact Discrete_continuous_at_nodes. Qed.
Print Assumptions C03_Discrete_continuous_at_nodes.

(* ... and the membership function is continuous at every real x *)
Theorem C03_Discrete_continuous : forall (xy : table) (h a : R),
  strict_x xy -> (2 <= length xy)%nat -> continuity_pt (Discrete_membership xy h) a.
Proof. intros xy h a HS HL. apply Discrete_continuous; [exact HS|intros ->; inversion HL]. Qed.
Print Assumptions C03_Discrete_continuous.

Theorem C03_Discrete_monotone_if_ys_monotone : forall (xy : table) (h x x' : R),
  sorted_x xy -> (2 <= length xy)%nat -> ys_nondecreasing xy -> 0 <= h -> x <= x' ->
  Discrete_membership xy h x <= Discrete_membership xy h x'.
Proof. intros xy h x x' HS HL. apply Discrete_monotone_if_ys_monotone; [exact HS|intros ->; inversion HL]. Qed.
Print Assumptions C03_Discrete_monotone_if_ys_monotone.

(* ---- 4. special values: finite table (at least two points), finite height, x ranging over ALL of ER *)
Theorem C03_Discrete_nan_iff : forall (xy : table) (h : R) (x : ER),
  (2 <= length xy)%nat -> isnan (Discrete_membership (lift xy) (Fin h) x) = isnan x.
Proof. exact Discrete_nan_iff. Qed.
Print Assumptions C03_Discrete_nan_iff.

Theorem C03_Discrete_at_infinity : forall (xy : table) (h : R), (2 <= length xy)%nat ->
  Discrete_membership (lift xy) (Fin h) PInf = Fin (h * snd (last xy pt0)) /\
  Discrete_membership (lift xy) (Fin h) NInf = Fin (h * snd (nth 0 xy pt0)).
Proof. intros; split; auto using Discrete_at_pinf, Discrete_at_ninf. Qed.
Print Assumptions C03_Discrete_at_infinity.

(* at a finite x the ER reading is the real reading, so sections 1-3 hold there as well *)
Theorem C03_Discrete_ER_finite : forall (xy : table) (h r : R), xy <> [] ->
  Discrete_membership (lift xy) (Fin h) (Fin r) = Fin (Discrete_membership xy h r).
Proof. exact Discrete_ER_fin. Qed.
Print Assumptions C03_Discrete_ER_finite.

(* the one-point corner, outside the valid parameterisations: h * y for every x, NaN included *)
Theorem C03_Discrete_one_point_ignores_nan : forall (p : ER * ER) (h x : ER),
  Discrete_membership [p] h x = mul h (snd p).
Proof. exact Discrete_one_point_ignores_nan. Qed.
Print Assumptions C03_Discrete_one_point_ignores_nan.

Theorem C03_Discrete_nan_iff_one_point_refuted :
  exists (xy : table) (h : R), xy <> [] /\ sorted_x xy /\
    isnan (Discrete_membership (lift xy) (Fin h) NaN) <> isnan (NaN : ER).
Proof. exact Discrete_nan_iff_one_point_refuted. Qed.
Print Assumptions C03_Discrete_nan_iff_one_point_refuted.

(* ---- 5. arrays (lists): elementwise *)
Theorem C03_Discrete_elementwise : forall (xy : table) (h : R) (xs : list R) (i : nat) (d : R),
  (i < length xs)%nat ->
  nth i (Discrete_membership_array xy h xs) (Discrete_membership xy h d) = Discrete_membership xy h (nth i xs d).
Proof. exact Discrete_elementwise. Qed.
Print Assumptions C03_Discrete_elementwise.

(* ---- non-vacuity: concrete four-point tables *)
Definition T_strict : table := [(0, 0); (1, 1); (2, 1/2); (4, 0)].          (* strictly increasing abscissae *)
Definition T_edge : table := [(0, 0); (1, 1/4); (1, 1); (3, 0)].            (* vertical edge at x = 1 *)
Definition T_mono : table := [(0, 0); (1, 1/4); (1, 1/2); (3, 1)].          (* vertical edge, ordinates non-decreasing *)

Ltac sorted_tac := repeat (constructor; try (cbn; lra)).
Ltac compute_R :=
  unfold Discrete_membership; cbn [interp last seek fst snd]; unR; splitR; cbn [fst snd] in *; try lra; try (field; lra).

Example T_strict_valid : strict_x T_strict /\ sorted_x T_strict /\ ys_within 0 1 T_strict /\ (2 <= length T_strict)%nat.
Proof. repeat split; unfold strict_x, sorted_x, ys_within, T_strict; sorted_tac. Qed.
Example T_edge_valid : sorted_x T_edge /\ ~ strict_x T_edge /\ ys_within 0 1 T_edge /\ (2 <= length T_edge)%nat.
Proof.
  split; [unfold sorted_x, T_edge; sorted_tac|]. split; [|split; [unfold ys_within, T_edge; sorted_tac|cbn; repeat constructor]].
  intros HS. inversion HS as [|a l HS1 HF1]; subst. inversion HS1 as [|a l HS2 HF2]; subst.
  inversion HF2 as [|a l H _]; subst. cbn in H. lra.
Qed.
Example T_mono_valid : sorted_x T_mono /\ ys_nondecreasing T_mono.
Proof. split; unfold sorted_x, ys_nondecreasing, T_mono; sorted_tac. Qed.

(* interior point, by the theorem: between (1, 1) and (2, 1/2) at height 1/2 *)
Example T_strict_at_3_2 : Discrete_membership T_strict (1/2) (3/2) = 3/8.
Proof.
  rewrite (C03_Discrete_spec_strict T_strict (1/2) (3/2) 1 (proj1 T_strict_valid)); cbn; try lra.
  repeat constructor.
Qed.
(* the same by computation over R *)
Example T_strict_at_3_2_computed : Discrete_membership T_strict (1/2) (3/2) = 3/8.
Proof. unfold T_strict. compute_R. Qed.
Example T_strict_outside : Discrete_membership T_strict (1/2) (-7) = 0 /\ Discrete_membership T_strict (1/2) 9 = 0.
Proof.
  destruct T_strict_valid as (_ & HS & _ & HL). split.
  - rewrite C03_Discrete_left; cbn; try lra; assumption.
  - rewrite C03_Discrete_right; cbn; try lra; assumption.
Qed.
Example T_strict_nodes : Discrete_membership T_strict (1/2) 1 = 1/2 /\ Discrete_membership T_strict (1/2) 2 = 1/4.
Proof.
  destruct T_strict_valid as (HS & _ & _ & HL).
  pose proof (C03_Discrete_at_node T_strict (1/2) 1 HS ltac:(cbn; repeat constructor)) as H1.
  pose proof (C03_Discrete_at_node T_strict (1/2) 2 HS ltac:(cbn; repeat constructor)) as H2.
  cbn [nth T_strict fst snd] in H1, H2. rewrite H1, H2. lra.
Qed.
(* the vertical edge of T_edge at x = 1: the last pair (1, 1) gives the value; just left of it the line towards (1, 1/4) *)
Example T_edge_at_1 : Discrete_membership T_edge 1 1 = 1.
Proof.
  assert (HL : forall j, (2 < j < length T_edge)%nat -> fst (nth 2 T_edge pt0) < fst (nth j T_edge pt0)).
  { intros j [H1 H2]. assert (j = 3%nat) as ->
      by (apply PeanoNat.Nat.le_antisymm; [apply PeanoNat.Nat.lt_succ_r, H2|exact H1]).
    cbn. lra. }
  pose proof (C03_Discrete_at_repeated_abscissa T_edge 1 2 (proj1 T_edge_valid) ltac:(cbn; repeat constructor) HL) as H.
  cbn [nth T_edge fst snd] in H. rewrite H. lra.
Qed.
Example T_edge_left_of_1 : Discrete_membership T_edge 1 (9/10) = 9/40.
Proof.
  rewrite (C03_Discrete_spec T_edge 1 (9/10) 0 (proj1 T_edge_valid)); cbn; try lra. repeat constructor.
Qed.
Example T_edge_at_1_computed : Discrete_membership T_edge 1 1 = 1 /\ Discrete_membership T_edge 1 2 = 1/2.
Proof. split; unfold T_edge; compute_R. Qed.
Example T_edge_range : forall x, 0 <= Discrete_membership T_edge (1/2) x <= 1/2.
Proof. destruct T_edge_valid as (HS & _ & HW & HL). intros x. apply C03_Discrete_range; try assumption. lra. Qed.
Example T_mono_monotone : Discrete_membership T_mono 1 (1/2) <= Discrete_membership T_mono 1 1.
Proof. destruct T_mono_valid as (HS & HY). apply C03_Discrete_monotone_if_ys_monotone; try assumption; try lra. cbn; repeat constructor. Qed.
Example T_strict_continuous : continuity_pt (Discrete_membership T_strict (1/2)) 2.
Proof. destruct T_strict_valid as (HS & _ & _ & HL). apply C03_Discrete_continuous; assumption. Qed.
(* special values *)
Example T_edge_special :
  Discrete_membership (lift T_edge) (Fin (1/2)) NaN = NaN /\
  Discrete_membership (lift T_strict) (Fin (1/2)) PInf = Fin (1/2 * 0) /\
  isnan (Discrete_membership (lift T_edge) (Fin (1/2)) NInf) = false.
Proof.
  split; [reflexivity|]. split.
  - apply (C03_Discrete_at_infinity T_strict (1/2)). cbn; repeat constructor.
  - rewrite C03_Discrete_nan_iff; [reflexivity|cbn; repeat constructor].
Qed.
