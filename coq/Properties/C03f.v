(* C03f — the remaining IEEE-basic terms at the BINARY64 level (generated kernels of Gen/GenTerm.v at NumF m tbl, for every
   scalar_mode m and oracle table tbl: `square x` is read as x*x in both modes, no oracle function is called).
   For these terms the range law 0 <= mu x <= h of C03 (proved over R in C03a/C03b) holds only UP TO ROUNDING:
   each is refuted by a concrete binary64 witness with finite valid parameters of magnitude <= 2^100 and height 1
   (kernel-checked by vm_compute).  Constant is exact.
     SShape / PiShape : the 2*h defect at x = end (adjacent start/end) is REPAIRED in /repo; documented on a pinned copy of
                        the old kernel.  After the fix: neither proved nor refuted (no violation in the search)
     Concave          : (e - i) / ((2e - i) - x) = 1 + 2^-52 just before end
     SemiEllipse      : 1 + 2^-52 at the centre of (0.3, 1.5);  NaN for a finite x when (e-s)/2 underflows to 0
     Arc              : only by UNDERFLOW of r*r (|r| < 2^-511); no violation found for |r| >= 2^-500 (not proved: needs
                        RN(sqrt(RN(r*r))) = |r|)
   Neither proved nor refuted: ZShape, SShape, PiShape (no counterexample in a search over adjacent-double and random parameters). *)
From Coq Require Import Floats.
From VF Require Import Num NumF GenTerm TermFloat2.
Local Open Scope float_scope.

Theorem C03f_Constant_float : forall m tbl v x, @shape_membership _ (NumF m tbl) (Sh_Constant v) x = v.
Proof. exact Constant_float. Qed.
Print Assumptions C03f_Constant_float.

(* the defect REPAIRED in /repo (SShape gave 2*h at x = end for adjacent start/end), on an explicit copy of the pre-fix kernel;
   the repaired kernel (and PiShape, which is built from it) answers h at the same point *)
Theorem C03f_SShape_pinned_defect : forall m tbl,
  @SShape_membership_pinned _ (NumF m tbl) 0x1.0000000000001p+0 0x1.0000000000002p+0 1 0x1.0000000000002p+0 = 2.
Proof. exact SShape_pinned_range_witness. Qed.
Print Assumptions C03f_SShape_pinned_defect.
Theorem C03f_SShape_repaired_at_witness : forall m tbl,
  @shape_membership _ (NumF m tbl) (Sh_SShape 0x1.0000000000001p+0 0x1.0000000000002p+0 1) 0x1.0000000000002p+0 = 1 /\
  @shape_membership _ (NumF m tbl) (Sh_PiShape 0x1.0000000000001p+0 0x1.0000000000002p+0 2 3 1) 0x1.0000000000002p+0 = 1.
Proof. exact SShape_fixed_at_witness. Qed.
Print Assumptions C03f_SShape_repaired_at_witness.

Theorem C03f_Concave_range_refuted : forall m tbl,
  @shape_membership _ (NumF m tbl) (Sh_Concave (-2) 0x1.999999999999ap-3 1) 0x1.9999999999999p-3 = 0x1.0000000000001p+0.
Proof. exact Concave_range_witness. Qed.
Print Assumptions C03f_Concave_range_refuted.

Theorem C03f_SemiEllipse_range_refuted : forall m tbl,
  @shape_membership _ (NumF m tbl) (Sh_SemiEllipse 0x1.3333333333333p-2 1.5 1) 0x1.ccccccccccccdp-1 = 0x1.0000000000001p+0.
Proof. exact SemiEllipse_range_witness. Qed.
Print Assumptions C03f_SemiEllipse_range_refuted.

Theorem C03f_SemiEllipse_nan_refuted : forall m tbl,
  PrimFloat.is_nan (@shape_membership _ (NumF m tbl) (Sh_SemiEllipse 0 0x1p-1074 1) 0) = true.
Proof. exact SemiEllipse_nan_witness. Qed.
Print Assumptions C03f_SemiEllipse_nan_refuted.

Theorem C03f_Arc_underflow_refuted : forall m tbl,
  PrimFloat.ltb 1 (@shape_membership _ (NumF m tbl) (Sh_Arc 0x1.4p-537 0 1) 0) = true /\
  @shape_membership _ (NumF m tbl) (Sh_Arc 0x1.4p-537 0 1) 0 = 0x1.21a1851ff630ap+0.
Proof. exact Arc_range_witness. Qed.
Print Assumptions C03f_Arc_underflow_refuted.
