(* C14b — the FuzzyLite Language importer including Rule.load and Function.load (Model/FllChecked.v, `import_checked`).
   `import_` of Model/Fll.v (C14) leaves the two loading steps out and so accepts a superset of texts; `import_checked`
   places RuleText.load_rule (C16) and Formula.parse_text (C17) where FllImporter.rule / FllImporter.term perform them: a rule
   is loaded against the engine made of the blocks that precede its rule block in the text, an exception propagates unchanged
   (the importer never calls RuleBlock.load_rules, so there is no RuntimeError).  Only final statements here; proofs in
   Proofs/FllCheckedProofs.v. *)
From Coq Require Import ZArith Bool List String.
From VF Require Import Num GenNorm GenTerm Core Fll FllProofs FllChecked FllCheckedProofs.
From VF Require Grammar AntecedentProofs Consequent RejectProofs.
Import ListNotations.
Local Open Scope string_scope.

(* refinement: what the checked importer accepts, `import_` accepts with the same engine (so every C14 theorem about accepted
   texts applies to it) *)
Theorem C14b_import_checked_refines :
  forall (num : Type) parse (n_nan n_pinf n_ninf n_one n_zero : num) lines e,
  import_checked parse n_nan n_pinf n_ninf n_one n_zero lines = Ok e ->
  import_ parse n_nan n_pinf n_ninf n_one n_zero lines = Ok e.
Proof. exact import_checked_refines. Qed.
Print Assumptions C14b_import_checked_refines.

(* every rejection is a SyntaxError, ValueError or KeyError … *)
Theorem C14b_import_checked_error_classes :
  forall (num : Type) parse (n_nan n_pinf n_ninf n_one n_zero : num) lines x,
  import_checked parse n_nan n_pinf n_ninf n_one n_zero lines = Err x -> x = ESyntax \/ x = EValue \/ x = ELookup.
Proof. exact import_checked_error_classes. Qed.
Print Assumptions C14b_import_checked_error_classes.

(* … never an internal error (uses C16: Rule.load raises no TypeError since F6 was repaired — the switch is read off /repo on
   every run — and C17: Function.parse rejects with SyntaxError only) *)
Theorem C14b_import_checked_no_internal_error :
  forall (num : Type) parse (n_nan n_pinf n_ninf n_one n_zero : num) lines,
  import_checked parse n_nan n_pinf n_ninf n_one n_zero lines <> Err EInternal.
Proof. exact import_checked_no_internal_error. Qed.
Print Assumptions C14b_import_checked_no_internal_error.

(* the round trip with the checks: a well-formed engine whose Function formulas parse and whose printed rules load against its
   (normalised) variables comes back as its normal form *)
Theorem C14b_import_checked_export :
  forall (num : Type) fmt parse round close1 (n_nan n_pinf n_ninf n_one n_zero : num),
  A_fmt fmt parse round close1 n_one ->
  forall d e, wf close1 e = true -> checks_pass num fmt parse round close1 n_nan n_one d e ->
  import_checked parse n_nan n_pinf n_ninf n_one n_zero (export fmt close1 d e) = Ok (normalize round close1 n_one d e).
Proof. exact final_import_checked_export. Qed.
Print Assumptions C14b_import_checked_export.

(* the rule part of `checks_pass` holds for rules printed from grammar trees (Spec/Grammar.v `Prints`) whose names resolve in the
   engine and whose consequent loads: C16_grammar_rule_accepted *)
Theorem C14b_grammar_rule_check :
  forall (num : Type) fmt parse close1 (n_nan : num) d (E : fll_engine num) (r : fll_rule num) t x cs,
  RejectProofs.rule_shape (is_float parse) (fr_antecedent r) (fr_consequent r) (weight_token num fmt close1 d r) ->
  Grammar.Prints 0 t (fr_antecedent r) ->
  AntecedentProofs.names_ok (core_engine n_nan E) t ->
  AntecedentProofs.resolve (core_engine n_nan E) t = Some x ->
  Consequent.load (core_engine n_nan E) (fr_consequent r) = Ok cs ->
  check_rule parse n_nan E (rule_text fmt close1 d r) = Ok tt.
Proof. exact grammar_rule_check. Qed.
Print Assumptions C14b_grammar_rule_check.

(* ---------------------------------------------------------------------------------------------- non-vacuity *)
Definition exb_tbl : list string := ["1.000"].
Definition exb_engine : fll_engine tnum :=
  {| fe_name := "e"; fe_description := "";
     fe_inputs :=
       [ {| fi_name := "temperature"; fi_description := ""; fi_enabled := true;
            fi_min := TN "0.000" false; fi_max := TN "40.000" false; fi_lock_range := false;
            fi_terms := [ FShape "cold" "Ramp" [TN "18.000" false; TN "5.000" false] (TN "1.000" true);
                          FShape "warm" "Triangle" [TN "15.000" false; TN "21.000" false; TN "27.000" false] (TN "0.800" false) ] |} ];
     fe_outputs :=
       [ {| fo_name := "power"; fo_description := ""; fo_enabled := true;
            fo_min := TN "0.000" false; fo_max := TN "1.000" true; fo_lock_range := false;
            fo_aggregation := None; fo_defuzzifier := Some (FDWeighted true WAutomatic);
            fo_default := TN "nan" false; fo_lock_previous := false;
            fo_terms := [ FShape "high" "Constant" [TN "0.900" false] (TN "1.000" true);
                          FFunction "fn" "0.020 * temperature + max(0.100, 0.200)" (TN "1.000" true) ] |} ];
     fe_blocks :=
       [ {| fb_name := "rules"; fb_description := ""; fb_enabled := true;
            fb_conjunction := Some T_Minimum; fb_disjunction := Some S_Maximum; fb_implication := None;
            fb_activation := Some AGeneral;
            fb_rules := [ {| fr_enabled := true;
                             fr_antecedent := ["temperature"; "is"; "cold"; "or"; "("; "temperature"; "is"; "not"; "warm"; "and"; "power"; "is"; "high"; ")"];
                             fr_consequent := ["power"; "is"; "high"; "and"; "power"; "is"; "very"; "fn"]; fr_weight := TN "0.750" false |} ] |} ] |}.

Example C14b_example_checks_pass :
  wf tn_close1 exb_engine = true /\
  checks_pass tnum tn_fmt (tn_parse exb_tbl) (tn_round exb_tbl) tn_close1 (TN "nan" false) (TN "1.000" true) 3 exb_engine.
Proof. split; [vm_compute; reflexivity|solve_concrete]. Qed.

Example C14b_example_roundtrip : tn_import_checked exb_tbl "1.000" "0.000" (tn_export 3 exb_engine) = Ok exb_engine.
Proof. vm_compute. reflexivity. Qed.

(* texts that `import_` accepts and the importer (and `import_checked`) rejects: an unknown term in a rule, a rule block in
   front of the variables it speaks about, an ill-formed formula *)
Example C14b_example_rejections :
  let unknown_term := ["InputVariable: a"; "  term: lo Triangle 0.000 1.000 2.000"; "OutputVariable: o"; "  term: p Constant 1.000";
                       "RuleBlock: b"; "  rule: if a is hi then o is p"] in
  let block_first := ["RuleBlock: b"; "  rule: if a is lo then o is p";
                      "InputVariable: a"; "  term: lo Triangle 0.000 1.000 2.000"; "OutputVariable: o"; "  term: p Constant 1.000"] in
  let bad_formula := ["OutputVariable: o"; "  term: f Function 2.000 * ( a + "] in
  let ok := ["InputVariable: a"; "  term: lo Triangle 0.000 1.000 2.000"; "OutputVariable: o"; "  term: p Constant 1.000";
             "RuleBlock: b"; "  rule: if a is lo then o is p"] in
  (forall t, In t [unknown_term; block_first; bad_formula] ->
     tn_import_checked exb_tbl "1.000" "0.000" t = Err ESyntax /\ exists e, tn_import exb_tbl "1.000" "0.000" t = Ok e)
  /\ exists e, tn_import_checked exb_tbl "1.000" "0.000" ok = Ok e.
Proof.
  cbv zeta. split.
  - intros t [<-|[<-|[<-|[]]]]; (split; [vm_compute; reflexivity|eexists; vm_compute; reflexivity]).
  - eexists. vm_compute. reflexivity.
Qed.
