(* C04b — the T-norm / S-norm laws at the BINARY64 level: the GENERATED kernels of Gen/GenNorm.v instantiated at
   NumF m tbl (Coq primitive floats = IEEE-754 binary64, for every scalar_mode m and oracle table tbl: no norm kernel
   calls an oracle function), for ALL binary64 a, b with 0 <= a, b <= 1 (unitF) — no sampling.  Proved through Flocq's
   bridge between primitive floats and binary_float (Proofs/FloatLevel.v, Proofs/NormFloat.v).

     rangeF T     result finite and in [0,1]          commL T   T a b = T b a for ALL floats (Leibniz)
     commF T      equal real values on [0,1]          mono1F/mono2F  monotone in the first / second argument
     identF T e   T a e = a                           annihF T z     T a z = z
     le_minF T    T a b <= min a b                    ge_maxF S      max a b <= S a b
     assocF T     T (T a b) c = T a (T b c)
     tnorm_laws_F / snorm_laws_F : all seven laws (range, comm, mono, assoc, identity, annihilator, bound).

   Laws of C04 (proved over R) that are only true up to rounding are REFUTED here by a concrete binary64 witness
   (not_...F : exists a b ..., finite values in [0,1] with strictly different / strictly ordered results).
   Every law of C04 is either proved or refuted here for every norm (UnboundedSum: the laws of usum_laws). *)
From Coq Require Import Reals Floats.
From VF Require Import Num NumF GenNorm FloatLevel NormFloat.
Local Open Scope R_scope.

(* ---- 1. the seven T-norms *)
Theorem C04b_AlgebraicProduct_float : forall m tbl, let T := @AlgebraicProduct_compute _ (NumF m tbl) in
  rangeF T /\ commL T /\ mono1F T /\ mono2F T /\ identF T 1 /\ annihF T 0 /\ le_minF T.
Proof. exact AlgebraicProduct_float. Qed.
Print Assumptions C04b_AlgebraicProduct_float.
Theorem C04b_AlgebraicProduct_assoc_refuted : forall m tbl, not_assocF (@AlgebraicProduct_compute _ (NumF m tbl)).
Proof. exact AlgebraicProduct_assoc_refuted. Qed.
Print Assumptions C04b_AlgebraicProduct_assoc_refuted.

Theorem C04b_BoundedDifference_float : forall m tbl, let T := @BoundedDifference_compute _ (NumF m tbl) in
  rangeF T /\ commL T /\ mono1F T /\ mono2F T /\ annihF T 0.
Proof. exact BoundedDifference_float. Qed.
Print Assumptions C04b_BoundedDifference_float.
(* T(a,1) = 0 <> a for a = 2^-60;  T(a,1) = 2^-52 > a for a just above 2^-53 *)
Theorem C04b_BoundedDifference_refuted : forall m tbl, let T := @BoundedDifference_compute _ (NumF m tbl) in
  not_identF T 1 /\ not_le_minF T /\ not_assocF T.
Proof. exact BoundedDifference_refuted. Qed.
Print Assumptions C04b_BoundedDifference_refuted.

Theorem C04b_DrasticProduct_float : forall m tbl, let T := @DrasticProduct_compute _ (NumF m tbl) in
  tnorm_laws_F T /\ mono1F T.
Proof. exact DrasticProduct_float. Qed.
Print Assumptions C04b_DrasticProduct_float.

(* range, T <= min and T(a,1) = a need an ulp-level argument: RN(a*b) >= a + b - 1 because a + b - 1 is representable,
   and |RN y - y| <= 2^-53 on [1,2] with ties to even *)
Theorem C04b_EinsteinProduct_float : forall m tbl, let T := @EinsteinProduct_compute _ (NumF m tbl) in
  rangeF T /\ commL T /\ identF T 1 /\ annihF T 0 /\ le_minF T.
Proof. exact EinsteinProduct_float. Qed.
Print Assumptions C04b_EinsteinProduct_float.
Theorem C04b_EinsteinProduct_refuted : forall m tbl, let T := @EinsteinProduct_compute _ (NumF m tbl) in
  not_mono2F T /\ not_assocF T.
Proof. exact EinsteinProduct_refuted. Qed.
Print Assumptions C04b_EinsteinProduct_refuted.

Theorem C04b_HamacherProduct_float : forall m tbl, let T := @HamacherProduct_compute _ (NumF m tbl) in
  rangeF T /\ commL T /\ annihF T 0.
Proof. exact HamacherProduct_float. Qed.
Print Assumptions C04b_HamacherProduct_float.
Theorem C04b_HamacherProduct_refuted : forall m tbl, let T := @HamacherProduct_compute _ (NumF m tbl) in
  not_identF T 1 /\ not_le_minF T /\ not_mono2F T /\ not_assocF T.
Proof. exact HamacherProduct_refuted. Qed.
Print Assumptions C04b_HamacherProduct_refuted.

Theorem C04b_Minimum_float : forall m tbl, let T := @Minimum_compute _ (NumF m tbl) in
  tnorm_laws_F T /\ mono1F T.
Proof. exact Minimum_float. Qed.
Print Assumptions C04b_Minimum_float.

(* associativity holds exactly: the branch test 1 < RN(a+b) is monotone *)
Theorem C04b_NilpotentMinimum_float : forall m tbl, let T := @NilpotentMinimum_compute _ (NumF m tbl) in
  rangeF T /\ commF T /\ mono1F T /\ mono2F T /\ assocF T /\ annihF T 0 /\ le_minF T.
Proof. exact NilpotentMinimum_float. Qed.
Print Assumptions C04b_NilpotentMinimum_float.
(* T(a,1) = 0 <> a for a = 2^-60: a + 1 rounds to 1, which is not > 1 *)
Theorem C04b_NilpotentMinimum_ident_refuted : forall m tbl, not_identF (@NilpotentMinimum_compute _ (NumF m tbl)) 1.
Proof. exact NilpotentMinimum_ident_refuted. Qed.
Print Assumptions C04b_NilpotentMinimum_ident_refuted.

(* ---- 2. the nine S-norms *)
Theorem C04b_AlgebraicSum_float : forall m tbl, let S := @AlgebraicSum_compute _ (NumF m tbl) in
  rangeF S /\ commL S /\ identF S 0.
Proof. exact AlgebraicSum_float. Qed.
Print Assumptions C04b_AlgebraicSum_float.
(* S(a,1) = 1 - 2^-53 < 1 for a = 1.5 * 2^-54 *)
Theorem C04b_AlgebraicSum_refuted : forall m tbl, let S := @AlgebraicSum_compute _ (NumF m tbl) in
  not_annihF S 1 /\ not_ge_maxF S /\ not_mono2F S /\ not_assocF S.
Proof. exact AlgebraicSum_refuted. Qed.
Print Assumptions C04b_AlgebraicSum_refuted.

Theorem C04b_BoundedSum_float : forall m tbl, let S := @BoundedSum_compute _ (NumF m tbl) in
  rangeF S /\ commL S /\ mono1F S /\ mono2F S /\ identF S 0 /\ annihF S 1 /\ ge_maxF S.
Proof. exact BoundedSum_float. Qed.
Print Assumptions C04b_BoundedSum_float.
Theorem C04b_BoundedSum_assoc_refuted : forall m tbl, not_assocF (@BoundedSum_compute _ (NumF m tbl)).
Proof. exact BoundedSum_assoc_refuted. Qed.
Print Assumptions C04b_BoundedSum_assoc_refuted.

Theorem C04b_DrasticSum_float : forall m tbl, let S := @DrasticSum_compute _ (NumF m tbl) in
  snorm_laws_F S /\ mono1F S.
Proof. exact DrasticSum_float. Qed.
Print Assumptions C04b_DrasticSum_float.

Theorem C04b_EinsteinSum_float : forall m tbl, let S := @EinsteinSum_compute _ (NumF m tbl) in
  rangeF S /\ commL S /\ identF S 0 /\ annihF S 1.
Proof. exact EinsteinSum_float. Qed.
Print Assumptions C04b_EinsteinSum_float.
Theorem C04b_EinsteinSum_refuted : forall m tbl, let S := @EinsteinSum_compute _ (NumF m tbl) in
  not_ge_maxF S /\ not_mono2F S /\ not_assocF S.
Proof. exact EinsteinSum_refuted. Qed.
Print Assumptions C04b_EinsteinSum_refuted.

Theorem C04b_HamacherSum_float : forall m tbl, let S := @HamacherSum_compute _ (NumF m tbl) in
  commF S /\ identF S 0.
Proof. exact HamacherSum_float. Qed.
Print Assumptions C04b_HamacherSum_float.
(* HamacherSum LEAVES the unit interval in binary64: S(a,1) = 1 + 2^-52 > 1 for a = 2^-53 + 2^-105 *)
Theorem C04b_HamacherSum_refuted : forall m tbl, let S := @HamacherSum_compute _ (NumF m tbl) in
  not_rangeF S /\ not_annihF S 1 /\ not_ge_maxF S /\ not_mono2F S /\ not_assocF S.
Proof. exact HamacherSum_refuted. Qed.
Print Assumptions C04b_HamacherSum_refuted.

Theorem C04b_Maximum_float : forall m tbl, let S := @Maximum_compute _ (NumF m tbl) in
  snorm_laws_F S /\ mono1F S.
Proof. exact Maximum_float. Qed.
Print Assumptions C04b_Maximum_float.

Theorem C04b_NilpotentMaximum_float : forall m tbl, let S := @NilpotentMaximum_compute _ (NumF m tbl) in
  snorm_laws_F S /\ mono1F S.
Proof. exact NilpotentMaximum_float. Qed.
Print Assumptions C04b_NilpotentMaximum_float.

Theorem C04b_NormalizedSum_float : forall m tbl, let S := @NormalizedSum_compute _ (NumF m tbl) in
  rangeF S /\ commL S /\ mono1F S /\ mono2F S /\ identF S 0 /\ annihF S 1 /\ ge_maxF S.
Proof. exact NormalizedSum_float. Qed.
Print Assumptions C04b_NormalizedSum_float.
Theorem C04b_NormalizedSum_is_BoundedSum_float : forall m tbl a b, unitF a -> unitF b ->
  fin (@NormalizedSum_compute _ (NumF m tbl) a b) /\
  R_of (@NormalizedSum_compute _ (NumF m tbl) a b) = R_of (@BoundedSum_compute _ (NumF m tbl) a b).
Proof. exact NormalizedSum_is_BoundedSum_float. Qed.
Print Assumptions C04b_NormalizedSum_is_BoundedSum_float.
Theorem C04b_NormalizedSum_assoc_refuted : forall m tbl, not_assocF (@NormalizedSum_compute _ (NumF m tbl)).
Proof. exact NormalizedSum_assoc_refuted. Qed.
Print Assumptions C04b_NormalizedSum_assoc_refuted.

Theorem C04b_UnboundedSum_float : forall m tbl, let S := @UnboundedSum_compute _ (NumF m tbl) in
  (forall a b, unitF a -> unitF b -> fin (S a b) /\ 0 <= R_of (S a b) <= 2) /\
  commL S /\ mono1F S /\ mono2F S /\ identF S 0 /\ ge_maxF S.
Proof. exact UnboundedSum_float. Qed.
Print Assumptions C04b_UnboundedSum_float.
Theorem C04b_UnboundedSum_refuted : forall m tbl, let S := @UnboundedSum_compute _ (NumF m tbl) in
  not_rangeF S /\ not_assocF S.
Proof. exact UnboundedSum_refuted. Qed.
Print Assumptions C04b_UnboundedSum_refuted.

(* ---- 3. De Morgan duality S a b = 1 - T (1-a) (1-b) is false in binary64 for all seven pairs (a = 2^-60, b = 0) *)
Theorem C04b_dual_refuted : forall m tbl,
  not_dualF (@AlgebraicSum_compute _ (NumF m tbl)) (@AlgebraicProduct_compute _ (NumF m tbl)) /\
  not_dualF (@BoundedSum_compute _ (NumF m tbl)) (@BoundedDifference_compute _ (NumF m tbl)) /\
  not_dualF (@DrasticSum_compute _ (NumF m tbl)) (@DrasticProduct_compute _ (NumF m tbl)) /\
  not_dualF (@EinsteinSum_compute _ (NumF m tbl)) (@EinsteinProduct_compute _ (NumF m tbl)) /\
  not_dualF (@HamacherSum_compute _ (NumF m tbl)) (@HamacherProduct_compute _ (NumF m tbl)) /\
  not_dualF (@Maximum_compute _ (NumF m tbl)) (@Minimum_compute _ (NumF m tbl)) /\
  not_dualF (@NilpotentMaximum_compute _ (NumF m tbl)) (@NilpotentMinimum_compute _ (NumF m tbl)).
Proof. exact dual_refuted. Qed.
Print Assumptions C04b_dual_refuted.

(* ---- 4. the witness forms really contradict the laws *)
Theorem C04b_witness_sound : forall T : F2,
  (not_rangeF T -> ~ rangeF T) /\ (not_assocF T -> ~ assocF T) /\ (not_mono2F T -> ~ mono2F T) /\
  (not_le_minF T -> ~ le_minF T) /\ (not_ge_maxF T -> ~ ge_maxF T) /\
  (forall e, not_identF T e -> ~ identF T e) /\ (forall z, not_annihF T z -> ~ annihF T z).
Proof.
  exact (fun T => conj (not_rangeF_neg T) (conj (not_assocF_neg T) (conj (not_mono2F_neg T)
    (conj (not_le_minF_neg T) (conj (not_ge_maxF_neg T) (conj (not_identF_neg T) (not_annihF_neg T))))))).
Qed.
Print Assumptions C04b_witness_sound.

(* ---- 5. non-vacuity: interior binary64 points of [0,1]; the kernels take non-boundary values there *)
Example C04b_nonvacuous :
  unitF 0.5%float /\ unitF 0.3%float /\ unitF 0x1p-1074%float /\
  @EinsteinProduct_compute _ (NumF true nil) 0.5%float 0.25%float = 0x1.745d1745d1746p-4%float /\
  @HamacherSum_compute _ (NumF false nil) 0.5%float 0.75%float = 0.8%float.
Proof.
  split; [apply unitb_ok; vm_compute; reflexivity |]. split; [apply unitb_ok; vm_compute; reflexivity |].
  split; [apply unitb_ok; vm_compute; reflexivity |]. split; vm_compute; reflexivity.
Qed.
Print Assumptions C04b_nonvacuous.
