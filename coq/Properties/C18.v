(* C18 — FuzzyLite Dataset export is a faithful tabulation of the engine.
   Model: Model/Fld.v (Op.increment, resolution, the grid loop, write, write_from_reader); proofs: Proofs/FldProofs.v.
   Only final statements here.  The engine's batch outputs (`outputs_of`), the number format (`fmt`), the token
   parser (`parse_float`) and the float root `pow_root v n = int(pow(v, 1.0/n))` are parameters; tools/props/C18.py
   supplies what the implementation computes for them and compares whole exports.

   F8 (repaired in /repo by `fix: FldExporter under-counted the grid for perfect powers in the AllVariables scope`):
   the float root int(round(pow(v, 1/n))) is now only the starting point of two integer correction loops; the model
   mirrors them and C18_all_variables_k holds for EVERY answer of the float oracle.  The formula before the repair,
   -1 + max(1, int(pow(v, 1/n))), is kept as `resolution_unrepaired`; C18_unrepaired_refuted_if shows it is false
   of any oracle with pow_root 64 3 = 3 (libm: pow(64, 1/3) = 3.9999999999999996). *)
From Coq Require Import ZArith Bool List String Ascii Sorted Reals PrimFloat.
From VF Require Import Num NumR NumF Core Fld FldProofs.
Import ListNotations.
Local Open Scope Z_scope.

(* ---- the loop over Op.increment: exactly the product of the ranges [0..max_i], lexicographic with the last
        position fastest (strictly increasing for lex_lt, hence without repetition), prod (max_i + 1) rows;
        any number of inputs, any maxima; the loop's fuel (prod (max_i + 1)) always suffices *)
Theorem C18_increment_enumerates : forall mx : list Z,
  grid mx = Some (lex_enum mx) /\
  (forall x, In x (lex_enum mx) <-> Forall2 (fun a m => 0 <= a <= Z.max 0 m) x mx) /\
  StronglySorted lex_lt (lex_enum mx) /\ NoDup (lex_enum mx) /\
  Z.of_nat (List.length (lex_enum mx)) = fold_right (fun m acc => (Z.max 0 m + 1) * acc) 1 mx.
Proof. exact increment_enumerates. Qed.
Print Assumptions C18_increment_enumerates.

(* after the last grid point Op.increment answers False (and has wrapped the counter to zeros) *)
Theorem C18_increment_stops : forall mx : list Z, List.length mx <> 0%nat ->
  increment (map (Z.max 0) mx) (zeros mx) mx None = (false, zeros mx).
Proof. exact increment_last. Qed.
Print Assumptions C18_increment_stops.

(* the input matrix of an export is the enumeration mapped to values, whatever the scope *)
Theorem C18_scope_inputs : forall (T : Type) (N : Num T) pow_root s v (e : engine T) active res,
  resolution pow_root s v (List.length (e_inputs e)) = Ok res ->
  scope_inputs pow_root s v e active =
  Ok (map (grid_row res (e_inputs e) (active_flags active (List.length (e_inputs e))))
          (lex_enum (max_values res (active_flags active (List.length (e_inputs e)))))).
Proof. exact @scope_inputs_eq. Qed.
Print Assumptions C18_scope_inputs.

(* ---- each variable = v, over the reals: v points min + i (max - min)/(v - 1) per input, every combination,
        lexicographic; first = min, last = max, equidistant; v = 1: the single point min *)
Theorem C18_each_variable_grid : forall pow_root v (e : engine R), 2 <= v ->
  scope_inputs pow_root EachVariable v e (fun _ => true) =
  Ok (map (zipw (fun iv i => (iv_min iv + IZR i * ((iv_max iv - iv_min iv) / IZR (v - 1)))%R) (e_inputs e))
          (lex_enum (repeat (v - 1) (List.length (e_inputs e))))).
Proof. exact each_variable_rows. Qed.
Print Assumptions C18_each_variable_grid.

Theorem C18_each_variable_first : forall (iv : input_var R) v, 2 <= v -> grid_value (v - 1) iv true 0 = iv_min iv.
Proof. exact grid_value_R_first. Qed.
Print Assumptions C18_each_variable_first.

Theorem C18_each_variable_last : forall (iv : input_var R) v, 2 <= v -> grid_value (v - 1) iv true (v - 1) = iv_max iv.
Proof. exact grid_value_R_last. Qed.
Print Assumptions C18_each_variable_last.

Theorem C18_each_variable_equidistant : forall (iv : input_var R) v i, 2 <= v ->
  (grid_value (v - 1) iv true (i + 1) - grid_value (v - 1) iv true i = (iv_max iv - iv_min iv) / IZR (v - 1))%R.
Proof. exact grid_value_R_step. Qed.
Print Assumptions C18_each_variable_equidistant.

Theorem C18_each_variable_single : forall pow_root (e : engine R),
  scope_inputs pow_root EachVariable 1 e (fun _ => true) = Ok [map (@iv_min R) (e_inputs e)].
Proof. exact each_variable_single. Qed.
Print Assumptions C18_each_variable_single.

Theorem C18_rows_count : forall (T : Type) (N : Num T) pow_root s v (e : engine T) res rows,
  resolution pow_root s v (List.length (e_inputs e)) = Ok res ->
  scope_inputs pow_root s v e (fun _ => true) = Ok rows ->
  Z.of_nat (List.length rows) = values_per_input res ^ Z.of_nat (List.length (e_inputs e)).
Proof. exact @scope_inputs_rows. Qed.
Print Assumptions C18_rows_count.

(* ---- all variables = v *)
Theorem C18_kroot_spec : forall v n, 0 <= v -> (1 <= n)%nat ->
  0 <= kroot v n /\ kroot v n ^ Z.of_nat n <= v < (kroot v n + 1) ^ Z.of_nat n.
Proof. exact kroot_spec. Qed.
Print Assumptions C18_kroot_spec.

(* all variables = v: k values per input where k is the largest integer with k^inputs <= v; unconditional in the
   float root oracle (any starting point of the correction loops, even a wildly wrong one) *)
Theorem C18_all_variables_k : forall pow_root v n, 1 <= v -> (1 <= n)%nat ->
  exists res, resolution pow_root AllVariables v n = Ok res /\
    let k := values_per_input res in
    k = kroot v n /\ 1 <= k /\
    k ^ Z.of_nat n <= v < (k + 1) ^ Z.of_nat n /\
    (forall j, 0 <= j -> j ^ Z.of_nat n <= v -> j <= k).
Proof. exact all_variables_k. Qed.
Print Assumptions C18_all_variables_k.

Theorem C18_all_variables_resolution : forall pow_root v n, 1 <= v -> (1 <= n)%nat ->
  resolution pow_root AllVariables v n = Ok (kroot v n - 1).
Proof. exact resolution_all. Qed.
Print Assumptions C18_all_variables_resolution.

(* the fuel given to the two correction loops suffices: their loop conditions are false of the results *)
Theorem C18_root_loops_terminate : forall n v root, (1 <= n)%nat -> 1 <= root ->
  (let r := root_down (Z.to_nat root) v n root in
   1 <= r <= root /\ ((1 <? r) && (v <? r ^ Z.of_nat n) = false)) /\
  ((kroot_up (Z.to_nat v) v n root + 1) ^ Z.of_nat n <=? v) = false.
Proof. intros n v root Hn Hr. split; [apply root_down_exit; exact Hr | apply root_up_exit; assumption]. Qed.
Print Assumptions C18_root_loops_terminate.

Theorem C18_all_variables_rows_count : forall (T : Type) (N : Num T) pow_root v (e : engine T),
  1 <= v -> e_inputs e <> [] ->
  let n := List.length (e_inputs e) in
  exists rows, scope_inputs pow_root AllVariables v e (fun _ => true) = Ok rows /\
    Z.of_nat (List.length rows) = kroot v n ^ Z.of_nat n /\ kroot v n ^ Z.of_nat n <= v.
Proof. exact all_variables_rows_count. Qed.
Print Assumptions C18_all_variables_rows_count.

Theorem C18_all_variables_no_inputs : forall pow_root v, resolution pow_root AllVariables v 0 = Err EValue.
Proof. reflexivity. Qed.
Print Assumptions C18_all_variables_no_inputs.

(* the formula before the repair: right exactly when the truncated float root is the integer root; refuted at (64, 3) *)
Theorem C18_unrepaired_iff : forall pow_root,
  unrepaired_largest_k pow_root <->
  (forall v n, 1 <= v -> (1 <= n)%nat -> Z.max 1 (pow_root v n) = kroot v n).
Proof. exact unrepaired_largest_k_iff. Qed.
Print Assumptions C18_unrepaired_iff.

Theorem C18_unrepaired_refuted_if : forall pow_root,
  pow_root 64 3%nat = 3 -> ~ unrepaired_largest_k pow_root.
Proof. exact unrepaired_largest_k_refuted_if. Qed.
Print Assumptions C18_unrepaired_refuted_if.

(* ---- rows and header.  By construction of the model from `outputs_of` (the engine's batch outputs for the
        matrix it was given): row r = selected inputs of grid point r ++ selected outputs for that point, one row per point *)
Theorem C18_rows_are_engine_outputs : forall (T : Type) (outputs_of : list (list T) -> list (list T)) x ins,
  List.length (outputs_of ins) = List.length ins -> (x_inputs x || x_outputs x) = true ->
  List.length (table outputs_of x ins) = List.length ins /\
  forall r, (r < List.length ins)%nat ->
    nth r (table outputs_of x ins) [] =
    (if x_inputs x then nth r ins [] else []) ++ (if x_outputs x then nth r (outputs_of ins) [] else []).
Proof. exact @table_rows. Qed.
Print Assumptions C18_rows_are_engine_outputs.

Theorem C18_write_from_scope : forall (T : Type) (N : Num T) pow_root fmt outputs_of x (e : engine T) v s active ins,
  e_inputs e <> [] -> scope_inputs pow_root s v e active = Ok ins ->
  write_from_scope pow_root fmt outputs_of x e v s active =
  Ok (header_line x e ++ String.concat "" (map (line fmt x) (table outputs_of x (engine_inputs e ins))))%string.
Proof. exact @write_from_scope_ok. Qed.
Print Assumptions C18_write_from_scope.

(* without lock-range the engine is given exactly the grid / reader rows *)
Theorem C18_engine_inputs_unlocked : forall (T : Type) (N : Num T) (e : engine T) rows,
  Forall (fun iv => iv_lock_range iv = false) (e_inputs e) ->
  Forall (fun r => List.length r = List.length (e_inputs e)) rows ->
  engine_inputs e rows = rows.
Proof. exact @engine_inputs_unlocked. Qed.
Print Assumptions C18_engine_inputs_unlocked.

Theorem C18_header_spec : forall (T : Type) x (e : engine T),
  header x e = String.concat (x_separator x)
                 ((if x_inputs x then map (@iv_name T) (e_inputs e) else []) ++
                  (if x_outputs x then map (@ov_name T) (e_outputs e) else [])) /\
  header_line x e =
    (if x_headers x && negb (String.eqb (header x e) "") then header x e ++ String "010"%char "" else "")%string.
Proof. intros; split; reflexivity. Qed.
Print Assumptions C18_header_spec.

(* ---- reader: exactly the non-blank, non-comment lines after the skipped ones, stripped, in order, each split
        at whitespace and converted token by token *)
Theorem C18_reader_rows : forall (T : Type) (parse_float : string -> option T) text skip,
  reader_loop parse_float 0 skip (readlines text) =
  mapM (fun s => parse_row parse_float (split_ws s))
       (filter (fun s => negb (blank_or_comment s)) (map strip (skipn (Z.to_nat skip) (readlines text)))).
Proof. intros. rewrite reader_loop_spec, Z.sub_0_r. reflexivity. Qed.
Print Assumptions C18_reader_rows.

Theorem C18_readlines_lossless : forall s, String.concat "" (readlines s) = s.
Proof. exact readlines_concat. Qed.
Print Assumptions C18_readlines_lossless.

Theorem C18_write_from_reader : forall (T : Type) (N : Num T) fmt outputs_of parse_float x (e : engine T) text skip r0 rest,
  e_inputs e <> [] ->
  mapM (fun s => parse_row parse_float (split_ws s)) (kept_lines skip (readlines text)) = Ok (r0 :: rest) ->
  same_length (r0 :: rest) = true -> (List.length (e_inputs e) <= List.length r0)%nat ->
  write_from_reader fmt outputs_of parse_float x e text skip =
  Ok (header_line x e ++ String.concat ""
        (map (line fmt x) (table outputs_of x (engine_inputs e (r0 :: rest)))))%string.
Proof. exact @write_from_reader_ok. Qed.
Print Assumptions C18_write_from_reader.

Theorem C18_too_few_columns : forall (T : Type) (N : Num T) fmt outputs_of x (e : engine T) rows,
  e_inputs e <> [] ->
  (match rows with [] => 0 | r :: _ => List.length r end < List.length (e_inputs e))%nat ->
  write fmt outputs_of x e rows = Err EValue.
Proof. exact @write_too_few. Qed.
Print Assumptions C18_too_few_columns.

(* ---- non-vacuity *)
(* 3 inputs with maxima (1, 2, 1): 12 rows, last position fastest *)
Example C18_grid_example :
  grid [1; 2; 1] = Some [[0;0;0]; [0;0;1]; [0;1;0]; [0;1;1]; [0;2;0]; [0;2;1];
                         [1;0;0]; [1;0;1]; [1;1;0]; [1;1;1]; [1;2;0]; [1;2;1]].
Proof. vm_compute. reflexivity. Qed.
Print Assumptions C18_grid_example.

(* an inactive variable (maximum 0) and a negative maximum behave like a single point *)
Example C18_grid_degenerate : grid [0; 2; -4] = Some [[0;0;0]; [0;1;0]; [0;2;0]] /\ grid [] = Some [[]].
Proof. vm_compute. split; reflexivity. Qed.
Print Assumptions C18_grid_degenerate.

Example C18_increment_example :
  increment [0; 2; 1] [0; 0; 0] [1; 2; 1] None = (true, [1; 0; 0]) /\
  increment [1; 2; 1] [0; 0; 0] [1; 2; 1] None = (false, [0; 0; 0]) /\
  increment [] [] [] None = (false, []).
Proof. vm_compute. repeat split; reflexivity. Qed.
Print Assumptions C18_increment_example.

Example C18_kroot_example :
  kroot 64 3 = 4 /\ kroot 63 3 = 3 /\ kroot 65 3 = 4 /\ kroot 1000 3 = 10 /\ kroot 2000 1 = 2000 /\ kroot 1 4 = 1.
Proof. vm_compute. repeat split; reflexivity. Qed.
Print Assumptions C18_kroot_example.

(* the correction loops at work: starting points that are too small, too large, non-positive -- perfect cube 64, 3 inputs *)
Example C18_root_correction_example :
  resolution (fun _ _ => 3) AllVariables 64 3 = Ok 3 /\ resolution (fun _ _ => 4) AllVariables 64 3 = Ok 3 /\
  resolution (fun _ _ => 9) AllVariables 64 3 = Ok 3 /\ resolution (fun _ _ => -7) AllVariables 64 3 = Ok 3 /\
  resolution (fun _ _ => 3) AllVariables 63 3 = Ok 2 /\ resolution (fun _ _ => 4) AllVariables 63 3 = Ok 2 /\
  resolution_unrepaired (fun _ _ => 3) AllVariables 64 3 = Ok 2.
Proof. vm_compute. repeat split; reflexivity. Qed.
Print Assumptions C18_root_correction_example.

(* the refutation hypothesis is inhabited: an oracle that is the integer root except at (64, 3) *)
Example C18_unrepaired_refuted_example :
  ~ unrepaired_largest_k (fun v n => if (v =? 64) && Nat.eqb n 3 then 3 else kroot v n).
Proof. apply C18_unrepaired_refuted_if. reflexivity. Qed.
Print Assumptions C18_unrepaired_refuted_example.

(* a whole export, computed: 2 inputs on [0,1] and [10,20], all variables = 5 (k = 2, from a useless float root 0), floats *)
Definition ex_fmt (x : float) : string :=
  if PrimFloat.eqb x 0 then "0" else if PrimFloat.eqb x 1 then "1" else
  if PrimFloat.eqb x 10 then "10" else if PrimFloat.eqb x 20 then "20" else
  if PrimFloat.eqb x 11 then "11" else if PrimFloat.eqb x 21 then "21" else "?".
Definition ex_engine : engine float :=
  fld_engine [fld_input "a" 0%float 1%float false PrimFloat.nan; fld_input "b" 10%float 20%float false PrimFloat.nan]
             [fld_output "y" PrimFloat.nan].
Definition ex_outputs (rows : list (list float)) : list (list float) :=
  map (fun r => [PrimFloat.add (nth 0 r 0%float) (nth 1 r 0%float)]) rows.
Definition nl : string := String "010"%char "".
Example C18_export_example :
  @write_from_scope float (NumF true []) (fun v n => 0) ex_fmt ex_outputs
     {| x_separator := ", "; x_headers := true; x_inputs := true; x_outputs := true |}
     ex_engine 5 AllVariables (fun _ => true)
  = Ok ("a, b, y" ++ nl ++ "0, 10, 10" ++ nl ++ "0, 20, 20" ++ nl ++ "1, 10, 11" ++ nl ++ "1, 20, 21" ++ nl)%string.
Proof. vm_compute. reflexivity. Qed.
Print Assumptions C18_export_example.

(* a reader with a skipped line, a comment, blank lines, surrounding spaces and a tab *)
Definition ex_parse (s : string) : option float :=
  if String.eqb s "0" then Some 0%float else if String.eqb s "1" then Some 1%float else
  if String.eqb s "10" then Some 10%float else if String.eqb s "20" then Some 20%float else None.
Example C18_reader_example :
  @write_from_reader float (NumF true []) ex_fmt ex_outputs ex_parse
     {| x_separator := " "; x_headers := false; x_inputs := true; x_outputs := true |} ex_engine
     ("skipped" ++ nl ++ "# comment" ++ nl ++ nl ++ "  1 " ++ String "009"%char "10  " ++ nl ++ "   " ++ nl ++ "0 20")%string 1
  = Ok ("1 10 11" ++ nl ++ "0 20 20" ++ nl)%string /\
  @write_from_reader float (NumF true []) ex_fmt ex_outputs ex_parse
     {| x_separator := " "; x_headers := false; x_inputs := true; x_outputs := true |} ex_engine
     ("1" ++ nl)%string 0 = Err EValue /\
  @write_from_reader float (NumF true []) ex_fmt ex_outputs ex_parse
     {| x_separator := " "; x_headers := false; x_inputs := true; x_outputs := true |} ex_engine
     ("1 x" ++ nl)%string 0 = Err EValue.
Proof. vm_compute. repeat split; reflexivity. Qed.
Print Assumptions C18_reader_example.

(* each variable = 3 on [0, 10] over the reals: 0, 5, 10 *)
Example C18_each_variable_example :
  let iv := fld_input "a" 0%R 10%R false 0%R in
  grid_value 2 iv true 0 = 0%R /\ grid_value 2 iv true 1 = 5%R /\ grid_value 2 iv true 2 = 10%R.
Proof.
  cbv zeta. repeat split.
  - exact (C18_each_variable_first (fld_input "a" 0%R 10%R false 0%R) 3 ltac:(Lia.lia)).
  - pose proof (grid_value_R (fld_input "a" 0%R 10%R false 0%R) 3 1 ltac:(Lia.lia)) as H.
    change (3 - 1) with 2 in H. rewrite H. cbn. Lra.lra.
  - exact (C18_each_variable_last (fld_input "a" 0%R 10%R false 0%R) 3 ltac:(Lia.lia)).
Qed.
Print Assumptions C18_each_variable_example.
