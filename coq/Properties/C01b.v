(* C01 (part b) — Engine output equals the documented inference pipeline, for EVERY activation method.

   Subject: `process` of Model/Engine.v, unchanged (the activation loops of Model/Activation.v run on the mutable engine
   state through `block_ops`).  Specification: Spec/PipelineAll.v (`pipeline_all_outputs`): per enabled block, General /
   First / Last / Threshold as one interleaved walk over the rules, Highest / Lowest / Proportional as "evaluate every
   loaded rule against the block-entry outputs, select, trigger"; no rule records, no `rule_ops`, no heap.
   Properties/C01.v proves the same for General-only engines against Spec/Pipeline.v; `C01_general_case_agrees` says the
   two specifications coincide there.

   Order laws: Highest and Lowest pop a heap of `(key, index)` tuples; that the pops come out in the documented order
   (degree descending / ascending, position ascending) needs `ltb`/`eqb`/`neg` of the numeric reading to be a total order
   on positive degrees (`PosOrder`, ActivationProofs) — proved for binary64 and for R (`_F`, `_R`), and not needed at all
   when no enabled block uses Highest / Lowest (`_heap_free`).
   Formula model: `fe0` (no Function terms — what the correspondence plugs); `_any_formula_model`: every formula model
   that reads only the engine's variables.
   Only statements here; the proofs are in Proofs/EngineAllProofs.v. *)
From Coq Require Import ZArith Bool List String PrimFloat Reals Sorting.Sorted Sorting.Permutation.
From VF Require Import Num NumR NumF GenNorm GenHedge GenTerm Core Antecedent Consequent Cascade Activation Selection Engine Ops
  Pipeline PipelineAll ActivationProofs EngineProofs EngineAllProofs.
Import ListNotations.
Local Open Scope list_scope.

(* ---- 1. the refinement, no restriction on the activation methods *)
Theorem C01_process_refines_pipeline_all : forall (T : Type) (N : Num T), PosOrder N -> forall e : engine T,
  match process fe0 e, pipeline_all_outputs fe0 e with
  | Ok e', Ok outs => e_outputs e' = outs /\ e_inputs e' = e_inputs e
  | Err x, Err y => x = y
  | _, _ => False
  end.
Proof. intros T N. exact (process_refines_pipeline_all fe0 fe0_ext). Qed.
Print Assumptions C01_process_refines_pipeline_all.

(* binary64, every scalar mode / oracle table *)
Theorem C01_process_refines_pipeline_all_F : forall sm tbl (e : engine float),
  match @process float (NumF sm tbl) fe0 e, @pipeline_all_outputs float (NumF sm tbl) fe0 e with
  | Ok e', Ok outs => e_outputs e' = outs /\ e_inputs e' = e_inputs e
  | Err x, Err y => x = y
  | _, _ => False
  end.
Proof. intros sm tbl. exact (process_refines_pipeline_all fe0 fe0_ext (NumF_PosOrder sm tbl)). Qed.
Print Assumptions C01_process_refines_pipeline_all_F.

(* the reals *)
Theorem C01_process_refines_pipeline_all_R : forall e : engine R,
  match @process R NumR fe0 e, @pipeline_all_outputs R NumR fe0 e with
  | Ok e', Ok outs => e_outputs e' = outs /\ e_inputs e' = e_inputs e
  | Err x, Err y => x = y
  | _, _ => False
  end.
Proof. exact (process_refines_pipeline_all fe0 fe0_ext NumR_PosOrder). Qed.
Print Assumptions C01_process_refines_pipeline_all_R.

(* every numeric reading, when no enabled block is Highest / Lowest *)
Theorem C01_process_refines_pipeline_all_heap_free : forall (T : Type) (N : Num T) (e : engine T), heap_free e ->
  match process fe0 e, pipeline_all_outputs fe0 e with
  | Ok e', Ok outs => e_outputs e' = outs /\ e_inputs e' = e_inputs e
  | Err x, Err y => x = y
  | _, _ => False
  end.
Proof. intros T N. exact (process_refines_pipeline_all_heap_free fe0 fe0_ext). Qed.
Print Assumptions C01_process_refines_pipeline_all_heap_free.

Theorem C01_process_refines_pipeline_all_any_formula_model :
  forall (T : Type) (N : Num T) (function_eval : engine T -> fnode T -> list (string * T) -> T -> result T),
  (forall e1 e2 : engine T, e_inputs e1 = e_inputs e2 -> e_outputs e1 = e_outputs e2 -> function_eval e1 = function_eval e2) ->
  PosOrder N -> forall e : engine T,
  match process function_eval e, pipeline_all_outputs function_eval e with
  | Ok e', Ok outs => e_outputs e' = outs /\ e_inputs e' = e_inputs e
  | Err x, Err y => x = y
  | _, _ => False
  end.
Proof. exact @process_refines_pipeline_all. Qed.
Print Assumptions C01_process_refines_pipeline_all_any_formula_model.

(* the same as an equation *)
Theorem C01_process_outputs_eq_pipeline_all : forall (T : Type) (N : Num T) (e : engine T), PosOrder N \/ heap_free e ->
  process_outputs fe0 e = pipeline_all_outputs fe0 e.
Proof. intros T N. exact (process_outputs_eq_pipeline_all fe0 fe0_ext). Qed.
Print Assumptions C01_process_outputs_eq_pipeline_all.

(* with the rule records, and with NO hypothesis: process = the seven loops as pure functions of (rules, outputs) *)
Theorem C01_process_eq_all_spec : forall (T : Type) (N : Num T) (e : engine T), process fe0 e = process_all_spec fe0 e.
Proof. intros T N. exact (process_eq_all_spec fe0 fe0_ext). Qed.
Print Assumptions C01_process_eq_all_spec.

(* ---- 2. one lemma per method: the outputs of the loop on (rules, outputs) are the specification's *)
Theorem C01_block_refines_first : forall (T : Type) (N : Num T) (E : engine T) (b : block T) n t outs,
  EngineProofs.rmap snd (method_run fe0 E (b_conjunction b) (b_disjunction b) (b_implication b) (AFirst n t) (b_rules b) outs)
  = method_contribution fe0 E b (AFirst n t) outs.
Proof. intros T N. exact (block_refines_first fe0). Qed.
Print Assumptions C01_block_refines_first.
Theorem C01_block_refines_last : forall (T : Type) (N : Num T) (E : engine T) (b : block T) n t outs,
  EngineProofs.rmap snd (method_run fe0 E (b_conjunction b) (b_disjunction b) (b_implication b) (ALast n t) (b_rules b) outs)
  = method_contribution fe0 E b (ALast n t) outs.
Proof. intros T N. exact (block_refines_last fe0). Qed.
Print Assumptions C01_block_refines_last.
Theorem C01_block_refines_threshold : forall (T : Type) (N : Num T) (E : engine T) (b : block T) c t outs,
  EngineProofs.rmap snd (method_run fe0 E (b_conjunction b) (b_disjunction b) (b_implication b) (AThreshold c t) (b_rules b) outs)
  = method_contribution fe0 E b (AThreshold c t) outs.
Proof. intros T N. exact (block_refines_threshold fe0). Qed.
Print Assumptions C01_block_refines_threshold.
Theorem C01_block_refines_proportional : forall (T : Type) (N : Num T) (E : engine T) (b : block T) outs,
  EngineProofs.rmap snd (method_run fe0 E (b_conjunction b) (b_disjunction b) (b_implication b) AProportional (b_rules b) outs)
  = method_contribution fe0 E b AProportional outs.
Proof. intros T N. exact (block_refines_proportional fe0). Qed.
Print Assumptions C01_block_refines_proportional.
Theorem C01_block_refines_highest : forall (T : Type) (N : Num T) (E : engine T) (b : block T), PosOrder N -> forall n outs,
  EngineProofs.rmap snd (method_run fe0 E (b_conjunction b) (b_disjunction b) (b_implication b) (AHighest n) (b_rules b) outs)
  = method_contribution fe0 E b (AHighest n) outs.
Proof. intros T N. exact (block_refines_highest fe0). Qed.
Print Assumptions C01_block_refines_highest.
Theorem C01_block_refines_lowest : forall (T : Type) (N : Num T) (E : engine T) (b : block T), PosOrder N -> forall n outs,
  EngineProofs.rmap snd (method_run fe0 E (b_conjunction b) (b_disjunction b) (b_implication b) (ALowest n) (b_rules b) outs)
  = method_contribution fe0 E b (ALowest n) outs.
Proof. intros T N. exact (block_refines_lowest fe0). Qed.
Print Assumptions C01_block_refines_lowest.

(* ---- 3. on General-only engines the new specification is Spec/Pipeline.v *)
Theorem C01_general_case_agrees : forall (T : Type) (N : Num T) (e : engine T), general_only e ->
  pipeline_all_outputs fe0 e = pipeline_outputs fe0 e.
Proof. intros T N. exact (general_case_agrees fe0). Qed.
Print Assumptions C01_general_case_agrees.

(* ---- 4. what a block contributes: exactly what its TRIGGERED candidates add, in trigger order *)
Theorem C01_block_contribution_is_triggered : forall (T : Type) (N : Num T) (E : engine T) (b : block T) outs,
  block_all_contribution fe0 E b outs = (do sel <- block_triggered fe0 E b outs; fire_all b outs sel).
Proof. intros T N. exact (block_contribution_is_triggered fe0). Qed.
Print Assumptions C01_block_contribution_is_triggered.

(* disabled rules contribute nothing: only the ENABLED triggered candidates matter to the fuzzy outputs.
   (A disabled rule IS selected like any other — see C01_disabled_rule_takes_a_place below.) *)
Theorem C01_disabled_rule_contributes_nothing_all : forall (T : Type) (N : Num T) (E : engine T) (b : block T) outs,
  block_all_contribution fe0 E b outs =
  (do sel <- block_triggered fe0 E b outs; fire_all b outs (filter (@cd_enabled T) sel)).
Proof. intros T N. exact (disabled_rule_contributes_nothing_all fe0). Qed.
Print Assumptions C01_disabled_rule_contributes_nothing_all.

Theorem C01_triggered_disabled_rule_adds_nothing : forall (T : Type) (N : Num T) (b : block T) cs d (outs : list (output_var T)),
  fire b false cs d outs = Ok outs.
Proof. intros T N. exact (@fire_disabled T N). Qed.
Print Assumptions C01_triggered_disabled_rule_adds_nothing.

(* a rule that the block's method does not select adds nothing to any fuzzy output: the contribution of the block is
   what the triggered candidates add; each of them is a LOADED rule of the block, at its position, whose degree meets
   the method's criterion; and there are at most n of them under First / Last / Highest / Lowest *)
Theorem C01_unselected_rule_contributes_nothing : forall (T : Type) (N : Num T) (E : engine T) (b : block T) m outs outs',
  b_activation b = Some m -> block_all_contribution fe0 E b outs = Ok outs' ->
  exists sel, block_triggered fe0 E b outs = Ok sel /\ fire_all b outs sel = Ok outs' /\
    at_most m (List.length sel) /\
    forall c, In c sel -> criterion m (cd_degree c) /\
                          exists r, nth_error (b_rules b) (cd_pos c) = Some r /\ of_rule c r.
Proof. intros T N. exact (unselected_rule_contributes_nothing fe0). Qed.
Print Assumptions C01_unselected_rule_contributes_nothing.

(* inside an interleaved walk: a loaded rule that is not selected leaves the outputs as they are *)
Theorem C01_unselected_step : forall (T : Type) (N : Num T) (E : engine T) (b : block T) (A : Type)
    (decide : A -> T -> A * bool) a (outs : list (output_var T)) r rs d,
  rule_loaded r = true -> firing_degree fe0 E b outs r = Ok d -> snd (decide a d) = false ->
  walk fe0 decide E b a outs (r :: rs) = walk fe0 decide E b (fst (decide a d)) outs rs.
Proof. intros T N. exact (walk_unselected_step fe0). Qed.
Print Assumptions C01_unselected_step.

(* ---- 5. Highest / Lowest: the trigger order is THE sorted arrangement of the positive candidates *)
Theorem C01_highest_order_is_arrangement : forall (T : Type) (N : Num T), PosOrder N -> forall cs : list (@candidate T),
  NoDup (map (@cd_pos T) cs) ->
  cand_arrangement before_desc (filter cd_positive cs) (sort_cands before_desc (filter cd_positive cs)).
Proof. exact @sort_cands_is_arrangement_desc. Qed.
Print Assumptions C01_highest_order_is_arrangement.
Theorem C01_lowest_order_is_arrangement : forall (T : Type) (N : Num T), PosOrder N -> forall cs : list (@candidate T),
  NoDup (map (@cd_pos T) cs) ->
  cand_arrangement before_asc (filter cd_positive cs) (sort_cands before_asc (filter cd_positive cs)).
Proof. exact @sort_cands_is_arrangement_asc. Qed.
Print Assumptions C01_lowest_order_is_arrangement.
Theorem C01_highest_order_unique : forall (T : Type) (N : Num T), PosOrder N -> forall l l1 l2 : list (@candidate T),
  cand_arrangement before_desc l l1 -> cand_arrangement before_desc l l2 -> l1 = l2.
Proof. exact @cand_arrangement_unique_desc. Qed.
Print Assumptions C01_highest_order_unique.
Theorem C01_lowest_order_unique : forall (T : Type) (N : Num T), PosOrder N -> forall l l1 l2 : list (@candidate T),
  cand_arrangement before_asc l l1 -> cand_arrangement before_asc l l2 -> l1 = l2.
Proof. exact @cand_arrangement_unique_asc. Qed.
Print Assumptions C01_lowest_order_unique.
(* the candidates of a block do have distinct positions *)
Theorem C01_candidates_distinct_positions : forall (T : Type) (N : Num T) (E : engine T) (b : block T) outs cs,
  candidates fe0 E b outs 0 (b_rules b) = Ok cs -> NoDup (map (@cd_pos T) cs).
Proof. intros T N E b outs cs H. exact (proj1 (candidates_nodup fe0 E b (b_rules b) 0 outs cs H)). Qed.
Print Assumptions C01_candidates_distinct_positions.

(* ---- 5b. what process leaves in the rules: at engine level, for every method.  For the rule at position ri of the
   enabled block bi (`o0`: the contributions of the blocks before it, `sel`: the candidates the block triggers):
   the configuration is unchanged; r_triggered <-> the rule was selected, is enabled and was passed a degree > 0; a
   selected rule holds the degree passed to its consequent (under Proportional the normalised one) *)
Theorem C01_triggered_flag_iff : forall (T : Type) (N : Num T), PosOrder N -> forall (e e' : engine T) bi ri b r,
  process fe0 e = Ok e' ->
  nth_error (e_blocks e) bi = Some b -> b_enabled b = true -> nth_error (b_rules b) ri = Some r ->
  exists o0 sel b' r',
    blocks_all_contribution fe0 e (map clear_fuzzy (e_outputs e)) (firstn bi (e_blocks e)) = Ok o0 /\
    block_triggered fe0 e b o0 = Ok sel /\
    get_rule e' bi ri = Some (b', r') /\
    rule_deactivated r' = rule_deactivated r /\
    (r_triggered r' = true <->
     exists c, In c sel /\ cd_pos c = ri /\ cd_enabled c = true /\ gtb (cd_degree c) zero = true) /\
    (forall c, In c sel -> cd_pos c = ri -> r_degree r' = cd_degree c).
Proof. intros T N. exact (triggered_flag_iff_all fe0 fe0_ext). Qed.
Print Assumptions C01_triggered_flag_iff.

Theorem C01_triggered_flag_iff_F : forall sm tbl (e e' : engine float) bi ri b r,
  @process float (NumF sm tbl) fe0 e = Ok e' ->
  nth_error (e_blocks e) bi = Some b -> b_enabled b = true -> nth_error (b_rules b) ri = Some r ->
  exists o0 sel b' r',
    @blocks_all_contribution float (NumF sm tbl) fe0 e (map clear_fuzzy (e_outputs e)) (firstn bi (e_blocks e)) = Ok o0 /\
    @block_triggered float (NumF sm tbl) fe0 e b o0 = Ok sel /\
    get_rule e' bi ri = Some (b', r') /\
    @rule_deactivated float (NumF sm tbl) r' = @rule_deactivated float (NumF sm tbl) r /\
    (r_triggered r' = true <->
     exists c, In c sel /\ cd_pos c = ri /\ cd_enabled c = true /\ @gtb float (NumF sm tbl) (cd_degree c) (@zero float (NumF sm tbl)) = true) /\
    (forall c, In c sel -> cd_pos c = ri -> r_degree r' = cd_degree c).
Proof. intros sm tbl. exact (triggered_flag_iff_all fe0 fe0_ext (NumF_PosOrder sm tbl)). Qed.
Print Assumptions C01_triggered_flag_iff_F.

(* ---- 6. non-vacuity, on binary64 by computation.
   input x in [0,1] with low = Ramp(1,0), high = Ramp(0,1); output y in [0,1] with small = Triangle(0,.25,.5),
   big = Triangle(.5,.75,1), Maximum aggregation, Centroid(10).
   rule A: if x is low then y is small;  rule B: if x is high then y is big.
   block 0 = [A; B] under First 1 (threshold 0);  block 1 = [A; B] under Highest 1.   At x = 0.75: A has degree 0.25,
   B has 0.75; First 1 triggers A only (General would trigger both), Highest 1 triggers B only. *)
Definition NF : Num float := NumF true [].
Definition exb_input (x : float) : input_var float :=
  {| iv_name := "x"; iv_enabled := true; iv_min := 0%float; iv_max := 1%float; iv_lock_range := false;
     iv_terms := [TShape "low" (Sh_Ramp 1 0 1)%float; TShape "high" (Sh_Ramp 0 1 1)%float]; iv_value := x |}.
Definition exb_output : output_var float :=
  {| ov_name := "y"; ov_enabled := true; ov_min := 0%float; ov_max := 1%float; ov_lock_range := false;
     ov_lock_previous := false; ov_default := PrimFloat.nan;
     ov_aggregation := Some (SN S_Maximum); ov_defuzzifier := Some (DIntegral Centroid 10);
     ov_terms := [TShape "small" (Sh_Triangle 0 0.25 0.5 1)%float; TShape "big" (Sh_Triangle 0.5 0.75 1 1)%float];
     ov_value := PrimFloat.nan; ov_previous := PrimFloat.nan; ov_fuzzy := [] |}.
Definition exb_rule (enabled : bool) (t : nat) : rule float :=
  {| r_enabled := enabled; r_weight := 1%float; r_antecedent := Some (EProp (VIn 0) [] (Some t));
     r_consequent := [{| c_var := 0; c_hedges := []; c_term := t |}]; r_degree := 0%float; r_triggered := false |}.
Definition exb_block (name : string) (m : activation float) (rs : list (rule float)) : block float :=
  {| b_name := name; b_enabled := true; b_conjunction := Some (TN T_Minimum); b_disjunction := Some (SN S_Maximum);
     b_implication := Some (TN T_Minimum); b_activation := Some m; b_rules := rs |}.
Definition exb_engine (x : float) : engine float :=
  {| e_name := "exb"; e_inputs := [exb_input x]; e_outputs := [exb_output];
     e_blocks := [exb_block "first" (AFirst 1 0%float) [exb_rule true 0; exb_rule true 1];
                  exb_block "highest" (AHighest 1) [exb_rule true 0; exb_rule true 1]] |}.

(* not a General-only engine, and it does use the heap *)
Example C01_example_not_general : ~ general_only (exb_engine 0.75) /\ ~ @heap_free float (exb_engine 0.75).
Proof.
  split.
  - intros H. specialize (H _ (or_introl eq_refl) eq_refl). discriminate H.
  - intros H. specialize (H _ (or_intror (or_introl eq_refl)) eq_refl). discriminate H.
Qed.
Print Assumptions C01_example_not_general.

(* process and the specification agree; the fuzzy output holds small@0.25 (First 1 took rule A, not B) and then
   big@0.75 (Highest 1 took rule B, not A); the stored degrees and triggered flags say the same *)
Example C01_example_first_and_highest :
  match @process float NF fe0 (exb_engine 0.75), @pipeline_all_outputs float NF fe0 (exb_engine 0.75) with
  | Ok e', Ok outs =>
      e_outputs e' = outs /\
      map (fun ov => map (fun a => (term_name (a_term a), a_degree a)) (ov_fuzzy ov)) outs
        = [[("small"%string, 0.25%float); ("big"%string, 0.75%float)]] /\
      map (fun ov => PrimFloat.is_nan (ov_value ov)) outs = [false] /\
      map (fun b => map (fun r => (r_degree r, r_triggered r)) (b_rules b)) (e_blocks e')
        = [[(0.25%float, true); (0.75%float, false)]; [(0.25%float, false); (0.75%float, true)]]
  | _, _ => False
  end.
Proof. vm_compute. repeat split; reflexivity. Qed.
Print Assumptions C01_example_first_and_highest.

(* the triggered candidates of the two blocks, from the specification *)
Example C01_example_triggered :
  let e := exb_engine 0.75 in
  match @block_triggered float NF fe0 e (exb_block "first" (AFirst 1 0%float) [exb_rule true 0; exb_rule true 1]) (e_outputs e),
        @block_triggered float NF fe0 e (exb_block "highest" (AHighest 1) [exb_rule true 0; exb_rule true 1]) (e_outputs e) with
  | Ok s1, Ok s2 => map (fun c => (cd_pos c, cd_degree c)) s1 = [(0%nat, 0.25%float)] /\
                    map (fun c => (cd_pos c, cd_degree c)) s2 = [(1%nat, 0.75%float)]
  | _, _ => False
  end.
Proof. vm_compute. split; reflexivity. Qed.
Print Assumptions C01_example_triggered.

(* ---- 7. REFUTED beyond General: "the engine without a disabled rule computes the same outputs"
   (Properties/C01.v, C01_disabled_rule_contributes_nothing, for General-only engines).  Under First 1 a disabled rule
   whose degree qualifies takes the single place: with it nothing fires, without it the next rule does. *)
Definition exb_first_only (rs : list (rule float)) (x : float) : engine float :=
  {| e_name := "exb"; e_inputs := [exb_input x]; e_outputs := [exb_output];
     e_blocks := [exb_block "first" (AFirst 1 0%float) rs] |}.

Theorem C01_disabled_rule_takes_a_place :
  exists (e : engine float) B1 b B2 R1 r R2 outs,
    e_blocks e = B1 ++ b :: B2 /\ b_rules b = R1 ++ r :: R2 /\ r_enabled r = false /\
    @process_outputs float NF fe0 e = Ok outs /\
    map (fun ov => List.length (ov_fuzzy ov)) outs = [0%nat] /\
    exists outs', @process_outputs float NF fe0 (with_blocks e (B1 ++ set_rules b (R1 ++ R2) :: B2)) = Ok outs' /\
                  map (fun ov => List.length (ov_fuzzy ov)) outs' = [1%nat].
Proof.
  exists (exb_first_only [exb_rule false 0; exb_rule true 1] 0.5), [],
         (exb_block "first" (AFirst 1 0%float) [exb_rule false 0; exb_rule true 1]), [], [], (exb_rule false 0), [exb_rule true 1].
  eexists. split; [reflexivity|]. split; [reflexivity|]. split; [reflexivity|].
  split; [vm_compute; reflexivity|]. split; [vm_compute; reflexivity|].
  eexists. split; vm_compute; reflexivity.
Qed.
Print Assumptions C01_disabled_rule_takes_a_place.
