(* C02 — Batch (vectorised) processing equals row-by-row float processing.
   Models: Model/NpLite.v (NumPy values with their shapes: Sc 0-d, Vec 1-d, Mat 2-d; atleast_2d, .T, squeeze,
   broadcasting), Model/Batch.v (Engine.process on input ARRAYS, following the code's shapes; General activation), and
   the reference `process_rows` = the scalar Engine.process of Model/Engine.v folded over the rows, every row starting
   from the engine state left by the previous one.  All proofs live in Proofs/BatchProofs.v.

   Reading guide.
     process_batch e (Mat rows)     engine.input_values = <matrix>; engine.process()            (batch state)
     process_rows e rows            for row in rows: set the inputs as floats; engine.process()  (engine after every row)
     batch_row st i / engine_row e' per output variable: value and fuzzy output (term, degree) of row i / of the engine e'
     r_ok e k                       the batch has ONE row, or every integral defuzzifier has resolution >= 2
     integral_simple e              no Linear term in an output variable that has an integral defuzzifier
     general_only e                 every enabled rule block uses the General activation method
     zero_laws / minmax_laws        closed numeric facts (0+0 = 0, max(0,0) = 0, NaN == NaN is false, numpy.minimum/maximum
                                    propagate NaN) — proved for binary64 below (C02_laws_F)
   The theorems are generic in the numeric reading N: both sides use the SAME reading of `numpy.float64 ** 2`; that the
   implementation's float mode and batch mode agree on it is what the direct oracle of tools/props/C02.py compares.
   Function terms are not modelled on batches (both sides raise the same internal error), value kinds are not modelled.

   FINDING kept visible: without `r_ok` the statement is FALSE of the faithful model (C02_resolution1_refuted): at
   resolution 1 Activated.membership's `.squeeze()` turns the (k,1) matrix into a (k,) vector which the defuzzifier
   reads as ONE row of k samples — recorded finding batch:resolution-1. *)
From Coq Require Import ZArith Bool List String PrimFloat.
From VF Require Import Num NumF GenNorm GenHedge GenTerm Core NpSum NpLite Defuzz Cascade Weighted Engine Pipeline CascadeProofs
  Batch BatchProofs.
Import ListNotations.
Local Notation length := List.length.
Local Open Scope list_scope.

(* ---- the numeric laws are inhabited by binary64, whatever the mode (scalar / array) and the oracle table *)
Theorem C02_laws_F : forall m t, @zero_laws float (NumF m t) /\ minmax_laws (NumF m t).
Proof. exact (fun m t => conj (NumF_zero_laws m t) (NumF_minmax m t)). Qed.
Print Assumptions C02_laws_F.

(* ==================================================================================================== *)
(* The composed statement: outputs of the batch = the rows one after the other, carrying value / previous
   value from row to row; and neither side raises on inputs the other accepts (same exception).           *)
Theorem C02_batch_eq_rows : forall (T : Type) (N : Num T) (e : engine T) (rows : list (list T)),
  e_inputs e <> [] -> rows <> [] -> rect_rows (length (e_inputs e)) rows ->
  general_only e -> integral_simple e -> r_ok e (length rows) ->
  @zero_laws T N -> minmax_laws N ->
  match process_batch e (Mat rows) with
  | Ok st => exists es, process_rows e rows = Ok es /\ length es = length rows /\
                        forall i, i < length rows -> batch_row st i = engine_row (nth i es e)
  | Err x => process_rows e rows = Err x
  end.
Proof. exact @batch_eq_rows. Qed.
Print Assumptions C02_batch_eq_rows.

(* the instance that the correspondence executes *)
Theorem C02_batch_eq_rows_F : forall m t (e : engine float) (rows : list (list float)),
  e_inputs e <> [] -> rows <> [] -> rect_rows (length (e_inputs e)) rows ->
  general_only e -> integral_simple e -> r_ok e (length rows) ->
  match @process_batch float (NumF m t) e (Mat rows) with
  | Ok st => exists es, @process_rows float (NumF m t) e rows = Ok es /\ length es = length rows /\
                        forall i, i < length rows -> @batch_row float (NumF m t) st i = engine_row (nth i es e)
  | Err x => @process_rows float (NumF m t) e rows = Err x
  end.
Proof.
  intros m t e rows H1 H2 H3 H4 H5 H6.
  exact (@batch_eq_rows float (NumF m t) e rows H1 H2 H3 H4 H5 H6 (NumF_zero_laws m t) (NumF_minmax m t)).
Qed.
Print Assumptions C02_batch_eq_rows_F.

(* the other ways of giving a batch are the matrix form: the 0-d and 1-d forms of the Engine.input_values setter ... *)
Theorem C02_process_batch_shapes : forall (T : Type) (N : Num T) (e : engine T),
  let n := length (e_inputs e) in
  (forall x, process_batch e (Sc x) = process_batch e (Mat [repeat x n])) /\
  (forall l, n = 1 -> process_batch e (Vec l) = process_batch e (Mat (map (fun x => [x]) l))) /\
  (forall l, n <> 1 -> process_batch e (Vec l) = process_batch e (Mat [l])).
Proof. exact @process_batch_shapes. Qed.
Print Assumptions C02_process_batch_shapes.

(* ... and per-variable arrays `iv.value = column` *)
Theorem C02_process_batch_vars : forall (T : Type) (N : Num T) (e : engine T) (rows : list (list T)),
  e_inputs e <> [] -> rows <> [] -> rect_rows (length (e_inputs e)) rows ->
  process_batch_vars e (map (@Vec T) (cols_of nan (length (e_inputs e)) rows)) = process_batch e (Mat rows).
Proof. exact @process_batch_vars_matrix. Qed.
Print Assumptions C02_process_batch_vars.

(* ==================================================================================================== *)
(* Components.                                                                                           *)

(* Activated.membership on a batch: for r >= 2 sample points or k = 1 row, the squeezed outer product has, as its
   rows, the per-row implications  [imp d_i (mu x_1); ...; imp d_i (mu x_r)] *)
Theorem C02_activated_membership_batch : forall (T : Type) (N : Num T) (st : bstate T) (a : bactivated T) name s imp (ds xs : list T),
  ba_term a = TShape name s -> ba_implication a = Some imp -> ba_degree a = Vec ds ->
  (2 <= length xs \/ length ds = 1) ->
  exists y, activated_membership_b st a (Mat [xs]) = Ok y /\
            rows_of y = map (fun d => map (fun x => tnormx_compute imp d (shape_membership s x)) xs) ds.
Proof. exact @activated_membership_batch. Qed.
Print Assumptions C02_activated_membership_batch.

(* ... and at r = 1 with k >= 2 rows the result is ONE row of k values: not k rows *)
Theorem C02_activated_membership_resolution1_refuted : forall (T : Type) (N : Num T) (st : bstate T) (a : bactivated T) name s imp (ds : list T) (x : T),
  ba_term a = TShape name s -> ba_implication a = Some imp -> ba_degree a = Vec ds -> 2 <= length ds ->
  exists y, activated_membership_b st a (Mat [[x]]) = Ok y /\
            rows_of y = [map (fun d => tnormx_compute imp d (shape_membership s x)) ds] /\
            length (rows_of y) <> length ds.
Proof. exact @activated_membership_resolution1. Qed.
Print Assumptions C02_activated_membership_resolution1_refuted.

(* Aggregated.membership: the fold of the aggregation operator on matrices is, row by row, the scalar fold at every
   sample point (`yrow i xs y` = row i of y, a 0-d value standing for a constant row, a (r,) vector for one row common
   to all batch rows) *)
Theorem C02_aggregated_membership_batch : forall (T : Type) (N : Num T) e ins k i st E,
  @row_ctx T N e ins k i st E ->
  forall (xs : list T) agg fz (ov : output_var T),
  xs <> [] -> (2 <= length xs \/ k = 1) -> fzshape k fz -> fzsimple fz ->
  ov_fuzzy ov = map (proj_act i) fz -> ov_aggregation ov = agg ->
  match aggregated_membership_b st agg fz (Mat [xs]) with
  | Ok y => yok k xs y /\ mapM_ (aggregated_membership no_function E ov) xs = Ok (yrow i xs y)
  | Err er => mapM_ (aggregated_membership no_function E ov) xs = Err er
  end.
Proof. exact @aggregated_membership_batch. Qed.
Print Assumptions C02_aggregated_membership_batch.

(* integral defuzzifiers: one result per row *)
Theorem C02_defuzz_batch_rows : forall (T : Type) (N : Num T) e ins k i st E,
  @row_ctx T N e ins k i st E -> @zero_laws T N ->
  forall kd res fz (ov : output_var T),
  fzshape k fz -> fzsimple fz -> (2 <= res \/ k = 1) -> ov_fuzzy ov = map (proj_act i) fz ->
  match integral_defuzzify_b st kd res (ov_min ov) (ov_max ov) (ov_aggregation ov) fz with
  | Ok a => rowshape k a /\ defuzzifier_value no_function E ov (DIntegral kd res) = Ok (aget nan a i)
  | Err er => defuzzifier_value no_function E ov (DIntegral kd res) = Err er
  end.
Proof. exact @defuzz_batch_rows. Qed.
Print Assumptions C02_defuzz_batch_rows.

(* weighted defuzzifiers, elementwise on the degree vectors *)
Theorem C02_weighted_batch_rows : forall (T : Type) (N : Num T) e ins k i st E,
  @row_ctx T N e ins k i st E ->
  forall average ty agg fz, fzshape k fz ->
  match weighted_defuzzify_b st average ty agg fz with
  | Ok a => rowshape k a /\
            weighted_defuzzify (term_membership no_function E) term_tsukamoto average ty agg (map (proj_act i) fz) = Ok (aget nan a i)
  | Err er => weighted_defuzzify (term_membership no_function E) term_tsukamoto average ty agg (map (proj_act i) fz) = Err er
  end.
Proof. exact @weighted_batch_rows. Qed.
Print Assumptions C02_weighted_batch_rows.

(* the lock-previous / default / lock-range cascade on a k-vector = the one-element cascade folded over the rows *)
Theorem C02_cascade_batch_rows : forall (T : Type) (N : Num T) (F : Type), minmax_laws N ->
  forall (c : cascade_cfg T) (ds : list T) (st : cstate T F),
  callable c -> cs_value st <> [] -> ds <> [] ->
  fst (fst (run_calls c (map (fun d => [d]) ds) st)) = cs_value (fst (defuzzify_step c (Ok ds) st)) /\
  snd (run_calls c (map (fun d => [d]) ds) st) = None /\
  snd (defuzzify_step c (Ok ds) st) = None.
Proof. exact @cascade_batch_rows. Qed.
Print Assumptions C02_cascade_batch_rows.

(* Engine.input_values: the setter on a k x n matrix gives every variable its column (through the clipping setter) ... *)
Theorem C02_input_values_set_matrix : forall (T : Type) (N : Num T) (e : engine T) (rows : list (list T)),
  e_inputs e <> [] -> rows <> [] -> rect_rows (length (e_inputs e)) rows ->
  input_values_set e (Mat rows) = Ok (batch_inputs e rows).
Proof. exact @input_values_set_matrix. Qed.
Print Assumptions C02_input_values_set_matrix.

(* ... its 0-d form sets the same value everywhere, its 1-d form is a column when there is exactly ONE input variable and
   one row otherwise, a wrong number of columns is a ValueError, no input variable a RuntimeError ... *)
Theorem C02_input_values_set_shapes : forall (T : Type) (N : Num T) (e : engine T),
  let n := length (e_inputs e) in
  (forall x, input_values_set e (Sc x) = input_values_set e (Mat [repeat x n])) /\
  (forall l, n = 1 -> input_values_set e (Vec l) = input_values_set e (Mat (map (fun x => [x]) l))) /\
  (forall l, n <> 1 -> input_values_set e (Vec l) = input_values_set e (Mat [l])) /\
  (forall rows, n <> 0 -> ncols rows <> n -> input_values_set e (Mat rows) = Err EValue) /\
  (forall values, n = 0 -> input_values_set e values = Err ERuntime).
Proof. exact @input_values_set_shapes. Qed.
Print Assumptions C02_input_values_set_shapes.

(* ... and the getter returns the matrix that was set (clipped where a variable locks its range) *)
Theorem C02_input_values_setter_getter : forall (T : Type) (N : Num T) (e : engine T) (rows : list (list T)),
  e_inputs e <> [] -> rows <> [] -> rect_rows (length (e_inputs e)) rows ->
  (forall iv, In iv (e_inputs e) -> iv_lock_range iv = false) ->
  exists ins, input_values_set e (Mat rows) = Ok ins /\ stack_values ins = Ok (Mat rows).
Proof. exact @input_values_setter_getter. Qed.
Print Assumptions C02_input_values_setter_getter.

Theorem C02_input_values_get_set_clipped : forall (T : Type) (N : Num T) (e : engine T) (rows : list (list T)),
  e_inputs e <> [] -> rows <> [] -> rect_rows (length (e_inputs e)) rows ->
  stack_values (batch_inputs e rows) = Ok (Mat (clip_rows e rows)).
Proof. exact @input_values_get_set. Qed.
Print Assumptions C02_input_values_get_set_clipped.

(* ==================================================================================================== *)
(* Non-vacuity over binary64 (array mode, no transcendental function involved: empty oracle table).       *)
Local Notation NF := (NumF false []).
Local Open Scope float_scope.

(* inputs a in [0,1] (lo = Triangle -1 0 1, hi = Ramp 0 1), b in [0,4] with lock-range (mid = Triangle 0 2 4);
   outputs x in [0,8]: Centroid(4), lock-previous, terms p = Triangle 0 2 4, q = Triangle 4 6 8, Maximum;
           y in [-1,1]: WeightedAverage, default 0.25, lock-range, terms c0 = Constant -0.5, c1 = Constant 2;
   Larsen block (AlgebraicProduct implication):
     if a is lo and b is mid then x is p and y is c0
     if a is very hi or x is p then x is very q with 0.5        (reads the fuzzy output accumulated so far)
     if b is not mid then y is c1 *)
Definition ex_engine (resolution : nat) : engine float :=
  Build_engine "ex"
    [Build_input_var "a" true 0 1 false [TShape "lo" (Sh_Triangle (-1) 0 1 1); TShape "hi" (Sh_Ramp 0 1 1)] PrimFloat.nan;
     Build_input_var "b" true 0 4 true [TShape "mid" (Sh_Triangle 0 2 4 1)] PrimFloat.nan]
    [Build_output_var "x" true 0 8 false true PrimFloat.nan (Some (SN S_Maximum)) (Some (DIntegral Centroid resolution))
       [TShape "p" (Sh_Triangle 0 2 4 1); TShape "q" (Sh_Triangle 4 6 8 1)] PrimFloat.nan PrimFloat.nan [];
     Build_output_var "y" true (-1) 1 true false 0.25 (Some (SN S_Maximum)) (Some (DWeighted true WAutomatic))
       [TShape "c0" (Sh_Constant (-0.5)); TShape "c1" (Sh_Constant 2)] PrimFloat.nan PrimFloat.nan []]
    [Build_block "rb" true (Some (TN T_Minimum)) (Some (SN S_Maximum)) (Some (TN T_AlgebraicProduct)) (Some AGeneral)
       [Build_rule true 1 (Some (EOp true (EProp (VIn 0) [] (Some 0%nat)) (EProp (VIn 1) [] (Some 0%nat))))
          [Build_conclusion 0 [] 0; Build_conclusion 1 [] 0] 0 false;
        Build_rule true 0.5 (Some (EOp false (EProp (VIn 0) [HG H_Very] (Some 1%nat)) (EProp (VOut 0) [] (Some 0%nat))))
          [Build_conclusion 0 [HG H_Very] 1] 0 false;
        Build_rule true 1 (Some (EProp (VIn 1) [HG H_Not] (Some 0%nat))) [Build_conclusion 1 [] 1] 0 false]].

(* three rows: an ordinary one, one with a NaN input (x keeps the previous row's value through lock-previous; y falls on
   c1 = 2 and is clipped to 1), one with b = 5 out of range (clipped to 4 by the input's lock-range) *)
Definition ex_rows : list (list float) := [[0.25; 2]; [PrimFloat.nan; 1]; [0.75; 5]].

(* the hypotheses of C02_batch_eq_rows_F are met ... *)
Example C02_example_hypotheses :
  e_inputs (ex_engine 4) <> [] /\ ex_rows <> [] /\ rect_rows (length (e_inputs (ex_engine 4))) ex_rows /\
  general_only (ex_engine 4) /\ integral_simple (ex_engine 4) /\ r_ok (ex_engine 4) (length ex_rows).
Proof.
  split; [discriminate|]. split; [discriminate|]. split; [repeat constructor|].
  split; [intros b [<-|[]] _; reflexivity|].
  split.
  - intros ov kd res [<-|[<-|[]]] H; cbn in H; [|discriminate]. repeat constructor.
  - right. intros ov kd res [<-|[<-|[]]] H; cbn in H; [|discriminate]. injection H as _ <-. repeat constructor.
Qed.
Print Assumptions C02_example_hypotheses.

(* ... and both sides evaluate to the same non-trivial rows (values and fuzzy outputs): x = 50/19 = 2.63..., carried over
   the NaN row, then 6; y = -0.5, then 2 clipped to 1 (twice) *)
Definition show (r : result (list (list (float * list (string * float))))) :=
  match r with Ok l => map (map (fun p => (fst p, map snd (snd p)))) l | Err _ => [] end.
Example C02_example_values :
  show (match @process_batch float NF (ex_engine 4) (Mat ex_rows) with Ok st => Ok (@batch_rows float NF 3 st) | Err x => Err x end)
  = [ [(0x1.50d79435e50d8p+1, [0.75; 0.140625]); (-0.5, [0.75; 0])];
      [(0x1.50d79435e50d8p+1, [0; 0]);           (1, [0; 0.5])];
      [(6, [0; 0.0791015625]);                   (1, [0; 1])] ]
  /\ show (match @process_rows float NF (ex_engine 4) ex_rows with Ok es => Ok (map engine_row es) | Err x => Err x end)
  = [ [(0x1.50d79435e50d8p+1, [0.75; 0.140625]); (-0.5, [0.75; 0])];
      [(0x1.50d79435e50d8p+1, [0; 0]);           (1, [0; 0.5])];
      [(6, [0; 0.0791015625]);                   (1, [0; 1])] ].
Proof. split; vm_compute; reflexivity. Qed.
Print Assumptions C02_example_values.

(* the per-variable way of giving the same batch, and the 1-d / 0-d forms on a one-row batch *)
Example C02_example_vars :
  match @process_batch_vars float NF (ex_engine 4) [Vec [0.25; PrimFloat.nan; 0.75]; Vec [2; 1; 5]],
        @process_batch float NF (ex_engine 4) (Mat ex_rows) with
  | Ok s1, Ok s2 => @batch_rows float NF 3 s1 = @batch_rows float NF 3 s2
  | _, _ => False
  end.
Proof. vm_compute. reflexivity. Qed.
Print Assumptions C02_example_vars.

(* exceptions agree: without an implication operator both sides raise ValueError *)
Definition ex_engine_noimp : engine float :=
  let e := ex_engine 4 in
  Build_engine "ex" (e_inputs e) (e_outputs e)
    (map (fun b => Build_block (b_name b) true (b_conjunction b) (b_disjunction b) None (b_activation b) (b_rules b)) (e_blocks e)).
Example C02_example_exception :
  match @process_batch float NF ex_engine_noimp (Mat ex_rows), @process_rows float NF ex_engine_noimp ex_rows with
  | Err x, Err y => x = EValue /\ y = EValue
  | _, _ => False
  end.
Proof. vm_compute. split; reflexivity. Qed.
Print Assumptions C02_example_exception.

(* ---- the recorded finding, kernel-checked: at resolution 1 the composed statement fails.
   One input a (lo = Triangle -1 0 1), one output x in [0,4] (p = Triangle 0 2 4), Centroid(1), `if a is lo then x is p`;
   rows a = 0.5 and a = 1: as floats x = 2 and then NaN (degree 0); as a batch the two degrees [0.5, 0] are read as TWO
   SAMPLES of one row and x = 2 for both rows. *)
Definition r1_engine : engine float :=
  Build_engine "r1"
    [Build_input_var "a" true 0 1 false [TShape "lo" (Sh_Triangle (-1) 0 1 1)] PrimFloat.nan]
    [Build_output_var "x" true 0 4 false false PrimFloat.nan (Some (SN S_Maximum)) (Some (DIntegral Centroid 1))
       [TShape "p" (Sh_Triangle 0 2 4 1)] PrimFloat.nan PrimFloat.nan []]
    [Build_block "rb" true (Some (TN T_Minimum)) (Some (SN S_Maximum)) (Some (TN T_Minimum)) (Some AGeneral)
       [Build_rule true 1 (Some (EProp (VIn 0) [] (Some 0%nat))) [Build_conclusion 0 [] 0] 0 false]].
Definition r1_rows : list (list float) := [[0.5]; [1]].

Theorem C02_resolution1_refuted :
  (* every hypothesis of C02_batch_eq_rows_F except r_ok ... *)
  e_inputs r1_engine <> [] /\ r1_rows <> [] /\ rect_rows (length (e_inputs r1_engine)) r1_rows /\
  general_only r1_engine /\ integral_simple r1_engine /\
  (* ... and the conclusion fails: row 1 of the batch holds 2, the second row processed as a float gives NaN *)
  exists st es, @process_batch float NF r1_engine (Mat r1_rows) = Ok st /\ @process_rows float NF r1_engine r1_rows = Ok es /\
                map fst (@batch_row float NF st 1) = [2] /\ map fst (engine_row (nth 1 es r1_engine)) = [PrimFloat.nan] /\
                @batch_row float NF st 1 <> engine_row (nth 1 es r1_engine).
Proof.
  split; [discriminate|]. split; [discriminate|]. split; [repeat constructor|].
  split; [intros b [<-|[]] _; reflexivity|].
  split; [intros ov kd res [<-|[]] _; repeat constructor|].
  destruct (@process_batch float NF r1_engine (Mat r1_rows)) as [st|] eqn:Hb; [|vm_compute in Hb; discriminate].
  destruct (@process_rows float NF r1_engine r1_rows) as [es|] eqn:Hr; [|vm_compute in Hr; discriminate].
  exists st, es. split; [reflexivity|]. split; [reflexivity|].
  vm_compute in Hb. injection Hb as <-. vm_compute in Hr. injection Hr as <-.
  split; [vm_compute; reflexivity|]. split; [vm_compute; reflexivity|].
  intros H. apply (f_equal (fun l => match l with (v, _) :: _ => PrimFloat.is_nan v | [] => false end)) in H.
  vm_compute in H. discriminate.
Qed.
Print Assumptions C02_resolution1_refuted.
