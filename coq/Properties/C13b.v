(* C13 (part b) — Processing is history-free, for EVERY activation method.

   The theorems of Properties/C13.v about `process` (history-freedom, idempotence, structure preservation) without the
   hypothesis `general_only`.  They follow from the refinement of Properties/C01b.v the way the old ones follow from C01:
   the specification Spec/PipelineAll.v reads the inputs, the structure and — lock-previous being off — nothing of the
   old values, previous values, fuzzy outputs, stored degrees or triggered flags.
   `order_ok e` = the order laws `PosOrder` hold of the numeric reading, or no enabled block uses Highest / Lowest
   (only those need them); it holds of every binary64 and real engine (`_F`, `_R`).
   `same_structure`, `no_lock_previous`, `ov_same_result`, `enabled_values`: Proofs/EngineProofs.v (as in C13.v).
   Only statements here; the proofs are in Proofs/EngineAllProofs.v. *)
From Coq Require Import ZArith Bool List String PrimFloat Reals.
From VF Require Import Num NumR NumF GenNorm GenHedge GenTerm Core Antecedent Consequent Cascade Activation Selection Engine Ops
  Pipeline PipelineAll ActivationProofs EngineProofs EngineAllProofs.
Import ListNotations.
Local Open Scope list_scope.

(* ---- 1. history-freedom *)
Theorem C13_history_free_all : forall (T : Type) (N : Num T) (e1 e2 : engine T),
  order_ok e1 -> no_lock_previous e1 -> same_structure e1 e2 -> e_inputs e1 = e_inputs e2 ->
  res_rel (fun a b => Forall2 ov_same_result (e_outputs a) (e_outputs b)) (process fe0 e1) (process fe0 e2).
Proof. intros T N. exact (history_free_all fe0 fe0_no_output_values). Qed.
Print Assumptions C13_history_free_all.

Theorem C13_history_free_all_F : forall sm tbl (e1 e2 : engine float),
  @no_lock_previous float e1 -> @same_structure float (NumF sm tbl) e1 e2 -> e_inputs e1 = e_inputs e2 ->
  res_rel (fun a b => Forall2 (@ov_same_result float (NumF sm tbl)) (e_outputs a) (e_outputs b))
          (@process float (NumF sm tbl) fe0 e1) (@process float (NumF sm tbl) fe0 e2).
Proof. intros sm tbl e1 e2. exact (history_free_all fe0 fe0_no_output_values e1 e2 (or_introl (NumF_PosOrder sm tbl))). Qed.
Print Assumptions C13_history_free_all_F.

Theorem C13_history_free_all_R : forall e1 e2 : engine R,
  @no_lock_previous R e1 -> @same_structure R NumR e1 e2 -> e_inputs e1 = e_inputs e2 ->
  res_rel (fun a b => Forall2 (@ov_same_result R NumR) (e_outputs a) (e_outputs b))
          (@process R NumR fe0 e1) (@process R NumR fe0 e2).
Proof. intros e1 e2. exact (history_free_all fe0 fe0_no_output_values e1 e2 (or_introl NumR_PosOrder)). Qed.
Print Assumptions C13_history_free_all_R.

Theorem C13_history_free_values_all : forall (T : Type) (N : Num T) (e1 e2 : engine T),
  order_ok e1 -> no_lock_previous e1 -> same_structure e1 e2 -> e_inputs e1 = e_inputs e2 ->
  res_rel (fun a b => enabled_values (e_outputs a) = enabled_values (e_outputs b) /\
                      map (@ov_fuzzy T) (e_outputs a) = map (@ov_fuzzy T) (e_outputs b))
          (process fe0 e1) (process fe0 e2).
Proof. intros T N. exact (history_free_values_all fe0 fe0_no_output_values). Qed.
Print Assumptions C13_history_free_values_all.

Theorem C13_history_free_all_any_formula_model :
  forall (T : Type) (N : Num T) (function_eval : engine T -> fnode T -> list (string * T) -> T -> result T),
  (forall e1 e2 : engine T, e_inputs e1 = e_inputs e2 -> map ov_static (e_outputs e1) = map ov_static (e_outputs e2) ->
                            function_eval e1 = function_eval e2) ->
  forall e1 e2 : engine T,
  order_ok e1 -> no_lock_previous e1 -> same_structure e1 e2 -> e_inputs e1 = e_inputs e2 ->
  res_rel (fun a b => Forall2 ov_same_result (e_outputs a) (e_outputs b)) (process function_eval e1) (process function_eval e2).
Proof. exact @history_free_all. Qed.
Print Assumptions C13_history_free_all_any_formula_model.

(* ---- 2. processing twice: the second run succeeds and reproduces every value and every fuzzy output *)
Theorem C13_process_idempotent_strong_all : forall (T : Type) (N : Num T) (e e1 : engine T),
  order_ok e -> no_lock_previous e -> process fe0 e = Ok e1 ->
  exists e2, process fe0 e1 = Ok e2 /\
             Forall2 (fun a b => ov_ev a = ov_ev b /\ ov_value a = ov_value b) (e_outputs e1) (e_outputs e2).
Proof. intros T N. exact (process_idempotent_strong_all fe0 fe0_no_output_values). Qed.
Print Assumptions C13_process_idempotent_strong_all.

Theorem C13_process_idempotent_all : forall (T : Type) (N : Num T) (e e1 e2 : engine T),
  order_ok e -> no_lock_previous e -> process fe0 e = Ok e1 -> process fe0 e1 = Ok e2 ->
  map (@ov_value T) (e_outputs e2) = map (@ov_value T) (e_outputs e1) /\
  map (@ov_fuzzy T) (e_outputs e2) = map (@ov_fuzzy T) (e_outputs e1).
Proof. intros T N. exact (process_idempotent_all fe0 fe0_no_output_values). Qed.
Print Assumptions C13_process_idempotent_all.

Theorem C13_process_idempotent_all_F : forall sm tbl (e e1 e2 : engine float),
  @no_lock_previous float e -> @process float (NumF sm tbl) fe0 e = Ok e1 -> @process float (NumF sm tbl) fe0 e1 = Ok e2 ->
  map (@ov_value float) (e_outputs e2) = map (@ov_value float) (e_outputs e1) /\
  map (@ov_fuzzy float) (e_outputs e2) = map (@ov_fuzzy float) (e_outputs e1).
Proof. intros sm tbl e e1 e2. exact (process_idempotent_all fe0 fe0_no_output_values e e1 e2 (or_introl (NumF_PosOrder sm tbl))). Qed.
Print Assumptions C13_process_idempotent_all_F.

Theorem C13_process_idempotent_all_R : forall e e1 e2 : engine R,
  @no_lock_previous R e -> @process R NumR fe0 e = Ok e1 -> @process R NumR fe0 e1 = Ok e2 ->
  map (@ov_value R) (e_outputs e2) = map (@ov_value R) (e_outputs e1) /\
  map (@ov_fuzzy R) (e_outputs e2) = map (@ov_fuzzy R) (e_outputs e1).
Proof. intros e e1 e2. exact (process_idempotent_all fe0 fe0_no_output_values e e1 e2 (or_introl NumR_PosOrder)). Qed.
Print Assumptions C13_process_idempotent_all_R.

(* ---- 3. process changes state only: the structure and the inputs stay *)
Theorem C13_process_preserves_structure_all : forall (T : Type) (N : Num T) (e e' : engine T),
  order_ok e -> process fe0 e = Ok e' -> same_structure e e' /\ e_inputs e' = e_inputs e.
Proof. intros T N. exact (process_preserves_structure_all fe0 fe0_no_output_values). Qed.
Print Assumptions C13_process_preserves_structure_all.

(* the rule blocks keep everything but stored degrees and triggered flags — no hypothesis at all *)
Theorem C13_process_keeps_rule_blocks : forall (T : Type) (N : Num T) (e e' : engine T), process fe0 e = Ok e' ->
  map (@block_deactivated T N) (e_blocks e') = map (@block_deactivated T N) (e_blocks e) /\ e_name e' = e_name e.
Proof. intros T N. exact (process_blocks_structure fe0). Qed.
Print Assumptions C13_process_keeps_rule_blocks.

(* a disabled output variable keeps value and previous value, whatever the methods *)
Theorem C13_disabled_variable_untouched_all : forall (T : Type) (N : Num T) (e e' : engine T) i ov,
  order_ok e -> process fe0 e = Ok e' ->
  nth_error (e_outputs e) i = Some ov -> ov_enabled ov = false ->
  nth_error (e_outputs e') i = Some (clear_fuzzy ov).
Proof. intros T N. exact (disabled_variable_untouched_all fe0 fe0_no_output_values). Qed.
Print Assumptions C13_disabled_variable_untouched_all.

(* ---- 4. non-vacuity, on binary64 by computation: a First 1 block followed by a Highest 1 block (selection matters:
   at x = 0.75 First 1 takes the rule of degree 0.25, Highest 1 the rule of degree 0.75), lock-previous off *)
Definition NF : Num float := NumF true [].
Definition exh_input (x : float) : input_var float :=
  {| iv_name := "x"; iv_enabled := true; iv_min := 0%float; iv_max := 1%float; iv_lock_range := false;
     iv_terms := [TShape "low" (Sh_Ramp 1 0 1)%float; TShape "high" (Sh_Ramp 0 1 1)%float]; iv_value := x |}.
Definition exh_output : output_var float :=
  {| ov_name := "y"; ov_enabled := true; ov_min := 0%float; ov_max := 1%float; ov_lock_range := false;
     ov_lock_previous := false; ov_default := PrimFloat.nan;
     ov_aggregation := Some (SN S_Maximum); ov_defuzzifier := Some (DIntegral Centroid 10);
     ov_terms := [TShape "small" (Sh_Triangle 0 0.25 0.5 1)%float; TShape "big" (Sh_Triangle 0.5 0.75 1 1)%float];
     ov_value := PrimFloat.nan; ov_previous := PrimFloat.nan; ov_fuzzy := [] |}.
Definition exh_rule (t : nat) : rule float :=
  {| r_enabled := true; r_weight := 1%float; r_antecedent := Some (EProp (VIn 0) [] (Some t));
     r_consequent := [{| c_var := 0; c_hedges := []; c_term := t |}]; r_degree := 0%float; r_triggered := false |}.
Definition exh_block (name : string) (m : activation float) : block float :=
  {| b_name := name; b_enabled := true; b_conjunction := Some (TN T_Minimum); b_disjunction := Some (SN S_Maximum);
     b_implication := Some (TN T_Minimum); b_activation := Some m; b_rules := [exh_rule 0; exh_rule 1] |}.
Definition exh_engine (x : float) : engine float :=
  {| e_name := "exh"; e_inputs := [exh_input x]; e_outputs := [exh_output];
     e_blocks := [exh_block "first" (AFirst 1 0%float); exh_block "highest" (AHighest 1)] |}.
(* the state left by an earlier step on another input, with the inputs of the new step *)
Definition exh_used (x0 x : float) : engine float :=
  match @process float NF fe0 (exh_engine x0) with
  | Ok e => @set_inputs float NF e [x]
  | Err _ => exh_engine x
  end.

(* the hypotheses hold of a fresh engine and a used one whose states differ (values, fuzzy outputs, stored degrees) *)
Example C13_example_hypotheses_all :
  ~ general_only (exh_engine 0.75) /\ @order_ok float NF (exh_engine 0.75) /\ @no_lock_previous float (exh_engine 0.75) /\
  @same_structure float NF (exh_engine 0.75) (exh_used 0.25 0.75) /\
  e_inputs (exh_engine 0.75) = e_inputs (exh_used 0.25 0.75) /\
  map (fun ov => PrimFloat.is_nan (ov_value ov)) (e_outputs (exh_used 0.25 0.75)) = [false] /\
  map (fun ov => List.length (ov_fuzzy ov)) (e_outputs (exh_used 0.25 0.75)) = [2%nat] /\
  map (fun b => map (fun r => (r_degree r, r_triggered r)) (b_rules b)) (e_blocks (exh_used 0.25 0.75))
    = [[(0.75%float, true); (0.25%float, false)]; [(0.75%float, true); (0.25%float, false)]].
Proof.
  split; [intros H; specialize (H _ (or_introl eq_refl) eq_refl); discriminate H|].
  split; [left; exact (NumF_PosOrder true [])|]. split; [intros ov [<- | []]; reflexivity|].
  vm_compute. repeat split; reflexivity.
Qed.
Print Assumptions C13_example_hypotheses_all.

(* and the two runs give the same value and the same fuzzy output: small@0.25 then big@0.75 *)
Example C13_example_history_free_all :
  match @process float NF fe0 (exh_engine 0.75), @process float NF fe0 (exh_used 0.25 0.75) with
  | Ok a, Ok b => map (@ov_value float) (e_outputs a) = map (@ov_value float) (e_outputs b) /\
                  map (@ov_fuzzy float) (e_outputs a) = map (@ov_fuzzy float) (e_outputs b) /\
                  map (fun ov => PrimFloat.is_nan (ov_value ov)) (e_outputs a) = [false] /\
                  map (fun ov => map (fun t => (term_name (a_term t), a_degree t)) (ov_fuzzy ov)) (e_outputs a)
                    = [[("small"%string, 0.25%float); ("big"%string, 0.75%float)]]
  | _, _ => False
  end.
Proof. vm_compute. repeat split; reflexivity. Qed.
Print Assumptions C13_example_history_free_all.

(* processing the processed engine again reproduces the values *)
Example C13_example_idempotent_all :
  match @process float NF fe0 (exh_engine 0.75) with
  | Ok e1 => match @process float NF fe0 e1 with
             | Ok e2 => map (@ov_value float) (e_outputs e2) = map (@ov_value float) (e_outputs e1) /\
                        map (@ov_fuzzy float) (e_outputs e2) = map (@ov_fuzzy float) (e_outputs e1)
             | Err _ => False
             end
  | Err _ => False
  end.
Proof. vm_compute. split; reflexivity. Qed.
Print Assumptions C13_example_idempotent_all.
