(* C11 — Tsukamoto values invert the monotonic membership functions.
   The generated kernels of fuzzylite/term.py (Gen/GenTerm.v), read over R: for the six monotonic terms
   (Arc, Concave, Ramp, Sigmoid, SShape, ZShape), valid parameters and every 0 < y < height,
   membership (tsukamoto y) = y; tsukamoto is monotone in y in the direction of the term; the value lies
   in the support of the edge; array arguments (lists) are handled elementwise; the generated table of
   tsukamoto overrides coincides with the generated table of is_monotonic (every other term refuses).
   "Valid": Arc/Ramp start <> end (start < end increasing, start > end decreasing); Concave
   inflection <> end (inflection < end increasing); Sigmoid slope <> 0 (slope > 0 increasing);
   SShape (increasing) and ZShape (decreasing) need start < end — with start > end their membership is a
   step at `start` and the inverse law fails for every y (theorems C11_SShape_reversed_..., C11_ZShape_reversed_... below).
   The height only needs 0 < h (implied by 0 < y < h); h <= 1 is never used.
   Only imports and final statements; all proofs live in Proofs/Tsukamoto.v. *)
From Coq Require Import Reals Lra String List.
From VF Require Import Num NumR GenTerm Tsukamoto.
Import ListNotations.
Local Open Scope R_scope.

(* ---- 1. inverse law *)
Theorem C11_Arc_inverse : forall s e h y : R, s <> e -> 0 < y < h ->
  Arc_membership s e h (Arc_tsukamoto s e h y) = y.
Proof. exact Arc_inverse. Qed.
Print Assumptions C11_Arc_inverse.

Theorem C11_Concave_inverse : forall i e h y : R, i <> e -> 0 < y < h ->
  Concave_membership i e h (Concave_tsukamoto i e h y) = y.
Proof. exact Concave_inverse. Qed.
Print Assumptions C11_Concave_inverse.

Theorem C11_Ramp_inverse : forall s e h y : R, s <> e -> 0 < y < h ->
  Ramp_membership s e h (Ramp_tsukamoto s e h y) = y.
Proof. exact Ramp_inverse. Qed.
Print Assumptions C11_Ramp_inverse.

Theorem C11_Sigmoid_inverse : forall i s h y : R, s <> 0 -> 0 < y < h ->
  Sigmoid_membership i s h (Sigmoid_tsukamoto i s h y) = y.
Proof. exact Sigmoid_inverse. Qed.
Print Assumptions C11_Sigmoid_inverse.

Theorem C11_SShape_inverse : forall s e h y : R, s < e -> 0 < y < h ->
  SShape_membership s e h (SShape_tsukamoto s e h y) = y.
Proof. exact SShape_inverse. Qed.
Print Assumptions C11_SShape_inverse.

Theorem C11_ZShape_inverse : forall s e h y : R, s < e -> 0 < y < h ->
  ZShape_membership s e h (ZShape_tsukamoto s e h y) = y.
Proof. exact ZShape_inverse. Qed.
Print Assumptions C11_ZShape_inverse.

(* ---- 2. z is monotone in y, in the direction of the term (increasing term: z increasing; decreasing: z decreasing) *)
Theorem C11_Arc_z_monotone : forall s e h y1 y2 : R, 0 < h -> 0 < y1 -> y1 <= y2 -> y2 < h ->
  (s < e -> Arc_tsukamoto s e h y1 <= Arc_tsukamoto s e h y2) /\
  (e < s -> Arc_tsukamoto s e h y2 <= Arc_tsukamoto s e h y1).
Proof. intros s e h y1 y2 Hh H1 H12 H2; split; intros Hd; [apply Arc_z_monotone_inc | apply Arc_z_monotone_dec]; assumption. Qed.
Print Assumptions C11_Arc_z_monotone.

Theorem C11_Concave_z_monotone : forall i e h y1 y2 : R, 0 < h -> 0 < y1 -> y1 <= y2 -> y2 < h ->
  (i < e -> Concave_tsukamoto i e h y1 <= Concave_tsukamoto i e h y2) /\
  (e < i -> Concave_tsukamoto i e h y2 <= Concave_tsukamoto i e h y1).
Proof. intros i e h y1 y2 Hh H1 H12 H2; split; intros Hd; [apply Concave_z_monotone_inc | apply Concave_z_monotone_dec]; assumption. Qed.
Print Assumptions C11_Concave_z_monotone.

Theorem C11_Ramp_z_monotone : forall s e h y1 y2 : R, 0 < h -> 0 < y1 -> y1 <= y2 -> y2 < h ->
  (s < e -> Ramp_tsukamoto s e h y1 <= Ramp_tsukamoto s e h y2) /\
  (e < s -> Ramp_tsukamoto s e h y2 <= Ramp_tsukamoto s e h y1).
Proof. intros s e h y1 y2 Hh H1 H12 H2; split; intros Hd; [apply Ramp_z_monotone_inc | apply Ramp_z_monotone_dec]; assumption. Qed.
Print Assumptions C11_Ramp_z_monotone.

Theorem C11_Sigmoid_z_monotone : forall i s h y1 y2 : R, 0 < h -> 0 < y1 -> y1 <= y2 -> y2 < h ->
  (0 < s -> Sigmoid_tsukamoto i s h y1 <= Sigmoid_tsukamoto i s h y2) /\
  (s < 0 -> Sigmoid_tsukamoto i s h y2 <= Sigmoid_tsukamoto i s h y1).
Proof. intros i s h y1 y2 Hh H1 H12 H2; split; intros Hd; [apply Sigmoid_z_monotone_inc | apply Sigmoid_z_monotone_dec]; assumption. Qed.
Print Assumptions C11_Sigmoid_z_monotone.

(* SShape is the increasing member of the pair, ZShape the decreasing one *)
Theorem C11_SShape_z_monotone : forall s e h y1 y2 : R, s < e -> 0 < h -> 0 < y1 -> y1 <= y2 -> y2 < h ->
  SShape_tsukamoto s e h y1 <= SShape_tsukamoto s e h y2.
Proof. exact SShape_z_monotone. Qed.
Print Assumptions C11_SShape_z_monotone.
Theorem C11_ZShape_z_monotone : forall s e h y1 y2 : R, s < e -> 0 < h -> 0 < y1 -> y1 <= y2 -> y2 < h ->
  ZShape_tsukamoto s e h y2 <= ZShape_tsukamoto s e h y1.
Proof. exact ZShape_z_monotone. Qed.
Print Assumptions C11_ZShape_z_monotone.

(* ---- 3. z lies in the support of the edge ("finite" in the only sense R can express) *)
Theorem C11_Arc_z_in_support : forall s e h y : R, 0 < y < h ->
  (s < e -> s < Arc_tsukamoto s e h y < e) /\ (e < s -> e < Arc_tsukamoto s e h y < s).
Proof. intros s e h y Hy; split; intros Hd; [apply Arc_z_in_support_inc | apply Arc_z_in_support_dec]; assumption. Qed.
Print Assumptions C11_Arc_z_in_support.

Theorem C11_Ramp_z_in_support : forall s e h y : R, 0 < y < h ->
  (s < e -> s < Ramp_tsukamoto s e h y < e) /\ (e < s -> e < Ramp_tsukamoto s e h y < s).
Proof. intros s e h y Hy; split; intros Hd; [apply Ramp_z_in_support_inc | apply Ramp_z_in_support_dec]; assumption. Qed.
Print Assumptions C11_Ramp_z_in_support.

Theorem C11_SShape_z_in_support : forall s e h y : R, s < e -> 0 < y < h -> s < SShape_tsukamoto s e h y < e.
Proof. exact SShape_z_in_support. Qed.
Print Assumptions C11_SShape_z_in_support.
Theorem C11_ZShape_z_in_support : forall s e h y : R, s < e -> 0 < y < h -> s < ZShape_tsukamoto s e h y < e.
Proof. exact ZShape_z_in_support. Qed.
Print Assumptions C11_ZShape_z_in_support.

(* Concave: unbounded on the inflection side; z is on the curved side of `end` *)
Theorem C11_Concave_z_in_support : forall i e h y : R, 0 < y < h ->
  (i < e -> Concave_tsukamoto i e h y < e) /\ (e < i -> e < Concave_tsukamoto i e h y).
Proof. intros i e h y Hy; split; intros Hd; [apply Concave_z_in_support_inc | apply Concave_z_in_support_dec]; assumption. Qed.
Print Assumptions C11_Concave_z_in_support.

(* Sigmoid: unbounded support; z is on the side of the inflection that y's half of the height selects *)
Theorem C11_Sigmoid_z_side : forall i s h y : R, 0 < y < h ->
  (0 < s -> (y < h / 2 -> Sigmoid_tsukamoto i s h y < i) /\
            (y = h / 2 -> Sigmoid_tsukamoto i s h y = i) /\
            (h / 2 < y -> i < Sigmoid_tsukamoto i s h y)) /\
  (s < 0 -> (y < h / 2 -> i < Sigmoid_tsukamoto i s h y) /\
            (y = h / 2 -> Sigmoid_tsukamoto i s h y = i) /\
            (h / 2 < y -> Sigmoid_tsukamoto i s h y < i)).
Proof. intros i s h y Hy; split; intros Hd; [apply Sigmoid_z_side_inc | apply Sigmoid_z_side_dec]; assumption. Qed.
Print Assumptions C11_Sigmoid_z_side.

(* ---- 4. tsukamoto is defined exactly for the terms that declare themselves monotonic *)
Theorem C11_tsukamoto_defined_iff_monotonic : forall s : shape R,
  shape_tsukamoto s <> None <-> shape_monotonic s = true.
Proof. exact tsukamoto_defined_iff_monotonic. Qed.
Print Assumptions C11_tsukamoto_defined_iff_monotonic.

Theorem C11_tsukamoto_defined_iff_monotonic_any_carrier : forall (T : Type) (N : Num T) (s : shape T),
  shape_tsukamoto s <> None <-> shape_monotonic s = true.
Proof. exact tsukamoto_defined_iff_monotonic_gen. Qed.
Print Assumptions C11_tsukamoto_defined_iff_monotonic_any_carrier.

Theorem C11_tsukamoto_refused_iff_not_monotonic : forall s : shape R,
  shape_tsukamoto s = None <-> shape_monotonic s = false.
Proof. exact tsukamoto_refused_iff_not_monotonic. Qed.
Print Assumptions C11_tsukamoto_refused_iff_not_monotonic.

(* the class-level table (is_monotonic() on a default instance, `tsukamoto` in the class __dict__) *)
Theorem C11_term_table : 
  forallb (fun r => match r with (_, _, _, m, t) => Bool.eqb m t end) term_table = true /\
  map (fun r => match r with (n, _, _, _, _) => n end)
      (filter (fun r => match r with (_, _, _, m, _) => m end) term_table)
  = ["Arc"; "Concave"; "Ramp"; "Sigmoid"; "SShape"; "ZShape"]%string.
Proof. exact (conj term_table_flags_agree term_table_monotonic_names). Qed.
Print Assumptions C11_term_table.

(* ---- shape-level summary: one statement for all six terms through the generated dispatchers *)
Theorem C11_shape_inverse : forall (s : shape R) (z : R -> R) (y : R),
  tsukamoto_valid s -> shape_tsukamoto s = Some z -> 0 < y < shape_height s ->
  shape_membership s (z y) = y.
Proof. exact shape_inverse. Qed.
Print Assumptions C11_shape_inverse.

Theorem C11_valid_direction : forall s : shape R,
  tsukamoto_valid s -> shape_increasing s \/ shape_decreasing s.
Proof. exact valid_direction. Qed.
Print Assumptions C11_valid_direction.

Theorem C11_shape_z_monotone_increasing : forall (s : shape R) (z : R -> R) (y1 y2 : R),
  tsukamoto_valid s -> shape_increasing s -> shape_tsukamoto s = Some z ->
  0 < y1 -> y1 <= y2 -> y2 < shape_height s -> z y1 <= z y2.
Proof. exact shape_z_monotone_inc. Qed.
Print Assumptions C11_shape_z_monotone_increasing.

Theorem C11_shape_z_monotone_decreasing : forall (s : shape R) (z : R -> R) (y1 y2 : R),
  tsukamoto_valid s -> shape_decreasing s -> shape_tsukamoto s = Some z ->
  0 < y1 -> y1 <= y2 -> y2 < shape_height s -> z y2 <= z y1.
Proof. exact shape_z_monotone_dec. Qed.
Print Assumptions C11_shape_z_monotone_decreasing.

(* ---- 5. elementwise on arrays (lists) *)
Theorem C11_shape_inverse_elementwise : forall (s : shape R) (z : R -> R) (ys : list R),
  tsukamoto_valid s -> shape_tsukamoto s = Some z -> Forall (fun y => 0 < y < shape_height s) ys ->
  map (shape_membership s) (map z ys) = ys.
Proof. exact shape_inverse_map. Qed.
Print Assumptions C11_shape_inverse_elementwise.

(* the same for any pair of kernels: per-term instances are `C11_elementwise _ _ h ys (C11_<Term>_inverse ...)` *)
Theorem C11_elementwise : forall (mu z : R -> R) (h : R) (ys : list R),
  (forall y, 0 < y < h -> mu (z y) = y) -> Forall (fun y => 0 < y < h) ys -> map mu (map z ys) = ys.
Proof. exact map_inverse. Qed.
Print Assumptions C11_elementwise.

(* ---- the condition start < end of SShape/ZShape is necessary: with start > end the composition is
        constant (0 resp. h) on all of (0,h), so the inverse law fails for every y *)
Theorem C11_SZ_reversed_constant : forall s e h y : R, e < s -> 0 < y < h ->
  SShape_membership s e h (SShape_tsukamoto s e h y) = 0 /\
  ZShape_membership s e h (ZShape_tsukamoto s e h y) = h.
Proof. intros s e h y Hd Hy; split; [apply SShape_reversed_not_inverse | apply ZShape_reversed_not_inverse]; assumption. Qed.
Print Assumptions C11_SZ_reversed_constant.
Theorem C11_SShape_reversed_refuted : exists s e h y : R,
  e < s /\ 0 < h <= 1 /\ 0 < y < h /\ SShape_membership s e h (SShape_tsukamoto s e h y) <> y.
Proof. exact SShape_reversed_refuted. Qed.
Print Assumptions C11_SShape_reversed_refuted.
Theorem C11_ZShape_reversed_refuted : exists s e h y : R,
  e < s /\ 0 < h <= 1 /\ 0 < y < h /\ ZShape_membership s e h (ZShape_tsukamoto s e h y) <> y.
Proof. exact ZShape_reversed_refuted. Qed.
Print Assumptions C11_ZShape_reversed_refuted.

(* ---- non-vacuity: concrete parameters (height 1/2, both directions), a concrete y, the computed z,
        and the membership at that z *)
Example C11_Ramp_example :
  (Ramp_tsukamoto 0 2 (1 / 2) (1 / 8) = 1 / 2 /\ Ramp_membership 0 2 (1 / 2) (1 / 2) = 1 / 8) /\
  (Ramp_tsukamoto 2 0 (1 / 2) (1 / 8) = 3 / 2 /\ Ramp_membership 2 0 (1 / 2) (3 / 2) = 1 / 8).
Proof. split; (apply example_via_inverse; [rewrite Ramp_tsukamoto_R; lra | apply C11_Ramp_inverse; lra]). Qed.
Print Assumptions C11_Ramp_example.

Example C11_Concave_example :
  (Concave_tsukamoto 0 1 (1 / 2) (1 / 8) = -2 /\ Concave_membership 0 1 (1 / 2) (-2) = 1 / 8) /\
  (Concave_tsukamoto 1 0 (1 / 2) (1 / 8) = 3 /\ Concave_membership 1 0 (1 / 2) 3 = 1 / 8).
Proof. split; (apply example_via_inverse; [rewrite Concave_tsukamoto_R; lra | apply C11_Concave_inverse; lra]). Qed.
Print Assumptions C11_Concave_example.

Example C11_Arc_example :
  (Arc_tsukamoto 0 2 (1 / 2) (3 / 10) = 2 / 5 /\ Arc_membership 0 2 (1 / 2) (2 / 5) = 3 / 10) /\
  (Arc_tsukamoto 2 0 (1 / 2) (3 / 10) = 8 / 5 /\ Arc_membership 2 0 (1 / 2) (8 / 5) = 3 / 10).
Proof. split; (apply example_via_inverse; [first [exact Arc_example_inc | exact Arc_example_dec] | apply C11_Arc_inverse; lra]). Qed.
Print Assumptions C11_Arc_example.

Example C11_Sigmoid_example :
  (Sigmoid_tsukamoto 0 1 (1 / 2) (1 / 6) = - ln 2 /\ Sigmoid_membership 0 1 (1 / 2) (- ln 2) = 1 / 6) /\
  (Sigmoid_tsukamoto 0 (-1) (1 / 2) (1 / 6) = ln 2 /\ Sigmoid_membership 0 (-1) (1 / 2) (ln 2) = 1 / 6).
Proof. split; (apply example_via_inverse; [first [exact Sigmoid_example_inc | exact Sigmoid_example_dec] | apply C11_Sigmoid_inverse; lra]). Qed.
Print Assumptions C11_Sigmoid_example.

(* both branches of the S/Z inverse (y below and above height/2) *)
Example C11_SShape_example :
  (SShape_tsukamoto 0 2 (1 / 2) (1 / 16) = 1 / 2 /\ SShape_membership 0 2 (1 / 2) (1 / 2) = 1 / 16) /\
  (SShape_tsukamoto 0 2 (1 / 2) (7 / 16) = 3 / 2 /\ SShape_membership 0 2 (1 / 2) (3 / 2) = 7 / 16).
Proof. split; (apply example_via_inverse; [first [exact SShape_example_low | exact SShape_example_high] | apply C11_SShape_inverse; lra]). Qed.
Print Assumptions C11_SShape_example.

Example C11_ZShape_example :
  (ZShape_tsukamoto 0 2 (1 / 2) (1 / 16) = 3 / 2 /\ ZShape_membership 0 2 (1 / 2) (3 / 2) = 1 / 16) /\
  (ZShape_tsukamoto 0 2 (1 / 2) (7 / 16) = 1 / 2 /\ ZShape_membership 0 2 (1 / 2) (1 / 2) = 7 / 16).
Proof. split; (apply example_via_inverse; [first [exact ZShape_example_low | exact ZShape_example_high] | apply C11_ZShape_inverse; lra]). Qed.
Print Assumptions C11_ZShape_example.

(* the shape-level hypotheses are inhabited, and the refusal is observable on a non-monotonic term *)
Example C11_shape_example :
  tsukamoto_valid (Sh_Ramp 2 0 (1 / 2)) /\ shape_decreasing (Sh_Ramp 2 0 (1 / 2)) /\
  shape_tsukamoto (Sh_Ramp 2 0 (1 / 2)) = Some (Ramp_tsukamoto 2 0 (1 / 2)) /\
  shape_tsukamoto (Sh_Triangle 0 1 2 (1 / 2)) = None /\ shape_monotonic (Sh_Triangle 0 1 2 (1 / 2)) = false.
Proof. cbn [tsukamoto_valid shape_decreasing shape_tsukamoto shape_monotonic]; repeat split; lra. Qed.
Print Assumptions C11_shape_example.
