(* C01 — Engine output equals the documented inference pipeline.

   Subject: `process` of Model/Engine.v (Engine.process in scalar mode: clear the fuzzy outputs, activate the enabled rule
   blocks in order through the activation loops of Model/Activation.v on the mutable engine state, defuzzify every output
   through the cascade).  Specification: Spec/Pipeline.v (`pipeline_outputs`: no rule records, no indices, no loops:
   `rule_contribution` = weight x antecedent against the contributions so far, then Consequent.modify;
   folded over the rules of the enabled blocks; then `pipeline_values`).
   Scope: blocks whose activation method is General (`general_only`; the other methods are C08's subject).
   Generic in the numeric reading `Num T` (R, ER, binary64): the proofs are list/record reasoning only.
   Formula model: `fe0` (no Function terms — what the correspondence plugs); the `_any_formula_model` variants hold for
   every formula model that reads only the engine's variables.
   Only statements here; the proofs are in Proofs/EngineProofs.v. *)
From Coq Require Import ZArith Bool List String PrimFloat.
From VF Require Import Num NumF GenNorm GenHedge GenTerm Core Antecedent Consequent Cascade Engine Ops Pipeline EngineProofs.
Import ListNotations.
Local Open Scope list_scope.

(* ---- 1. the refinement *)
Theorem C01_process_refines_pipeline : forall (T : Type) (N : Num T) (e : engine T), general_only e ->
  match process fe0 e, pipeline_outputs fe0 e with
  | Ok e', Ok outs => e_outputs e' = outs /\ e_inputs e' = e_inputs e
  | Err x, Err y => x = y
  | _, _ => False
  end.
Proof. intros T N. exact (process_refines_pipeline fe0 fe0_ext). Qed.
Print Assumptions C01_process_refines_pipeline.

Theorem C01_process_refines_pipeline_any_formula_model :
  forall (T : Type) (N : Num T) (function_eval : engine T -> fnode T -> list (string * T) -> T -> result T),
  (forall e1 e2 : engine T, e_inputs e1 = e_inputs e2 -> e_outputs e1 = e_outputs e2 -> function_eval e1 = function_eval e2) ->
  forall e : engine T, general_only e ->
  match process function_eval e, pipeline_outputs function_eval e with
  | Ok e', Ok outs => e_outputs e' = outs /\ e_inputs e' = e_inputs e
  | Err x, Err y => x = y
  | _, _ => False
  end.
Proof. exact @process_refines_pipeline. Qed.
Print Assumptions C01_process_refines_pipeline_any_formula_model.

(* the same as an equation: outputs (or the exception) of process = the pipeline *)
Theorem C01_process_outputs_eq_pipeline : forall (T : Type) (N : Num T) (e : engine T), general_only e ->
  process_outputs fe0 e = pipeline_outputs fe0 e.
Proof. intros T N. exact (process_outputs_eq_pipeline fe0 fe0_ext). Qed.
Print Assumptions C01_process_outputs_eq_pipeline.

(* and with the rule records: process = the pipeline that also says what is left in every rule *)
Theorem C01_process_eq_spec : forall (T : Type) (N : Num T) (e : engine T), general_only e ->
  process fe0 e = process_spec fe0 e.
Proof. intros T N. exact (process_eq_spec fe0 fe0_ext). Qed.
Print Assumptions C01_process_eq_spec.

(* ---- 2. nothing stale is read *)
Theorem C01_process_ignores_stale_fuzzy : forall (T : Type) (N : Num T) (e1 e2 : engine T),
  e_name e1 = e_name e2 -> e_inputs e1 = e_inputs e2 -> e_blocks e1 = e_blocks e2 ->
  map clear_fuzzy (e_outputs e1) = map clear_fuzzy (e_outputs e2) ->
  process fe0 e1 = process fe0 e2.
Proof. intros T N. exact (process_ignores_stale_fuzzy fe0). Qed.
Print Assumptions C01_process_ignores_stale_fuzzy.

Theorem C01_process_ignores_stale_rule_state : forall (T : Type) (N : Num T) (e1 e2 : engine T),
  general_only e1 -> e_inputs e1 = e_inputs e2 ->
  map clear_fuzzy (e_outputs e1) = map clear_fuzzy (e_outputs e2) ->
  map (@block_deactivated T N) (e_blocks e1) = map (@block_deactivated T N) (e_blocks e2) ->
  process_outputs fe0 e1 = process_outputs fe0 e2.
Proof. intros T N. exact (process_ignores_stale_rule_state fe0 fe0_ext). Qed.
Print Assumptions C01_process_ignores_stale_rule_state.

(* ---- 3. disabled / unloaded components contribute nothing *)
Theorem C01_disabled_rule_contributes_nothing : forall (T : Type) (N : Num T) (e : engine T) B1 b B2 R1 r R2 outs,
  e_blocks e = B1 ++ b :: B2 -> b_rules b = R1 ++ r :: R2 -> r_enabled r = false ->
  (pipeline_outputs fe0 e = Ok outs -> pipeline_outputs fe0 (with_blocks e (B1 ++ set_rules b (R1 ++ R2) :: B2)) = Ok outs)
  /\ (general_only e -> process_outputs fe0 e = Ok outs ->
      process_outputs fe0 (with_blocks e (B1 ++ set_rules b (R1 ++ R2) :: B2)) = Ok outs).
Proof. intros T N. exact (disabled_rule_contributes_nothing fe0 fe0_ext). Qed.
Print Assumptions C01_disabled_rule_contributes_nothing.

Theorem C01_disabled_rule_contribution : forall (T : Type) (N : Num T) (E : engine T) b outs r outs',
  r_enabled r = false -> rule_contribution fe0 E b outs r = Ok outs' -> outs' = outs.
Proof. intros T N. exact (disabled_rule_contribution fe0). Qed.
Print Assumptions C01_disabled_rule_contribution.

Theorem C01_disabled_block_contributes_nothing : forall (T : Type) (N : Num T) (e : engine T) B1 b B2,
  e_blocks e = B1 ++ b :: B2 -> b_enabled b = false ->
  pipeline_outputs fe0 (with_blocks e (B1 ++ B2)) = pipeline_outputs fe0 e
  /\ (general_only e -> process_outputs fe0 (with_blocks e (B1 ++ B2)) = process_outputs fe0 e).
Proof. intros T N. exact (disabled_block_contributes_nothing fe0 fe0_ext). Qed.
Print Assumptions C01_disabled_block_contributes_nothing.

Theorem C01_unloaded_rule_skipped : forall (T : Type) (N : Num T) (e : engine T) B1 b B2 R1 r R2,
  e_blocks e = B1 ++ b :: B2 -> b_rules b = R1 ++ r :: R2 -> rule_loaded r = false ->
  pipeline_outputs fe0 (with_blocks e (B1 ++ set_rules b (R1 ++ R2) :: B2)) = pipeline_outputs fe0 e
  /\ (general_only e -> process_outputs fe0 (with_blocks e (B1 ++ set_rules b (R1 ++ R2) :: B2)) = process_outputs fe0 e).
Proof. intros T N. exact (unloaded_rule_skipped fe0 fe0_ext). Qed.
Print Assumptions C01_unloaded_rule_skipped.

(* a disabled output variable keeps value and previous value (its fuzzy output is cleared like every other) *)
Theorem C01_disabled_variable_untouched : forall (T : Type) (N : Num T) (e e' : engine T) i ov,
  general_only e -> process fe0 e = Ok e' ->
  nth_error (e_outputs e) i = Some ov -> ov_enabled ov = false ->
  nth_error (e_outputs e') i = Some (clear_fuzzy ov).
Proof. intros T N. exact (disabled_variable_untouched fe0 fe0_ext). Qed.
Print Assumptions C01_disabled_variable_untouched.

(* ---- 4. frames *)
(* process never changes the input variables — for EVERY activation method, no hypothesis on the engine *)
Theorem C01_frame_inputs : forall (T : Type) (N : Num T) (e e' : engine T),
  process fe0 e = Ok e' -> e_inputs e' = e_inputs e.
Proof. intros T N. exact (frame_inputs fe0). Qed.
Print Assumptions C01_frame_inputs.

(* ---- 5. the fuzzy outputs: ordered contributions *)
(* after process the fuzzy output of every variable is what the fold of `rule_contribution` over the enabled blocks (in
   order) and their rules (in order) leaves, starting from empty fuzzy outputs ... *)
Theorem C01_fuzzy_is_ordered_contributions : forall (T : Type) (N : Num T) (e e' : engine T),
  general_only e -> process fe0 e = Ok e' ->
  exists fz, blocks_contribution fe0 e (map clear_fuzzy (e_outputs e)) (e_blocks e) = Ok fz /\
             map (@ov_fuzzy T) (e_outputs e') = map (@ov_fuzzy T) fz /\ map ov_ev (e_outputs e') = map ov_ev fz.
Proof. intros T N. exact (fuzzy_is_ordered_contributions fe0 fe0_ext). Qed.
Print Assumptions C01_fuzzy_is_ordered_contributions.

(* ... the fold is sequential: block order, then rule order ... *)
Theorem C01_contributions_in_block_order : forall (T : Type) (N : Num T) (E : engine T) bs1 bs2 outs,
  blocks_contribution fe0 E outs (bs1 ++ bs2) = (do o <- blocks_contribution fe0 E outs bs1; blocks_contribution fe0 E o bs2).
Proof. intros T N. exact (blocks_contribution_app fe0). Qed.
Print Assumptions C01_contributions_in_block_order.

Theorem C01_contributions_in_rule_order : forall (T : Type) (N : Num T) (E : engine T) b rs1 rs2 outs,
  rules_contribution fe0 E b outs (rs1 ++ rs2) = (do o <- rules_contribution fe0 E b outs rs1; rules_contribution fe0 E b o rs2).
Proof. intros T N. exact (rules_contribution_app fe0). Qed.
Print Assumptions C01_contributions_in_rule_order.

(* ... and a rule only APPENDS activated terms to the variables (nothing to a disabled variable); the terms one rule
   appends, in conclusion order, are Consequent.modify's (property C07) *)
Theorem C01_rule_only_appends : forall (T : Type) (N : Num T) (E : engine T) b outs r outs',
  rule_contribution fe0 E b outs r = Ok outs' ->
  Forall2 (fun a a' => exists l, a' = extend_fuzzy a l /\ (ov_enabled a = false -> l = [])) outs outs'.
Proof. intros T N. exact (rule_contribution_grow fe0). Qed.
Print Assumptions C01_rule_only_appends.

(* ---- 6. what is left in the rules: the stored degree is the firing degree against the contributions before the rule *)
Theorem C01_stored_degrees : forall (T : Type) (N : Num T) (e e' : engine T) bi ri b r,
  general_only e -> process fe0 e = Ok e' ->
  nth_error (e_blocks e) bi = Some b -> b_enabled b = true -> nth_error (b_rules b) ri = Some r ->
  exists o0 o1 b' r',
    blocks_contribution fe0 e (map clear_fuzzy (e_outputs e)) (firstn bi (e_blocks e)) = Ok o0 /\
    rules_contribution fe0 e b o0 (firstn ri (b_rules b)) = Ok o1 /\
    get_rule e' bi ri = Some (b', r') /\
    rule_deactivated r' = rule_deactivated r /\
    if rule_loaded r then
      firing_degree fe0 e b o1 r = Ok (r_degree r') /\ r_triggered r' = r_enabled r && gtb (r_degree r') zero
    else r_degree r' = zero /\ r_triggered r' = false.
Proof. intros T N. exact (stored_degrees fe0 fe0_ext). Qed.
Print Assumptions C01_stored_degrees.

(* ---- 7. non-vacuity: a binary64 engine, by computation.
   input x in [0,1] = 0.25 with terms low = Ramp(1,0), high = Ramp(0,1); output y in [0,1] with small = Triangle(0,.25,.5),
   big = Triangle(.5,.75,1), Maximum aggregation, Centroid(10);
   rule 0: if x is low then y is small;  rule 1 (DISABLED): if x is high then y is big;  one General block *)
Definition NF : Num float := NumF true [].
Definition ex_input (x : float) : input_var float :=
  {| iv_name := "x"; iv_enabled := true; iv_min := 0%float; iv_max := 1%float; iv_lock_range := false;
     iv_terms := [TShape "low" (Sh_Ramp 1 0 1)%float; TShape "high" (Sh_Ramp 0 1 1)%float]; iv_value := x |}.
Definition ex_output (enabled : bool) (v : float) : output_var float :=
  {| ov_name := "y"; ov_enabled := enabled; ov_min := 0%float; ov_max := 1%float; ov_lock_range := false;
     ov_lock_previous := false; ov_default := PrimFloat.nan;
     ov_aggregation := Some (SN S_Maximum); ov_defuzzifier := Some (DIntegral Centroid 10);
     ov_terms := [TShape "small" (Sh_Triangle 0 0.25 0.5 1)%float; TShape "big" (Sh_Triangle 0.5 0.75 1 1)%float];
     ov_value := v; ov_previous := PrimFloat.nan; ov_fuzzy := [] |}.
Definition ex_rule (enabled : bool) (t : nat) : rule float :=
  {| r_enabled := enabled; r_weight := 1%float; r_antecedent := Some (EProp (VIn 0) [] (Some t));
     r_consequent := [{| c_var := 0; c_hedges := []; c_term := t |}]; r_degree := 0%float; r_triggered := false |}.
Definition ex_block : block float :=
  {| b_name := "rules"; b_enabled := true; b_conjunction := Some (TN T_Minimum); b_disjunction := Some (SN S_Maximum);
     b_implication := Some (TN T_Minimum); b_activation := Some AGeneral; b_rules := [ex_rule true 0; ex_rule false 1] |}.
Definition ex_engine (x : float) : engine float :=
  {| e_name := "ex"; e_inputs := [ex_input x]; e_outputs := [ex_output true PrimFloat.nan]; e_blocks := [ex_block] |}.

Example C01_example_general_only : forall x, general_only (ex_engine x).
Proof. intros x b [<- | []] _. reflexivity. Qed.
Print Assumptions C01_example_general_only.

(* process and the pipeline agree on it; the fuzzy output holds exactly one activated term (the disabled rule adds none),
   the value is a number, rule 0 stores degree 0.75 and is triggered, rule 1 stores 0.25 and is not *)
Example C01_example_process :
  match @process float NF fe0 (ex_engine 0.25), @pipeline_outputs float NF fe0 (ex_engine 0.25) with
  | Ok e', Ok outs =>
      e_outputs e' = outs /\
      map (fun ov => List.length (ov_fuzzy ov)) outs = [1%nat] /\
      map (fun ov => map (fun a => (term_name (a_term a), a_degree a)) (ov_fuzzy ov)) outs = [[("small"%string, 0.75%float)]] /\
      map (fun ov => PrimFloat.is_nan (ov_value ov)) outs = [false] /\
      map (fun b => map (fun r => (r_degree r, r_triggered r)) (b_rules b)) (e_blocks e')
        = [[(0.75%float, true); (0.25%float, false)]]
  | _, _ => False
  end.
Proof. vm_compute. repeat split; reflexivity. Qed.
Print Assumptions C01_example_process.
