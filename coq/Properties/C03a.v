(* C03 (group A) — membership functions match their documented definitions:
   Binary, Concave, Constant, Ramp, Rectangle, Triangle, Trapezoid, SShape, ZShape, PiShape.
   The generated kernels of fuzzylite/term.py (Gen/GenTerm.v), read over R, equal
   height * documented closed form (Spec/SpecTermA.v) for every valid parameterisation and every x,
   lie in [0, height], take the documented values at every break-point, and the terms that declare
   themselves monotonic (Concave, Ramp, SShape, ZShape) are monotone in x with the direction given by the
   parameters.  Infinite parameters, x = +-inf and NaN are not expressible over R: float correspondence.
   Only imports and final statements; all proofs live in Proofs/TermA.v. *)
From Coq Require Import Reals Lra Bool.
From VF Require Import Num NumR GenTerm SpecTermA TermA.
Local Open Scope R_scope.

(* ---- closed forms: kernel = height * documented shape *)
Theorem C03_Binary_spec : forall s d h x : R,
  Binary_valid s d h -> Binary_membership s d h x = h * Binary_shape s d x.
Proof. exact Binary_eq. Qed.
Print Assumptions C03_Binary_spec.

Theorem C03_Concave_spec : forall i e h x : R,
  Concave_valid i e h -> Concave_membership i e h x = h * Concave_shape i e x.
Proof. exact Concave_eq. Qed.
Print Assumptions C03_Concave_spec.

Theorem C03_Constant_spec : forall k x : R, Constant_valid k -> Constant_membership k x = k.
Proof. exact Constant_eq. Qed.
Print Assumptions C03_Constant_spec.

Theorem C03_Ramp_spec : forall s e h x : R,
  Ramp_valid s e h -> Ramp_membership s e h x = h * Ramp_shape s e x.
Proof. exact Ramp_eq. Qed.
Print Assumptions C03_Ramp_spec.

Theorem C03_Rectangle_spec : forall s e h x : R,
  Rectangle_valid s e h -> Rectangle_membership s e h x = h * Rectangle_shape s e x.
Proof. exact Rectangle_eq. Qed.
Print Assumptions C03_Rectangle_spec.

(* what the code does for every (start, end), also start > end: it sorts them first *)
Theorem C03_Rectangle_spec_sorted : forall s e h x : R,
  Rectangle_membership s e h x = h * Rectangle_shape (Rmin s e) (Rmax s e) x.
Proof. exact Rectangle_eq_sym. Qed.
Print Assumptions C03_Rectangle_spec_sorted.

Theorem C03_SShape_spec : forall s e h x : R,
  SShape_valid s e h -> SShape_membership s e h x = h * SShape_shape s e x.
Proof. exact SShape_eq. Qed.
Print Assumptions C03_SShape_spec.

Theorem C03_ZShape_spec : forall s e h x : R,
  ZShape_valid s e h -> ZShape_membership s e h x = h * ZShape_shape s e x.
Proof. exact ZShape_eq. Qed.
Print Assumptions C03_ZShape_spec.

Theorem C03_PiShape_spec : forall a b c d h x : R,
  PiShape_valid a b c d h -> PiShape_membership a b c d h x = h * (SShape_shape a b x * ZShape_shape c d x).
Proof. exact PiShape_eq. Qed.
Print Assumptions C03_PiShape_spec.

Theorem C03_Triangle_spec : forall a b c h x : R,
  Triangle_valid a b c h -> Triangle_membership a b c h x = h * Triangle_shape a b c x.
Proof. exact Triangle_eq. Qed.
Print Assumptions C03_Triangle_spec.

Theorem C03_Trapezoid_spec : forall a b c d h x : R,
  Trapezoid_valid a b c d h -> Trapezoid_membership a b c d h x = h * Trapezoid_shape a b c d x.
Proof. exact Trapezoid_eq. Qed.
Print Assumptions C03_Trapezoid_spec.

(* the documented case lists of Triangle (no "otherwise") and Trapezoid ("NaN otherwise") are exhaustive *)
Theorem C03_Triangle_cases_exhaustive : forall a b c x : R, a <= b -> b <= c ->
  ((x < a \/ c < x) /\ Triangle_shape a b c x = 0) \/
  (x = b /\ Triangle_shape a b c x = 1) \/
  (a <= x < b /\ Triangle_shape a b c x = (x - a) / (b - a)) \/
  (b < x <= c /\ Triangle_shape a b c x = (c - x) / (c - b)).
Proof. exact Triangle_cases. Qed.
Print Assumptions C03_Triangle_cases_exhaustive.

Theorem C03_Trapezoid_cases_exhaustive : forall a b c d x : R, a <= b -> b <= c -> c <= d ->
  ((x < a \/ d < x) /\ Trapezoid_shape a b c d x = 0) \/
  (a <= x < b /\ Trapezoid_shape a b c d x = (x - a) / (b - a)) \/
  (b <= x <= c /\ Trapezoid_shape a b c d x = 1) \/
  (c < x <= d /\ Trapezoid_shape a b c d x = (d - x) / (d - c)).
Proof. exact Trapezoid_cases. Qed.
Print Assumptions C03_Trapezoid_cases_exhaustive.

(* ---- range: 0 <= mu(x) <= height *)
Theorem C03_Binary_range : forall s d h x : R, Binary_valid s d h -> 0 <= Binary_membership s d h x <= h.
Proof. exact Binary_range. Qed.
Print Assumptions C03_Binary_range.

Theorem C03_Concave_range : forall i e h x : R, Concave_valid i e h -> 0 <= Concave_membership i e h x <= h.
Proof. exact Concave_range. Qed.
Print Assumptions C03_Concave_range.

Theorem C03_Ramp_range : forall s e h x : R, Ramp_valid s e h -> 0 <= Ramp_membership s e h x <= h.
Proof. exact Ramp_range. Qed.
Print Assumptions C03_Ramp_range.

Theorem C03_Rectangle_range : forall s e h x : R, Rectangle_valid s e h -> 0 <= Rectangle_membership s e h x <= h.
Proof. exact Rectangle_range. Qed.
Print Assumptions C03_Rectangle_range.

Theorem C03_SShape_range : forall s e h x : R, SShape_valid s e h -> 0 <= SShape_membership s e h x <= h.
Proof. exact SShape_range. Qed.
Print Assumptions C03_SShape_range.

Theorem C03_ZShape_range : forall s e h x : R, ZShape_valid s e h -> 0 <= ZShape_membership s e h x <= h.
Proof. exact ZShape_range. Qed.
Print Assumptions C03_ZShape_range.

Theorem C03_PiShape_range : forall a b c d h x : R,
  PiShape_valid a b c d h -> 0 <= PiShape_membership a b c d h x <= h.
Proof. exact PiShape_range. Qed.
Print Assumptions C03_PiShape_range.

Theorem C03_Triangle_range : forall a b c h x : R, Triangle_valid a b c h -> 0 <= Triangle_membership a b c h x <= h.
Proof. exact Triangle_range. Qed.
Print Assumptions C03_Triangle_range.

Theorem C03_Trapezoid_range : forall a b c d h x : R,
  Trapezoid_valid a b c d h -> 0 <= Trapezoid_membership a b c d h x <= h.
Proof. exact Trapezoid_range. Qed.
Print Assumptions C03_Trapezoid_range.

(* ---- break-points *)
Theorem C03_Binary_breakpoints : forall s d h : R, Binary_valid s d h ->
  Binary_membership s d h s = h /\
  (forall x, s < d -> x < s -> Binary_membership s d h x = 0) /\
  (forall x, s < d -> s <= x -> Binary_membership s d h x = h) /\
  (forall x, d < s -> s < x -> Binary_membership s d h x = 0) /\
  (forall x, d < s -> x <= s -> Binary_membership s d h x = h).
Proof. exact Binary_breakpoints. Qed.
Print Assumptions C03_Binary_breakpoints.

Theorem C03_Concave_breakpoints : forall i e h : R, Concave_valid i e h ->
  Concave_membership i e h e = h /\ Concave_membership i e h i = h / 2 /\
  (forall x, 0 < Concave_membership i e h x).
Proof. exact Concave_breakpoints. Qed.
Print Assumptions C03_Concave_breakpoints.

Theorem C03_Constant_const : forall k x y : R, Constant_membership k x = Constant_membership k y.
Proof. exact Constant_const. Qed.
Print Assumptions C03_Constant_const.

Theorem C03_Ramp_breakpoints : forall s e h : R, Ramp_valid s e h ->
  Ramp_membership s e h s = 0 /\ Ramp_membership s e h e = h /\ Ramp_membership s e h ((s + e) / 2) = h / 2.
Proof. exact Ramp_breakpoints. Qed.
Print Assumptions C03_Ramp_breakpoints.

Theorem C03_Rectangle_breakpoints : forall s e h : R, Rectangle_valid s e h ->
  Rectangle_membership s e h s = h /\ Rectangle_membership s e h e = h /\
  (forall x, s <= x <= e -> Rectangle_membership s e h x = h) /\
  (forall x, x < s \/ e < x -> Rectangle_membership s e h x = 0).
Proof. exact Rectangle_breakpoints. Qed.
Print Assumptions C03_Rectangle_breakpoints.

Theorem C03_SShape_breakpoints : forall s e h : R, SShape_valid s e h -> s < e ->
  SShape_membership s e h s = 0 /\ SShape_membership s e h ((s + e) / 2) = h / 2 /\ SShape_membership s e h e = h.
Proof. exact SShape_breakpoints. Qed.
Print Assumptions C03_SShape_breakpoints.

(* start > end: documented formula and code both degenerate to a unit step at start *)
Theorem C03_SShape_reversed_step : forall s e h x : R, SShape_valid s e h -> e < s ->
  SShape_membership s e h x = if Rleb x s then 0 else h.
Proof. exact SShape_reversed_step. Qed.
Print Assumptions C03_SShape_reversed_step.

Theorem C03_ZShape_breakpoints : forall s e h : R, ZShape_valid s e h -> s < e ->
  ZShape_membership s e h s = h /\ ZShape_membership s e h ((s + e) / 2) = h / 2 /\ ZShape_membership s e h e = 0.
Proof. exact ZShape_breakpoints. Qed.
Print Assumptions C03_ZShape_breakpoints.

Theorem C03_ZShape_reversed_step : forall s e h x : R, ZShape_valid s e h -> e < s ->
  ZShape_membership s e h x = if Rleb x s then h else 0.
Proof. exact ZShape_reversed_step. Qed.
Print Assumptions C03_ZShape_reversed_step.

Theorem C03_SShape_ZShape_complementary : forall s e h x : R, SShape_valid s e h ->
  SShape_membership s e h x + ZShape_membership s e h x = h.
Proof. exact SShape_ZShape_sum. Qed.
Print Assumptions C03_SShape_ZShape_complementary.

Theorem C03_PiShape_breakpoints : forall a b c d h : R, PiShape_valid a b c d h ->
  PiShape_membership a b c d h a = 0 /\ PiShape_membership a b c d h ((a + b) / 2) = h / 2 /\
  PiShape_membership a b c d h b = h /\ PiShape_membership a b c d h c = h /\
  PiShape_membership a b c d h ((c + d) / 2) = h / 2 /\ PiShape_membership a b c d h d = 0 /\
  (forall x, b <= x <= c -> PiShape_membership a b c d h x = h) /\
  (forall x, x <= a \/ d <= x -> PiShape_membership a b c d h x = 0).
Proof. exact PiShape_breakpoints. Qed.
Print Assumptions C03_PiShape_breakpoints.

Theorem C03_Triangle_breakpoints : forall a b c h : R, Triangle_valid a b c h ->
  (a < b -> Triangle_membership a b c h a = 0) /\ Triangle_membership a b c h b = h /\
  (b < c -> Triangle_membership a b c h c = 0) /\
  (forall x, x < a \/ c < x -> Triangle_membership a b c h x = 0).
Proof. exact Triangle_breakpoints. Qed.
Print Assumptions C03_Triangle_breakpoints.

Theorem C03_Trapezoid_breakpoints : forall a b c d h : R, Trapezoid_valid a b c d h ->
  (a < b -> Trapezoid_membership a b c d h a = 0) /\ Trapezoid_membership a b c d h b = h /\
  Trapezoid_membership a b c d h c = h /\ (c < d -> Trapezoid_membership a b c d h d = 0) /\
  (forall x, b <= x <= c -> Trapezoid_membership a b c d h x = h) /\
  (forall x, x < a \/ d < x -> Trapezoid_membership a b c d h x = 0).
Proof. exact Trapezoid_breakpoints. Qed.
Print Assumptions C03_Trapezoid_breakpoints.

(* ---- monotonicity: exactly the terms of this group whose generated is_monotonic flag is true *)
Theorem C03_groupA_monotonic_flags : forall p q r s t : R,
  shape_monotonic (Sh_Concave p q t) = true /\ shape_monotonic (Sh_Ramp p q t) = true /\
  shape_monotonic (Sh_SShape p q t) = true /\ shape_monotonic (Sh_ZShape p q t) = true /\
  shape_monotonic (Sh_Binary p q t) = false /\ shape_monotonic (Sh_Constant p) = false /\
  shape_monotonic (Sh_Rectangle p q t) = false /\ shape_monotonic (Sh_Triangle p q r t) = false /\
  shape_monotonic (Sh_Trapezoid p q r s t) = false /\ shape_monotonic (Sh_PiShape p q r s t) = false.
Proof. intros; repeat split; reflexivity. Qed.
Print Assumptions C03_groupA_monotonic_flags.

Theorem C03_Concave_monotone : forall i e h : R, Concave_valid i e h -> i < e ->
  forall x y, x <= y -> Concave_membership i e h x <= Concave_membership i e h y.
Proof. exact Concave_monotone_inc. Qed.
Print Assumptions C03_Concave_monotone.

Theorem C03_Concave_antitone : forall i e h : R, Concave_valid i e h -> e < i ->
  forall x y, x <= y -> Concave_membership i e h y <= Concave_membership i e h x.
Proof. exact Concave_monotone_dec. Qed.
Print Assumptions C03_Concave_antitone.

Theorem C03_Ramp_monotone : forall s e h : R, Ramp_valid s e h -> s < e ->
  forall x y, x <= y -> Ramp_membership s e h x <= Ramp_membership s e h y.
Proof. exact Ramp_monotone_inc. Qed.
Print Assumptions C03_Ramp_monotone.

Theorem C03_Ramp_antitone : forall s e h : R, Ramp_valid s e h -> e < s ->
  forall x y, x <= y -> Ramp_membership s e h y <= Ramp_membership s e h x.
Proof. exact Ramp_monotone_dec. Qed.
Print Assumptions C03_Ramp_antitone.

(* SShape is non-decreasing and ZShape non-increasing for BOTH orders of (start, end) *)
Theorem C03_SShape_monotone : forall s e h : R, SShape_valid s e h ->
  forall x y, x <= y -> SShape_membership s e h x <= SShape_membership s e h y.
Proof. exact SShape_monotone. Qed.
Print Assumptions C03_SShape_monotone.

Theorem C03_ZShape_antitone : forall s e h : R, ZShape_valid s e h ->
  forall x y, x <= y -> ZShape_membership s e h y <= ZShape_membership s e h x.
Proof. exact ZShape_monotone. Qed.
Print Assumptions C03_ZShape_antitone.

(* ---- non-vacuity: concrete valid parameterisations (non-unit height, both directions) at interior points *)
Example C03_Binary_example :
  Binary_valid 1 2 (1 / 2) /\ Binary_membership 1 2 (1 / 2) 3 = 1 / 2 /\ Binary_membership 1 2 (1 / 2) 0 = 0 /\
  Binary_valid 1 (- 5) (1 / 2) /\ Binary_membership 1 (- 5) (1 / 2) 0 = 1 / 2 /\ Binary_membership 1 (- 5) (1 / 2) 3 = 0.
Proof. repeat split; try valid_num; rewrite C03_Binary_spec by valid_num; shape_num. Qed.
Print Assumptions C03_Binary_example.

Example C03_Concave_example :
  Concave_valid 0 1 (1 / 2) /\ Concave_membership 0 1 (1 / 2) (1 / 2) = 1 / 3 /\
  Concave_valid 1 0 (1 / 2) /\ Concave_membership 1 0 (1 / 2) (1 / 2) = 1 / 3.
Proof. repeat split; try valid_num; rewrite C03_Concave_spec by valid_num; shape_num. Qed.
Print Assumptions C03_Concave_example.

Example C03_Constant_example : Constant_valid 3 /\ Constant_membership 3 7 = 3.
Proof. split; [exact I | reflexivity]. Qed.
Print Assumptions C03_Constant_example.

Example C03_Ramp_example :
  Ramp_valid 0 4 (1 / 2) /\ Ramp_membership 0 4 (1 / 2) 1 = 1 / 8 /\
  Ramp_valid 4 0 (1 / 2) /\ Ramp_membership 4 0 (1 / 2) 1 = 3 / 8.
Proof. repeat split; try valid_num; rewrite C03_Ramp_spec by valid_num; shape_num. Qed.
Print Assumptions C03_Ramp_example.

Example C03_Rectangle_example :
  Rectangle_valid 0 2 (1 / 2) /\ Rectangle_membership 0 2 (1 / 2) 1 = 1 / 2 /\ Rectangle_membership 0 2 (1 / 2) 3 = 0.
Proof. repeat split; try valid_num; rewrite C03_Rectangle_spec by valid_num; shape_num. Qed.
Print Assumptions C03_Rectangle_example.

(* start > end: the code answers h on [end, start]; the docstring `s <= x <= e`, read literally, says 0 *)
Example C03_Rectangle_reversed_example :
  Rectangle_membership 2 0 (1 / 2) 1 = 1 / 2 /\ (1 / 2) * Rectangle_shape 2 0 1 = 0.
Proof.
  split; [rewrite C03_Rectangle_spec_sorted, Rmin_right, Rmax_left by lra |]; shape_num.
Qed.
Print Assumptions C03_Rectangle_reversed_example.

Example C03_SShape_example :
  SShape_valid 0 4 (1 / 2) /\ SShape_membership 0 4 (1 / 2) 1 = 1 / 16 /\ SShape_membership 0 4 (1 / 2) 3 = 7 / 16 /\
  SShape_valid 4 0 (1 / 2) /\ SShape_membership 4 0 (1 / 2) 3 = 0 /\ SShape_membership 4 0 (1 / 2) 5 = 1 / 2.
Proof. repeat split; try valid_num; rewrite C03_SShape_spec by valid_num; shape_num. Qed.
Print Assumptions C03_SShape_example.

Example C03_ZShape_example :
  ZShape_valid 0 4 (1 / 2) /\ ZShape_membership 0 4 (1 / 2) 1 = 7 / 16 /\ ZShape_membership 0 4 (1 / 2) 3 = 1 / 16 /\
  ZShape_valid 4 0 (1 / 2) /\ ZShape_membership 4 0 (1 / 2) 3 = 1 / 2 /\ ZShape_membership 4 0 (1 / 2) 5 = 0.
Proof. repeat split; try valid_num; rewrite C03_ZShape_spec by valid_num; shape_num. Qed.
Print Assumptions C03_ZShape_example.

Example C03_PiShape_example :
  PiShape_valid 0 4 5 9 (1 / 2) /\ PiShape_membership 0 4 5 9 (1 / 2) 1 = 1 / 16 /\
  PiShape_membership 0 4 5 9 (1 / 2) 8 = 1 / 16.
Proof. repeat split; try valid_num; rewrite C03_PiShape_spec by valid_num; shape_num. Qed.
Print Assumptions C03_PiShape_example.

Example C03_Triangle_example :
  Triangle_valid 0 1 3 (1 / 2) /\ Triangle_membership 0 1 3 (1 / 2) 2 = 1 / 4 /\
  Triangle_membership 0 1 3 (1 / 2) (1 / 2) = 1 / 4 /\
  (* vertical left edge *)
  Triangle_valid 1 1 3 (1 / 2) /\ Triangle_membership 1 1 3 (1 / 2) 1 = 1 / 2 /\ Triangle_membership 1 1 3 (1 / 2) 2 = 1 / 4.
Proof. repeat split; try valid_num; rewrite C03_Triangle_spec by valid_num; shape_num. Qed.
Print Assumptions C03_Triangle_example.

Example C03_Trapezoid_example :
  Trapezoid_valid 0 1 2 4 (1 / 2) /\ Trapezoid_membership 0 1 2 4 (1 / 2) 3 = 1 / 4 /\
  Trapezoid_membership 0 1 2 4 (1 / 2) (1 / 2) = 1 / 4 /\
  (* vertical right edge *)
  Trapezoid_valid 0 1 2 2 (1 / 2) /\ Trapezoid_membership 0 1 2 2 (1 / 2) 2 = 1 / 2.
Proof. repeat split; try valid_num; rewrite C03_Trapezoid_spec by valid_num; shape_num. Qed.
Print Assumptions C03_Trapezoid_example.
