(* C03, special values — "the membership value is NaN exactly when x is NaN" and the values at x = +-inf.
   The generated kernels of fuzzylite/term.py (Gen/GenTerm.v) are read over NumER: exact reals extended with
   +inf, -inf, NaN and IEEE 754's rules for them (inf - inf, 0 * inf, 0/0, inf/inf, sqrt of a negative, cos of
   an infinity are NaN; x/0 is a signed infinity; comparisons with NaN are false).  All term arguments are finite
   (`Fin r`) and satisfy the validity conditions written as hypotheses (only those actually needed; the height
   needs no condition here); Triangle/Trapezoid also with infinite shoulders.  x ranges over ALL of ER.
   Sigmoid, SigmoidDifference, SigmoidProduct need slope <> 0: for slope 0 the kernel computes 0 * inf = NaN at
   x = +-inf (`..._slope0_refuted`; the implementation does the same).
   Only imports and final statements; all proofs live in Proofs/TermER.v. *)
From Coq Require Import Reals Bool Lra.
From VF Require Import Num NumR NumER GenTerm TermER.
Local Open Scope R_scope.

Theorem C03_Arc_nan_iff : forall (s e h : R) (x : ER), s <> e -> 
  isnan (Arc_membership (Fin s) (Fin e) (Fin h) x) = isnan x.
Proof. exact Arc_nan_iff. Qed.
Print Assumptions C03_Arc_nan_iff.

Theorem C03_Arc_at_infinity : forall s e h : R, s <> e -> 
  Arc_membership (Fin s) (Fin e) (Fin h) PInf = Fin (if Rltb s e then h else 0) /\
  Arc_membership (Fin s) (Fin e) (Fin h) NInf = Fin (if Rltb s e then 0 else h).
Proof. intros; split; auto using Arc_at_pinf, Arc_at_ninf. Qed.
Print Assumptions C03_Arc_at_infinity.

Theorem C03_Bell_nan_iff : forall (c w s h : R) (x : ER), w <> 0 -> 
  isnan (Bell_membership (Fin c) (Fin w) (Fin s) (Fin h) x) = isnan x.
Proof. exact Bell_nan_iff. Qed.
Print Assumptions C03_Bell_nan_iff.

Theorem C03_Bell_at_infinity : forall c w s h : R, w <> 0 -> 0 < s -> 
  Bell_membership (Fin c) (Fin w) (Fin s) (Fin h) PInf = Fin 0 /\
  Bell_membership (Fin c) (Fin w) (Fin s) (Fin h) NInf = Fin 0.
Proof. intros; split; auto using Bell_at_pinf, Bell_at_ninf. Qed.
Print Assumptions C03_Bell_at_infinity.

Theorem C03_Concave_nan_iff : forall (i e h : R) (x : ER), 
  isnan (Concave_membership (Fin i) (Fin e) (Fin h) x) = isnan x.
Proof. exact Concave_nan_iff. Qed.
Print Assumptions C03_Concave_nan_iff.

Theorem C03_Concave_at_infinity : forall i e h : R, i <> e -> 
  Concave_membership (Fin i) (Fin e) (Fin h) PInf = Fin (if Rltb i e then h else 0) /\
  Concave_membership (Fin i) (Fin e) (Fin h) NInf = Fin (if Rltb i e then 0 else h).
Proof. intros; split; auto using Concave_at_pinf, Concave_at_ninf. Qed.
Print Assumptions C03_Concave_at_infinity.

Theorem C03_Cosine_nan_iff : forall (c w h : R) (x : ER), w <> 0 -> 
  isnan (Cosine_membership (Fin c) (Fin w) (Fin h) x) = isnan x.
Proof. exact Cosine_nan_iff. Qed.
Print Assumptions C03_Cosine_nan_iff.

Theorem C03_Cosine_at_infinity : forall c w h : R, 
  Cosine_membership (Fin c) (Fin w) (Fin h) PInf = Fin 0 /\
  Cosine_membership (Fin c) (Fin w) (Fin h) NInf = Fin 0.
Proof. intros; split; auto using Cosine_at_pinf, Cosine_at_ninf. Qed.
Print Assumptions C03_Cosine_at_infinity.

Theorem C03_Gaussian_nan_iff : forall (m sd h : R) (x : ER), sd <> 0 -> 
  isnan (Gaussian_membership (Fin m) (Fin sd) (Fin h) x) = isnan x.
Proof. exact Gaussian_nan_iff. Qed.
Print Assumptions C03_Gaussian_nan_iff.

Theorem C03_Gaussian_at_infinity : forall m sd h : R, sd <> 0 -> 
  Gaussian_membership (Fin m) (Fin sd) (Fin h) PInf = Fin 0 /\
  Gaussian_membership (Fin m) (Fin sd) (Fin h) NInf = Fin 0.
Proof. intros; split; auto using Gaussian_at_pinf, Gaussian_at_ninf. Qed.
Print Assumptions C03_Gaussian_at_infinity.

Theorem C03_PiShape_nan_iff : forall (a b c d h : R) (x : ER), a <> b -> c <> d -> 
  isnan (PiShape_membership (Fin a) (Fin b) (Fin c) (Fin d) (Fin h) x) = isnan x.
Proof. exact PiShape_nan_iff. Qed.
Print Assumptions C03_PiShape_nan_iff.

Theorem C03_PiShape_at_infinity : forall a b c d h : R, 
  PiShape_membership (Fin a) (Fin b) (Fin c) (Fin d) (Fin h) PInf = Fin 0 /\
  PiShape_membership (Fin a) (Fin b) (Fin c) (Fin d) (Fin h) NInf = Fin 0.
Proof. intros; split; auto using PiShape_at_pinf, PiShape_at_ninf. Qed.
Print Assumptions C03_PiShape_at_infinity.

Theorem C03_Ramp_nan_iff : forall (s e h : R) (x : ER), s <> e -> 
  isnan (Ramp_membership (Fin s) (Fin e) (Fin h) x) = isnan x.
Proof. exact Ramp_nan_iff. Qed.
Print Assumptions C03_Ramp_nan_iff.

Theorem C03_Ramp_at_infinity : forall s e h : R, s <> e -> 
  Ramp_membership (Fin s) (Fin e) (Fin h) PInf = Fin (if Rltb s e then h else 0) /\
  Ramp_membership (Fin s) (Fin e) (Fin h) NInf = Fin (if Rltb s e then 0 else h).
Proof. intros; split; auto using Ramp_at_pinf, Ramp_at_ninf. Qed.
Print Assumptions C03_Ramp_at_infinity.

Theorem C03_Rectangle_nan_iff : forall (s e h : R) (x : ER), 
  isnan (Rectangle_membership (Fin s) (Fin e) (Fin h) x) = isnan x.
Proof. exact Rectangle_nan_iff. Qed.
Print Assumptions C03_Rectangle_nan_iff.

Theorem C03_Rectangle_at_infinity : forall s e h : R, 
  Rectangle_membership (Fin s) (Fin e) (Fin h) PInf = Fin 0 /\
  Rectangle_membership (Fin s) (Fin e) (Fin h) NInf = Fin 0.
Proof. intros; split; auto using Rectangle_at_pinf, Rectangle_at_ninf. Qed.
Print Assumptions C03_Rectangle_at_infinity.

Theorem C03_SemiEllipse_nan_iff : forall (s e h : R) (x : ER), s <> e -> 
  isnan (SemiEllipse_membership (Fin s) (Fin e) (Fin h) x) = isnan x.
Proof. exact SemiEllipse_nan_iff. Qed.
Print Assumptions C03_SemiEllipse_nan_iff.

Theorem C03_SemiEllipse_at_infinity : forall s e h : R, 
  SemiEllipse_membership (Fin s) (Fin e) (Fin h) PInf = Fin 0 /\
  SemiEllipse_membership (Fin s) (Fin e) (Fin h) NInf = Fin 0.
Proof. intros; split; auto using SemiEllipse_at_pinf, SemiEllipse_at_ninf. Qed.
Print Assumptions C03_SemiEllipse_at_infinity.

Theorem C03_Sigmoid_nan_iff : forall (i s h : R) (x : ER), s <> 0 -> 
  isnan (Sigmoid_membership (Fin i) (Fin s) (Fin h) x) = isnan x.
Proof. exact Sigmoid_nan_iff. Qed.
Print Assumptions C03_Sigmoid_nan_iff.

Theorem C03_Sigmoid_at_infinity : forall i s h : R, s <> 0 -> 
  Sigmoid_membership (Fin i) (Fin s) (Fin h) PInf = Fin (if Rltb 0 s then h else 0) /\
  Sigmoid_membership (Fin i) (Fin s) (Fin h) NInf = Fin (if Rltb 0 s then 0 else h).
Proof. intros; split; auto using Sigmoid_at_pinf, Sigmoid_at_ninf. Qed.
Print Assumptions C03_Sigmoid_at_infinity.

Theorem C03_SigmoidDifference_nan_iff : forall (l r f rt h : R) (x : ER), r <> 0 -> f <> 0 -> 
  isnan (SigmoidDifference_membership (Fin l) (Fin r) (Fin f) (Fin rt) (Fin h) x) = isnan x.
Proof. exact SigmoidDifference_nan_iff. Qed.
Print Assumptions C03_SigmoidDifference_nan_iff.

Theorem C03_SigmoidDifference_at_infinity : forall l r f rt h : R, r <> 0 -> f <> 0 -> 
  SigmoidDifference_membership (Fin l) (Fin r) (Fin f) (Fin rt) (Fin h) PInf = Fin (if Bool.eqb (Rltb 0 r) (Rltb 0 f) then 0 else h) /\
  SigmoidDifference_membership (Fin l) (Fin r) (Fin f) (Fin rt) (Fin h) NInf = Fin (if Bool.eqb (Rltb 0 r) (Rltb 0 f) then 0 else h).
Proof. intros; split; auto using SigmoidDifference_at_pinf, SigmoidDifference_at_ninf. Qed.
Print Assumptions C03_SigmoidDifference_at_infinity.

Theorem C03_SigmoidProduct_nan_iff : forall (l r f rt h : R) (x : ER), r <> 0 -> f <> 0 -> 
  isnan (SigmoidProduct_membership (Fin l) (Fin r) (Fin f) (Fin rt) (Fin h) x) = isnan x.
Proof. exact SigmoidProduct_nan_iff. Qed.
Print Assumptions C03_SigmoidProduct_nan_iff.

Theorem C03_SigmoidProduct_at_infinity : forall l r f rt h : R, r <> 0 -> f <> 0 -> 
  SigmoidProduct_membership (Fin l) (Fin r) (Fin f) (Fin rt) (Fin h) PInf = Fin (if Rltb 0 r && Rltb 0 f then h else 0) /\
  SigmoidProduct_membership (Fin l) (Fin r) (Fin f) (Fin rt) (Fin h) NInf = Fin (if Rltb r 0 && Rltb f 0 then h else 0).
Proof. intros; split; auto using SigmoidProduct_at_pinf, SigmoidProduct_at_ninf. Qed.
Print Assumptions C03_SigmoidProduct_at_infinity.

Theorem C03_Spike_nan_iff : forall (c w h : R) (x : ER), w <> 0 -> 
  isnan (Spike_membership (Fin c) (Fin w) (Fin h) x) = isnan x.
Proof. exact Spike_nan_iff. Qed.
Print Assumptions C03_Spike_nan_iff.

Theorem C03_Spike_at_infinity : forall c w h : R, w <> 0 -> 
  Spike_membership (Fin c) (Fin w) (Fin h) PInf = Fin 0 /\
  Spike_membership (Fin c) (Fin w) (Fin h) NInf = Fin 0.
Proof. intros; split; auto using Spike_at_pinf, Spike_at_ninf. Qed.
Print Assumptions C03_Spike_at_infinity.

Theorem C03_SShape_nan_iff : forall (s e h : R) (x : ER), s <> e -> 
  isnan (SShape_membership (Fin s) (Fin e) (Fin h) x) = isnan x.
Proof. exact SShape_nan_iff. Qed.
Print Assumptions C03_SShape_nan_iff.

Theorem C03_SShape_at_infinity : forall s e h : R, 
  SShape_membership (Fin s) (Fin e) (Fin h) PInf = Fin h /\
  SShape_membership (Fin s) (Fin e) (Fin h) NInf = Fin 0.
Proof. intros; split; auto using SShape_at_pinf, SShape_at_ninf. Qed.
Print Assumptions C03_SShape_at_infinity.

Theorem C03_ZShape_nan_iff : forall (s e h : R) (x : ER), s <> e -> 
  isnan (ZShape_membership (Fin s) (Fin e) (Fin h) x) = isnan x.
Proof. exact ZShape_nan_iff. Qed.
Print Assumptions C03_ZShape_nan_iff.

Theorem C03_ZShape_at_infinity : forall s e h : R, 
  ZShape_membership (Fin s) (Fin e) (Fin h) PInf = Fin 0 /\
  ZShape_membership (Fin s) (Fin e) (Fin h) NInf = Fin h.
Proof. intros; split; auto using ZShape_at_pinf, ZShape_at_ninf. Qed.
Print Assumptions C03_ZShape_at_infinity.

Theorem C03_Triangle_nan_iff : forall (a b c h : R) (x : ER), a <= b -> b <= c -> 
  isnan (Triangle_membership (Fin a) (Fin b) (Fin c) (Fin h) x) = isnan x.
Proof. exact Triangle_nan_iff. Qed.
Print Assumptions C03_Triangle_nan_iff.

Theorem C03_Triangle_at_infinity : forall a b c h : R, 
  Triangle_membership (Fin a) (Fin b) (Fin c) (Fin h) PInf = Fin 0 /\
  Triangle_membership (Fin a) (Fin b) (Fin c) (Fin h) NInf = Fin 0.
Proof. intros; split; auto using Triangle_at_pinf, Triangle_at_ninf. Qed.
Print Assumptions C03_Triangle_at_infinity.

Theorem C03_Triangle_left_shoulder_nan_iff : forall (b c h : R) (x : ER), b <= c -> 
  isnan (Triangle_membership NInf (Fin b) (Fin c) (Fin h) x) = isnan x.
Proof. exact TriangleL_nan_iff. Qed.
Print Assumptions C03_Triangle_left_shoulder_nan_iff.

Theorem C03_Triangle_left_shoulder_at_infinity : forall b c h : R, 
  Triangle_membership NInf (Fin b) (Fin c) (Fin h) PInf = Fin 0 /\
  Triangle_membership NInf (Fin b) (Fin c) (Fin h) NInf = Fin h.
Proof. intros; split; auto using TriangleL_at_pinf, TriangleL_at_ninf. Qed.
Print Assumptions C03_Triangle_left_shoulder_at_infinity.

Theorem C03_Triangle_right_shoulder_nan_iff : forall (a b h : R) (x : ER), a <= b -> 
  isnan (Triangle_membership (Fin a) (Fin b) PInf (Fin h) x) = isnan x.
Proof. exact TriangleR_nan_iff. Qed.
Print Assumptions C03_Triangle_right_shoulder_nan_iff.

Theorem C03_Triangle_right_shoulder_at_infinity : forall a b h : R, 
  Triangle_membership (Fin a) (Fin b) PInf (Fin h) PInf = Fin h /\
  Triangle_membership (Fin a) (Fin b) PInf (Fin h) NInf = Fin 0.
Proof. intros; split; auto using TriangleR_at_pinf, TriangleR_at_ninf. Qed.
Print Assumptions C03_Triangle_right_shoulder_at_infinity.

Theorem C03_Triangle_both_shoulders_nan_iff : forall (b h : R) (x : ER), 
  isnan (Triangle_membership NInf (Fin b) PInf (Fin h) x) = isnan x.
Proof. exact TriangleLR_nan_iff. Qed.
Print Assumptions C03_Triangle_both_shoulders_nan_iff.

Theorem C03_Triangle_both_shoulders_at_infinity : forall b h : R, 
  Triangle_membership NInf (Fin b) PInf (Fin h) PInf = Fin h /\
  Triangle_membership NInf (Fin b) PInf (Fin h) NInf = Fin h.
Proof. intros; split; auto using TriangleLR_at_pinf, TriangleLR_at_ninf. Qed.
Print Assumptions C03_Triangle_both_shoulders_at_infinity.

Theorem C03_Trapezoid_nan_iff : forall (a b c d h : R) (x : ER), a <= b -> b <= c -> c <= d -> 
  isnan (Trapezoid_membership (Fin a) (Fin b) (Fin c) (Fin d) (Fin h) x) = isnan x.
Proof. exact Trapezoid_nan_iff. Qed.
Print Assumptions C03_Trapezoid_nan_iff.

Theorem C03_Trapezoid_at_infinity : forall a b c d h : R, 
  Trapezoid_membership (Fin a) (Fin b) (Fin c) (Fin d) (Fin h) PInf = Fin 0 /\
  Trapezoid_membership (Fin a) (Fin b) (Fin c) (Fin d) (Fin h) NInf = Fin 0.
Proof. intros; split; auto using Trapezoid_at_pinf, Trapezoid_at_ninf. Qed.
Print Assumptions C03_Trapezoid_at_infinity.

Theorem C03_Trapezoid_left_shoulder_nan_iff : forall (b c d h : R) (x : ER), b <= c -> c <= d -> 
  isnan (Trapezoid_membership NInf (Fin b) (Fin c) (Fin d) (Fin h) x) = isnan x.
Proof. exact TrapezoidL_nan_iff. Qed.
Print Assumptions C03_Trapezoid_left_shoulder_nan_iff.

Theorem C03_Trapezoid_left_shoulder_at_infinity : forall b c d h : R, 
  Trapezoid_membership NInf (Fin b) (Fin c) (Fin d) (Fin h) PInf = Fin 0 /\
  Trapezoid_membership NInf (Fin b) (Fin c) (Fin d) (Fin h) NInf = Fin h.
Proof. intros; split; auto using TrapezoidL_at_pinf, TrapezoidL_at_ninf. Qed.
Print Assumptions C03_Trapezoid_left_shoulder_at_infinity.

Theorem C03_Trapezoid_right_shoulder_nan_iff : forall (a b c h : R) (x : ER), a <= b -> b <= c -> 
  isnan (Trapezoid_membership (Fin a) (Fin b) (Fin c) PInf (Fin h) x) = isnan x.
Proof. exact TrapezoidR_nan_iff. Qed.
Print Assumptions C03_Trapezoid_right_shoulder_nan_iff.

Theorem C03_Trapezoid_right_shoulder_at_infinity : forall a b c h : R, 
  Trapezoid_membership (Fin a) (Fin b) (Fin c) PInf (Fin h) PInf = Fin h /\
  Trapezoid_membership (Fin a) (Fin b) (Fin c) PInf (Fin h) NInf = Fin 0.
Proof. intros; split; auto using TrapezoidR_at_pinf, TrapezoidR_at_ninf. Qed.
Print Assumptions C03_Trapezoid_right_shoulder_at_infinity.

Theorem C03_Trapezoid_both_shoulders_nan_iff : forall (b c h : R) (x : ER), b <= c -> 
  isnan (Trapezoid_membership NInf (Fin b) (Fin c) PInf (Fin h) x) = isnan x.
Proof. exact TrapezoidLR_nan_iff. Qed.
Print Assumptions C03_Trapezoid_both_shoulders_nan_iff.

Theorem C03_Trapezoid_both_shoulders_at_infinity : forall b c h : R, 
  Trapezoid_membership NInf (Fin b) (Fin c) PInf (Fin h) PInf = Fin h /\
  Trapezoid_membership NInf (Fin b) (Fin c) PInf (Fin h) NInf = Fin h.
Proof. intros; split; auto using TrapezoidLR_at_pinf, TrapezoidLR_at_ninf. Qed.
Print Assumptions C03_Trapezoid_both_shoulders_at_infinity.

(* Binary: the direction may be any ER (fuzzylite's default direction is +inf) *)
Theorem C03_Binary_nan_iff : forall (s : R) (d : ER) (h : R) (x : ER),
  isnan (Binary_membership (Fin s) d (Fin h) x) = isnan x.
Proof. exact Binary_nan_iff. Qed.
Print Assumptions C03_Binary_nan_iff.

Theorem C03_Binary_at_infinity : forall (s : R) (d : ER) (h : R),
  Binary_membership (Fin s) d (Fin h) PInf = Fin (if ERltb (Fin s) d then h else 0) /\
  Binary_membership (Fin s) d (Fin h) NInf = Fin (if ERltb d (Fin s) then h else 0).
Proof. intros; split; auto using Binary_at_pinf, Binary_at_ninf. Qed.
Print Assumptions C03_Binary_at_infinity.

Theorem C03_GaussianProduct_nan_iff : forall (ma sa mb sb h : R) (x : ER), sa <> 0 -> sb <> 0 ->
  isnan (GaussianProduct_membership (Fin ma) (Fin sa) (Fin mb) (Fin sb) (Fin h) x) = isnan x.
Proof. exact GaussianProduct_nan_iff. Qed.
Print Assumptions C03_GaussianProduct_nan_iff.

Theorem C03_GaussianProduct_at_infinity : forall ma sa mb sb h : R, sa <> 0 -> sb <> 0 ->
  GaussianProduct_membership (Fin ma) (Fin sa) (Fin mb) (Fin sb) (Fin h) PInf = Fin 0 /\
  GaussianProduct_membership (Fin ma) (Fin sa) (Fin mb) (Fin sb) (Fin h) NInf = Fin 0.
Proof. intros; split; auto using GaussianProduct_at_pinf, GaussianProduct_at_ninf. Qed.
Print Assumptions C03_GaussianProduct_at_infinity.

(* Bell with a non-positive slope (not the documented bell): h at +-inf for slope < 0, h/2 for slope 0 *)
Theorem C03_Bell_at_infinity_any_slope : forall c w s h : R, w <> 0 ->
  Bell_membership (Fin c) (Fin w) (Fin s) (Fin h) PInf = Fin (if Rltb 0 s then 0 else if Reqb s 0 then h / 2 else h) /\
  Bell_membership (Fin c) (Fin w) (Fin s) (Fin h) NInf = Fin (if Rltb 0 s then 0 else if Reqb s 0 then h / 2 else h).
Proof. intros; split; auto using Bell_at_pinf_any_slope, Bell_at_ninf_any_slope. Qed.
Print Assumptions C03_Bell_at_infinity_any_slope.

(* Constant, the degenerate case: its value, whatever x (so NaN iff the value is NaN) *)
Theorem C03_Constant_value : forall v x : ER, Constant_membership v x = v.
Proof. exact Constant_value. Qed.
Print Assumptions C03_Constant_value.

(* Sigmoids: finite x never gives NaN, whatever the slope; slope 0 gives NaN at x = +-inf *)
Theorem C03_Sigmoid_nan_iff_finite : forall i s h x : R,
  isnan (Sigmoid_membership (Fin i) (Fin s) (Fin h) (Fin x)) = false.
Proof. exact Sigmoid_nan_iff_fin. Qed.
Print Assumptions C03_Sigmoid_nan_iff_finite.

Theorem C03_Sigmoid_nan_iff_slope0_refuted :
  exists i s h x, 0 < h <= 1 /\ isnan x = false /\ isnan (Sigmoid_membership (Fin i) (Fin s) (Fin h) x) = true.
Proof. exact Sigmoid_nan_iff_slope0_refuted. Qed.
Print Assumptions C03_Sigmoid_nan_iff_slope0_refuted.

Theorem C03_Sigmoid_slope0_at_infinity : forall i h : R,
  Sigmoid_membership (Fin i) (Fin 0) (Fin h) PInf = NaN /\ Sigmoid_membership (Fin i) (Fin 0) (Fin h) NInf = NaN.
Proof. intros; split; auto using Sigmoid_slope0_pinf, Sigmoid_slope0_ninf. Qed.
Print Assumptions C03_Sigmoid_slope0_at_infinity.

Theorem C03_SigmoidDifference_nan_iff_slope0_refuted :
  exists l r f rt h x, 0 < h <= 1 /\ isnan x = false /\
    isnan (SigmoidDifference_membership (Fin l) (Fin r) (Fin f) (Fin rt) (Fin h) x) = true.
Proof. exact SigmoidDifference_nan_iff_slope0_refuted. Qed.
Print Assumptions C03_SigmoidDifference_nan_iff_slope0_refuted.

Theorem C03_SigmoidProduct_nan_iff_slope0_refuted :
  exists l r f rt h x, 0 < h <= 1 /\ isnan x = false /\
    isnan (SigmoidProduct_membership (Fin l) (Fin r) (Fin f) (Fin rt) (Fin h) x) = true.
Proof. exact SigmoidProduct_nan_iff_slope0_refuted. Qed.
Print Assumptions C03_SigmoidProduct_nan_iff_slope0_refuted.

(* ---- non-vacuity: concrete finite parameters satisfying the hypotheses *)
Ltac ifR := repeat match goal with |- context [Rltb ?a ?b] => destruct (Rltb_spec a b); try (exfalso; lra) end.

(* a decreasing arc, x = -inf: not NaN, value h *)
Example C03_ex_Arc_decreasing :
  isnan (Arc_membership (Fin 1) (Fin 0) (Fin (1/2)) NInf) = false /\
  Arc_membership (Fin 1) (Fin 0) (Fin (1/2)) NInf = Fin (1/2).
Proof.
  split; [apply (C03_Arc_nan_iff 1 0 (1/2) NInf); lra |].
  destruct (C03_Arc_at_infinity 1 0 (1/2)) as [_ H]; [lra |]. rewrite H. ifR. reflexivity.
Qed.

(* a triangle with a vertical left edge a = b, evaluated on the edge and at +inf *)
Example C03_ex_Triangle_vertical_edge :
  isnan (Triangle_membership (Fin 0) (Fin 0) (Fin 2) (Fin (1/2)) (Fin 0)) = false /\
  Triangle_membership (Fin 0) (Fin 0) (Fin 2) (Fin (1/2)) PInf = Fin 0.
Proof.
  split; [apply (C03_Triangle_nan_iff 0 0 2 (1/2) (Fin 0)); lra | apply (C03_Triangle_at_infinity 0 0 2 (1/2))].
Qed.

(* a trapezoid with both shoulders infinite *)
Example C03_ex_Trapezoid_both_shoulders :
  Trapezoid_membership NInf (Fin 1) (Fin 2) PInf (Fin (1/2)) PInf = Fin (1/2) /\
  Trapezoid_membership NInf (Fin 1) (Fin 2) PInf (Fin (1/2)) NInf = Fin (1/2).
Proof. apply (C03_Trapezoid_both_shoulders_at_infinity 1 2 (1/2)); lra. Qed.

(* a falling sigmoid *)
Example C03_ex_Sigmoid_falling :
  Sigmoid_membership (Fin 0) (Fin (-1)) (Fin (1/2)) PInf = Fin 0 /\
  Sigmoid_membership (Fin 0) (Fin (-1)) (Fin (1/2)) NInf = Fin (1/2).
Proof. destruct (C03_Sigmoid_at_infinity 0 (-1) (1/2)) as [H1 H2]; [lra |]. rewrite H1, H2. ifR. split; reflexivity. Qed.

(* NaN in, NaN out *)
Example C03_ex_Gaussian_nan : isnan (Gaussian_membership (Fin 0) (Fin 1) (Fin 1) NaN) = true.
Proof. apply (C03_Gaussian_nan_iff 0 1 1 NaN); lra. Qed.
