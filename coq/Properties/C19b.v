(* C19b — the abstract model of C19 is a sound abstraction of the NUMERIC engine model, and therefore an engine reported
   ready is processed without error by the numeric model that C01/C13 tie bit-for-bit to the implementation.

     process_raises term_err trig e     Model/Ready.v: control flow only, numbers abstracted (property C19)
     process fe0 e                      Model/Engine.v: Engine.process in scalar mode, every number computed
     engine_term_err e                  the errors Engine.term_membership / term_tsukamoto give: a Discrete with an empty table
                                        (ValueError), a Linear whose coefficient count is neither #inputs nor #inputs+1
                                        (ValueError), a Function (fe0: no formula model plugged; not loaded: RuntimeError),
                                        tsukamoto of a term without inverse (RuntimeError); nothing else
     resolution_ok e                    no integral defuzzifier has resolution 0 (Op.midpoints divides by it): the one error of
                                        the numeric model that the abstract model does not know
     trig                               universally quantified: the numeric model decides from the degrees which rules a
                                        non-General method triggers, and the proof picks the oracle that agrees with it

   Only imports and final statements; the proofs are in Proofs/ReadyEngineProofs.v (through
   EngineAllProofs.process_eq_all_spec: all seven activation methods, integral and weighted defuzzifiers). *)
From Coq Require Import Bool List String PrimFloat.
From VF Require Import Num NumF GenTerm Core Engine EngineProofs Ready ReadyProofs ReadyEngineProofs.
Import ListNotations.

(* ---- (1) abstraction soundness: if no trigger oracle makes the abstract model raise, the numeric model completes *)
Theorem C19b_abstract_sound :
  forall (T : Type) (N : Num T) (e : engine T),
    resolution_ok e ->
    (forall trig, process_raises (engine_term_err e) trig e = None) ->
    exists e', process (@fe0 T) e = Ok e'.
Proof. exact @abstract_sound. Qed.
Print Assumptions C19b_abstract_sound.

(* ---- (2) engines whose enabled blocks use General activation: a single abstract run (any oracle: it is never consulted) *)
Theorem C19b_sound_general :
  forall (T : Type) (N : Num T) (e : engine T) (trig : nat -> list nat),
    general_enabled e -> resolution_ok e ->
    process_raises (engine_term_err e) trig e = None ->
    exists e', process (@fe0 T) e = Ok e'.
Proof. exact @sound_general. Qed.
Print Assumptions C19b_sound_general.

(* ---- (3) with C19_ready_process_ok: ready => the numeric model processes the engine *)
Theorem C19_ready_engine_process_ok :
  forall (T : Type) (N : Num T) (e : engine T) (tx : texts),
    is_ready e tx = [] -> has_activation e -> ws_tokens e tx ->
    wf_terms (engine_term_err e) e -> resolution_ok e ->
    exists e', process (@fe0 T) e = Ok e'.
Proof. exact ready_engine_process_ok. Qed.
Print Assumptions C19_ready_engine_process_ok.

(* ---- the building blocks, for the record *)
(* Rule.activate_with: an abstract walk without exception is a numeric degree *)
Theorem C19b_antecedent_sound :
  forall (T : Type) (N : Num T) (e E : engine T) cj dj x,
    e_inputs E = e_inputs e -> Forall2 same_cfg (e_outputs E) (e_outputs e) ->
    antecedent_raises (engine_term_err e) (is_some cj) (is_some dj) e x = None ->
    exists d, Antecedent.activation_degree (term_membership (@fe0 T) E) cj dj E x = Ok d.
Proof. exact @antecedent_sound. Qed.
Print Assumptions C19b_antecedent_sound.

(* the integral defuzzifiers are total on a non-empty row of samples *)
Theorem C19b_defuzzify_samples_total :
  forall (T : Type) (N : Num T) k (xs ys : list T),
    List.length xs = List.length ys -> xs <> [] -> exists z, Defuzz.defuzzify_samples k xs ys = Ok z.
Proof. exact @defuzzify_samples_ok. Qed.
Print Assumptions C19b_defuzzify_samples_total.

(* ---- non-vacuity: a binary64 engine (two inputs, Centroid and WeightedAverage outputs, a General and a Highest block, rules
   with `and`, `or`, parentheses, a hedge) satisfies every hypothesis of (3), and the numeric model does return Ok on it *)
Example C19b_hypotheses_inhabited :
  is_ready f_engine g_texts = [] /\ has_activation f_engine /\ ws_tokens f_engine g_texts /\
  wf_terms (@engine_term_err float NF19 f_engine) f_engine /\ resolution_ok f_engine.
Proof. exact ready_engine_hypotheses_inhabited. Qed.

Example C19b_example_runs :
  match @process float NF19 fe0 f_engine with
  | Ok e' => List.length (e_outputs e') = 2 /\
             forallb (fun v => negb (PrimFloat.is_nan (ov_value v))) (e_outputs e') = true
  | Err _ => False
  end.
Proof. exact ready_engine_example_runs. Qed.
