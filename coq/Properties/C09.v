(* C09 — Integral defuzzifiers return the defined point of the sampled fuzzy set.
   Model: Model/NpSum.v (NumPy's pairwise sum, nancumsum, nanmean, nanmax/nanmin, min/max) and Model/Defuzz.v
   (Op.midpoints and the five defuzzify methods, line by line); the same definitions are executed over binary64
   floats and compared bit for bit with the implementation by tools/props/C09.py on every run.
   Readings used here: NumR (reals) for the summation, the midpoints and the centroid; NumER (reals + inf + NaN,
   Num/NumER.v) for all five defuzzifiers, because the code masks sample points with NaN.
   `Fin z` is the number z, `NaN` is NaN, `Ok`/`Err` is return/raise.  `liftf mu` reads a real membership
   function mu : R -> R in ER; `Rmidpoints lo hi r` is the list of the x_i = lo + (i + 1/2)(hi - lo)/r;
   `toER` embeds a specification-level `option R` (None = NaN).  Memberships are >= 0 (the property's domain):
   the hypothesis `forall x, 0 <= mu x` is what keeps every x/0 of the code a 0/0.
   Only imports and final statements; all proofs live in Proofs/DefuzzProofs.v. *)
From Coq Require Import ZArith Reals Bool List Lra Lia.
From VF Require Import Num NumR NumER Core NpSum Defuzz DefuzzProofs.
Import ListNotations.
Local Open Scope R_scope.

(* ---- NumPy's pairwise summation computes the sum (over the reals) *)
Theorem C09_np_sum_R : forall l : list R, np_sum (N:=NumR) l = fold_right Rplus 0 l.
Proof. exact np_sum_R. Qed.
Print Assumptions C09_np_sum_R.

(* ---- midpoints *)
Theorem C09_midpoints_spec : forall (lo hi : R) (r i : nat), (i < r)%nat ->
  exists xs, midpoints (N:=NumR) lo hi r = Ok xs /\ length xs = r /\
             nth i xs 0 = lo + (INR i + 1 / 2) * ((hi - lo) / INR r).
Proof.
  intros lo hi r i Hi. exists (Rmidpoints lo hi r).
  split; [apply midpoints_spec; lia | split; [apply Rmidpoints_length | apply Rmidpoints_nth; exact Hi]].
Qed.
Print Assumptions C09_midpoints_spec.

Theorem C09_midpoints_ER : forall (lo hi : R) (r : nat), (0 < r)%nat ->
  midpoints (N:=NumER) (Fin lo) (Fin hi) r = Ok (map Fin (Rmidpoints lo hi r)).
Proof. exact midpoints_ER. Qed.
Print Assumptions C09_midpoints_ER.

Theorem C09_midpoints_in_range : forall (lo hi : R) (r i : nat), lo <= hi -> (i < r)%nat ->
  lo <= Rmidpoint lo hi r i <= hi.
Proof. exact Rmidpoint_in_range. Qed.
Print Assumptions C09_midpoints_in_range.

Theorem C09_midpoints_increasing : forall (lo hi : R) (r i j : nat), lo < hi -> (i < j)%nat -> (0 < r)%nat ->
  Rmidpoint lo hi r i < Rmidpoint lo hi r j.
Proof. exact Rmidpoint_increasing. Qed.
Print Assumptions C09_midpoints_increasing.

Theorem C09_resolution_zero_raises : forall k (mu : ER -> ER) lo hi, defuzzify k 0 mu lo hi = Err EInternal.
Proof. exact (@defuzzify_zero_resolution ER NumER). Qed.
Print Assumptions C09_resolution_zero_raises.

(* ---- Centroid = sum x mu / sum mu *)
Theorem C09_centroid_spec_R : forall xs ys : list R,
  centroid (N:=NumR) xs ys = dot xs ys / Rsum ys.
Proof. exact centroid_R. Qed.
Print Assumptions C09_centroid_spec_R.

Theorem C09_centroid_spec : forall (r : nat) (mu : R -> R) (lo hi : R), (0 < r)%nat -> (forall x, 0 <= mu x) ->
  let xs := Rmidpoints lo hi r in
  defuzzify (N:=NumER) Centroid r (liftf mu) (Fin lo) (Fin hi) =
  Ok (toER (if Req_EM_T (Rsum (map mu xs)) 0 then None else Some (dot xs (map mu xs) / Rsum (map mu xs)))).
Proof. intros r mu lo hi Hr Hmu. exact (defuzzify_value Centroid r mu lo hi Hr Hmu). Qed.
Print Assumptions C09_centroid_spec.

(* ---- the maxima: smallest / mean / largest sample point where mu attains its positive maximum *)
Theorem C09_argmax_points_spec : forall (xs : list R) (m0 : R) (mt : list R) (x : R),
  In x (argmax_points xs (m0 :: mt)) <->
  exists i, nth_error xs i = Some x /\ nth_error (m0 :: mt) i = Some (Rmaxl m0 mt) /\ 0 < Rmaxl m0 mt.
Proof. exact argmax_points_spec. Qed.
Print Assumptions C09_argmax_points_spec.

Theorem C09_max_is_max : forall (m0 : R) (mt : list R),
  In (Rmaxl m0 mt) (m0 :: mt) /\ forall y, In y (m0 :: mt) -> y <= Rmaxl m0 mt.
Proof. intros m0 mt. split; [apply Rmaxl_in | apply Rmaxl_ge]. Qed.
Print Assumptions C09_max_is_max.

Theorem C09_som_spec : forall (r : nat) (mu : R -> R) (lo hi : R), (0 < r)%nat -> (forall x, 0 <= mu x) ->
  let xs := Rmidpoints lo hi r in
  defuzzify (N:=NumER) SmallestOfMaximum r (liftf mu) (Fin lo) (Fin hi) =
  Ok (toER (match argmax_points xs (map mu xs) with [] => None | a :: t => Some (fold_left Rmin t a) end)).
Proof. intros r mu lo hi Hr Hmu. exact (defuzzify_value SmallestOfMaximum r mu lo hi Hr Hmu). Qed.
Print Assumptions C09_som_spec.

Theorem C09_mom_spec : forall (r : nat) (mu : R -> R) (lo hi : R), (0 < r)%nat -> (forall x, 0 <= mu x) ->
  let xs := Rmidpoints lo hi r in
  defuzzify (N:=NumER) MeanOfMaximum r (liftf mu) (Fin lo) (Fin hi) =
  Ok (toER (match argmax_points xs (map mu xs) with [] => None | a :: t => Some (Rsum (a :: t) / INR (length (a :: t))) end)).
Proof. intros r mu lo hi Hr Hmu. exact (defuzzify_value MeanOfMaximum r mu lo hi Hr Hmu). Qed.
Print Assumptions C09_mom_spec.

Theorem C09_lom_spec : forall (r : nat) (mu : R -> R) (lo hi : R), (0 < r)%nat -> (forall x, 0 <= mu x) ->
  let xs := Rmidpoints lo hi r in
  defuzzify (N:=NumER) LargestOfMaximum r (liftf mu) (Fin lo) (Fin hi) =
  Ok (toER (match argmax_points xs (map mu xs) with [] => None | a :: t => Some (fold_left Rmax t a) end)).
Proof. intros r mu lo hi Hr Hmu. exact (defuzzify_value LargestOfMaximum r mu lo hi Hr Hmu). Qed.
Print Assumptions C09_lom_spec.

(* ---- Bisector: mean of the sample points whose normalised cumulative membership is closest to 1/2 *)
Theorem C09_bisector_spec : forall (r : nat) (mu : R -> R) (lo hi : R), (0 < r)%nat -> (forall x, 0 <= mu x) ->
  let xs := Rmidpoints lo hi r in
  defuzzify (N:=NumER) Bisector r (liftf mu) (Fin lo) (Fin hi) =
  Ok (toER (if Req_EM_T (Rsum (map mu xs)) 0 then None
            else match bisector_points xs (map mu xs) with
                 | [] => None | a :: t => Some (Rsum (a :: t) / INR (length (a :: t))) end)).
Proof. intros r mu lo hi Hr Hmu. exact (defuzzify_value Bisector r mu lo hi Hr Hmu). Qed.
Print Assumptions C09_bisector_spec.

Theorem C09_bisector_points_spec : forall (xs mus : list R) (d0 : R) (dt : list R) (x : R),
  bisector_dist mus = d0 :: dt ->
  (In x (bisector_points xs mus) <->
   exists i, nth_error xs i = Some x /\ nth_error (bisector_dist mus) i = Some (fold_left Rmin dt d0)).
Proof. exact bisector_points_spec. Qed.
Print Assumptions C09_bisector_points_spec.

Theorem C09_bisector_dist_spec : forall (mus : list R) (i : nat), (i < length mus)%nat ->
  nth i (bisector_dist mus) 0 = Rabs (Rsum (firstn (S i) mus) / Rsum mus - 1 / 2).
Proof. exact bisector_dist_nth. Qed.
Print Assumptions C09_bisector_dist_spec.

Theorem C09_bisector_points_nonempty : forall xs mus : list R,
  length xs = length mus -> mus <> [] -> bisector_points xs mus <> [].
Proof. exact bisector_points_nonempty. Qed.
Print Assumptions C09_bisector_points_nonempty.

(* ---- every result lies in [min, max] *)
Theorem C09_in_range : forall k (r : nat) (mu : R -> R) (lo hi z : R),
  (0 < r)%nat -> lo <= hi -> (forall x, 0 <= mu x) ->
  defuzzify (N:=NumER) k r (liftf mu) (Fin lo) (Fin hi) = Ok (Fin z) -> lo <= z <= hi.
Proof. exact defuzzify_in_range. Qed.
Print Assumptions C09_in_range.

(* ---- SOM <= MOM <= LOM *)
Theorem C09_som_le_mom_le_lom : forall (r : nat) (mu : R -> R) (lo hi s m l : R),
  (0 < r)%nat -> (forall x, 0 <= mu x) ->
  defuzzify (N:=NumER) SmallestOfMaximum r (liftf mu) (Fin lo) (Fin hi) = Ok (Fin s) ->
  defuzzify (N:=NumER) MeanOfMaximum r (liftf mu) (Fin lo) (Fin hi) = Ok (Fin m) ->
  defuzzify (N:=NumER) LargestOfMaximum r (liftf mu) (Fin lo) (Fin hi) = Ok (Fin l) ->
  s <= m <= l.
Proof. exact defuzzify_som_le_mom_le_lom. Qed.
Print Assumptions C09_som_le_mom_le_lom.

(* ---- NaN exactly when the membership is zero at every sample point *)
Theorem C09_nan_iff_all_zero : forall k (r : nat) (mu : R -> R) (lo hi : R),
  (0 < r)%nat -> (forall x, 0 <= mu x) ->
  (defuzzify (N:=NumER) k r (liftf mu) (Fin lo) (Fin hi) = Ok NaN <->
   Forall (fun x => mu x = 0) (Rmidpoints lo hi r)).
Proof. exact defuzzify_nan_iff. Qed.
Print Assumptions C09_nan_iff_all_zero.

Theorem C09_defined_when_some_positive : forall k (r : nat) (mu : R -> R) (lo hi : R),
  (0 < r)%nat -> (forall x, 0 <= mu x) -> Exists (fun x => 0 < mu x) (Rmidpoints lo hi r) ->
  exists z, defuzzify (N:=NumER) k r (liftf mu) (Fin lo) (Fin hi) = Ok (Fin z).
Proof. exact defuzzify_defined. Qed.
Print Assumptions C09_defined_when_some_positive.

(* guard forms over the plain reals: all samples zero -> both sums vanish (0/0), and the arg-set is empty *)
Theorem C09_all_zero_guards : forall xs mus : list R, Forall (fun y => y = 0) mus ->
  Rsum mus = 0 /\ dot xs mus = 0 /\ argmax_points xs mus = [] /\ Forall (fun c => c = 0) (psums 0 mus).
Proof.
  intros xs mus H.
  exact (conj (Rsum_zeros mus H) (conj (dot_zero_of_zeros xs mus H) (conj (argmax_points_empty xs mus H) (psums_all_zero mus H)))).
Qed.
Print Assumptions C09_all_zero_guards.

(* ---- translating set and range by c translates the centroid by c (NaN stays NaN) *)
Theorem C09_centroid_translate : forall (lo hi : R) (r : nat) (mu : R -> R) (c : R),
  (0 < r)%nat -> (forall x, 0 <= mu x) ->
  defuzzify (N:=NumER) Centroid r (liftf (fun x => mu (x - c))) (Fin (lo + c)) (Fin (hi + c)) =
  match defuzzify (N:=NumER) Centroid r (liftf mu) (Fin lo) (Fin hi) with
  | Ok z => Ok (add z (Fin c))
  | Err e => Err e
  end.
Proof. exact centroid_translate. Qed.
Print Assumptions C09_centroid_translate.

Theorem C09_centroid_translate_R : forall (c : R) (xs ys : list R), length xs = length ys -> Rsum ys <> 0 ->
  centroid (N:=NumR) (map (fun x => x + c) xs) ys = centroid (N:=NumR) xs ys + c.
Proof. exact centroid_translate_R. Qed.
Print Assumptions C09_centroid_translate_R.

(* ---- a batch of sets gives the per-set results (the model's batch is row-wise by construction; that the
        implementation's batch equals its own per-row results is checked by the correspondence) *)
Theorem C09_batch_rows : forall k (xs : list ER) (rows : list (list ER)) (i : nat), (i < length rows)%nat ->
  nth i (defuzzify_batch k xs rows) (Err EValue) = defuzzify_samples k xs (nth i rows []).
Proof. exact (@batch_rows ER NumER). Qed.
Print Assumptions C09_batch_rows.

(* ---- non-vacuity: the set with samples 0, 1, 1, 1/2 on [0, 4] at resolution 4 (plateau of two maxima) *)
Example C09_example_hypotheses :
  (0 < 4)%nat /\ 0 <= 4 /\ (forall x, 0 <= ex_mu x) /\ Exists (fun x => 0 < ex_mu x) (Rmidpoints 0 4 4) /\
  Rmidpoints 0 4 4 = [1 / 2; 3 / 2; 5 / 2; 7 / 2] /\ map ex_mu (Rmidpoints 0 4 4) = [0; 1; 1; 1 / 2].
Proof.
  repeat split; [lia | lra | exact ex_mu_nonneg | exact ex_positive | exact ex_midpoints | rewrite ex_midpoints; exact ex_samples].
Qed.
Print Assumptions C09_example_hypotheses.

Example C09_example_values :
  defuzzify (N:=NumER) SmallestOfMaximum 4 (liftf ex_mu) (Fin 0) (Fin 4) = Ok (Fin (3 / 2)) /\
  defuzzify (N:=NumER) MeanOfMaximum 4 (liftf ex_mu) (Fin 0) (Fin 4) = Ok (Fin 2) /\
  defuzzify (N:=NumER) LargestOfMaximum 4 (liftf ex_mu) (Fin 0) (Fin 4) = Ok (Fin (5 / 2)) /\
  defuzzify (N:=NumER) Centroid 4 (liftf ex_mu) (Fin 0) (Fin 4) = Ok (Fin (23 / 10)) /\
  defuzzify (N:=NumER) Bisector 4 (liftf ex_mu) (Fin 0) (Fin 4) = Ok (Fin (3 / 2)).
Proof.
  rewrite !ex_defuzzify, ex_som, ex_mom, ex_lom, ex_cen, ex_bis. repeat split; reflexivity.
Qed.
Print Assumptions C09_example_values.

Example C09_example_all_zero : forall k,
  defuzzify (N:=NumER) k 4 (liftf (fun _ => 0)) (Fin 0) (Fin 4) = Ok NaN.
Proof.
  intros k. apply C09_nan_iff_all_zero; [lia | intros; lra | apply Forall_forall; reflexivity].
Qed.
Print Assumptions C09_example_all_zero.
