(* C03, group B — Arc, SemiEllipse, Bell, Cosine, Gaussian, GaussianProduct, Sigmoid, SigmoidDifference,
   SigmoidProduct, Spike: the generated membership kernels of fuzzylite/term.py (Gen/GenTerm.v), read over R,
   equal height * documented closed form (Spec/SpecTermB.v) under the term's validity predicate, lie in
   [0, height], take the documented values at their characteristic points, and the terms that declare
   themselves monotonic (Arc, Sigmoid) are monotone with the direction given by their parameters.
   Only imports and final statements; all proofs live in Proofs/TermB.v.
   (NaN / +-inf behaviour is stated at ER, float rounding at F: not in this file.) *)
From Coq Require Import Reals Lra.
From VF Require Import Num NumR GenTerm SpecTermB TermB.
Local Open Scope R_scope.

(* ================================================================ Arc *)
Theorem C03_Arc_spec : forall s e h x : R, Arc_valid s e h ->
  Arc_membership s e h x = h * Arc_shape s e x.
Proof. exact Arc_spec. Qed.
Print Assumptions C03_Arc_spec.

(* the closed form between start and end, spelled out: r = e - s, c = e *)
Theorem C03_Arc_spec_between : forall s e h x : R, Arc_valid s e h -> Rmin s e <= x <= Rmax s e ->
  Arc_membership s e h x = h * (sqrt ((e - s)² - (x - e)²) / Rabs (e - s)).
Proof. exact Arc_spec_between. Qed.
Print Assumptions C03_Arc_spec_between.

Theorem C03_Arc_range : forall s e h x : R, Arc_valid s e h -> 0 <= Arc_membership s e h x <= h.
Proof. exact Arc_range. Qed.
Print Assumptions C03_Arc_range.

Theorem C03_Arc_at_start : forall s e h : R, Arc_valid s e h -> Arc_membership s e h s = 0.
Proof. exact Arc_at_start. Qed.
Print Assumptions C03_Arc_at_start.

Theorem C03_Arc_at_end : forall s e h : R, Arc_valid s e h -> Arc_membership s e h e = h.
Proof. exact Arc_at_end. Qed.
Print Assumptions C03_Arc_at_end.

Theorem C03_Arc_beyond_end : forall s e h x : R, (s < e /\ e <= x) \/ (e < s /\ x <= e) ->
  Arc_membership s e h x = h.
Proof. exact Arc_beyond_end. Qed.
Print Assumptions C03_Arc_beyond_end.

Theorem C03_Arc_before_start : forall s e h x : R, (s < e /\ x <= s) \/ (e < s /\ s <= x) ->
  Arc_membership s e h x = 0.
Proof. exact Arc_before_start. Qed.
Print Assumptions C03_Arc_before_start.

Theorem C03_Arc_monotone_inc : forall s e h x y : R, Arc_valid s e h -> s < e -> x <= y ->
  Arc_membership s e h x <= Arc_membership s e h y.
Proof. exact Arc_mono_inc. Qed.
Print Assumptions C03_Arc_monotone_inc.

Theorem C03_Arc_monotone_dec : forall s e h x y : R, Arc_valid s e h -> e < s -> x <= y ->
  Arc_membership s e h y <= Arc_membership s e h x.
Proof. exact Arc_mono_dec. Qed.
Print Assumptions C03_Arc_monotone_dec.

Theorem C03_Arc_monotone : forall s e h : R, Arc_valid s e h ->
  shape_monotonic (Sh_Arc s e h) = true /\ monotoneB (Arc_membership s e h).
Proof. intros s e h Hv; split; [reflexivity | exact (Arc_monotone s e h Hv)]. Qed.
Print Assumptions C03_Arc_monotone.

Example C03_Arc_ex_rising : Arc_valid 0 5 (1 / 2) /\ Arc_membership 0 5 (1 / 2) 1 = 3 / 10.
Proof. exact Arc_ex_rising. Qed.
Example C03_Arc_ex_falling : Arc_valid 5 0 (1 / 2) /\ Arc_membership 5 0 (1 / 2) 4 = 3 / 10.
Proof. exact Arc_ex_falling. Qed.

(* ================================================================ SemiEllipse *)
Theorem C03_SemiEllipse_spec : forall s e h x : R, SemiEllipse_valid s e h ->
  SemiEllipse_membership s e h x = h * SemiEllipse_shape s e x.
Proof. exact SemiEllipse_spec. Qed.
Print Assumptions C03_SemiEllipse_spec.

Theorem C03_SemiEllipse_range : forall s e h x : R, SemiEllipse_valid s e h ->
  0 <= SemiEllipse_membership s e h x <= h.
Proof. exact SemiEllipse_range. Qed.
Print Assumptions C03_SemiEllipse_range.

Theorem C03_SemiEllipse_at_start : forall s e h : R, SemiEllipse_valid s e h ->
  SemiEllipse_membership s e h s = 0.
Proof. exact SemiEllipse_at_start. Qed.
Print Assumptions C03_SemiEllipse_at_start.

Theorem C03_SemiEllipse_at_end : forall s e h : R, SemiEllipse_valid s e h ->
  SemiEllipse_membership s e h e = 0.
Proof. exact SemiEllipse_at_end. Qed.
Print Assumptions C03_SemiEllipse_at_end.

Theorem C03_SemiEllipse_at_center : forall s e h : R, SemiEllipse_valid s e h ->
  SemiEllipse_membership s e h ((s + e) / 2) = h.
Proof. exact SemiEllipse_at_center. Qed.
Print Assumptions C03_SemiEllipse_at_center.

Theorem C03_SemiEllipse_outside : forall s e h x : R, x < Rmin s e \/ Rmax s e < x ->
  SemiEllipse_membership s e h x = 0.
Proof. exact SemiEllipse_outside. Qed.
Print Assumptions C03_SemiEllipse_outside.

Theorem C03_SemiEllipse_swap : forall s e h x : R,
  SemiEllipse_membership s e h x = SemiEllipse_membership e s h x.
Proof. exact SemiEllipse_swap. Qed.
Print Assumptions C03_SemiEllipse_swap.

Example C03_SemiEllipse_ex : SemiEllipse_valid 0 10 (1 / 2) /\ SemiEllipse_membership 0 10 (1 / 2) 2 = 2 / 5.
Proof. exact SemiEllipse_ex. Qed.
Example C03_SemiEllipse_ex_reversed :
  SemiEllipse_valid 10 0 (1 / 2) /\ SemiEllipse_membership 10 0 (1 / 2) 2 = 2 / 5.
Proof. exact SemiEllipse_ex_reversed. Qed.

(* ================================================================ Bell *)
Theorem C03_Bell_spec : forall c w s h x : R, Bell_valid c w s h -> Bell_dom c s x ->
  Bell_membership c w s h x = h * (1 / (1 + Rpow (Rabs (x - c) / Rabs w) (2 * s))).
Proof. exact Bell_spec. Qed.
Print Assumptions C03_Bell_spec.

(* the docstring to the letter (|x - c| / w, w not under an absolute value): for positive widths *)
Theorem C03_Bell_spec_doc : forall c w s h x : R, Bell_valid c w s h -> Bell_dom c s x -> 0 < w ->
  Bell_membership c w s h x = h * (1 / (1 + Rpow (Rabs (x - c) / w) (2 * s))).
Proof. exact Bell_spec_doc. Qed.
Print Assumptions C03_Bell_spec_doc.

Theorem C03_Bell_range : forall c w s h x : R, Bell_valid c w s h -> Bell_dom c s x ->
  0 <= Bell_membership c w s h x <= h.
Proof. exact Bell_range. Qed.
Print Assumptions C03_Bell_range.

Theorem C03_Bell_at_center : forall c w s h : R, Bell_valid c w s h -> 0 < s ->
  Bell_membership c w s h c = h.
Proof. exact Bell_at_center. Qed.
Print Assumptions C03_Bell_at_center.

Theorem C03_Bell_at_width_right : forall c w s h : R, Bell_valid c w s h ->
  Bell_membership c w s h (c + w) = h / 2.
Proof. exact Bell_at_width_right. Qed.
Print Assumptions C03_Bell_at_width_right.

Theorem C03_Bell_at_width_left : forall c w s h : R, Bell_valid c w s h ->
  Bell_membership c w s h (c - w) = h / 2.
Proof. exact Bell_at_width_left. Qed.
Print Assumptions C03_Bell_at_width_left.

Theorem C03_Bell_symmetric : forall c w s h d : R, Bell_valid c w s h ->
  Bell_membership c w s h (c + d) = Bell_membership c w s h (c - d).
Proof. exact Bell_symm. Qed.
Print Assumptions C03_Bell_symmetric.

Example C03_Bell_ex : Bell_valid 0 1 1 (1 / 2) /\ Bell_dom 0 1 2 /\ Bell_membership 0 1 1 (1 / 2) 2 = 1 / 10.
Proof. exact Bell_ex. Qed.

(* ================================================================ Cosine *)
Theorem C03_Cosine_spec : forall c w h x : R, Cosine_valid c w h ->
  Cosine_membership c w h x = h * Cosine_shape c w x.
Proof. exact Cosine_spec. Qed.
Print Assumptions C03_Cosine_spec.

Theorem C03_Cosine_spec_inside : forall c w h x : R, Cosine_valid c w h -> c - w / 2 <= x <= c + w / 2 ->
  Cosine_membership c w h x = h * (1 / 2 * (1 + cos (2 / w * PI * (x - c)))).
Proof. exact Cosine_spec_inside. Qed.
Print Assumptions C03_Cosine_spec_inside.

Theorem C03_Cosine_outside : forall c w h x : R, x < c - w / 2 \/ c + w / 2 < x ->
  Cosine_membership c w h x = 0.
Proof. exact Cosine_outside. Qed.
Print Assumptions C03_Cosine_outside.

Theorem C03_Cosine_range : forall c w h x : R, Cosine_valid c w h -> 0 <= Cosine_membership c w h x <= h.
Proof. exact Cosine_range. Qed.
Print Assumptions C03_Cosine_range.

Theorem C03_Cosine_at_center : forall c w h : R, Cosine_valid c w h -> Cosine_membership c w h c = h.
Proof. exact Cosine_at_center. Qed.
Print Assumptions C03_Cosine_at_center.

Theorem C03_Cosine_at_left : forall c w h : R, Cosine_valid c w h -> Cosine_membership c w h (c - w / 2) = 0.
Proof. exact Cosine_at_left. Qed.
Print Assumptions C03_Cosine_at_left.

Theorem C03_Cosine_at_right : forall c w h : R, Cosine_valid c w h -> Cosine_membership c w h (c + w / 2) = 0.
Proof. exact Cosine_at_right. Qed.
Print Assumptions C03_Cosine_at_right.

Example C03_Cosine_ex : Cosine_valid 0 2 (1 / 2) /\ Cosine_membership 0 2 (1 / 2) (1 / 2) = 1 / 4.
Proof. exact Cosine_ex. Qed.

(* ================================================================ Gaussian *)
Theorem C03_Gaussian_spec : forall m sd h x : R, Gaussian_valid m sd h ->
  Gaussian_membership m sd h x = h * exp (- (x - m)² / (2 * sd²)).
Proof. exact Gaussian_spec. Qed.
Print Assumptions C03_Gaussian_spec.

Theorem C03_Gaussian_range : forall m sd h x : R, Gaussian_valid m sd h ->
  0 <= Gaussian_membership m sd h x <= h.
Proof. exact Gaussian_range. Qed.
Print Assumptions C03_Gaussian_range.

Theorem C03_Gaussian_at_mean : forall m sd h : R, Gaussian_valid m sd h -> Gaussian_membership m sd h m = h.
Proof. exact Gaussian_at_mean. Qed.
Print Assumptions C03_Gaussian_at_mean.

Theorem C03_Gaussian_symmetric : forall m sd h d : R,
  Gaussian_membership m sd h (m + d) = Gaussian_membership m sd h (m - d).
Proof. exact Gaussian_symm. Qed.
Print Assumptions C03_Gaussian_symmetric.

Theorem C03_Gaussian_rising : forall m sd h x y : R, Gaussian_valid m sd h -> x <= y -> y <= m ->
  Gaussian_membership m sd h x <= Gaussian_membership m sd h y.
Proof. exact Gaussian_rising. Qed.
Print Assumptions C03_Gaussian_rising.

Theorem C03_Gaussian_falling : forall m sd h x y : R, Gaussian_valid m sd h -> m <= x -> x <= y ->
  Gaussian_membership m sd h y <= Gaussian_membership m sd h x.
Proof. exact Gaussian_falling. Qed.
Print Assumptions C03_Gaussian_falling.

Example C03_Gaussian_ex : Gaussian_valid 0 1 (1 / 2) /\ Gaussian_membership 0 1 (1 / 2) 1 = 1 / 2 * exp (- 1 / 2).
Proof. exact Gaussian_ex. Qed.

(* ================================================================ GaussianProduct *)
Theorem C03_GaussianProduct_spec : forall ma sa mb sb h x : R, GaussianProduct_valid ma sa mb sb h ->
  GaussianProduct_membership ma sa mb sb h x =
  h * ((if Rlt_dec x ma then exp (- (x - ma)² / (2 * sa²)) else 1) *
       (if Rlt_dec mb x then exp (- (x - mb)² / (2 * sb²)) else 1)).
Proof. exact GaussianProduct_spec. Qed.
Print Assumptions C03_GaussianProduct_spec.

Theorem C03_GaussianProduct_as_Gaussians : forall ma sa mb sb h x : R,
  GaussianProduct_membership ma sa mb sb h x =
  h * ((if Rlt_dec x ma then Gaussian_membership ma sa 1 x else 1) *
       (if Rlt_dec mb x then Gaussian_membership mb sb 1 x else 1)).
Proof. exact GaussianProduct_as_Gaussians. Qed.
Print Assumptions C03_GaussianProduct_as_Gaussians.

Theorem C03_GaussianProduct_range : forall ma sa mb sb h x : R, GaussianProduct_valid ma sa mb sb h ->
  0 <= GaussianProduct_membership ma sa mb sb h x <= h.
Proof. exact GaussianProduct_range. Qed.
Print Assumptions C03_GaussianProduct_range.

Theorem C03_GaussianProduct_plateau : forall ma sa mb sb h x : R, ma <= x -> x <= mb ->
  GaussianProduct_membership ma sa mb sb h x = h.
Proof. exact GaussianProduct_plateau. Qed.
Print Assumptions C03_GaussianProduct_plateau.

Example C03_GaussianProduct_ex : GaussianProduct_valid 0 1 1 2 (1 / 2) /\
  GaussianProduct_membership 0 1 1 2 (1 / 2) (-1) = 1 / 2 * exp (- 1 / 2) /\
  GaussianProduct_membership 0 1 1 2 (1 / 2) (1 / 3) = 1 / 2 /\
  GaussianProduct_membership 0 1 1 2 (1 / 2) 3 = 1 / 2 * exp (- 1 / 2).
Proof. exact GaussianProduct_ex. Qed.

(* ================================================================ Sigmoid *)
Theorem C03_Sigmoid_spec : forall i s h x : R, Sigmoid_valid i s h ->
  Sigmoid_membership i s h x = h * (1 / (1 + exp (- s * (x - i)))).
Proof. exact Sigmoid_spec. Qed.
Print Assumptions C03_Sigmoid_spec.

Theorem C03_Sigmoid_range : forall i s h x : R, Sigmoid_valid i s h -> 0 <= Sigmoid_membership i s h x <= h.
Proof. exact Sigmoid_range. Qed.
Print Assumptions C03_Sigmoid_range.

Theorem C03_Sigmoid_at_inflection : forall i s h : R, Sigmoid_membership i s h i = h / 2.
Proof. exact Sigmoid_at_inflection. Qed.
Print Assumptions C03_Sigmoid_at_inflection.

Theorem C03_Sigmoid_monotone_inc : forall i s h x y : R, Sigmoid_valid i s h -> 0 <= s -> x <= y ->
  Sigmoid_membership i s h x <= Sigmoid_membership i s h y.
Proof. exact Sigmoid_mono_inc. Qed.
Print Assumptions C03_Sigmoid_monotone_inc.

Theorem C03_Sigmoid_monotone_dec : forall i s h x y : R, Sigmoid_valid i s h -> s <= 0 -> x <= y ->
  Sigmoid_membership i s h y <= Sigmoid_membership i s h x.
Proof. exact Sigmoid_mono_dec. Qed.
Print Assumptions C03_Sigmoid_monotone_dec.

Theorem C03_Sigmoid_strict_inc : forall i s h x y : R, Sigmoid_valid i s h -> 0 < s -> x < y ->
  Sigmoid_membership i s h x < Sigmoid_membership i s h y.
Proof. exact Sigmoid_strict_inc. Qed.
Print Assumptions C03_Sigmoid_strict_inc.

Theorem C03_Sigmoid_strict_dec : forall i s h x y : R, Sigmoid_valid i s h -> s < 0 -> x < y ->
  Sigmoid_membership i s h y < Sigmoid_membership i s h x.
Proof. exact Sigmoid_strict_dec. Qed.
Print Assumptions C03_Sigmoid_strict_dec.

Theorem C03_Sigmoid_monotone : forall i s h : R, Sigmoid_valid i s h ->
  shape_monotonic (Sh_Sigmoid i s h) = true /\ monotoneB (Sigmoid_membership i s h).
Proof. intros i s h Hv; split; [reflexivity | exact (Sigmoid_monotone i s h Hv)]. Qed.
Print Assumptions C03_Sigmoid_monotone.

Example C03_Sigmoid_ex_rising : Sigmoid_valid 0 1 (1 / 2) /\ Sigmoid_membership 0 1 (1 / 2) 0 = 1 / 4.
Proof. exact Sigmoid_ex_rising. Qed.
Example C03_Sigmoid_ex_falling : Sigmoid_valid 3 (-2) (1 / 2) /\
  Sigmoid_membership 3 (-2) (1 / 2) 4 = 1 / 2 / (1 + exp 2) /\
  Sigmoid_membership 3 (-2) (1 / 2) 4 < Sigmoid_membership 3 (-2) (1 / 2) 3.
Proof. exact Sigmoid_ex_falling. Qed.

(* ================================================================ SigmoidDifference
   parameters: left rising falling right. The code computes h |a - b|; the docstring says h (a - b). *)
Theorem C03_SigmoidDifference_spec : forall l r f rt h x : R, SigmoidDifference_valid l r f rt h ->
  SigmoidDifference_membership l r f rt h x =
  h * Rabs (1 / (1 + exp (- r * (x - l))) - 1 / (1 + exp (- f * (x - rt)))).
Proof. exact SigmoidDifference_spec. Qed.
Print Assumptions C03_SigmoidDifference_spec.

Theorem C03_SigmoidDifference_as_Sigmoids : forall l r f rt h x : R,
  SigmoidDifference_membership l r f rt h x =
  h * Rabs (Sigmoid_membership l r 1 x - Sigmoid_membership rt f 1 x).
Proof. exact SigmoidDifference_as_Sigmoids. Qed.
Print Assumptions C03_SigmoidDifference_as_Sigmoids.

Theorem C03_SigmoidDifference_range : forall l r f rt h x : R, SigmoidDifference_valid l r f rt h ->
  0 <= SigmoidDifference_membership l r f rt h x <= h.
Proof. exact SigmoidDifference_range. Qed.
Print Assumptions C03_SigmoidDifference_range.

(* the docstring to the letter, h (a - b): holds where a >= b, e.g. equal slopes k >= 0 and left <= right *)
Theorem C03_SigmoidDifference_spec_doc_usual : forall l k rt h x : R, SigmoidDifference_valid l k k rt h ->
  0 <= k -> l <= rt ->
  SigmoidDifference_membership l k k rt h x =
  h * (1 / (1 + exp (- k * (x - l))) - 1 / (1 + exp (- k * (x - rt)))).
Proof. exact SigmoidDifference_spec_doc_usual. Qed.
Print Assumptions C03_SigmoidDifference_spec_doc_usual.

(* ... and fails elsewhere: documentation defect (the documented value is negative there) *)
Theorem C03_SigmoidDifference_doc_refuted :
  exists l r f rt h x : R, SigmoidDifference_valid l r f rt h /\
    SigmoidDifference_membership l r f rt h x <> h * SigmoidDifference_shape_doc l r f rt x /\
    h * SigmoidDifference_shape_doc l r f rt x < 0.
Proof. exact SigmoidDifference_doc_differs. Qed.
Print Assumptions C03_SigmoidDifference_doc_refuted.

Example C03_SigmoidDifference_ex : SigmoidDifference_valid 0 1 1 1 (1 / 2) /\
  SigmoidDifference_membership 0 1 1 1 (1 / 2) 0 = 1 / 2 * (1 / 2 - 1 / (1 + exp 1)) /\
  0 < SigmoidDifference_membership 0 1 1 1 (1 / 2) 0.
Proof. exact SigmoidDifference_ex. Qed.

(* ================================================================ SigmoidProduct *)
Theorem C03_SigmoidProduct_spec : forall l r f rt h x : R, SigmoidProduct_valid l r f rt h ->
  SigmoidProduct_membership l r f rt h x =
  h * (1 / (1 + exp (- r * (x - l))) * (1 / (1 + exp (- f * (x - rt))))).
Proof. exact SigmoidProduct_spec. Qed.
Print Assumptions C03_SigmoidProduct_spec.

Theorem C03_SigmoidProduct_as_Sigmoids : forall l r f rt h x : R,
  SigmoidProduct_membership l r f rt h x = h * (Sigmoid_membership l r 1 x * Sigmoid_membership rt f 1 x).
Proof. exact SigmoidProduct_as_Sigmoids. Qed.
Print Assumptions C03_SigmoidProduct_as_Sigmoids.

Theorem C03_SigmoidProduct_range : forall l r f rt h x : R, SigmoidProduct_valid l r f rt h ->
  0 <= SigmoidProduct_membership l r f rt h x <= h.
Proof. exact SigmoidProduct_range. Qed.
Print Assumptions C03_SigmoidProduct_range.

Example C03_SigmoidProduct_ex : SigmoidProduct_valid 0 1 (-1) 0 (1 / 2) /\
  SigmoidProduct_membership 0 1 (-1) 0 (1 / 2) 0 = 1 / 8.
Proof. exact SigmoidProduct_ex. Qed.

(* ================================================================ Spike *)
Theorem C03_Spike_spec : forall c w h x : R, Spike_valid c w h ->
  Spike_membership c w h x = h * exp (- Rabs (10 / w * (x - c))).
Proof. exact Spike_spec. Qed.
Print Assumptions C03_Spike_spec.

Theorem C03_Spike_range : forall c w h x : R, Spike_valid c w h -> 0 <= Spike_membership c w h x <= h.
Proof. exact Spike_range. Qed.
Print Assumptions C03_Spike_range.

Theorem C03_Spike_at_center : forall c w h : R, Spike_membership c w h c = h.
Proof. exact Spike_at_center. Qed.
Print Assumptions C03_Spike_at_center.

Theorem C03_Spike_symmetric : forall c w h d : R, Spike_membership c w h (c + d) = Spike_membership c w h (c - d).
Proof. exact Spike_symm. Qed.
Print Assumptions C03_Spike_symmetric.

Theorem C03_Spike_closer_higher : forall c w h x y : R, Spike_valid c w h -> Rabs (y - c) <= Rabs (x - c) ->
  Spike_membership c w h x <= Spike_membership c w h y.
Proof. exact Spike_closer. Qed.
Print Assumptions C03_Spike_closer_higher.

Example C03_Spike_ex : Spike_valid 0 10 (1 / 2) /\ Spike_membership 0 10 (1 / 2) 1 = 1 / 2 * exp (- 1).
Proof. exact Spike_ex. Qed.
Example C03_Spike_ex_negative_width :
  Spike_valid 0 (-10) (1 / 2) /\ Spike_membership 0 (-10) (1 / 2) 1 = 1 / 2 * exp (- 1).
Proof. exact Spike_ex_negative_width. Qed.

(* ================================================================ the group as a whole,
   on the generated dispatcher *)
Theorem C03b_range : forall (sh : shape R) (x : R), shapeB_ok sh x ->
  0 <= shape_membership sh x <= shape_height sh.
Proof. exact shapeB_range. Qed.
Print Assumptions C03b_range.

Theorem C03b_declared_monotonic_is_monotone : forall sh : shape R, (forall x, shapeB_ok sh x) ->
  shape_monotonic sh = true -> monotoneB (shape_membership sh).
Proof. exact shapeB_monotone. Qed.
Print Assumptions C03b_declared_monotonic_is_monotone.

Theorem C03b_declared_monotonic_iff : forall sh : shape R, (exists x, shapeB_ok sh x) ->
  (shape_monotonic sh = true <->
   (exists s e h, sh = Sh_Arc s e h) \/ (exists i s h, sh = Sh_Sigmoid i s h)).
Proof. exact shapeB_monotonic_iff. Qed.
Print Assumptions C03b_declared_monotonic_iff.
