(* C11b — Tsukamoto inversion at the BINARY64 level: the GENERATED kernels Ramp_tsukamoto / Concave_tsukamoto of
   Gen/GenTerm.v at NumF m tbl (only + - * /, no oracle function; every scalar_mode m and table tbl).

   Ramp (|start|, |end| <= 2^1022, finite 0 < h <= 1, EVERY binary64 y with 0 <= y <= h — `yok h y`):
     z(y) is finite; z(0) = start exactly; z is monotone in y in the direction of the term; z never lies on the far side
     of start.  Containment on the side of `end` (C11_Ramp_z_in_support over R) holds only up to rounding: refuted.
   Concave (|inflection|, |end| <= 2^500, 0 < h <= 1, 2^-500 <= y <= h — `yokC h y`, no overflow of (h*(i-e))/y):
     z(y) is finite and monotone in y in the direction of the term;  z(h) <= end is refuted by witness.
   Arc.tsukamoto leaves the support at y = 0 by one ulp: refuted by witness.
   Proofs: Proofs/TsukamotoFloat.v over Proofs/FloatLevel.v (Flocq). *)
From Coq Require Import Reals Floats.
From Flocq Require Import Core.
From VF Require Import Num NumF GenTerm FloatLevel NormFloat TsukamotoFloat.
Local Open Scope R_scope.

Theorem C11b_Ramp_tsukamoto_float : forall m tbl s e h, small1022 s -> small1022 e -> fin h -> 0 < R_of h <= 1 ->
  let T := @Ramp_tsukamoto _ (NumF m tbl) s e h in
  (forall y, yok h y -> fin (T y)) /\ R_of (T 0%float) = R_of s /\
  (R_of s <= R_of e -> (forall y1 y2, yok h y1 -> yok h y2 -> R_of y1 <= R_of y2 -> R_of (T y1) <= R_of (T y2)) /\
                       (forall y, yok h y -> R_of s <= R_of (T y))) /\
  (R_of e <= R_of s -> (forall y1 y2, yok h y1 -> yok h y2 -> R_of y1 <= R_of y2 -> R_of (T y2) <= R_of (T y1)) /\
                       (forall y, yok h y -> R_of (T y) <= R_of s)).
Proof. exact Ramp_tsukamoto_float. Qed.
Print Assumptions C11b_Ramp_tsukamoto_float.

(* s = -(1 - 2^-53), e = 0.75 * 2^-53, h = y = 1: e - s rounds to 1 and s + 1 = 2^-53 > e; mirrored for the decreasing ramp *)
Theorem C11b_Ramp_tsukamoto_support_refuted : forall m tbl,
  fltb 0x1.8p-54 (@Ramp_tsukamoto _ (NumF m tbl) (-0x1.fffffffffffffp-1)%float 0x1.8p-54%float 1%float 1%float) = true /\
  fltb (@Ramp_tsukamoto _ (NumF m tbl) 0x1.fffffffffffffp-1%float (-0x1.8p-54)%float 1%float 1%float) (-0x1.8p-54) = true.
Proof. exact Ramp_tsukamoto_support_refuted. Qed.
Print Assumptions C11b_Ramp_tsukamoto_support_refuted.

Theorem C11b_Concave_tsukamoto_float : forall m tbl i e h, small500 i -> small500 e -> fin h -> 0 < R_of h <= 1 ->
  let T := @Concave_tsukamoto _ (NumF m tbl) i e h in
  (forall y, yokC h y -> fin (T y)) /\
  (forall y1 y2, yokC h y1 -> yokC h y2 -> R_of y1 <= R_of y2 ->
     (R_of i <= R_of e -> R_of (T y1) <= R_of (T y2)) /\ (R_of e <= R_of i -> R_of (T y2) <= R_of (T y1))).
Proof. exact Concave_tsukamoto_float. Qed.
Print Assumptions C11b_Concave_tsukamoto_float.

Theorem C11b_Concave_tsukamoto_support_refuted : forall m tbl,
  fltb 0x1.999999999999ap-4 (@Concave_tsukamoto _ (NumF m tbl) (-0.625)%float 0x1.999999999999ap-4%float 1%float 1%float) = true.
Proof. exact Concave_tsukamoto_support_refuted. Qed.
Print Assumptions C11b_Concave_tsukamoto_support_refuted.

Theorem C11b_Arc_tsukamoto_support_refuted : forall m tbl,
  fltb (@Arc_tsukamoto _ (NumF m tbl) 0x1.999999999999ap-4%float 0.5%float 0x1.3333333333333p-2%float 0%float)
       0x1.999999999999ap-4 = true.
Proof. exact Arc_tsukamoto_support_refuted. Qed.
Print Assumptions C11b_Arc_tsukamoto_support_refuted.

(* the witness predicate is sound: both values finite and strictly ordered as reals *)
Theorem C11b_fltb_sound : forall x y, fltb x y = true -> fin x /\ fin y /\ R_of x < R_of y.
Proof. exact fltb_ok. Qed.
Print Assumptions C11b_fltb_sound.

(* non-vacuity: the hypotheses are inhabited and the kernel takes interior values there *)
Example C11b_nonvacuous :
  small1022 0%float /\ small1022 2%float /\ (fin 0.5%float /\ 0 < R_of 0.5%float <= 1) /\ yok 0.5%float 0.125%float /\
  @Ramp_tsukamoto _ (NumF true nil) 0%float 2%float 0.5%float 0.125%float = 0.5%float /\
  @Ramp_tsukamoto _ (NumF false nil) 2%float 0%float 0.5%float 0.125%float = 1.5%float /\
  @Concave_tsukamoto _ (NumF true nil) 0%float 1%float 0.5%float 0.125%float = (-2)%float.
Proof.
  assert (P : 1 <= bpow radix2 1022) by (change 1 with (bpow radix2 0); apply bpow_le; discriminate).
  split; [split; [apply fin_zero | rewrite R_of_zero, Rabs_R0; apply bpow_ge_0] |].
  split; [split; [apply fin_two | rewrite R_of_two, Rabs_pos_eq by (apply Rle_trans with 1; [apply Rle_0_1 | apply Rle_trans with 2; [apply Rlt_le, Rlt_plus_1 | apply Rle_refl]])] |].
  - change 1022%Z with (1 + 1021)%Z. rewrite bpow_plus. change (bpow radix2 1) with 2.
    rewrite <- (Rmult_1_r 2) at 1. apply Rmult_le_compat_l; [apply Rlt_le, Rlt_0_2 |].
    change 1 with (bpow radix2 0). apply bpow_le. discriminate.
  - split; [split; [apply fin_half | rewrite R_of_half; split; [apply Rdiv_lt_0_compat; [apply Rlt_0_1 | apply Rlt_0_2] |
      apply Rmult_le_reg_r with 2; [apply Rlt_0_2 |]; unfold Rdiv; rewrite Rmult_assoc, Rinv_l, Rmult_1_r, Rmult_1_l by (apply Rgt_not_eq, Rlt_0_2); apply Rlt_le, Rlt_plus_1]] |].
    split; [| repeat split; vm_compute; reflexivity].
    assert (U : unitF 0.125%float) by (apply unitb_ok; vm_compute; reflexivity).
    assert (L : fin 0.125%float /\ fin 0.5%float /\ R_of 0.125%float <= R_of 0.5%float) by (apply TermFloat.fleb_ok; vm_compute; reflexivity).
    split; [apply U | split; [apply U | apply L]].
Qed.
Print Assumptions C11b_nonvacuous.
