(* C15 — Python export reconstructs an identical engine.
   Only imports and final statements; all proofs live in Proofs/PyReprProofs.v.  The model (Model/PyRepr.v) is about
   constructor call trees: Python's parser/eval, reprlib and black are trusted (DESIGN §4, A-py); `repr(float)`,
   `Op.str`, `float(str)`, `Function.parse` and `Rule.load` are parameters of the model (record `penv`). *)
From Coq Require Import ZArith Bool List String PrimFloat.
From VF Require Import Num NumF Core GenSignatures PyRepr PyReprProofs.
Import ListNotations.
Local Open Scope string_scope.

(* ---- every class of the translated table, every alias: evaluating the printed tree in the namespace the import
   statement creates re-runs the translated __init__ on exactly the fields the translated __repr__ keeps *)
Theorem C15_construct_repr : forall (T : Type) (N : Num T) (E : penv T) (alias_setting : string) (v : pyval T) (e : pyexpr T),
  repr E (alias_of alias_setting) v = Ok e -> construct E (alias_of alias_setting) e = normalize E v.
Proof. intros; apply eval_repr; assumption. Qed.
Print Assumptions C15_construct_repr.
