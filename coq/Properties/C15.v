(* C15 — Python export reconstructs an identical engine.
   Only imports and final statements; the proofs live in Proofs/PyReprProofs.v and Proofs/PyReprFix.v.
   The model (Model/PyRepr.v) is about constructor call trees: Python's parser/eval, reprlib and black are trusted
   (DESIGN §4, A-py); `repr(float)`, `Op.str`, `float(str)`, `Function.parse` and `Rule.load` are parameters of the model
   (record `penv`).  `engine_wf` = well-shaped engine: canonical floats whose repr round-trips (`fl_ok`), no NaN in the
   trailing parameters of Triangle/Trapezoid (that is the shorthand constructors' trigger), registered operator /
   defuzzifier / activation classes, formulas that parse, rules that load and whose text is made of words
   (`rule_text_ok`, a hypothesis here: see rule_text_roundtrip_full in Proofs/PyReprFix.v). *)
From Coq Require Import ZArith Bool List String PrimFloat.
From VF Require Import Num NumF GenTerm Core GenSignatures PyRepr PyReprProofs PyReprFix.
Import ListNotations.
Local Open Scope string_scope.

Section Statements.
  Context {T : Type} {N : Num T}.
  Variable E : penv T.

  (* ---- every class of the translated table, every alias: evaluating the printed tree in the namespace the import
     statement creates re-runs the translated __init__ on exactly the fields the translated __repr__ keeps *)
  Theorem C15_construct_repr : forall (alias_setting : string) (v : pyval T) (e : pyexpr T),
    repr E (alias_of alias_setting) v = Ok e -> construct E (alias_of alias_setting) e = normalize E v.
  Proof. intros; apply eval_repr; assumption. Qed.

  (* ---- what that is, for each component and for whole engines (typed closed forms) *)
  Theorem C15_normalize_term : forall t, term_wf E t -> normalize E (term_val t) = Ok (term_val (norm_term E t)).
  Proof. exact (@normalize_term T N E). Qed.
  Theorem C15_normalize_defuzzifier : forall d, defuzzifier_wf d -> normalize E (defuzzifier_val d) = Ok (defuzzifier_val d).
  Proof. exact (@normalize_defuzzifier T N E). Qed.
  Theorem C15_normalize_activation : forall x, activation_wf E x -> normalize E (activation_val x) = Ok (activation_val x).
  Proof. exact (@normalize_activation T N E). Qed.
  Theorem C15_normalize_operator : forall cls, plain_class cls = true -> normalize E (VObj cls []) = Ok (VObj cls []).
  Proof. exact (@normalize_plain T N E). Qed.
  Theorem C15_normalize_rule_partial : forall r, rule_text_ok E r -> normalize E (rule_val r) = Ok (rule_val (norm_rule E r)).
  Proof. exact (@normalize_rule T N E). Qed.
  Theorem C15_normalize_input_variable : forall v, input_wf E v -> normalize E (input_val v) = Ok (input_val (norm_input E v)).
  Proof. exact (@normalize_input T N E). Qed.
  Theorem C15_normalize_output_variable : forall v, output_wf E v -> normalize E (output_val v) = Ok (output_val (norm_output E v)).
  Proof. exact (@normalize_output T N E). Qed.
  Theorem C15_normalize_rule_block : forall b, block_wf E b -> normalize E (block_val b) = Ok (block_val (norm_block E b)).
  Proof. exact (@normalize_block T N E). Qed.
  Theorem C15_normalize_engine : forall e, engine_wf E e -> normalize E (engine_val e) = Ok (engine_val (norm_engine E e)).
  Proof. exact (@normalize_engine T N E). Qed.

  (* ---- F5: Rule.enabled is not exported *)
  Theorem C15_rule_enabled_lost : forall r, rule_text_ok E r -> ru_enabled r = false ->
    exists r', normalize E (rule_val r) = Ok (rule_val r') /\ ru_enabled r' = true.
  Proof. exact (@rule_enabled_lost T N E). Qed.

  (* ---- the property: engine -> text -> engine, for every alias *)
  Theorem C15_construct_repr_engine : forall alias_setting e x, engine_wf E e ->
    repr E (alias_of alias_setting) (engine_val e) = Ok x ->
    construct E (alias_of alias_setting) x = Ok (engine_val (norm_engine E e)).
  Proof. intros a e x Hw Hr. rewrite (C15_construct_repr a _ _ Hr). apply normalize_engine, Hw. Qed.
  (* representable (heights and weights 1 or far from 1, every rule enabled), loaded, freshly built engines are rebuilt
     identically — hence with identical outputs on every input *)
  Theorem C15_representable_identical : forall alias_setting e x, engine_wf E e -> engine_rep E e ->
    repr E (alias_of alias_setting) (engine_val e) = Ok x ->
    construct E (alias_of alias_setting) x = Ok (engine_val e).
  Proof. intros a e x Hw Hp Hr. rewrite (C15_construct_repr a _ _ Hr). apply normalize_representable; assumption. Qed.
  (* the rebuilt engine prints the same Python text ... *)
  Theorem C15_repr_fixpoint : is_close E (lit 1 0) (lit 1 0) = true ->
    forall alias_setting e, repr E (alias_of alias_setting) (engine_val (norm_engine E e)) = repr E (alias_of alias_setting) (engine_val e).
  Proof. intros H1 a e. apply repr_fixpoint_engine, H1. Qed.
  (* ... and the same FuzzyLite Language content *)
  Theorem C15_fll_equal : is_close E (lit 1 0) (lit 1 0) = true -> forall e, fll_engine E (norm_engine E e) = fll_engine E e.
  Proof. intros H1 e. apply fll_equal_engine, H1. Qed.
  (* the class-/function-encapsulated export evaluates to the same constructor tree *)
  Theorem C15_encapsulated_same_expr : forall alias_setting v m e,
    encapsulate E (alias_of alias_setting) v = Ok m -> repr E (alias_of alias_setting) v = Ok e ->
    (forall fs n, v = VObj "Engine" fs -> assoc "name" fs = Some (VStr n) ->
       ident_ok (pascal_case E n) = true /\ (alias_of alias_setting = AStar -> expr_uses (pascal_case E n) e = false)) ->
    run_module E m = construct E (alias_of alias_setting) e.
  Proof. intros a v m e. apply encapsulated_same_expr. Qed.

  (* ---- the same without the text-level hypothesis: rule words are checked by the computable `rule_tokens_ok` (non-empty,
     no blank / # / quote / backslash / line end; no `then` in the antecedent, no `with` in the consequent), and the
     weight, when it is printed, survives Op.str / float() (`weight_ok`) *)
  Theorem C15_rule_text_roundtrip : forall r, rule_tokens_ok r = true -> weight_ok E r -> rule_text_ok E r.
  Proof. exact (@rule_text_roundtrip T N E). Qed.
  Theorem C15_normalize_rule : forall r, rule_tokens_ok r = true -> weight_ok E r ->
    normalize E (rule_val r) = Ok (rule_val (norm_rule E r)).
  Proof. intros r H1 H2. apply normalize_rule, rule_text_roundtrip; assumption. Qed.
  Theorem C15_construct_repr_engine_tokens : forall alias_setting e x, engine_wf_tokens E e ->
    repr E (alias_of alias_setting) (engine_val e) = Ok x ->
    construct E (alias_of alias_setting) x = Ok (engine_val (norm_engine E e)).
  Proof. intros a e x Hw. apply C15_construct_repr_engine, engine_wf_of_tokens, Hw. Qed.
  Theorem C15_representable_identical_tokens : forall alias_setting e x, engine_wf_tokens E e -> engine_rep E e ->
    repr E (alias_of alias_setting) (engine_val e) = Ok x ->
    construct E (alias_of alias_setting) x = Ok (engine_val e).
  Proof. intros a e x Hw. apply C15_representable_identical, engine_wf_of_tokens, Hw. Qed.
End Statements.
Theorem C15_rule_text_roundtrip_full : rule_text_roundtrip_full.
Proof. exact rule_text_roundtrip_full_holds. Qed.
Print Assumptions C15_rule_text_roundtrip.
Print Assumptions C15_construct_repr_engine_tokens.
Print Assumptions C15_representable_identical_tokens.
Print Assumptions C15_rule_text_roundtrip_full.
Print Assumptions C15_construct_repr.
Print Assumptions C15_normalize_engine.
Print Assumptions C15_construct_repr_engine.
Print Assumptions C15_representable_identical.
Print Assumptions C15_repr_fixpoint.
Print Assumptions C15_fll_equal.
Print Assumptions C15_encapsulated_same_expr.
Print Assumptions C15_rule_enabled_lost.

(* ------------------------------------------------------------------ non-vacuity: binary64 floats, a concrete engine *)
Definition NF : Num float := NumF true [].
#[local] Existing Instance NF.
Definition E0 : penv float := {|
  reparse := fun x => x;                                       (* A-fmt: float(repr(x)) = x *)
  fmt_w := fun _ => "0.500";
  parse_w := fun s => if String.eqb s "0.500" then Some 0.5%float else None;
  formula_err := fun _ => None;
  rule_ok := fun _ _ _ _ => true;
  pascal_case := fun s => s;
  atol := 0x1.0624dd2f1a9fcp-10%float; rtol := 0%float |}.

Definition ex_rule (enabled : bool) (w : float) : prule float :=
  {| ru_enabled := enabled; ru_weight := w; ru_antecedent := ["temp"; "is"; "very"; "cold"]; ru_consequent := ["power"; "is"; "low"];
     ru_loaded := true; ru_degree := 0%float; ru_triggered := false |}.
Definition ex_engine (rule_enabled : bool) : pengine float :=
  {| en_name := "heater"; en_description := "it's a ""test"" \ engine";
     en_inputs := [ {| vi_name := "temp"; vi_description := ""; vi_enabled := true; vi_min := PrimFloat.neg_infinity; vi_max := 40.5%float;
                       vi_lock_range := true;
                       vi_terms := [PShape "cold" (Sh_Triangle 0%float 10%float 20.25%float 1%float);
                                    PShape "hot" (Sh_Trapezoid 15%float 30%float PrimFloat.infinity PrimFloat.infinity 0.5%float);
                                    PDiscrete "odd" [(0%float, 0.1%float); (1e-320%float, 1%float)] 2%float];
                       vi_value := PrimFloat.nan |} ];
     en_outputs := [ {| vo_name := "power"; vo_description := "out"; vo_enabled := false; vo_min := 0%float; vo_max := 1%float;
                        vo_lock_range := false; vo_lock_previous := true; vo_default := PrimFloat.nan;
                        vo_aggregation := Some "Maximum"; vo_defuzzifier := Some (PIntegral "Centroid" 100);
                        vo_terms := [PShape "low" (Sh_Constant 0.25%float); PLinear "lin" [1%float; (-2.5)%float] true;
                                     PFunction "fn" "temp * k" [("k", 3%float)] true true;
                                     PShape "high" (Sh_Sigmoid 0.5%float (-30)%float 1%float)];
                        vo_value := PrimFloat.nan; vo_previous := PrimFloat.nan; vo_fuzzy_name := "power"; vo_fuzzy_terms := [] |} ];
     en_blocks := [ {| bl_name := "rules"; bl_description := ""; bl_enabled := false;
                       bl_conjunction := Some "Minimum"; bl_disjunction := None; bl_implication := Some "AlgebraicProduct";
                       bl_activation := Some (PActThreshold ">=" 0.25%float);
                       bl_rules := [ex_rule true 1%float; ex_rule rule_enabled 0.5%float] |} ] |}.

Ltac wf_tac :=
  repeat first
    [ exact I | split | apply Forall_nil | apply Forall_cons
    | progress unfold input_wf, output_wf, block_wf, term_wf, shape_wf, rule_text_ok, opt_plain, defuzzifier_wf, activation_wf,
                      formula_ok, rule_loads, row_ok, fl_ok
    | progress cbn [vi_min vi_max vi_terms vo_min vo_max vo_default vo_aggregation vo_defuzzifier vo_terms vi_name vo_name
                    bl_conjunction bl_disjunction bl_implication bl_activation bl_rules en_inputs en_outputs en_blocks
                    shape_args fst snd ex_rule ru_antecedent ru_consequent ru_weight]
    | match goal with
      | |- In _ _ => cbn [In]; tauto
      | |- _ <> _ => discriminate
      | |- _ = _ => vm_compute; reflexivity
      end ].
Ltac rep_tac :=
  repeat first
    [ exact I | split | apply Forall_nil | apply Forall_cons
    | progress unfold input_rep, output_rep, block_rep, term_rep, rule_rep, height_rep
    | progress cbn [vi_terms vi_value vo_terms vo_value vo_previous vo_fuzzy_name vo_fuzzy_terms vo_name bl_rules ex_rule
                    ru_enabled ru_weight ru_loaded ru_degree ru_triggered shape_height]
    | match goal with |- _ = _ => vm_compute; reflexivity end ].
(* the hypotheses of the theorems are inhabited by a non-trivial engine (every kind of term, infinite shoulders, a
   subnormal, quotes and a backslash in a description, disabled variable and block, weights 1 and 0.5) *)
Example C15_example_wf : engine_wf (N:=NF) E0 (ex_engine true) /\ engine_rep E0 (ex_engine true)
                          /\ is_close (N:=NF) E0 (lit 1 0) (lit 1 0) = true.
Proof.
  split; [|split; [|vm_compute; reflexivity]].
  - unfold engine_wf, ex_engine. cbn [en_inputs en_outputs en_blocks]. repeat split. all: wf_tac.
  - unfold engine_rep, ex_engine. cbn [en_inputs en_outputs en_blocks]. rep_tac.
Qed.
(* ... which the four alias settings print and rebuild identically *)
Definition rebuilt_ok (s : string) (v : pyval float) : bool :=
  match repr E0 (alias_of s) v with
  | Ok e => result_eqb (pyval_eqb fsame) (construct E0 (alias_of s) e) (Ok v)
  | Err _ => false
  end.
Example C15_example_roundtrip : forallb (fun s => rebuilt_ok s (engine_val (ex_engine true))) ["fl"; ""; "*"; "fzl"] = true.
Proof. vm_compute. reflexivity. Qed.
(* ... while a disabled rule comes back enabled (finding F5), and only that changes *)
Example C15_example_rule_enabled_lost :
  normalize (N:=NF) E0 (engine_val (ex_engine false)) = Ok (engine_val (ex_engine true)).
Proof. vm_compute. reflexivity. Qed.
(* an engine without an identifier name, or named like a library class under `from fuzzylite import *`, has no working
   encapsulated export *)
Example C15_example_encapsulated_names :
  (exists m, encapsulate (N:=NF) E0 (alias_of "fl") (VObj "Engine" [("name", VStr ""); ("description", VStr ""); ("input_variables", VList []); ("output_variables", VList []); ("rule_blocks", VList [])]) = Ok m
             /\ run_module E0 m = Err ESyntax) /\
  (exists m, encapsulate (N:=NF) E0 (alias_of "*") (VObj "Engine" [("name", VStr "Engine"); ("description", VStr ""); ("input_variables", VList []); ("output_variables", VList []); ("rule_blocks", VList [])]) = Ok m
             /\ run_module E0 m = Err EInternal).
Proof.
  split.
  - exists [SImport "fuzzylite" (Some "fl"); SClassInit "" "engine" (ECall ["fl"; "Engine"] [] [("name", EStr ""); ("input_variables", EList []); ("output_variables", EList []); ("rule_blocks", EList [])])].
    split; vm_compute; reflexivity.
  - exists [SImportStar "fuzzylite"; SClassInit "Engine" "engine" (ECall ["Engine"] [] [("name", EStr "Engine"); ("input_variables", EList []); ("output_variables", EList []); ("rule_blocks", EList [])])].
    split; vm_compute; reflexivity.
Qed.

(* the computable condition holds of the example engine's rules and rejects words with a blank, a quote, a comment sign
   or the keyword that would end the clause *)
Example C15_example_tokens :
  forallb (fun b => forallb (fun r => rule_tokens_ok r) (bl_rules b)) (en_blocks (ex_engine true)) = true
  /\ map (fun w => rule_tokens_ok {| ru_enabled := true; ru_weight := 1%float; ru_antecedent := ["temp"; "is"; w];
                                      ru_consequent := ["power"; "is"; "low"]; ru_loaded := true; ru_degree := 0%float; ru_triggered := false |})
         ["cold"; "co ld"; "it's"; "a#b"; "then"; "with"; ""] = [true; false; false; false; false; true; false]
  /\ Forall (weight_ok E0) (flat_map (@bl_rules float) (en_blocks (ex_engine true))).
Proof.
  split; [vm_compute; reflexivity|]. split; [vm_compute; reflexivity|].
  cbn [ex_engine en_blocks flat_map bl_rules app].
  apply Forall_cons; [|apply Forall_cons; [|apply Forall_nil]]; unfold weight_ok; cbn [ex_rule ru_weight]; intros H; vm_compute in H |- *; try discriminate; split; reflexivity.
Qed.
(* hence the engine satisfies the hypotheses of the token-level theorems *)
Ltac wf_tac2 :=
  repeat first
    [ exact I
    | match goal with |- weight_ok _ _ => unfold weight_ok; cbn [ex_rule ru_weight]; intros H; vm_compute in H |- *; try discriminate; split; reflexivity end
    | split | apply Forall_nil | apply Forall_cons
    | progress unfold input_wf, output_wf, block_wf_tokens, rule_side_ok, term_wf, shape_wf, opt_plain, defuzzifier_wf, activation_wf,
                      formula_ok, rule_loads, row_ok, fl_ok
    | progress cbn [vi_min vi_max vi_terms vo_min vo_max vo_default vo_aggregation vo_defuzzifier vo_terms vi_name vo_name
                    bl_conjunction bl_disjunction bl_implication bl_activation bl_rules en_inputs en_outputs en_blocks
                    shape_args fst snd ex_rule ru_antecedent ru_consequent ru_weight]
    | match goal with
      | |- In _ _ => cbn [In]; tauto
      | |- _ <> _ => discriminate
      | |- _ = _ => vm_compute; reflexivity
      | |- weight_ok _ _ => unfold weight_ok; cbn [ex_rule ru_weight]; intros H; vm_compute in H |- *; try discriminate; split; reflexivity
      end ].
Example C15_example_wf_tokens : engine_wf_tokens E0 (ex_engine true).
Proof. unfold engine_wf_tokens, ex_engine. cbn [en_inputs en_outputs en_blocks]. do 5 (split; [wf_tac2|]). wf_tac2. Qed.
