(* C06 — Rule antecedents mean what the rule grammar says.
   The activation degree of a loaded rule = weight * value of its antecedent read with the documented grammar
   (Spec/Grammar.v: `and` binds tighter than `or`, both associate to the left, parentheses override, hedges apply from the
   one nearest the term outwards, `any` yields 1, a disabled variable yields 0).
   Models: Model/ShuntingYard.v (Function.format_infix, Function.infix_to_postfix over the generated operator table),
   Model/Antecedent.v (Antecedent.load, Antecedent.activation_degree, Aggregated.grouped_terms, Rule.activate_with).
   Only imports and final statements; the proofs live in Proofs/ShuntingYardProofs.v and Proofs/AntecedentProofs.v. *)
From Coq Require Import ZArith NArith Bool List String Ascii Reals PrimFloat.
From VF Require Import Num NumR NumF GenNorm GenHedge GenTerm GenOpTable Core ShuntingYard Antecedent Grammar
  ShuntingYardProofs AntecedentProofs.
Import ListNotations.
Local Open Scope string_scope.
Local Open Scope list_scope.

(* ---- the shunting-yard is complete for the general infix grammar, for any well-formed table, and the generated table is one *)
Theorem C06_sy_complete : forall (tbl : table), table_ok tbl ->
  forall t ts, SPrints tbl 0 t ts -> infix_to_postfix tbl ts = Ok (spostfix t).
Proof. exact sy_complete. Qed.
Print Assumptions C06_sy_complete.

Theorem C06_op_table_ok : table_ok op_table.
Proof. exact op_table_ok. Qed.
Print Assumptions C06_op_table_ok.

Theorem C06_and_tighter_than_or : (en_prec or_entry < en_prec and_entry)%Z /\ rassoc and_entry = false /\ rassoc or_entry = false.
Proof. exact (conj and_tighter_than_or (conj and_left_assoc or_left_assoc)). Qed.
Print Assumptions C06_and_tighter_than_or.

(* ---- the tokeniser: blanks are free, parentheses may be glued to names *)
Theorem C06_glued_parens_ok : forall toks text, Spells toks text -> format_infix_tokens op_table KW_AND KW_OR text = toks.
Proof. exact tokens_spelled. Qed.
Print Assumptions C06_glued_parens_ok.

Section C06.
  Context {T : Type} {NT : Num T}.
  Variable e : engine T.
  Variable membership : term T -> T -> result T.

  Theorem C06_antecedent_postfix : forall t toks,
    Prints 0 t toks -> names_ok e t -> infix_to_postfix op_table toks = Ok (apostfix t).
  Proof. exact (antecedent_postfix (e := e)). Qed.

  Theorem C06_antecedent_load_complete : forall t toks x,
    Prints 0 t toks -> names_ok e t -> resolve e t = Some x -> parse_tokens e toks = Ok x.
  Proof. exact (antecedent_load_complete (e := e)). Qed.

  Theorem C06_antecedent_load_text : forall t toks text x,
    Spells toks text -> Prints 0 t toks -> names_ok e t -> resolve e t = Some x -> load_text e text = Ok x.
  Proof. exact (antecedent_load_text (e := e)). Qed.

  Theorem C06_names_ok_resolves : forall t, names_ok e t -> exists x, resolve e t = Some x.
  Proof. exact (names_ok_resolves (e := e)). Qed.

  Theorem C06_activation_degree_sem : forall conj disj t x, names_ok e t -> resolve e t = Some x ->
    activation_degree membership (Some conj) (Some disj) e x = sem membership conj disj e t.
  Proof. exact (@activation_degree_sem T NT e membership). Qed.

  (* the aggregated activation of a term of an output variable: grouped_terms()[name] = in-order aggregation *)
  Theorem C06_fuzzy_activation_degree : forall agg (fuzzy : list (activated T)) n,
    fuzzy_activation_degree agg fuzzy n = agg_activation agg fuzzy n.
  Proof. exact fuzzy_activation_degree_spec. Qed.

  (* THE PROPERTY: Rule.activate_with = weight * sem, for every spelling of every antecedent of the grammar *)
  Theorem C06_rule_degree : forall conj disj t toks text w c cs,
    Spells toks text -> Prints 0 t toks -> names_ok e t ->
    exists x, load_text e text = Ok x /\
      rule_activate_with membership (Some conj) (Some disj) e (loaded_rule w x (c :: cs))
      = do s <- sem membership conj disj e t; Ok (mul w s).
  Proof. exact (@rule_degree T NT e membership). Qed.

  Theorem C06_and_binds_tighter : forall conj disj a b c ta tb tc,
    Prints 0 a ta -> Prints 1 b tb -> Prints 2 c tc -> names_ok e (AOr a (AAnd b c)) ->
    exists x, parse_tokens e (ta ++ "or" :: tb ++ "and" :: tc) = Ok x /\
      activation_degree membership (Some conj) (Some disj) e x
      = (do va <- sem membership conj disj e a;
         do vbc <- (do vb <- sem membership conj disj e b; do vc <- sem membership conj disj e c; Ok (tnormx_compute conj vb vc));
         Ok (snormx_compute disj va vbc)).
  Proof. exact (@and_binds_tighter T NT e membership). Qed.

  Theorem C06_left_assoc_and : forall conj disj a b c ta tb tc,
    Prints 1 a ta -> Prints 2 b tb -> Prints 2 c tc -> names_ok e (AAnd (AAnd a b) c) ->
    exists x, parse_tokens e (ta ++ "and" :: tb ++ "and" :: tc) = Ok x /\
      activation_degree membership (Some conj) (Some disj) e x
      = (do vab <- (do va <- sem membership conj disj e a; do vb <- sem membership conj disj e b; Ok (tnormx_compute conj va vb));
         do vc <- sem membership conj disj e c; Ok (tnormx_compute conj vab vc)).
  Proof. exact (@left_assoc_and T NT e membership). Qed.

  Theorem C06_left_assoc_or : forall conj disj a b c ta tb tc,
    Prints 0 a ta -> Prints 1 b tb -> Prints 1 c tc -> names_ok e (AOr (AOr a b) c) ->
    exists x, parse_tokens e (ta ++ "or" :: tb ++ "or" :: tc) = Ok x /\
      activation_degree membership (Some conj) (Some disj) e x
      = (do vab <- (do va <- sem membership conj disj e a; do vb <- sem membership conj disj e b; Ok (snormx_compute disj va vb));
         do vc <- sem membership conj disj e c; Ok (snormx_compute disj vab vc)).
  Proof. exact (@left_assoc_or T NT e membership). Qed.

  Theorem C06_parens_override : forall conj disj a b c ta tb tc,
    Prints 0 a ta -> Prints 1 b tb -> Prints 2 c tc -> names_ok e (AAnd (AOr a b) c) ->
    exists x, parse_tokens e ("(" :: (ta ++ "or" :: tb) ++ [")"] ++ "and" :: tc) = Ok x /\
      activation_degree membership (Some conj) (Some disj) e x
      = (do vab <- (do va <- sem membership conj disj e a; do vb <- sem membership conj disj e b; Ok (snormx_compute disj va vb));
         do vc <- sem membership conj disj e c; Ok (tnormx_compute conj vab vc)).
  Proof. exact (@parens_override T NT e membership). Qed.

  Theorem C06_parens_override_right : forall conj disj a b c ta tb tc,
    Prints 1 a ta -> Prints 0 b tb -> Prints 1 c tc -> names_ok e (AAnd a (AOr b c)) ->
    exists x, parse_tokens e (ta ++ "and" :: "(" :: (tb ++ "or" :: tc) ++ [")"]) = Ok x /\
      activation_degree membership (Some conj) (Some disj) e x
      = (do va <- sem membership conj disj e a;
         do vbc <- (do vb <- sem membership conj disj e b; do vc <- sem membership conj disj e c; Ok (snormx_compute disj vb vc));
         Ok (tnormx_compute conj va vbc)).
  Proof. exact (@parens_override_right T NT e membership). Qed.

  Theorem C06_hedges_nearest_first : forall conj disj v h hs n,
    names_ok e (AProp v (h :: hs) (TTerm n)) -> spec_enabled e v = true ->
    exists x, parse_tokens e (v :: "is" :: hedge_name h :: map hedge_name hs ++ [n]) = Ok x /\
      activation_degree membership (Some conj) (Some disj) e x
      = (do b <- prop_base membership e v n; Ok (hedge_apply h (hedged hs b))).
  Proof. exact (@hedges_nearest_first T NT e membership). Qed.

  Theorem C06_disabled_variable_zero : forall conj disj v hs tg,
    names_ok e (AProp v hs tg) -> spec_enabled e v = false ->
    exists x, parse_tokens e (prop_tokens v hs tg) = Ok x /\
      activation_degree membership (Some conj) (Some disj) e x = Ok zero.
  Proof. exact (@disabled_variable_zero T NT e membership). Qed.
End C06.
Print Assumptions C06_antecedent_postfix.
Print Assumptions C06_antecedent_load_complete.
Print Assumptions C06_antecedent_load_text.
Print Assumptions C06_names_ok_resolves.
Print Assumptions C06_activation_degree_sem.
Print Assumptions C06_fuzzy_activation_degree.
Print Assumptions C06_rule_degree.
Print Assumptions C06_and_binds_tighter.
Print Assumptions C06_left_assoc_and.
Print Assumptions C06_left_assoc_or.
Print Assumptions C06_parens_override.
Print Assumptions C06_parens_override_right.
Print Assumptions C06_hedges_nearest_first.
Print Assumptions C06_disabled_variable_zero.

(* over the reals: `variable is any` has degree 1 *)
Theorem C06_any_yields_one : forall (e : engine R) membership conj disj v,
  names_ok e (AProp v [] TAny) -> spec_enabled e v = true ->
  exists x, parse_tokens e [v; "is"; "any"] = Ok x /\
    activation_degree membership (Some conj) (Some disj) e x = Ok 1%R.
Proof. intros e m c d v Hn He. rewrite <- one_R. exact (@any_yields_one_gen R NumR e m c d v Hn He). Qed.
Print Assumptions C06_any_yields_one.

(* every antecedent tree has a spelling (so the theorems above are about all of them) *)
Theorem C06_every_tree_prints : forall lvl t, Prints lvl t (print_min lvl t).
Proof. exact print_min_prints. Qed.
Print Assumptions C06_every_tree_prints.

(* ================= non-vacuity: a concrete engine over binary64 floats ================= *)
Definition fnum : Num float := NumF true [].
#[local] Existing Instance fnum.
Definition ex_membership (t : term float) (x : float) : result float :=
  match t with TShape _ s => Ok (@shape_membership float fnum s x) | _ => Err EInternal end.
Definition tri (n : string) (a b c : float) : term float := TShape n (Sh_Triangle a b c 1%float).
Definition ex_in (n : string) (enabled : bool) (terms : list (term float)) (v : float) : input_var float :=
  {| iv_name := n; iv_enabled := enabled; iv_min := 0%float; iv_max := 1%float; iv_lock_range := false; iv_terms := terms; iv_value := v |}.
Definition ex_out : output_var float :=
  {| ov_name := "c"; ov_enabled := true; ov_min := 0%float; ov_max := 1%float; ov_lock_range := false;
     ov_lock_previous := false; ov_default := PrimFloat.nan; ov_aggregation := Some SSharp; ov_defuzzifier := None;
     ov_terms := [tri "lo" 0 0.25 0.5; tri "pi" 0.5 0.75 1]; ov_value := PrimFloat.nan; ov_previous := PrimFloat.nan;
     ov_fuzzy := [ {| a_term := tri "pi" 0.5 0.75 1; a_degree := 0.25%float; a_implication := None |};
                   {| a_term := tri "lo" 0 0.25 0.5; a_degree := 0.5%float; a_implication := None |};
                   {| a_term := tri "pi" 0.5 0.75 1; a_degree := 0.125%float; a_implication := None |} ] |}.
Definition ex_engine : engine float :=
  {| e_name := "ex";
     e_inputs := [ ex_in "a" true [tri "lo" 0 0.25 0.5; tri "hi" 0.5 0.75 1] 0.375%float;
                   ex_in "b" true [tri "lo" 0 0.25 0.5; tri "max" 0.25 0.5 1] 0.4375%float;
                   ex_in "d" false [tri "lo" 0 0.25 0.5] 0.25%float ];
     e_outputs := [ex_out]; e_blocks := [] |}.

Definition ex_tree : atree :=
  AAnd (AOr (AProp "a" [] (TTerm "lo")) (AProp "b" [H_Very; H_Not] (TTerm "max"))) (AProp "c" [H_Somewhat] (TTerm "pi")).
Definition ex_text : string := "(a is lo or b is very not max)and c is  somewhat pi".
Definition ex_toks : list string :=
  ["("; "a"; "is"; "lo"; "or"; "b"; "is"; "very"; "not"; "max"; ")"; "and"; "c"; "is"; "somewhat"; "pi"].

Example C06_ex_names_ok : names_ok ex_engine ex_tree.
Proof. vm_compute. reflexivity. Qed.

Example C06_ex_prints : Prints 0 ex_tree ex_toks.
Proof.
  apply (P_and 0 (AOr (AProp "a" [] (TTerm "lo")) (AProp "b" [H_Very; H_Not] (TTerm "max"))) (AProp "c" [H_Somewhat] (TTerm "pi"))
               ["("; "a"; "is"; "lo"; "or"; "b"; "is"; "very"; "not"; "max"; ")"] ["c"; "is"; "somewhat"; "pi"]).
  - repeat constructor.
  - apply (P_paren 1 _ ["a"; "is"; "lo"; "or"; "b"; "is"; "very"; "not"; "max"]).
    apply (P_or 0 _ _ ["a"; "is"; "lo"] ["b"; "is"; "very"; "not"; "max"]); [reflexivity| |].
    + exact (P_prop 0 "a" [] (TTerm "lo")).
    + exact (P_prop 1 "b" [H_Very; H_Not] (TTerm "max")).
  - exact (P_prop 2 "c" [H_Somewhat] (TTerm "pi")).
Qed.

Ltac sp_name ws w text := apply (Sp_name ws w _ text); [reflexivity|reflexivity|cbn; auto|].
Example C06_ex_spells : Spells ex_toks ex_text.
Proof.
  unfold ex_toks, ex_text.
  apply (Sp_lparen "" _ "a is lo or b is very not max)and c is  somewhat pi"); [reflexivity|].
  sp_name "" "a" " is lo or b is very not max)and c is  somewhat pi".
  sp_name " " "is" " lo or b is very not max)and c is  somewhat pi".
  sp_name " " "lo" " or b is very not max)and c is  somewhat pi".
  sp_name " " "or" " b is very not max)and c is  somewhat pi".
  sp_name " " "b" " is very not max)and c is  somewhat pi".
  sp_name " " "is" " very not max)and c is  somewhat pi".
  sp_name " " "very" " not max)and c is  somewhat pi".
  sp_name " " "not" " max)and c is  somewhat pi".
  sp_name " " "max" ")and c is  somewhat pi".
  apply (Sp_rparen "" _ "and c is  somewhat pi"); [reflexivity|].
  sp_name "" "and" " c is  somewhat pi".
  sp_name " " "c" " is  somewhat pi".
  sp_name " " "is" "  somewhat pi".
  sp_name "  " "somewhat" " pi".
  sp_name " " "pi" "".
  apply (Sp_end ""). reflexivity.
Qed.

(* the model run on the text: tokens, postfix form, loaded tree *)
Example C06_ex_tokens : format_infix_tokens op_table KW_AND KW_OR ex_text = ex_toks.
Proof. vm_compute. reflexivity. Qed.
Example C06_ex_postfix : infix_to_postfix op_table ex_toks
  = Ok ["a"; "is"; "lo"; "b"; "is"; "very"; "not"; "max"; "or"; "c"; "is"; "somewhat"; "pi"; "and"].
Proof. vm_compute. reflexivity. Qed.
Example C06_ex_load : load_text ex_engine ex_text
  = Ok (EOp true (EOp false (EProp (VIn 0) [] (Some 0%nat)) (EProp (VIn 1) [HG H_Very; HG H_Not] (Some 1%nat)))
                 (EProp (VOut 0) [HG H_Somewhat] (Some 1%nat))).
Proof. vm_compute. reflexivity. Qed.

(* the value: a is lo = 0.5; b is max = 0.75, not -> 0.25, very -> 0.0625; sharp-or = 0.5/4 + 0.0625/2 + 1/16 = 0.21875;
   c is pi = sanitize(0.25/4 + 0.125/2 + 1/16) = 0.1875, somewhat -> sqrt; sharp-and, times the weight 0.5 *)
Example C06_ex_degree :
  rule_activate_with ex_membership (Some TSharp) (Some SSharp) ex_engine
    (loaded_rule 0.5%float (EOp true (EOp false (EProp (VIn 0) [] (Some 0%nat)) (EProp (VIn 1) [HG H_Very; HG H_Not] (Some 1%nat)))
                                      (EProp (VOut 0) [HG H_Somewhat] (Some 1%nat)))
                 [{| c_var := 0%nat; c_hedges := []; c_term := 0%nat |}])
  = Ok (PrimFloat.mul 0.5 (PrimFloat.add (PrimFloat.add (PrimFloat.div 0.21875 2) (PrimFloat.div (PrimFloat.sqrt 0.1875) 4)) 0.125))%float.
Proof. vm_compute. reflexivity. Qed.

(* precedence, associativity and hedge order matter on this engine (so the theorems are not vacuous identities) *)
Definition differ (a b : result float) : bool :=
  match a, b with Ok x, Ok y => negb (feq x y) | _, _ => false end.
Definition pa := AProp "a" [] (TTerm "lo").
Definition pb := AProp "b" [] (TTerm "max").
Definition pc := AProp "c" [] (TTerm "pi").
Example C06_ex_precedence_matters :
  differ (sem ex_membership TSharp SSharp ex_engine (AOr pa (AAnd pb pc)))
         (sem ex_membership TSharp SSharp ex_engine (AAnd (AOr pa pb) pc)) = true.
Proof. vm_compute. reflexivity. Qed.
Example C06_ex_associativity_matters :
  differ (sem ex_membership TSharp SSharp ex_engine (AAnd (AAnd pa pb) pc))
         (sem ex_membership TSharp SSharp ex_engine (AAnd pa (AAnd pb pc))) = true
  /\ differ (sem ex_membership TSharp SSharp ex_engine (AOr (AOr pa pb) pc))
            (sem ex_membership TSharp SSharp ex_engine (AOr pa (AOr pb pc))) = true.
Proof. split; vm_compute; reflexivity. Qed.
Example C06_ex_hedge_order_matters :
  differ (sem ex_membership TSharp SSharp ex_engine (AProp "b" [H_Very; H_Not] (TTerm "max")))
         (sem ex_membership TSharp SSharp ex_engine (AProp "b" [H_Not; H_Very] (TTerm "max"))) = true.
Proof. vm_compute. reflexivity. Qed.

(* `any`, a disabled variable, an output variable in the antecedent *)
Example C06_ex_any : (do x <- load_text ex_engine "a is any"; activation_degree ex_membership (Some TSharp) (Some SSharp) ex_engine x) = Ok 1%float.
Proof. vm_compute. reflexivity. Qed.
Example C06_ex_disabled : names_ok ex_engine (AProp "d" [] (TTerm "lo")) /\ spec_enabled ex_engine "d" = false /\
  (do x <- load_text ex_engine "d is lo"; activation_degree ex_membership (Some TSharp) (Some SSharp) ex_engine x) = Ok 0%float.
Proof. repeat split; vm_compute; reflexivity. Qed.
Example C06_ex_output_variable :
  (do x <- load_text ex_engine "c is pi"; activation_degree ex_membership (Some TSharp) (Some SSharp) ex_engine x) = Ok 0.1875%float.
Proof. vm_compute. reflexivity. Qed.

(* an antecedent that stops after the variable, after `is` or after a hedge is rejected with SyntaxError
   (rule.py:384-389; before the repair of finding F6 the last two crashed with TypeError) *)
Example C06_ex_final_state_check :
  load_text ex_engine "a is" = Err ESyntax /\ load_text ex_engine "a is very" = Err ESyntax /\ load_text ex_engine "a" = Err ESyntax.
Proof. repeat split; vm_compute; reflexivity. Qed.

(* a VARIABLE named like a formula function cannot be used (the shunting-yard moves it); a TERM can *)
Example C06_ex_function_named_variable :
  infix_to_postfix op_table ["max"; "is"; "lo"] = Ok ["is"; "lo"; "max"].
Proof. vm_compute. reflexivity. Qed.
