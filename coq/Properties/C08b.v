(* C08, part b: the comparator table of Threshold (regenerated from activation.py on every run) is the documented one:
   each symbol is bound to the `operator` function of the same meaning.  Permuting or editing the table in the
   source changes Gen/GenSwitches.v and breaks this theorem.  Model/Activation.v's `cmp_apply` implements exactly
   these six meanings (CmpLt = operator.lt, …), and tools/enginelib.py / tools/props/C08.py map symbols to constructors
   in this order. *)
From Coq Require Import List String.
From VF Require Import Num GenSwitches Core Activation.
Import ListNotations.
Open Scope string_scope.

Theorem C08_comparator_table_is_documented :
  threshold_comparators =
  [("LessThan", "<", "lt"); ("LessThanOrEqualTo", "<=", "le"); ("EqualTo", "==", "eq");
   ("NotEqualTo", "!=", "ne"); ("GreaterThanOrEqualTo", ">=", "ge"); ("GreaterThan", ">", "gt")].
Proof. reflexivity. Qed.
Print Assumptions C08_comparator_table_is_documented.

(* the meaning the model gives to each constructor, spelled out (IEEE comparisons: false on NaN, `!=` true on NaN) *)
Theorem C08_cmp_apply_meaning : forall (T : Type) (N : Num T) (a t : T),
  cmp_apply CmpLt a t = ltb a t /\ cmp_apply CmpLe a t = leb a t /\ cmp_apply CmpEq a t = eqb a t /\
  cmp_apply CmpNe a t = negb (eqb a t) /\ cmp_apply CmpGe a t = leb t a /\ cmp_apply CmpGt a t = ltb t a.
Proof. intros; repeat split; reflexivity. Qed.
Print Assumptions C08_cmp_apply_meaning.
