(* C10 — Weighted defuzzifiers compute the grouped weighted average / sum.

   Model: Model/Weighted.v (`grouped_terms`, `activation_degree`, `infer_type`, `weighted_defuzzify`), generic over
   the numeric reading; term evaluations `tm` (membership) and `tt` (tsukamoto) are parameters, `std_membership tbl` /
   `std_tsukamoto` are the evaluations of the shape terms (Linear / Function values come from the table `tbl`).
   Only imports and final statements; all proofs live in Proofs/WeightedProofs.v.

   Readings:  R  (exact reals)            closed forms, bounds;
              ER (reals + inf + NaN)      NaN behaviour, neutrality of zero-degree activations;
              any `Num T`                 grouping, type inference, errors.

   FINDING F4 (repaired in /repo: `weighted_sum + np.where(w == 0.0, 0.0, w * z)`, `wcontrib` in the model): an
   activation of degree 0 never changes the result, whatever its z: `C10_zero_degree_neutral_new` (new name, anywhere),
   `C10_zero_degree_neutral` (the same with the standard term evaluations), `C10_zero_degree_neutral_existing` (the
   name is already there and 0 is the identity of the aggregation).  Of the loop WITHOUT the guard (the pinned code
   before the repair, `wloop_unguarded`) the statement is false: `C10_zero_degree_neutral_unguarded_refuted`. *)
From Coq Require Import ZArith Reals Bool List String Lra PrimFloat.
From VF Require Import Num NumR NumER NumF GenNorm GenTerm SpecNorm Core Weighted WeightedProofs.
Import ListNotations.
Local Open Scope list_scope.
Local Open Scope R_scope.

(* ---- 1. grouping ------------------------------------------------------------------------------- *)
(* names in order of first occurrence, without repetition; the group keeps the term of the first occurrence; its
   degree is the left fold of the aggregation (plain sum when none) over the occurrences' degrees, in order, every
   assignment passing through the sanitising setter *)
Theorem C10_grouping_spec : forall (T : Type) (N : Num T) (agg : option snormx) (l : list (activated T)),
  let G := grouped_terms agg l in
  names G = first_names l /\ NoDup (names G) /\ (forall n, In n (names G) <-> In n (names l)) /\
  forall g, In g G ->
    exists a rest, occurrences (act_name g) l = a :: rest /\ a_term g = a_term a /\ a_implication g = None /\
                   a_degree g = fold_degree (agg_or_sum agg) (a_degree a) (map a_degree rest).
Proof. exact @grouping_spec. Qed.
Print Assumptions C10_grouping_spec.

(* `first_names` is the order of first occurrence *)
Theorem C10_first_names_order : forall (T : Type) (N : Num T) (a : activated T) (l : list (activated T)),
  first_names (a :: l) = act_name a :: filter (fun n => negb (String.eqb n (act_name a))) (first_names l).
Proof. intros T _. exact (@first_names_cons T). Qed.
Print Assumptions C10_first_names_order.

(* Aggregated.activation_degree(term): the degree of the group of that name, 0.0 when there is none *)
Theorem C10_activation_degree_present : forall (T : Type) (N : Num T) agg (l : list (activated T)) n,
  In n (names l) -> exists g, In g (grouped_terms agg l) /\ act_name g = n /\ activation_degree agg l n = a_degree g.
Proof. exact @activation_degree_present. Qed.
Print Assumptions C10_activation_degree_present.
Theorem C10_activation_degree_absent : forall (T : Type) (N : Num T) agg (l : list (activated T)) n,
  ~ In n (names l) -> activation_degree agg l n = zero.
Proof. exact @activation_degree_absent. Qed.
Print Assumptions C10_activation_degree_absent.

(* ---- 2. closed forms over R --------------------------------------------------------------------- *)
Theorem C10_wavg_spec : forall (tm tt : term R -> R -> result R) ty agg (l : list (activated R)) this_type zs,
  resolve_type ty l = Ok this_type ->
  group_values tm tt this_type (grouped_terms agg l) = Ok zs ->
  sum_w (grouped_terms agg l) <> 0 ->
  weighted_average tm tt ty agg l = Ok (sum_wz (grouped_terms agg l) zs / sum_w (grouped_terms agg l)).
Proof. exact wavg_spec_R. Qed.
Print Assumptions C10_wavg_spec.

Theorem C10_wsum_spec : forall (tm tt : term R -> R -> result R) ty agg (l : list (activated R)) this_type zs,
  resolve_type ty l = Ok this_type ->
  group_values tm tt this_type (grouped_terms agg l) = Ok zs ->
  sum_w (grouped_terms agg l) <> 0 ->
  weighted_sum tm tt ty agg l = Ok (sum_wz (grouped_terms agg l) zs).
Proof. exact wsum_spec_R. Qed.
Print Assumptions C10_wsum_spec.

(* a weighted average of constants lies between the smallest and the largest activated constant *)
Theorem C10_wavg_between_constants : forall (tbl : @value_table R) tt ty agg (l : list (activated R)) lo hi,
  ty <> WTsukamoto ->
  (forall a, In a l -> exists c, is_constant (a_term a) = Some c /\ lo <= c <= hi) ->
  (forall g, In g (grouped_terms agg l) -> 0 <= a_degree g) ->
  0 < sum_w (grouped_terms agg l) ->
  exists y, weighted_average (std_membership tbl) tt ty agg l = Ok y /\ lo <= y <= hi.
Proof. exact wavg_between_constants_R. Qed.
Print Assumptions C10_wavg_between_constants.

(* ... and the weights are non-negative as soon as the activation degrees are in [0,1], for every aggregation
   operator (the 9 registered S-norms, none, and the harness's lambda) *)
Theorem C10_grouped_degrees_nonneg : forall agg (l : list (activated R)),
  (forall a, In a l -> unit (a_degree a)) -> forall g, In g (grouped_terms agg l) -> 0 <= a_degree g.
Proof. exact grouped_degrees_nonneg_R. Qed.
Print Assumptions C10_grouped_degrees_nonneg.

(* ---- 3. the kind of defuzzifier ------------------------------------------------------------------ *)
Theorem C10_term_wtype_spec : forall (T : Type) (N : Num T) (t : term T),
  term_wtype t = match t with
                 | TShape _ s => match is_constant t with Some _ => WTakagiSugeno
                                 | None => if shape_monotonic s then WTsukamoto else WAutomatic end
                 | TDiscrete _ _ _ => WAutomatic
                 | TLinear _ _ | TFunction _ _ _ => WTakagiSugeno
                 end.
Proof. intros T _. exact (@term_wtype_spec T). Qed.
Print Assumptions C10_term_wtype_spec.

Theorem C10_infer_type_spec : forall (T : Type) (N : Num T) (l : list (activated T)),
  (forall ty, infer_type l = Ok ty <->
              (l = [] /\ ty = WAutomatic) \/ (l <> [] /\ forall a, In a l -> term_wtype (a_term a) = ty)) /\
  (forall e, infer_type l = Err e <->
             e = EInternal /\ exists a b, In a l /\ In b l /\ term_wtype (a_term a) <> term_wtype (a_term b)).
Proof. intros T _. exact (@infer_type_spec T). Qed.
Print Assumptions C10_infer_type_spec.

Theorem C10_explicit_type_wins : forall (T : Type) (N : Num T) tm tt average ty agg (l : list (activated T)),
  ty <> WAutomatic ->
  weighted_defuzzify tm tt average ty agg l =
  (do st <- wloop tm tt ty (grouped_terms agg l) (winit l); Ok (wfinal average st)).
Proof. exact @explicit_type_wins. Qed.
Print Assumptions C10_explicit_type_wins.

Theorem C10_tsukamoto_requires_monotonic :
  forall (T : Type) (N : Num T) (tbl : @value_table T) average ty agg (l : list (activated T)),
  resolve_type ty l = Ok WTsukamoto ->
  (existsb (fun g => negb (has_tsukamoto (a_term g))) (grouped_terms agg l) = true ->
     std_defuzzify tbl average ty agg l = Err ERuntime) /\
  (forallb (fun g => has_tsukamoto (a_term g)) (grouped_terms agg l) = true ->
     exists y, std_defuzzify tbl average ty agg l = Ok y).
Proof. exact @tsukamoto_requires_monotonic. Qed.
Print Assumptions C10_tsukamoto_requires_monotonic.
Theorem C10_has_tsukamoto_iff_monotonic : forall (T : Type) (N : Num T) (t : term T),
  has_tsukamoto t = match t with TShape _ s => shape_monotonic s | _ => false end.
Proof. exact @has_tsukamoto_monotonic. Qed.
Print Assumptions C10_has_tsukamoto_iff_monotonic.

(* ---- 4. NaN and zero-degree activations, over ER ------------------------------------------------- *)
(* non-negative finite weights, z finite wherever the weight is not zero (`wz_ok`): NaN exactly when there are no
   activations or all weights are zero *)
Theorem C10_nan_iff : forall (tm tt : term ER -> ER -> result ER) average ty agg (l : list (activated ER)) this_type zs,
  resolve_type ty l = Ok this_type ->
  group_values tm tt this_type (grouped_terms agg l) = Ok zs ->
  Forall2 (fun g z => exists r, a_degree g = Fin r /\ 0 <= r /\ (r <> 0 -> finite z)) (grouped_terms agg l) zs ->
  exists y, weighted_defuzzify tm tt average ty agg l = Ok y /\
            (isnan y = true <-> l = [] \/ forall g, In g (grouped_terms agg l) -> a_degree g = Fin 0).
Proof. exact nan_iff_ER. Qed.
Print Assumptions C10_nan_iff.

(* an activation of degree 0 of a new name, inserted anywhere, is neutral whatever its z (finite, infinite, NaN) *)
Theorem C10_zero_degree_neutral_new :
  forall (tm tt : term ER -> ER -> result ER) average ty agg (l1 : list (activated ER)) a l2 this_type z,
  a_degree a = zero ->
  ~ In (act_name a) (names (l1 ++ l2)) ->
  resolve_type ty (l1 ++ a :: l2) = Ok this_type ->
  term_value tm tt this_type (a_term a) zero = Ok z ->
  weighted_defuzzify tm tt average ty agg (l1 ++ a :: l2) = weighted_defuzzify tm tt average ty agg (l1 ++ l2).
Proof. exact zero_degree_neutral_new_ER. Qed.
Print Assumptions C10_zero_degree_neutral_new.

(* the same with the standard term evaluations: the statement that finding F4 contradicted before the repair *)
Theorem C10_zero_degree_neutral :
  forall (tbl : @value_table ER) average ty agg (l1 : list (activated ER)) a l2 this_type,
  a_degree a = zero ->
  ~ In (act_name a) (names (l1 ++ l2)) ->
  resolve_type ty (l1 ++ a :: l2) = Ok this_type ->
  (exists z, term_value (std_membership tbl) std_tsukamoto this_type (a_term a) zero = Ok z) ->
  std_defuzzify tbl average ty agg (l1 ++ a :: l2) = std_defuzzify tbl average ty agg (l1 ++ l2).
Proof. exact zero_degree_neutral_std. Qed.
Print Assumptions C10_zero_degree_neutral.

(* an activation of degree 0 of a name that already occurs (inserted after its first occurrence) is neutral when
   the aggregation is a registered S-norm or none and the degree accumulated so far is in [0,1] *)
Theorem C10_zero_degree_neutral_existing :
  forall (tm tt : term ER -> ER -> result ER) average ty (agg : option snorm) (l1 : list (activated ER)) a l2 this_type,
  a_degree a = zero ->
  In (act_name a) (names l1) ->
  (forall g, In g (grouped_terms (option_map SN agg) l1) -> act_name g = act_name a ->
             exists r, a_degree g = Fin r /\ 0 <= r <= 1) ->
  resolve_type ty (l1 ++ a :: l2) = Ok this_type ->
  weighted_defuzzify tm tt average ty (option_map SN agg) (l1 ++ a :: l2) =
  weighted_defuzzify tm tt average ty (option_map SN agg) (l1 ++ l2).
Proof. exact zero_degree_neutral_existing_ER. Qed.
Print Assumptions C10_zero_degree_neutral_existing.

(* the witness of finding F4 on the model as it is now: Ramp("a", 0, 1) at 0.5 and Concave("b", 0, 1) at degree 0,
   whose tsukamoto(0) is -inf: the result stays 0.5 (average) / 0.25 (sum); over ER and on binary64 by computation *)
Theorem C10_F4_witness_repaired :
  std_tsukamoto (a_term w_concave) zero = Ok NInf /\
  std_defuzzify [] true WAutomatic None [w_ramp; w_concave] = Ok (Fin (1/2)) /\
  std_defuzzify [] false WAutomatic None [w_ramp; w_concave] = Ok (Fin (1/4)) /\
  res_feq (fdefuzz true [f_ramp; f_concave]) 0.5%float = true /\
  res_feq (fdefuzz false [f_ramp; f_concave]) 0.25%float = true.
Proof. exact (conj w_concave_z0 (conj w_avg_after (conj w_sum_after (conj f_avg_after f_sum_after)))). Qed.
Print Assumptions C10_F4_witness_repaired.

(* the loop without the guard (`weighted_sum + w * z`, the pinned code before the repair) does NOT have the property:
   the same output gives NaN, because 0 * -inf = NaN *)
Theorem C10_zero_degree_neutral_unguarded_refuted : ~ zero_degree_neutral_for std_defuzzify_unguarded.
Proof. exact zero_degree_neutral_unguarded_refuted. Qed.
Print Assumptions C10_zero_degree_neutral_unguarded_refuted.
Theorem C10_F4_witness_unguarded :
  std_defuzzify_unguarded [] true WAutomatic None [w_ramp] = Ok (Fin (1/2)) /\
  std_defuzzify_unguarded [] true WAutomatic None [w_ramp; w_concave] = Ok NaN /\
  std_defuzzify_unguarded [] false WAutomatic None [w_ramp; w_concave] = Ok NaN /\
  res_feq (fdefuzz_unguarded true [f_ramp; f_concave]) PrimFloat.nan = true /\
  res_feq (fdefuzz_unguarded false [f_ramp; f_concave]) PrimFloat.nan = true.
Proof. exact (conj u_avg_before (conj u_avg_after (conj u_sum_after (conj fu_avg_after fu_sum_after)))). Qed.
Print Assumptions C10_F4_witness_unguarded.

(* ---- 5. non-vacuity ------------------------------------------------------------------------------ *)
Definition cst (n : string) (c d : R) : activated R :=
  {| a_term := TShape n (Sh_Constant c); a_degree := d; a_implication := None |}.
Definition ex_l : list (activated R) := [cst "a" 1 (1/4); cst "b" 3 (1/2); cst "a" 7 (1/4)].

Ltac r_cbv := cbv - [Rplus Rmult Rminus Ropp Rdiv Rinv IZR Rlt Rle Rlt_dec Rle_dec Req_EM_T].
(* decide the guards `w == 0.0` of the loop *)
Ltac r_step :=
  match goal with |- context [Req_EM_T ?a ?b] => destruct (Req_EM_T a b); try (exfalso; lra) end; cbv iota beta.

(* hypotheses of wavg_spec / wsum_spec / between_constants are met by a grouped output (two activations of "a",
   the second with ANOTHER constant that is ignored: the group keeps the first term) *)
Example C10_ex_hypotheses :
  resolve_type WAutomatic ex_l = Ok WTakagiSugeno /\
  names (grouped_terms None ex_l) = ["a"; "b"]%string /\
  group_values (std_membership []) std_tsukamoto WTakagiSugeno (grouped_terms None ex_l) = Ok [1; 3] /\
  sum_w (grouped_terms None ex_l) = 1 /\ sum_wz (grouped_terms None ex_l) [1; 3] = 2.
Proof. repeat split; r_cbv; lra. Qed.
Example C10_ex_wavg : weighted_average (std_membership []) std_tsukamoto WAutomatic None ex_l = Ok 2.
Proof. r_cbv. repeat r_step. f_equal. field. Qed.
Example C10_ex_wsum : weighted_sum (std_membership []) std_tsukamoto WAutomatic None ex_l = Ok 2.
Proof. r_cbv. repeat r_step. f_equal. field. Qed.

(* the non-commutative harness operator: the order of the occurrences matters, 1/2 then 1 gives 11/16 *)
Example C10_ex_grouping_order :
  map a_degree (grouped_terms (Some SSharp) [cst "a" 1 (1/2); cst "b" 3 (1/4); cst "a" 1 1]) = [11/16; 1/4] /\
  map a_degree (grouped_terms (Some SSharp) [cst "a" 1 1; cst "b" 3 (1/4); cst "a" 1 (1/2)]) = [9/16; 1/4].
Proof. split; r_cbv; f_equal; try field; f_equal; field. Qed.

(* type inference: mixtures fail (TypeError), an explicit type avoids the inference *)
Definition tri (n : string) (d : R) : activated R :=
  {| a_term := TShape n (Sh_Triangle 0 (1/2) 1 1); a_degree := d; a_implication := None |}.
Definition rmp (n : string) (d : R) : activated R :=
  {| a_term := TShape n (Sh_Ramp 0 1 1); a_degree := d; a_implication := None |}.
Example C10_ex_infer :
  infer_type [cst "a" 1 (1/2); tri "t" (1/2)] = Err EInternal /\
  infer_type [rmp "r" (1/2); tri "t" (1/2)] = Err EInternal /\
  infer_type [rmp "r" (1/2); rmp "q" (1/2)] = Ok WTsukamoto /\
  infer_type [tri "t" (1/2)] = Ok WAutomatic /\
  infer_type ([] : list (activated R)) = Ok WAutomatic.
Proof. repeat split. Qed.
Example C10_ex_mixed_crashes :
  weighted_average (std_membership []) std_tsukamoto WAutomatic None [cst "a" 1 (1/2); tri "t" (1/2)] = Err EInternal.
Proof. reflexivity. Qed.
Example C10_ex_tsukamoto_on_triangle :
  weighted_average (std_membership []) std_tsukamoto WTsukamoto None [rmp "r" (1/2); tri "t" (1/2)] = Err ERuntime.
Proof. reflexivity. Qed.

(* ER: the empty output is NaN; a zero-degree Concave (z(0) = -inf) of a new name is neutral: the hypotheses of
   C10_zero_degree_neutral_new are met by the F4 witness *)
Example C10_ex_nan_empty : std_defuzzify ([] : @value_table ER) true WAutomatic None [] = Ok NaN.
Proof. reflexivity. Qed.
Example C10_ex_neutral_instance :
  std_defuzzify [] true WAutomatic None [w_ramp; w_concave] = std_defuzzify [] true WAutomatic None [w_ramp].
Proof.
  apply (zero_degree_neutral_new_ER (std_membership []) std_tsukamoto true WAutomatic None [w_ramp] w_concave []
           (this_type := WTsukamoto) (z := NInf)); [reflexivity| |reflexivity|exact w_concave_z0].
  cbn. intros [H|[]]. discriminate.
Qed.
(* hypotheses of C10_nan_iff met by an output whose zero-weight group has an infinite z *)
Example C10_ex_nan_iff_hypotheses :
  group_values (std_membership []) std_tsukamoto WTsukamoto (grouped_terms None [w_ramp; w_concave]) = Ok [Fin (1/2); NInf] /\
  Forall2 (fun g z => exists r, a_degree g = Fin r /\ 0 <= r /\ (r <> 0 -> finite z)) (grouped_terms None [w_ramp; w_concave]) [Fin (1/2); NInf].
Proof.
  split.
  - cbv - [Rplus Rmult Rminus Ropp Rdiv Rinv IZR Req_EM_T Rlt_dec Rle_dec Rlt Rle].
    repeat (match goal with
            | |- context [Req_EM_T ?a ?b] => destruct (Req_EM_T a b); try (exfalso; lra)
            | |- context [Rlt_dec ?a ?b] => destruct (Rlt_dec a b); try (exfalso; lra)
            end; cbv iota beta).
    f_equal. f_equal. f_equal. field.
  - change (grouped_terms None [w_ramp; w_concave]) with [new_group w_ramp; new_group w_concave].
    constructor; [|constructor; [|constructor]].
    + exists (1/2). split; [reflexivity|]. split; [lra|]. intros _. now exists (1/2).
    + exists 0. split; [reflexivity|]. split; [lra|]. intros H. now contradiction H.
Qed.
