(* C04 — the T-norm / S-norm laws, stated on the GENERATED kernels of Gen/GenNorm.v read over R (instance NumR).
   Every statement is closed by a lemma of Proofs/NormLaws.v (laws of the documented formulas) transported
   through Proofs/NormR.v (<N>_eq : generated kernel = documented formula).

     tnorm_laws T := range in [0,1], commutative, monotone, associative, T a 1 = a, T a 0 = 0, T a b <= min a b
     snorm_laws S := range in [0,1], commutative, monotone, associative, S a 0 = a, S a 1 = 1, max a b <= S a b
     usum_laws  S := commutative, monotone, associative, S a 0 = a          (UnboundedSum is not bounded)
   all for arguments in [0,1] (unit x := 0 <= x <= 1). *)
From Coq Require Import Reals Lra.
From VF Require Import Num NumR GenNorm SpecNorm NormR NormLaws.
Local Open Scope R_scope.

(* ---- 1. closed forms of the generated kernels *)
Theorem C04_AlgebraicProduct_spec : forall a b : R, AlgebraicProduct_compute a b = a * b.
Proof. exact AlgebraicProduct_eq. Qed.
Print Assumptions C04_AlgebraicProduct_spec.
Theorem C04_BoundedDifference_spec : forall a b : R, BoundedDifference_compute a b = Rmax 0 (a + b - 1).
Proof. exact BoundedDifference_eq. Qed.
Print Assumptions C04_BoundedDifference_spec.
Theorem C04_DrasticProduct_spec : forall a b : R,
  DrasticProduct_compute a b = if Req_EM_T (Rmax a b) 1 then Rmin a b else 0.
Proof. exact DrasticProduct_eq. Qed.
Print Assumptions C04_DrasticProduct_spec.
Theorem C04_EinsteinProduct_spec : forall a b : R, EinsteinProduct_compute a b = (a * b) / (2 - (a + b - a * b)).
Proof. exact EinsteinProduct_eq. Qed.
Print Assumptions C04_EinsteinProduct_spec.
Theorem C04_HamacherProduct_spec : forall a b : R,
  HamacherProduct_compute a b = if Req_EM_T (a + b) 0 then 0 else (a * b) / (a + b - a * b).
Proof. exact HamacherProduct_eq. Qed.
Print Assumptions C04_HamacherProduct_spec.
Theorem C04_Minimum_spec : forall a b : R, Minimum_compute a b = Rmin a b.
Proof. exact Minimum_eq. Qed.
Print Assumptions C04_Minimum_spec.
Theorem C04_NilpotentMinimum_spec : forall a b : R,
  NilpotentMinimum_compute a b = if Rlt_dec 1 (a + b) then Rmin a b else 0.
Proof. exact NilpotentMinimum_eq. Qed.
Print Assumptions C04_NilpotentMinimum_spec.
Theorem C04_AlgebraicSum_spec : forall a b : R, AlgebraicSum_compute a b = a + b - a * b.
Proof. exact AlgebraicSum_eq. Qed.
Print Assumptions C04_AlgebraicSum_spec.
Theorem C04_BoundedSum_spec : forall a b : R, BoundedSum_compute a b = Rmin 1 (a + b).
Proof. exact BoundedSum_eq. Qed.
Print Assumptions C04_BoundedSum_spec.
Theorem C04_DrasticSum_spec : forall a b : R,
  DrasticSum_compute a b = if Req_EM_T (Rmin a b) 0 then Rmax a b else 1.
Proof. exact DrasticSum_eq. Qed.
Print Assumptions C04_DrasticSum_spec.
Theorem C04_EinsteinSum_spec : forall a b : R, EinsteinSum_compute a b = (a + b) / (1 + a * b).
Proof. exact EinsteinSum_eq. Qed.
Print Assumptions C04_EinsteinSum_spec.
Theorem C04_HamacherSum_spec : forall a b : R,
  HamacherSum_compute a b = if Req_EM_T (a * b) 1 then 1 else (a + b - 2 * a * b) / (1 - a * b).
Proof. exact HamacherSum_eq. Qed.
Print Assumptions C04_HamacherSum_spec.
Theorem C04_Maximum_spec : forall a b : R, Maximum_compute a b = Rmax a b.
Proof. exact Maximum_eq. Qed.
Print Assumptions C04_Maximum_spec.
Theorem C04_NilpotentMaximum_spec : forall a b : R,
  NilpotentMaximum_compute a b = if Rlt_dec (a + b) 1 then Rmax a b else 1.
Proof. exact NilpotentMaximum_eq. Qed.
Print Assumptions C04_NilpotentMaximum_spec.
Theorem C04_NormalizedSum_spec : forall a b : R, NormalizedSum_compute a b = (a + b) / Rmax 1 (a + b).
Proof. exact NormalizedSum_eq. Qed.
Print Assumptions C04_NormalizedSum_spec.
Theorem C04_UnboundedSum_spec : forall a b : R, UnboundedSum_compute a b = a + b.
Proof. exact UnboundedSum_eq. Qed.
Print Assumptions C04_UnboundedSum_spec.

(* ---- 2. the seven T-norms *)
Theorem C04_AlgebraicProduct_laws : tnorm_laws (fun a b : R => AlgebraicProduct_compute a b).
Proof. exact (tnorm_laws_ext _ _ (fun a b => eq_sym (AlgebraicProduct_eq a b)) AlgebraicProduct_laws). Qed.
Print Assumptions C04_AlgebraicProduct_laws.
Theorem C04_BoundedDifference_laws : tnorm_laws (fun a b : R => BoundedDifference_compute a b).
Proof. exact (tnorm_laws_ext _ _ (fun a b => eq_sym (BoundedDifference_eq a b)) BoundedDifference_laws). Qed.
Print Assumptions C04_BoundedDifference_laws.
Theorem C04_DrasticProduct_laws : tnorm_laws (fun a b : R => DrasticProduct_compute a b).
Proof. exact (tnorm_laws_ext _ _ (fun a b => eq_sym (DrasticProduct_eq a b)) DrasticProduct_laws). Qed.
Print Assumptions C04_DrasticProduct_laws.
Theorem C04_EinsteinProduct_laws : tnorm_laws (fun a b : R => EinsteinProduct_compute a b).
Proof. exact (tnorm_laws_ext _ _ (fun a b => eq_sym (EinsteinProduct_eq a b)) EinsteinProduct_laws). Qed.
Print Assumptions C04_EinsteinProduct_laws.
Theorem C04_HamacherProduct_laws : tnorm_laws (fun a b : R => HamacherProduct_compute a b).
Proof. exact (tnorm_laws_ext _ _ (fun a b => eq_sym (HamacherProduct_eq a b)) HamacherProduct_laws). Qed.
Print Assumptions C04_HamacherProduct_laws.
Theorem C04_Minimum_laws : tnorm_laws (fun a b : R => Minimum_compute a b).
Proof. exact (tnorm_laws_ext _ _ (fun a b => eq_sym (Minimum_eq a b)) Minimum_laws). Qed.
Print Assumptions C04_Minimum_laws.
Theorem C04_NilpotentMinimum_laws : tnorm_laws (fun a b : R => NilpotentMinimum_compute a b).
Proof. exact (tnorm_laws_ext _ _ (fun a b => eq_sym (NilpotentMinimum_eq a b)) NilpotentMinimum_laws). Qed.
Print Assumptions C04_NilpotentMinimum_laws.

(* ---- 3. the eight bounded S-norms *)
Theorem C04_AlgebraicSum_laws : snorm_laws (fun a b : R => AlgebraicSum_compute a b).
Proof. exact (snorm_laws_ext _ _ (fun a b => eq_sym (AlgebraicSum_eq a b)) AlgebraicSum_laws). Qed.
Print Assumptions C04_AlgebraicSum_laws.
Theorem C04_BoundedSum_laws : snorm_laws (fun a b : R => BoundedSum_compute a b).
Proof. exact (snorm_laws_ext _ _ (fun a b => eq_sym (BoundedSum_eq a b)) BoundedSum_laws). Qed.
Print Assumptions C04_BoundedSum_laws.
Theorem C04_DrasticSum_laws : snorm_laws (fun a b : R => DrasticSum_compute a b).
Proof. exact (snorm_laws_ext _ _ (fun a b => eq_sym (DrasticSum_eq a b)) DrasticSum_laws). Qed.
Print Assumptions C04_DrasticSum_laws.
Theorem C04_EinsteinSum_laws : snorm_laws (fun a b : R => EinsteinSum_compute a b).
Proof. exact (snorm_laws_ext _ _ (fun a b => eq_sym (EinsteinSum_eq a b)) EinsteinSum_laws). Qed.
Print Assumptions C04_EinsteinSum_laws.
Theorem C04_HamacherSum_laws : snorm_laws (fun a b : R => HamacherSum_compute a b).
Proof. exact (snorm_laws_ext _ _ (fun a b => eq_sym (HamacherSum_eq a b)) HamacherSum_laws). Qed.
Print Assumptions C04_HamacherSum_laws.
Theorem C04_Maximum_laws : snorm_laws (fun a b : R => Maximum_compute a b).
Proof. exact (snorm_laws_ext _ _ (fun a b => eq_sym (Maximum_eq a b)) Maximum_laws). Qed.
Print Assumptions C04_Maximum_laws.
Theorem C04_NilpotentMaximum_laws : snorm_laws (fun a b : R => NilpotentMaximum_compute a b).
Proof. exact (snorm_laws_ext _ _ (fun a b => eq_sym (NilpotentMaximum_eq a b)) NilpotentMaximum_laws). Qed.
Print Assumptions C04_NilpotentMaximum_laws.
Theorem C04_NormalizedSum_laws : snorm_laws (fun a b : R => NormalizedSum_compute a b).
Proof. exact (snorm_laws_ext _ _ (fun a b => eq_sym (NormalizedSum_eq a b)) NormalizedSum_laws). Qed.
Print Assumptions C04_NormalizedSum_laws.
(* NormalizedSum is BoundedSum (on all reals, in particular on [0,1]) *)
Theorem C04_NormalizedSum_is_BoundedSum : forall a b : R, NormalizedSum_compute a b = BoundedSum_compute a b.
Proof.
  exact (fun a b => eq_trans (NormalizedSum_eq a b)
                      (eq_trans (NormalizedSum_BoundedSum_all a b) (eq_sym (BoundedSum_eq a b)))).
Qed.
Print Assumptions C04_NormalizedSum_is_BoundedSum.

(* ---- 4. UnboundedSum: addition; commutative, monotone, associative, identity 0 — and NOT range-preserving *)
Theorem C04_UnboundedSum_laws : usum_laws (fun a b : R => UnboundedSum_compute a b).
Proof. exact (usum_laws_ext _ _ (fun a b => eq_sym (UnboundedSum_eq a b)) UnboundedSum_laws). Qed.
Print Assumptions C04_UnboundedSum_laws.
Theorem C04_UnboundedSum_unbounded : unit 1 /\ UnboundedSum_compute 1 1 = 2.
Proof. exact (conj unit_1 (eq_trans (UnboundedSum_eq 1 1) US_1_1)). Qed.
Print Assumptions C04_UnboundedSum_unbounded.

(* ---- 5. monotonicity in both arguments follows from the bundles *)
Theorem C04_tnorm_mono_both : forall T, tnorm_laws T ->
  forall a a' b b', unit a -> unit a' -> unit b -> unit b' -> a <= a' -> b <= b' -> T a b <= T a' b'.
Proof. exact tnorm_mono2. Qed.
Print Assumptions C04_tnorm_mono_both.
Theorem C04_snorm_mono_both : forall S, snorm_laws S ->
  forall a a' b b', unit a -> unit a' -> unit b -> unit b' -> a <= a' -> b <= b' -> S a b <= S a' b'.
Proof. exact snorm_mono2. Qed.
Print Assumptions C04_snorm_mono_both.

(* ---- 6. De Morgan duality of the seven same-family pairs *)
Theorem C04_dual_Algebraic : forall a b, unit a -> unit b ->
  AlgebraicSum_compute a b = 1 - AlgebraicProduct_compute (1 - a) (1 - b).
Proof.
  exact (dual_ext _ _ _ _ (fun a b => eq_sym (AlgebraicSum_eq a b))
           (fun a b => eq_sym (AlgebraicProduct_eq a b)) dual_Algebraic).
Qed.
Print Assumptions C04_dual_Algebraic.
Theorem C04_dual_Bounded : forall a b, unit a -> unit b ->
  BoundedSum_compute a b = 1 - BoundedDifference_compute (1 - a) (1 - b).
Proof.
  exact (dual_ext _ _ _ _ (fun a b => eq_sym (BoundedSum_eq a b))
           (fun a b => eq_sym (BoundedDifference_eq a b)) dual_Bounded).
Qed.
Print Assumptions C04_dual_Bounded.
Theorem C04_dual_Drastic : forall a b, unit a -> unit b ->
  DrasticSum_compute a b = 1 - DrasticProduct_compute (1 - a) (1 - b).
Proof.
  exact (dual_ext _ _ _ _ (fun a b => eq_sym (DrasticSum_eq a b))
           (fun a b => eq_sym (DrasticProduct_eq a b)) dual_Drastic).
Qed.
Print Assumptions C04_dual_Drastic.
Theorem C04_dual_Einstein : forall a b, unit a -> unit b ->
  EinsteinSum_compute a b = 1 - EinsteinProduct_compute (1 - a) (1 - b).
Proof.
  exact (dual_ext _ _ _ _ (fun a b => eq_sym (EinsteinSum_eq a b))
           (fun a b => eq_sym (EinsteinProduct_eq a b)) dual_Einstein).
Qed.
Print Assumptions C04_dual_Einstein.
Theorem C04_dual_Hamacher : forall a b, unit a -> unit b ->
  HamacherSum_compute a b = 1 - HamacherProduct_compute (1 - a) (1 - b).
Proof.
  exact (dual_ext _ _ _ _ (fun a b => eq_sym (HamacherSum_eq a b))
           (fun a b => eq_sym (HamacherProduct_eq a b)) dual_Hamacher).
Qed.
Print Assumptions C04_dual_Hamacher.
Theorem C04_dual_MaxMin : forall a b, unit a -> unit b ->
  Maximum_compute a b = 1 - Minimum_compute (1 - a) (1 - b).
Proof.
  exact (dual_ext _ _ _ _ (fun a b => eq_sym (Maximum_eq a b))
           (fun a b => eq_sym (Minimum_eq a b)) dual_MaxMin).
Qed.
Print Assumptions C04_dual_MaxMin.
Theorem C04_dual_Nilpotent : forall a b, unit a -> unit b ->
  NilpotentMaximum_compute a b = 1 - NilpotentMinimum_compute (1 - a) (1 - b).
Proof.
  exact (dual_ext _ _ _ _ (fun a b => eq_sym (NilpotentMaximum_eq a b))
           (fun a b => eq_sym (NilpotentMinimum_eq a b)) dual_Nilpotent).
Qed.
Print Assumptions C04_dual_Nilpotent.

(* ---- 7. non-vacuity: the hypotheses are inhabited by non-trivial points, and the kernels take the
        expected (non-boundary) values there *)
Example C04_nonvacuous :
  unit (1/2) /\ unit (1/4) /\ EinsteinProduct_compute (1/2) (1/4) = 1/11.
Proof.
  split; [unfold unit; lra|]. split; [unfold unit; lra|].
  rewrite EinsteinProduct_eq. unfold EinsteinProduct. field.
Qed.
Print Assumptions C04_nonvacuous.
Example C04_nonvacuous_Hamacher :
  unit (1/2) /\ unit (1/4) /\ HamacherProduct_compute (1/2) (1/4) = 1/5 /\ HamacherSum_compute (1/2) (3/4) = 4/5.
Proof.
  split; [unfold unit; lra|]. split; [unfold unit; lra|]. split.
  - rewrite HamacherProduct_eq. unfold HamacherProduct.
    destruct (Req_EM_T (1/2 + 1/4) 0) as [E | N]; [lra | field].
  - rewrite HamacherSum_eq. unfold HamacherSum.
    destruct (Req_EM_T (1/2 * (3/4)) 1) as [E | N]; [lra | field].
Qed.
Print Assumptions C04_nonvacuous_Hamacher.
