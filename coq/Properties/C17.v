(* C17 — Function formulas follow the documented precedence and associativity.
   Model: Model/Formula.v (+ Model/ShuntingYard.v), table: Gen/GenOpTable.v (regenerated from fuzzylite/factory.py on every run).
   Spec: Spec/FormulaSpec.v.  Only imports and final statements; proofs live in Proofs/FormulaProofs.v
   (the shunting-yard half is Proofs/ShuntingYardProofs.sy_complete).

   History: at the originally pinned commit eq/neq/ge/le returned NumPy booleans and min/max were the Python builtins
   (finding F7: `eq(x,1)+eq(y,1)` saturated at 1, `eq(x,1)-eq(y,1)` raised TypeError, min/max raised on arrays); repaired in
   /repo (`scalar(...)`, np.minimum/np.maximum).  The model follows the repaired code and C17_eval_denotes is unrestricted.
   Known finding (not repaired): two arity errors that cancel in the operand count are accepted (`max(1,2,3)+pow(2)`);
   C17_illformed_rejected states exactly which token lists are provably rejected. *)
From Coq Require Import ZArith Bool List String Reals Lra Lia PrimFloat.
From VF Require Import Num NumR NumF GenOpTable Core ShuntingYard Grammar ShuntingYardProofs Formula FormulaSpec FormulaProofs.
Import ListNotations.
Local Open Scope string_scope.
Local Open Scope list_scope.

(* ---- the table *)
Theorem C17_table_is_documented : op_table = documented_table.
Proof. exact table_is_documented. Qed.
Print Assumptions C17_table_is_documented.

(* "(" ")" "," are not keys, every operator associates, equal precedence => equal associativity; arities are 0, 1 or 2 *)
Theorem C17_table_side_condition : table_okb op_table = true /\ arities_le2 op_table = true.
Proof. exact table_side_condition. Qed.
Print Assumptions C17_table_side_condition.

(* ---- postfix <-> tree *)
Theorem C17_postfix_tree_bijection (T : Type) (show : T -> string) :
  (forall t : fnode T, wf op_table t -> build_syn op_table (postfix show t) = Ok t) /\
  (forall p (t : fnode T), Forall (fun s => is_paren_tok s = false) p -> build_syn op_table p = Ok t -> postfix show t = p) /\
  (forall (pn : string -> option T) p,
     build op_table pn p = match build_syn op_table p with Ok t => Ok (relabel (leaf_of pn) t) | Err e => Err e end).
Proof.
  split; [|split].
  - intros t. apply build_postfix.
  - intros p t. apply postfix_build.
  - intros pn p. apply build_natural.
Qed.
Print Assumptions C17_postfix_tree_bijection.

(* ---- the parser is complete for the documented grammar, whole table *)
Theorem C17_formula_parse_complete (T : Type) (pn : string -> option T) t toks :
  Prints op_table pn 0 t toks -> parse op_table pn toks = Ok t.
Proof. exact (formula_parse_complete pn t toks). Qed.
Print Assumptions C17_formula_parse_complete.

(* ---- ill-formed formulas are rejected, and rejection is always SyntaxError *)
Theorem C17_illformed_rejected (T : Type) (pn : string -> option T) toks :
  weight op_table toks <> 1%Z \/ paren_balance toks <> 0%Z -> parse op_table pn toks = Err ESyntax.
Proof. exact (illformed_rejected pn toks). Qed.
Print Assumptions C17_illformed_rejected.

Theorem C17_parse_rejects_cleanly (T : Type) (pn : string -> option T) toks e : parse op_table pn toks = Err e -> e = ESyntax.
Proof. exact (parse_rejects_cleanly pn toks e). Qed.
Print Assumptions C17_parse_rejects_cleanly.

(* ---- evaluation = denotation: relational functions are 0/1 numbers usable in arithmetic, logical operators act on
        truth values (non-zero), truth-valued results only under logical operators or as the result *)
Theorem C17_eval_denotes oracle (HO : pow_oracle oracle) vars t ty :
  typeof t = Some ty -> defined vars t ->
  evaluate op_table oracle vars t = Ok (tyval ty (denote vars t)).
Proof. exact (eval_denotes_R oracle HO vars t ty). Qed.
Print Assumptions C17_eval_denotes.

(* array operands: elementwise (min/max included) *)
Theorem C17_eval_rows_denotes oracle (HO : pow_oracle oracle) rows t :
  typeof t = Some TyN -> Forall (fun vars => defined vars t) rows ->
  evaluate_rows op_table oracle rows t = Ok (map (fun vars => VF (denote vars t)) rows).
Proof. exact (eval_rows_denotes oracle HO rows t). Qed.
Print Assumptions C17_eval_rows_denotes.

(* ---- precedence and associativity, read off parse + evaluate on the reals *)
Local Open Scope R_scope.
Theorem C17_mul_binds_tighter_than_add oracle (HO : pow_oracle oracle) x y z :
  run_formula oracle (xyz x y z) "x+y*z" = Ok (VF (x + y * z)) /\
  run_formula oracle (xyz x y z) "x*y+z" = Ok (VF (x * y + z)) /\
  run_formula oracle (xyz x y z) "x-y/z" = Ok (VF (x - y / z)).
Proof. exact (mul_binds_tighter_than_add oracle HO x y z). Qed.
Print Assumptions C17_mul_binds_tighter_than_add.

Theorem C17_sub_left_assoc oracle (HO : pow_oracle oracle) x y z :
  run_formula oracle (xyz x y z) "x-y-z" = Ok (VF (x - y - z)) /\
  run_formula oracle (xyz x y z) "x/y/z" = Ok (VF (x / y / z)) /\
  run_formula oracle (xyz x y z) "x-y+z" = Ok (VF (x - y + z)).
Proof. exact (sub_left_assoc oracle HO x y z). Qed.
Print Assumptions C17_sub_left_assoc.

Theorem C17_power_right_assoc oracle (HO : pow_oracle oracle) x y z : 0 < x -> 0 < y ->
  run_formula oracle (xyz x y z) "x^y^z" = Ok (VF (Rpower x (Rpower y z))) /\
  run_formula oracle (xyz x y z) "x**y**z" = Ok (VF (Rpower x (Rpower y z))).
Proof. exact (power_right_assoc oracle HO x y z). Qed.
Print Assumptions C17_power_right_assoc.

Theorem C17_two_three_two oracle : pow_oracle oracle -> run_formula oracle (xyz 2 3 2) "x^y^z" = Ok (VF 512).
Proof. exact (two_three_two oracle). Qed.
Print Assumptions C17_two_three_two.

Theorem C17_unary_minus_vs_power oracle (HO : pow_oracle oracle) x y z :
  (0 < x -> run_formula oracle (xyz x y z) ".-x^y" = Ok (VF (- Rpower x y)) /\
            run_formula oracle (xyz x y z) "x^.-y" = Ok (VF (Rpower x (- y)))) /\
  (0 < - x -> run_formula oracle (xyz x y z) "~x^y" = Ok (VF (Rpower (- x) y))).
Proof. exact (unary_minus_vs_power oracle HO x y z). Qed.
Print Assumptions C17_unary_minus_vs_power.

Theorem C17_and_binds_tighter_than_or oracle (HO : pow_oracle oracle) x y z :
  run_formula oracle (xyz x y z) "x or y and z" = Ok (VB (truthR x || (truthR y && truthR z))) /\
  run_formula oracle (xyz x y z) "x and y or z" = Ok (VB ((truthR x && truthR y) || truthR z)) /\
  run_formula oracle (xyz x y z) "!x and y" = Ok (VB (negb (truthR x) && truthR y)).
Proof. exact (and_binds_tighter_than_or oracle HO x y z). Qed.
Print Assumptions C17_and_binds_tighter_than_or.

Theorem C17_arithmetic_under_logic oracle (HO : pow_oracle oracle) x y z :
  run_formula oracle (xyz x y z) "x+y and z" = Ok (VB (truthR (x + y) && truthR z)) /\
  run_formula oracle (xyz x y z) "gt(x,y)*z" = Ok (VF (ind (Rltb y x) * z)).
Proof. exact (arithmetic_under_logic oracle HO x y z). Qed.
Print Assumptions C17_arithmetic_under_logic.

(* the same for arbitrary operand tokens (number literals or variable names), from the completeness theorem *)
Theorem C17_tokens_precedence (T : Type) (pn : string -> option T) a b c :
  operand op_table a -> operand op_table b -> operand op_table c ->
  parse op_table pn [a; "+"; b; "*"; c] = Ok (FElem2 "+" (leaf_of pn a) (FElem2 "*" (leaf_of pn b) (leaf_of pn c))) /\
  parse op_table pn [a; "^"; b; "^"; c] = Ok (FElem2 "^" (leaf_of pn a) (FElem2 "^" (leaf_of pn b) (leaf_of pn c))) /\
  parse op_table pn [a; "-"; b; "-"; c] = Ok (FElem2 "-" (FElem2 "-" (leaf_of pn a) (leaf_of pn b)) (leaf_of pn c)) /\
  parse op_table pn ["("; "max"; "("; a; ","; "("; b; ")"; ")"; ")"; "*"; "pi"] =
    Ok (FElem2 "*" (FElem2 "max" (leaf_of pn a) (leaf_of pn b)) (FElem0 "pi")).
Proof.
  intros Ha Hb Hc. split; [|split; [|split]].
  - exact (tokens_add_mul pn a b c Ha Hb Hc).
  - exact (tokens_pow_pow pn a b c Ha Hb Hc).
  - exact (tokens_sub_sub pn a b c Ha Hb Hc).
  - exact (tokens_call pn a b Ha Hb).
Qed.
Print Assumptions C17_tokens_precedence.

(* ---- relational indicators in arithmetic; min/max elementwise and NaN-propagating *)
Theorem C17_indicators_in_arithmetic oracle (HO : pow_oracle oracle) x y z :
  run_formula oracle (xyz x y z) "eq(x,1)+eq(y,1)" = Ok (VF (ind (Reqb x (Rlit 1 0)) + ind (Reqb y (Rlit 1 0)))) /\
  run_formula oracle (xyz x y z) "ge(x,y)-le(x,y)" = Ok (VF (ind (Rleb y x) - ind (Rleb x y))) /\
  run_formula oracle (xyz x y z) ".-neq(x,y)*z" = Ok (VF (- ind (negb (Reqb x y)) * z)).
Proof. exact (indicators_add oracle HO x y z). Qed.
Print Assumptions C17_indicators_in_arithmetic.

Theorem C17_indicator_sum_is_two oracle : pow_oracle oracle -> run_formula oracle (xyz 1 1 0) "eq(x,1)+eq(y,1)" = Ok (VF 2).
Proof. exact (indicator_sum_is_two oracle). Qed.
Print Assumptions C17_indicator_sum_is_two.

Theorem C17_minmax_elementwise oracle (HO : pow_oracle oracle) rows :
  Forall (fun vars => defined vars (FElem2 "min" (FVar "x") (FElem2 "max" (FVar "y") (FConst 0)) : fnode R)) rows ->
  evaluate_rows op_table oracle rows (FElem2 "min" (FVar "x") (FElem2 "max" (FVar "y") (FConst 0))) =
  Ok (map (fun vars => VF (Rmin (denote vars (FVar "x")) (Rmax (denote vars (FVar "y")) 0))) rows).
Proof. exact (minmax_elementwise oracle HO rows). Qed.
Print Assumptions C17_minmax_elementwise.

(* on binary64: min/max propagate NaN in either position (numpy.minimum/maximum; Python's builtin min(1.0, nan) would give 1.0) *)
Theorem C17_minmax_propagate_nan :
  let ev t := evaluate (NT := NumF true []) op_table (fun _ _ _ => None) [("x", PrimFloat.nan); ("y", 1%float)] t in
  ev (FElem2 "min" (FVar "x") (FVar "y")) = Ok (VF PrimFloat.nan) /\ ev (FElem2 "min" (FVar "y") (FVar "x")) = Ok (VF PrimFloat.nan) /\
  ev (FElem2 "max" (FVar "x") (FVar "y")) = Ok (VF PrimFloat.nan) /\ ev (FElem2 "max" (FVar "y") (FVar "x")) = Ok (VF PrimFloat.nan).
Proof. vm_compute. repeat split; reflexivity. Qed.
Print Assumptions C17_minmax_propagate_nan.

(* ---- non-vacuity *)
(* the oracle hypothesis is satisfiable *)
Example C17_pow_oracle_inhabited : pow_oracle total_oracle.
Proof. intros a b _. reflexivity. Qed.

(* a printed formula using a binary operator of each associativity, a prefix operator, a call, a constant and redundant
   parentheses:  ( max ( x , 2 ) ) * pi - .- y ^ 2   prints   ((max(x,2) * pi) - (.-(y ^ 2))) *)
Example C17_prints_inhabited :
  Prints op_table pnR 0
    (FElem2 "-" (FElem2 "*" (FElem2 "max" (FVar "x") (FConst (Rlit 2 0))) (FElem0 "pi"))
                (FElem1 ".-" (FElem2 "^" (FVar "y") (FConst (Rlit 2 0)))))
    ["("; "max"; "("; "x"; ","; "2"; ")"; ")"; "*"; "pi"; "-"; ".-"; "y"; "^"; "2"].
Proof.
  apply (P_bin op_table pnR 0 "-" ("-", false, "np.subtract", 2%nat, 70, -1)%Z _ _
           ["("; "max"; "("; "x"; ","; "2"; ")"; ")"; "*"; "pi"] [".-"; "y"; "^"; "2"]);
    try (split; reflexivity); try reflexivity; try (cbn; lia).
  - apply (P_bin op_table pnR _ "*" ("*", false, "np.multiply", 2%nat, 80, -1)%Z _ _
             ["("; "max"; "("; "x"; ","; "2"; ")"; ")"] ["pi"]); try (split; reflexivity); try reflexivity; try (cbn; lia).
    + apply (P_paren op_table pnR _ _ ["max"; "("; "x"; ","; "2"; ")"]).
      apply (P_call2 op_table pnR 0%Z "max" ("max", true, "np.maximum", 2%nat, 100, -1)%Z _ _ ["x"] ["2"]); try (split; reflexivity); try reflexivity.
      * apply P_var; [split; reflexivity|reflexivity].
      * apply P_num; [split; reflexivity|reflexivity].
    + apply (P_const op_table pnR _ "pi" ("pi", true, "lambda: np.pi", 0%nat, 100, -1)%Z); try (split; reflexivity); try reflexivity. cbn; lia.
  - apply (P_un op_table pnR _ ".-" (".-", false, "np.negative", 1%nat, 90, 1)%Z _ ["y"; "^"; "2"]); try (split; reflexivity); try reflexivity; try (cbn; lia).
    apply (P_bin op_table pnR _ "^" ("^", false, "np.float_power", 2%nat, 90, 1)%Z _ _ ["y"] ["2"]); try (split; reflexivity); try reflexivity; try (cbn; lia).
    + apply P_var; [split; reflexivity|reflexivity].
    + apply P_num; [split; reflexivity|reflexivity].
Qed.

(* a typed, defined formula with logical, relational, arithmetic parts, min/max and a power *)
Example C17_eval_denotes_inhabited : forall x y : R, 0 < x ->
  let t := FElem2 "or" (FElem2 "+" (FElem2 "ge" (FElem2 "max" (FVar "x") (FVar "y")) (FElem0 "pi")) (FElem2 "eq" (FVar "x") (FConst 1)))
                       (FElem1 "!" (FElem2 "-" (FElem2 "^" (FVar "x") (FVar "y")) (FElem1 "sqrt" (FElem1 "abs" (FVar "y"))))) in
  typeof t = Some TyB /\ defined [("x", x); ("y", y)] t.
Proof.
  intros x y Hx t. split; [reflexivity|].
  cbn. repeat split; try discriminate. intros _. exact Hx.
Qed.

(* ill-formed inputs of each class are covered by the rejection theorem *)
Example C17_illformed_inhabited :
  parse op_table pnR ["pow"; "("; "2"; ")"] = Err ESyntax /\            (* wrong arity *)
  parse op_table pnR ["2"; "+"; "*"; "3"] = Err ESyntax /\              (* missing operand *)
  parse op_table pnR ["("; "2"; "+"; "3"] = Err ESyntax /\              (* unbalanced *)
  parse op_table pnR ["2"; "+"; "3"; ")"] = Err ESyntax /\
  parse op_table pnR ["max"; "("; "1"; ","; "2"; ","; "3"; ")"] = Err ESyntax.
Proof.
  repeat split; apply illformed_rejected; (left; vm_compute; discriminate) || (right; vm_compute; discriminate).
Qed.

(* a well-formed syntactic tree for the bijection *)
Example C17_wf_inhabited :
  wf op_table (FElem2 "+" (FVar "1.5") (FElem1 "sin" (FElem2 "%" (FVar "x") (FElem0 "pi"))) : fnode R).
Proof. cbn. repeat split; try reflexivity; eexists; split; reflexivity. Qed.
