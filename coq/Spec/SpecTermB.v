(* Documented closed forms (the `$\mu(x) = ...$` equations in the class docstrings of fuzzylite/term.py)
   of the terms Arc, SemiEllipse, Bell, Cosine, Gaussian, GaussianProduct, Sigmoid, SigmoidDifference,
   SigmoidProduct, Spike, over R.  Each term T has
     T_valid p   : the valid parameterisations (height 0 < h <= 1 included), and
     T_shape p x : the documented closed form WITHOUT the height factor, so that mu(x) = h * T_shape p x.
   x^2 is written with Rsqr (x², = x * x).

   Where a docstring is silent or at odds with the code, the reading taken here is stated next to the
   definition, and the literal docstring reading is kept as T_shape_doc.  *)
From Coq Require Import Reals.
From VF Require Import NumR.   (* Rpow: numpy.power on the reals, total at base 0 *)
Local Open Scope R_scope.

(* ---------------------------------------------------------------- Arc
   docstring: mu(x) = h sqrt(r^2 - (x-c)^2) / |r|, "clipped accordingly"; r "radius", c "center".
   The docstring does not say how r, c depend on (start, end) nor what the clipping is. Reading taken
   (the quarter circle of the picture, and what the code computes): r = end - start (signed), c = end;
   the formula holds between start and end, mu = h beyond `end` (on the side away from `start`), 0 beyond
   `start`. Both directions: start < end rises from 0 at start to h at end; start > end falls. *)
Definition Arc_valid (s e h : R) : Prop := s <> e /\ 0 < h <= 1.
Definition Arc_curve (s e x : R) : R :=
  let r := e - s in let c := e in sqrt (r² - (x - c)²) / Rabs r.
Definition Arc_shape (s e x : R) : R :=
  if Rlt_dec s e
  then (if Rlt_dec x s then 0 else if Rle_dec x e then Arc_curve s e x else 1)
  else (if Rlt_dec x e then 1 else if Rle_dec x s then Arc_curve s e x else 0).

(* ---------------------------------------------------------------- SemiEllipse
   docstring: mu(x) = h sqrt(r^2 - (x-c)^2) / r; r "radius", c "center". No case distinction is documented;
   reading taken: the formula on [min(start,end), max(start,end)], 0 outside, r = |end - start| / 2,
   c = (start + end) / 2. *)
Definition SemiEllipse_valid (s e h : R) : Prop := s <> e /\ 0 < h <= 1.
Definition SemiEllipse_shape (s e x : R) : R :=
  let lo := Rmin s e in let hi := Rmax s e in
  let r := (hi - lo) / 2 in let c := (lo + hi) / 2 in
  if Rle_dec lo x then (if Rle_dec x hi then sqrt (r² - (x - c)²) / r else 0) else 0.

(* ---------------------------------------------------------------- Bell
   docstring: mu(x) = h / (1 + (|x-c| / w)^(2s)).
   For w < 0 the documented base |x-c|/w is negative and a real power of it is undefined; the reading taken
   is the generalised bell |(x-c)/w|^(2s) = (|x-c|/|w|)^(2s) (what the code computes). Bell_shape_doc is the
   literal docstring; the two coincide for w > 0 (Proofs/TermB.v, Bell_shape_doc_eq).
   Rpow is total at base 0 (Rpow 0 b = 0 for b <> 0): for a negative slope numpy.power(0., 2s) is +inf,
   which R cannot express, so the statements about Bell carry `Bell_dom`: x <> c or 0 <= s. *)
Definition Bell_valid (c w s h : R) : Prop := w <> 0 /\ 0 < h <= 1.
Definition Bell_dom (c s x : R) : Prop := 0 <= s \/ x <> c.
Definition Bell_shape (c w s x : R) : R := 1 / (1 + Rpow (Rabs (x - c) / Rabs w) (2 * s)).
Definition Bell_shape_doc (c w s x : R) : R := 1 / (1 + Rpow (Rabs (x - c) / w) (2 * s)).

(* ---------------------------------------------------------------- Cosine
   docstring: mu(x) = h/2 (1 + cos(2/w pi (x-c))) if c - w/2 <= x <= c + w/2, 0 otherwise. *)
Definition Cosine_valid (c w h : R) : Prop := 0 < w /\ 0 < h <= 1.
Definition Cosine_shape (c w x : R) : R :=
  if Rle_dec (c - w / 2) x
  then (if Rle_dec x (c + w / 2) then 1 / 2 * (1 + cos (2 / w * PI * (x - c))) else 0)
  else 0.

(* ---------------------------------------------------------------- Gaussian
   docstring: mu(x) = h exp(-(x-m)^2 / (2 sigma^2)). *)
Definition Gaussian_valid (m sd h : R) : Prop := sd <> 0 /\ 0 < h <= 1.
Definition Gaussian_shape (m sd x : R) : R := exp (- (x - m)² / (2 * sd²)).

(* ---------------------------------------------------------------- GaussianProduct
   docstring: a = Gaussian(m_a, s_a)(x) if x < m_a, 1 otherwise; b = Gaussian(m_b, s_b)(x) if x > m_b,
   1 otherwise; mu(x) = h (a * b). (No order between m_a and m_b is documented or needed.) *)
Definition GaussianProduct_valid (ma sa mb sb h : R) : Prop := sa <> 0 /\ sb <> 0 /\ 0 < h <= 1.
Definition GaussianProduct_a (ma sa x : R) : R := if Rlt_dec x ma then Gaussian_shape ma sa x else 1.
Definition GaussianProduct_b (mb sb x : R) : R := if Rlt_dec mb x then Gaussian_shape mb sb x else 1.
Definition GaussianProduct_shape (ma sa mb sb x : R) : R :=
  GaussianProduct_a ma sa x * GaussianProduct_b mb sb x.

(* ---------------------------------------------------------------- Sigmoid
   docstring: mu(x) = h / (1 + exp(-s (x-i))).  Any slope is valid: s > 0 rises, s < 0 falls, s = 0 is
   the constant h/2. *)
Definition Sigmoid_valid (i s h : R) : Prop := 0 < h <= 1.
Definition Sigmoid_shape (i s x : R) : R := 1 / (1 + exp (- s * (x - i))).

(* ---------------------------------------------------------------- SigmoidDifference
   parameters in constructor order: left rising falling right.
   docstring: a = Sigmoid(left, rising)(x), b = Sigmoid(right, falling)(x), mu(x) = h (a - b).
   CODE: h |a - b|.  The two differ wherever a < b (then the documented value is negative, outside
   [0, h]); the reading taken is |a - b| (as in fuzzylite C++/the code); SigmoidDifference_shape_doc is the
   literal docstring (see Proofs/TermB.v: SigmoidDifference_doc_agrees / SigmoidDifference_doc_differs). *)
Definition SigmoidDifference_valid (l r f rt h : R) : Prop := 0 < h <= 1.
Definition SigmoidDifference_shape (l r f rt x : R) : R := Rabs (Sigmoid_shape l r x - Sigmoid_shape rt f x).
Definition SigmoidDifference_shape_doc (l r f rt x : R) : R := Sigmoid_shape l r x - Sigmoid_shape rt f x.

(* ---------------------------------------------------------------- SigmoidProduct
   docstring: a, b as above, mu(x) = h (a * b). *)
Definition SigmoidProduct_valid (l r f rt h : R) : Prop := 0 < h <= 1.
Definition SigmoidProduct_shape (l r f rt x : R) : R := Sigmoid_shape l r x * Sigmoid_shape rt f x.

(* ---------------------------------------------------------------- Spike
   docstring: mu(x) = h exp(-|10/w (x-c)|).  The sign of w is immaterial. *)
Definition Spike_valid (c w h : R) : Prop := w <> 0 /\ 0 < h <= 1.
Definition Spike_shape (c w x : R) : R := exp (- Rabs (10 / w * (x - c))).
