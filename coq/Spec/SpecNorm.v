(* Documented formulas of the 7 T-norms and 9 S-norms (docstrings of fuzzylite/norm.py), over R.
   (The docstring of NilpotentMaximum says `a+b<0`; that is a typo for the standard `a+b<1`, which is what
   is transcribed here.) *)
From Coq Require Import Reals.
Local Open Scope R_scope.

Definition AlgebraicProduct (a b : R) := a * b.
Definition BoundedDifference (a b : R) := Rmax 0 (a + b - 1).
Definition DrasticProduct (a b : R) := if Req_EM_T (Rmax a b) 1 then Rmin a b else 0.
Definition EinsteinProduct (a b : R) := (a * b) / (2 - (a + b - a * b)).
Definition HamacherProduct (a b : R) := if Req_EM_T (a + b) 0 then 0 else (a * b) / (a + b - a * b).
Definition Minimum (a b : R) := Rmin a b.
Definition NilpotentMinimum (a b : R) := if Rlt_dec 1 (a + b) then Rmin a b else 0.

Definition AlgebraicSum (a b : R) := a + b - a * b.
Definition BoundedSum (a b : R) := Rmin 1 (a + b).
Definition DrasticSum (a b : R) := if Req_EM_T (Rmin a b) 0 then Rmax a b else 1.
Definition EinsteinSum (a b : R) := (a + b) / (1 + a * b).
Definition HamacherSum (a b : R) := if Req_EM_T (a * b) 1 then 1 else (a + b - 2 * a * b) / (1 - a * b).
Definition Maximum (a b : R) := Rmax a b.
Definition NilpotentMaximum (a b : R) := if Rlt_dec (a + b) 1 then Rmax a b else 1.
Definition NormalizedSum (a b : R) := (a + b) / Rmax 1 (a + b).
Definition UnboundedSum (a b : R) := a + b.

Definition unit (x : R) := 0 <= x <= 1.
