(* Spec/Selection.v — what each activation method is DOCUMENTED to select (DESIGN §3 C08), written
   without loops, counters or heaps, on the list of `(position, degree)` of the LOADED rules of a block
   in insertion order.  Selection ranges over loaded rules whether or not they are enabled: a selected
   disabled rule receives the `trigger` call, contributes nothing (C07) and is not marked triggered.

     General            every loaded rule
     First n t          the first n rules, in insertion order, with degree > 0 and degree >= t
     Last n t           the same on the reversed list
     Highest n          the first n of the positive-degree rules ordered by (degree descending, position ascending)
     Lowest n           ... ordered by (degree ascending, position ascending)
     Threshold op t     the rules whose degree satisfies `degree op t`
     Proportional       the positive-degree rules, each with its degree divided by the in-order sum of those degrees

   Comparisons are the IEEE ones of `Num` (false on NaN), so a NaN degree is never "positive". *)
From Coq Require Import ZArith Bool List Sorting.Sorted Sorting.Permutation.
From VF Require Import Num Core.
Import ListNotations.
Set Implicit Arguments.

Section Selection.
  Context {T : Type} {N : Num T}.
  Notation entry := (nat * T)%type.       (* (position in the block, activation degree) *)

  (* the loaded rules of a block, numbered by their position in the whole block starting at k *)
  Fixpoint loaded_from {A : Type} (loaded : A -> bool) (value : A -> T) (k : nat) (b : list A) : list entry :=
    match b with
    | [] => []
    | r :: b' => if loaded r then (k, value r) :: loaded_from loaded value (S k) b'
                 else loaded_from loaded value (S k) b'
    end.

  Definition positive (p : entry) : bool := ltb zero (snd p).                    (* degree > 0 *)
  Definition reaches (t : T) (p : entry) : bool := positive p && leb t (snd p).  (* degree > 0 and degree >= t *)

  (* the six comparison operators of Threshold, `degree op threshold` *)
  Definition cmp_holds (c : comparator) (a t : T) : bool :=
    match c with
    | CmpLt => ltb a t
    | CmpLe => leb a t
    | CmpEq => eqb a t
    | CmpNe => negb (eqb a t)
    | CmpGe => leb t a
    | CmpGt => ltb t a
    end.

  (* p comes strictly before q: larger (smaller) degree first, equal degrees by position *)
  Definition before_desc (p q : entry) : bool :=
    ltb (snd q) (snd p) || (eqb (snd p) (snd q) && (fst p <? fst q)%nat).
  Definition before_asc (p q : entry) : bool :=
    ltb (snd p) (snd q) || (eqb (snd p) (snd q) && (fst p <? fst q)%nat).

  (* insertion sort by a strict order `before` *)
  Fixpoint insert_by (before : entry -> entry -> bool) (x : entry) (l : list entry) : list entry :=
    match l with
    | [] => [x]
    | y :: l' => if before y x then y :: insert_by before x l' else x :: l
    end.
  Fixpoint sort_by (before : entry -> entry -> bool) (l : list entry) : list entry :=
    match l with
    | [] => []
    | x :: l' => insert_by before x (sort_by before l')
    end.
  (* ... which is THE ordered arrangement: a permutation in which every element is strictly before all later
     ones (Proofs/ActivationProofs.v: sort_by_is_sorted_arrangement, sorted_arrangement_unique) *)
  Definition sorted_arrangement (before : entry -> entry -> bool) (l l' : list entry) : Prop :=
    Permutation l l' /\ StronglySorted (fun p q => before p q = true) l'.

  Definition take (n : Z) (l : list entry) : list entry := firstn (Z.to_nat n) l.   (* nothing when n <= 0 *)

  Definition sum_degrees (l : list entry) : T := fold_left add (map snd l) zero.
  Definition normalise (l : list entry) : list entry :=
    map (fun p => (fst p, div (snd p) (sum_degrees l))) l.

  (* the trigger calls `(position, degree passed to the consequent)` in the order they are made *)
  Definition select (m : activation T) (l : list entry) : list entry :=
    match m with
    | AGeneral => l
    | AFirst n t => take n (filter (reaches t) l)
    | ALast n t => take n (filter (reaches t) (rev l))
    | AHighest n => take n (sort_by before_desc (filter positive l))
    | ALowest n => take n (sort_by before_asc (filter positive l))
    | AProportional => normalise (filter positive l)
    | AThreshold c t => filter (fun p => cmp_holds c (snd p) t) l
    end.
End Selection.
