(* Pipeline.v — the documented inference pipeline, stated declaratively (no rule records are mutated, no
   activation-method machinery, no indices): what Engine.process must compute under General activation.

   In every enabled rule block, in order, every loaded rule fires with degree  weight x antecedent, the
   antecedent being evaluated against the contributions accumulated SO FAR (an output variable used in an
   antecedent sees exactly those); each conclusion of a fired, enabled rule contributes the concluded term activated
   to that degree under the block's implication (Consequent.modify, property C07); the contributions to a variable are
   combined with its aggregation operator and defuzzified by its defuzzifier over its range, and the value passes
   through the lock-previous / default / lock-range cascade (property C12).  Disabled rules, blocks and variables
   contribute nothing. *)
From Coq Require Import ZArith Bool List String.
From VF Require Import Num GenNorm GenHedge GenTerm Core Antecedent Consequent Engine.
Import ListNotations.
Set Implicit Arguments.

Section Pipeline.
  Context {T : Type} {N : Num T}.
  Variable function_eval : engine T -> fnode T -> list (string * T) -> T -> result T.

  (* the view of the engine a rule is evaluated against: the inputs and the outputs with their contributions so far *)
  Definition view (e : engine T) (outs : list (output_var T)) : engine T := with_outputs e outs.

  (* the degree with which a loaded rule fires: weight x antecedent, against the contributions so far *)
  Definition firing_degree (e : engine T) (b : block T) (outs : list (output_var T)) (r : rule T) : result T :=
    rule_activate_with (term_membership function_eval (view e outs)) (b_conjunction b) (b_disjunction b) (view e outs) r.

  (* what one rule adds to the fuzzy outputs *)
  Definition rule_contribution (e : engine T) (b : block T) (outs : list (output_var T)) (r : rule T)
    : result (list (output_var T)) :=
    if rule_loaded r then
      do d <- firing_degree e b outs r;
      if r_enabled r then modify d (b_implication b) (r_consequent r) outs else Ok outs
    else Ok outs.

  Fixpoint rules_contribution (e : engine T) (b : block T) (outs : list (output_var T)) (rs : list (rule T))
    : result (list (output_var T)) :=
    match rs with
    | [] => Ok outs
    | r :: tl => do outs' <- rule_contribution e b outs r; rules_contribution e b outs' tl
    end.

  Definition is_general (b : block T) : bool := match b_activation b with Some AGeneral => true | _ => false end.

  Fixpoint blocks_contribution (e : engine T) (outs : list (output_var T)) (bs : list (block T))
    : result (list (output_var T)) :=
    match bs with
    | [] => Ok outs
    | b :: tl => if b_enabled b then do outs' <- rules_contribution e b outs (b_rules b); blocks_contribution e outs' tl
                 else blocks_contribution e outs tl
    end.

  (* the fuzzy outputs of the documented pipeline: start from empty fuzzy sets *)
  Definition pipeline_fuzzy (e : engine T) : result (list (output_var T)) :=
    blocks_contribution e (map clear_fuzzy (e_outputs e)) (e_blocks e).

  (* defuzzification of every output variable, in order, each through its cascade; a variable's defuzzifier may read the
     other variables' CURRENT values only through Linear/Function terms, which see the engine at that moment *)
  Fixpoint pipeline_values (e : engine T) (done todo : list (output_var T)) : result (list (output_var T)) :=
    match todo with
    | [] => Ok done
    | ov :: tl => do ov' <- output_defuzzify function_eval (with_outputs e (done ++ todo)) ov;
                  pipeline_values e (done ++ [ov']) tl
    end.

  Definition pipeline_outputs (e : engine T) : result (list (output_var T)) :=
    do fz <- pipeline_fuzzy e; pipeline_values e [] fz.

  Definition general_only (e : engine T) : Prop := forall b, In b (e_blocks e) -> b_enabled b = true -> is_general b = true.
End Pipeline.
