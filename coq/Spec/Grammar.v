(* Grammar.v — the documented grammars, stated independently of the parsers.

   Part A (general; used by C06, C16, C17): infix expressions over an operator/function table: trees, their postfix
   form, and the relation  SPrints lvl t toks  = "toks is a way of writing t in infix notation", with parentheses wherever
   precedence/associativity require them and, optionally, anywhere else.

   Part B (C06): rule antecedents  `variable is [hedge]* term [(and|or) variable is [hedge]* term]*`:
   trees, the printing relation  Prints lvl t toks  (`and` binds tighter than `or`, both associate to the left, parentheses
   override), the spelling relation  Spells toks text  (blanks; parentheses may be glued to names), and the reference
   semantics  sem conj disj e t. *)
From Coq Require Import ZArith Bool List String Ascii.
From VF Require Import Num GenNorm GenHedge GenTerm Core ShuntingYard.
Import ListNotations.
Local Open Scope string_scope.
Local Open Scope list_scope.

(* ===================================================== Part A *)
Section General.
  Variable tbl : table.
  Local Open Scope Z_scope.

  Definition operand (s : string) : Prop := lookup tbl s = None /\ is_paren_tok s = false.
  Definition fn_tok (s : string) (e : entry) : Prop := lookup tbl s = Some e /\ en_is_function e = true.
  Definition op_tok (s : string) (e : entry) : Prop := lookup tbl s = Some e /\ en_is_function e = false.
  Definition rassoc (e : entry) : bool := Z.ltb 0 (en_assoc e).      (* associativity > 0: right; < 0: left *)
  (* binding levels: an expression printed "at level lvl" may show, unparenthesised, only operators of level >= lvl *)
  Definition llevel (e : entry) : Z := if rassoc e then 2 * en_prec e + 1 else 2 * en_prec e.
  Definition rlevel (e : entry) : Z := if rassoc e then 2 * en_prec e else 2 * en_prec e + 1.

  Inductive stree : Type :=
    | SLeaf (ws : list string) (f : option string)   (* operand tokens, optionally followed by a bare function name
                                                        (a constant such as `pi`; a rule term called `max`) *)
    | SBin (o : string) (l r : stree)
    | SUn (o : string) (x : stree)                   (* prefix operator *)
    | SCall (f : string) (a : stree) (args : list stree).   (* f ( a , args... ) *)

  Fixpoint spostfix (t : stree) : list string :=
    match t with
    | SLeaf ws f => ws ++ match f with Some f => [f] | None => [] end
    | SBin o l r => spostfix l ++ spostfix r ++ [o]
    | SUn o x => spostfix x ++ [o]
    | SCall f a args => spostfix a ++ flat_map spostfix args ++ [f]
    end.

  Inductive SPrints : Z -> stree -> list string -> Prop :=
    | SP_leaf lvl ws : Forall operand ws -> SPrints lvl (SLeaf ws None) ws
    | SP_leaff lvl ws f e : Forall operand ws -> fn_tok f e -> lvl <= 2 * en_prec e ->
        SPrints lvl (SLeaf ws (Some f)) (ws ++ [f])
    | SP_bin lvl o e l r tl tr : op_tok o e -> lvl <= 2 * en_prec e ->
        SPrints (llevel e) l tl -> SPrints (rlevel e) r tr -> SPrints lvl (SBin o l r) (tl ++ o :: tr)
    | SP_un lvl o e x tx : op_tok o e -> rassoc e = true -> lvl <= 2 * en_prec e ->
        SPrints (2 * en_prec e) x tx -> SPrints lvl (SUn o x) (o :: tx)
    | SP_call lvl f e a ta args targs : fn_tok f e -> SPrints 0 a ta -> SPrintsArgs args targs ->
        SPrints lvl (SCall f a args) (f :: "(" :: ta ++ targs ++ [")"])
    | SP_paren lvl t ts : SPrints 0 t ts -> SPrints lvl t ("(" :: ts ++ [")"])
  with SPrintsArgs : list stree -> list string -> Prop :=
    | SPA_nil : SPrintsArgs [] []
    | SPA_cons a ta args targs : SPrints 0 a ta -> SPrintsArgs args targs -> SPrintsArgs (a :: args) ("," :: ta ++ targs).
End General.

(* ===================================================== Part B *)
Inductive target : Set := TTerm (name : string) | TAny.
Inductive atree : Set :=
  | AProp (v : string) (hs : list hedge) (tg : target)   (* v is h1 … hk term   |   v is h1 … hk any *)
  | AAnd (l r : atree)
  | AOr (l r : atree).

Definition target_token (tg : target) : string := match tg with TTerm n => n | TAny => "any" end.
Definition prop_tokens (v : string) (hs : list hedge) (tg : target) : list string :=
  v :: "is" :: map hedge_name hs ++ [target_token tg].

(* levels: 0 = anything, 1 = no bare `or`, 2 = no bare `or`/`and` (a proposition or a parenthesised expression) *)
Inductive Prints : nat -> atree -> list string -> Prop :=
  | P_prop lvl v hs tg : Prints lvl (AProp v hs tg) (prop_tokens v hs tg)
  | P_or lvl l r tl tr : lvl = 0%nat -> Prints 0 l tl -> Prints 1 r tr -> Prints lvl (AOr l r) (tl ++ "or" :: tr)
  | P_and lvl l r tl tr : (lvl <= 1)%nat -> Prints 1 l tl -> Prints 2 r tr -> Prints lvl (AAnd l r) (tl ++ "and" :: tr)
  | P_paren lvl t ts : Prints 0 t ts -> Prints lvl t ("(" :: ts ++ [")"]).

(* the printer with the fewest parentheses *)
Fixpoint print_min (lvl : nat) (t : atree) : list string :=
  match t with
  | AProp v hs tg => prop_tokens v hs tg
  | AOr l r => let body := print_min 0 l ++ "or" :: print_min 1 r in
               match lvl with O => body | _ => "(" :: body ++ [")"] end
  | AAnd l r => let body := print_min 1 l ++ "and" :: print_min 2 r in
                match lvl with O | 1%nat => body | _ => "(" :: body ++ [")"] end
  end.

Fixpoint apostfix (t : atree) : list string :=
  match t with
  | AProp v hs tg => prop_tokens v hs tg
  | AAnd l r => apostfix l ++ apostfix r ++ ["and"]
  | AOr l r => apostfix l ++ apostfix r ++ ["or"]
  end.

(* ---- spelling: how a token list may be written as text.  Names contain no blanks and none of the characters below
        (Function.format_infix splits a token at every formula-operator character). *)
Definition special_chars : list ascii := list_ascii_of_string "!~^*/%+-.,()".
Definition blank_char (c : ascii) : bool :=
  let n := N_of_ascii c in ((9 <=? n) && (n <=? 13) || (28 <=? n) && (n <=? 32))%N.
Definition name_char (c : ascii) : bool := negb (blank_char c) && negb (existsb (Ascii.eqb c) special_chars).
Definition name_ok (w : string) : bool :=
  match w with EmptyString => false | _ => forallb name_char (list_ascii_of_string w) end.
Definition blanks (s : string) : Prop := forallb blank_char (list_ascii_of_string s) = true.
(* what may follow a name: the end, a blank, or a parenthesis *)
Definition boundary (text : string) : Prop :=
  match text with
  | EmptyString => True
  | String c _ => blank_char c = true \/ c = "("%char \/ c = ")"%char
  end.

Inductive Spells : list string -> string -> Prop :=
  | Sp_end ws : blanks ws -> Spells [] ws
  | Sp_lparen ws rest text : blanks ws -> Spells rest text -> Spells ("(" :: rest) (ws ++ "(" ++ text)%string
  | Sp_rparen ws rest text : blanks ws -> Spells rest text -> Spells (")" :: rest) (ws ++ ")" ++ text)%string
  | Sp_name ws w rest text : blanks ws -> name_ok w = true -> boundary text -> Spells rest text ->
      Spells (w :: rest) (ws ++ w ++ text)%string.

(* ---- reference semantics *)
Section Sem.
  Context {T : Type} {NT : Num T}.
  Variable membership : term T -> T -> result T.

  (* Engine.variable(name) / Variable.term(name): the first component with that name *)
  Definition spec_input (e : engine T) (v : string) : option (input_var T) :=
    find (fun iv => String.eqb (iv_name iv) v) (e_inputs e).
  Definition spec_output (e : engine T) (v : string) : option (output_var T) :=
    find (fun ov => String.eqb (ov_name ov) v) (e_outputs e).
  Definition spec_term (terms : list (term T)) (n : string) : option (term T) :=
    find (fun t => String.eqb (term_name t) n) terms.

  (* the aggregated activation of the term called n in a fuzzy output: the degrees of its activations combined, in order,
     with the aggregation operator (UnboundedSum when there is none); stored degrees replace nan/-inf by 0 and +inf by 1;
     0 when the term has not been activated *)
  Definition agg_activation (agg : option snormx) (fuzzy : list (activated T)) (n : string) : T :=
    let a := match agg with Some a => a | None => SN S_UnboundedSum end in
    match filter (fun act => String.eqb (term_name (a_term act)) n) fuzzy with
    | [] => zero
    | first :: rest => fold_left (fun acc act => sanitize (snormx_compute a acc (a_degree act))) rest (sanitize (a_degree first))
    end.

  Definition spec_enabled (e : engine T) (v : string) : bool :=
    match spec_input e v with
    | Some iv => iv_enabled iv
    | None => match spec_output e v with Some ov => ov_enabled ov | None => false end
    end.

  (* degree of `v is term` before hedges *)
  Definition prop_base (e : engine T) (v tm : string) : result T :=
    match spec_input e v with
    | Some iv => match spec_term (iv_terms iv) tm with
                 | Some t => membership t (iv_value iv)
                 | None => Err EValue end
    | None => match spec_output e v with
              | Some ov => match spec_term (ov_terms ov) tm with
                           | Some _ => Ok (agg_activation (ov_aggregation ov) (ov_fuzzy ov) tm)
                           | None => Err EValue end
              | None => Err EValue
              end
    end.

  (* h1 … hk x : the hedge nearest the term is applied first *)
  Definition hedged (hs : list hedge) (x : T) : T := fold_right (fun h acc => hedge_apply h acc) x hs.

  Fixpoint sem (conj : tnormx) (disj : snormx) (e : engine T) (t : atree) : result T :=
    match t with
    | AProp v hs tg =>
        if negb (spec_enabled e v) then Ok zero
        else match tg with
             | TAny => Ok (hedged hs one)                               (* `any` yields 1 *)
             | TTerm tm => do b <- prop_base e v tm; Ok (hedged hs b)
             end
    | AAnd l r => do a <- sem conj disj e l; do b <- sem conj disj e r; Ok (tnormx_compute conj a b)
    | AOr l r => do a <- sem conj disj e l; do b <- sem conj disj e r; Ok (snormx_compute disj a b)
    end.
End Sem.
