(* FormulaSpec.v — what the documentation says about Function formulas, stated independently of the parser/evaluator:
   * documented_table : the operator/function table (name, kind, NumPy method, arity, precedence, associativity);
   * Prints tbl pn lvl t toks : "toks is a way of writing the tree t in infix notation" — parentheses wherever precedence or
     associativity require them and, optionally, anywhere else.  Binding levels: an operator of precedence p has level 2p;
     its operand on the associating side is printed at level 2p, the other one at 2p+1; the operand of a prefix operator
     at the operator's own level 2p; function arguments at level 0; arity-0 functions (pi) are written bare;
   * denote vars t : the real number "ordinary mathematics" assigns to t (relational functions are 0/1 indicators, the
     logical operators act on truth values = "non-zero" and yield 0/1), for the part of the table expressible over R;
   * typeof : the typing discipline of the property (truth-valued results only under logical operators or as the result). *)
From Coq Require Import ZArith Bool List String Reals.
From VF Require Import Num NumR Core ShuntingYard Grammar Formula.
Import ListNotations.
Local Open Scope string_scope.
Local Open Scope list_scope.

(* ---- the documented table (fuzzylite/factory.py docstrings: "First order: not, negate; Second order: power, unary -,
        unary +; Third order: Multiplication, Division, and Modulo; Fourth order: Addition, Subtraction; Fifth order:
        logical and; Sixth order: logical or"; precedence = 100 - 10*order; associativity 1 = right, -1 = left) *)
Definition documented_table : table := [
  ("!", false, "np.logical_not", 1%nat, 100, 1);
  ("~", false, "np.negative", 1%nat, 100, 1);
  ("^", false, "np.float_power", 2%nat, 90, 1);
  ("**", false, "np.float_power", 2%nat, 90, 1);
  (".-", false, "np.negative", 1%nat, 90, 1);
  (".+", false, "np.positive", 1%nat, 90, 1);
  ("*", false, "np.multiply", 2%nat, 80, -1);
  ("/", false, "np.true_divide", 2%nat, 80, -1);
  ("%", false, "np.remainder", 2%nat, 80, -1);
  ("+", false, "np.add", 2%nat, 70, -1);
  ("-", false, "np.subtract", 2%nat, 70, -1);
  ("and", false, "np.logical_and", 2%nat, 60, -1);
  ("or", false, "np.logical_or", 2%nat, 50, -1);
  ("gt", true, "Op.gt", 2%nat, 100, -1);
  ("ge", true, "Op.ge", 2%nat, 100, -1);
  ("eq", true, "Op.eq", 2%nat, 100, -1);
  ("neq", true, "Op.neq", 2%nat, 100, -1);
  ("le", true, "Op.le", 2%nat, 100, -1);
  ("lt", true, "Op.lt", 2%nat, 100, -1);
  ("min", true, "np.minimum", 2%nat, 100, -1);
  ("max", true, "np.maximum", 2%nat, 100, -1);
  ("acos", true, "np.arccos", 1%nat, 100, -1);
  ("asin", true, "np.arcsin", 1%nat, 100, -1);
  ("atan", true, "np.arctan", 1%nat, 100, -1);
  ("ceil", true, "np.ceil", 1%nat, 100, -1);
  ("cos", true, "np.cos", 1%nat, 100, -1);
  ("cosh", true, "np.cosh", 1%nat, 100, -1);
  ("exp", true, "np.exp", 1%nat, 100, -1);
  ("abs", true, "np.fabs", 1%nat, 100, -1);
  ("fabs", true, "np.fabs", 1%nat, 100, -1);
  ("floor", true, "np.floor", 1%nat, 100, -1);
  ("log", true, "np.log", 1%nat, 100, -1);
  ("log10", true, "np.log10", 1%nat, 100, -1);
  ("round", true, "np.round", 1%nat, 100, -1);
  ("sin", true, "np.sin", 1%nat, 100, -1);
  ("sinh", true, "np.sinh", 1%nat, 100, -1);
  ("sqrt", true, "np.sqrt", 1%nat, 100, -1);
  ("tan", true, "np.tan", 1%nat, 100, -1);
  ("tanh", true, "np.tanh", 1%nat, 100, -1);
  ("log1p", true, "np.log1p", 1%nat, 100, -1);
  ("acosh", true, "np.arccosh", 1%nat, 100, -1);
  ("asinh", true, "np.arcsinh", 1%nat, 100, -1);
  ("atanh", true, "np.arctanh", 1%nat, 100, -1);
  ("pow", true, "np.float_power", 2%nat, 100, -1);
  ("atan2", true, "np.arctan2", 2%nat, 100, -1);
  ("fmod", true, "np.fmod", 2%nat, 100, -1);
  ("pi", true, "lambda: np.pi", 0%nat, 100, -1)
]%Z.

(* ===================================================== the printing relation *)
Section Printing.
  Context {T : Type}.
  Variable tbl : table.
  Variable parse_number : string -> option T.      (* which operand tokens are number literals, and their values *)
  Local Open Scope Z_scope.

  Inductive Prints : Z -> fnode T -> list string -> Prop :=
    | P_num lvl s c : operand tbl s -> parse_number s = Some c -> Prints lvl (FConst c) [s]
    | P_var lvl s : operand tbl s -> parse_number s = None -> Prints lvl (FVar s) [s]
    | P_const lvl f e : fn_tok tbl f e -> en_arity e = 0%nat -> lvl <= 2 * en_prec e -> Prints lvl (FElem0 f) [f]
    | P_bin lvl o e l r tl tr : op_tok tbl o e -> en_arity e = 2%nat -> lvl <= 2 * en_prec e ->
        Prints (llevel e) l tl -> Prints (rlevel e) r tr -> Prints lvl (FElem2 o l r) (tl ++ o :: tr)
    | P_un lvl o e x tx : op_tok tbl o e -> en_arity e = 1%nat -> rassoc e = true -> lvl <= 2 * en_prec e ->
        Prints (2 * en_prec e) x tx -> Prints lvl (FElem1 o x) (o :: tx)
    | P_call1 lvl f e a ta : fn_tok tbl f e -> en_arity e = 1%nat -> Prints 0 a ta ->
        Prints lvl (FElem1 f a) (f :: "(" :: ta ++ [")"])
    | P_call2 lvl f e a b ta tb : fn_tok tbl f e -> en_arity e = 2%nat -> Prints 0 a ta -> Prints 0 b tb ->
        Prints lvl (FElem2 f a b) (f :: "(" :: ta ++ "," :: tb ++ [")"])
    | P_paren lvl t ts : Prints 0 t ts -> Prints lvl t ("(" :: ts ++ [")"]).

  (* trees the postfix builder can produce / consume: every element has its registered number of children, names are operands *)
  Fixpoint wf (t : fnode T) : Prop :=
    match t with
    | FConst _ => False                                   (* syntactic trees keep literals as names, see `syntactic` *)
    | FVar v => operand tbl v
    | FElem0 n => exists e, lookup tbl n = Some e /\ en_arity e = 0%nat
    | FElem1 n x => (exists e, lookup tbl n = Some e /\ en_arity e = 1%nat) /\ wf x
    | FElem2 n l r => (exists e, lookup tbl n = Some e /\ en_arity e = 2%nat) /\ wf l /\ wf r
    end.
End Printing.

(* ===================================================== denotation over R *)
Inductive ty : Set := TyN | TyB.      (* a number / a truth value *)
Definition ty_eqb (a b : ty) : bool := match a, b with TyN, TyN | TyB, TyB => true | _, _ => false end.

Section Denote.
  Local Open Scope R_scope.
  Variable vars : list (string * R).

  Definition ind (b : bool) : R := if b then 1 else 0.
  Definition truthR (r : R) : bool := negb (Reqb r 0).

  Definition in_names (n : string) (l : list string) : bool := existsb (String.eqb n) l.

  Fixpoint denote (t : fnode R) : R :=
    match t with
    | FConst c => c
    | FVar v => match assoc v vars with Some x => x | None => 0 end
    | FElem0 n => if String.eqb n "pi" then PI else 0
    | FElem1 n x =>
        let a := denote x in
        if String.eqb n "!" then ind (negb (truthR a))
        else if in_names n ["~"; ".-"] then - a
        else if String.eqb n ".+" then a
        else if in_names n ["abs"; "fabs"] then Rabs a
        else if String.eqb n "sqrt" then sqrt a
        else 0
    | FElem2 n l r =>
        let a := denote l in let b := denote r in
        if String.eqb n "+" then a + b
        else if String.eqb n "-" then a - b
        else if String.eqb n "*" then a * b
        else if String.eqb n "/" then a / b
        else if in_names n ["^"; "**"; "pow"] then Rpower a b          (* for a positive base *)
        else if String.eqb n "and" then ind (truthR a && truthR b)
        else if String.eqb n "or" then ind (truthR a || truthR b)
        else if String.eqb n "gt" then ind (Rltb b a)
        else if String.eqb n "ge" then ind (Rleb b a)
        else if String.eqb n "eq" then ind (Reqb a b)
        else if String.eqb n "neq" then ind (negb (Reqb a b))
        else if String.eqb n "le" then ind (Rleb a b)
        else if String.eqb n "lt" then ind (Rltb a b)
        else if String.eqb n "min" then Rmin a b
        else if String.eqb n "max" then Rmax a b
        else 0
    end.

  (* side conditions of the denotation: every variable has a value; the base of a power is positive *)
  Fixpoint defined (t : fnode R) : Prop :=
    match t with
    | FConst _ => True
    | FVar v => v <> "" /\ assoc v vars <> None
    | FElem0 _ => True
    | FElem1 _ x => defined x
    | FElem2 n l r => defined l /\ defined r /\ (in_names n ["^"; "**"; "pow"] = true -> 0 < denote l)
    end.
End Denote.

(* typing: truth-valued results (and, or, !) only under logical operators or as the result; the relational functions
   gt ge eq neq le lt are 0/1 numbers usable in arithmetic *)
Section Typing.
  Context {T : Type}.
  Fixpoint typeof (t : fnode T) : option ty :=
    match t with
    | FConst _ | FVar _ => Some TyN
    | FElem0 n => if String.eqb n "pi" then Some TyN else None
    | FElem1 n x =>
        match typeof x with
        | None => None
        | Some tx =>
            if String.eqb n "!" then Some TyB
            else if in_names n ["~"; ".-"; ".+"; "abs"; "fabs"; "sqrt"] then (if ty_eqb tx TyN then Some TyN else None)
            else None
        end
    | FElem2 n l r =>
        match typeof l, typeof r with
        | Some tl, Some tr =>
            if in_names n ["and"; "or"] then Some TyB
            else if negb (ty_eqb tl TyN && ty_eqb tr TyN) then None
            else if in_names n ["+"; "-"; "*"; "/"; "^"; "**"; "pow"; "min"; "max"; "gt"; "lt"; "eq"; "neq"; "ge"; "le"] then Some TyN
            else None
        | _, _ => None
        end
    end.
End Typing.
