(* Documented behaviour of the Discrete term of fuzzylite/term.py — over R (and the lifting of a finite table to ER).

   Docstring (class Discrete, Discrete.membership): "The function uses binary search to find the lower and upper
   bounds of x and then linearly interpolates the membership function value between the bounds",
       mu(x) = h (y_max - y_min) / (x_max - x_min) (x - x_min) + y_min ,
   x_min, x_max the bounds of x among the abscissae, y_min, y_max the table values there; "the pairs of values must be
   sorted in ascending order by the x coordinate"; related: numpy.interp (whose documentation adds: left of the
   table the first value, right of it the last value).

   Transcription.  A table is a list of pairs (x_i, y_i).  `lerp p q x` is the straight line through p and q, written
   in the usual form  y_p + (x - x_p) (y_q - y_p) / (x_q - x_p)  (the code computes slope * (x - x_p) + y_p: equal
   over R).  The documented membership is  h * lerp (x_i, y_i) (x_{i+1}, y_{i+1}) x  for x_i <= x < x_{i+1}
   (x_i <= x <= x_{i+1} when the abscissae are strictly increasing),  h * y_first left of the table and
   h * y_last right of it.  The theorems of Properties/C03d.v are stated directly with `nth i xy`; the function
   `Discrete_shape` below is the same thing as one recursive definition ("walk to the first abscissa exceeding x and
   interpolate between it and its predecessor"), used to derive range, monotonicity and continuity.

   Notes on the docstring (reported):
   * read literally the formula multiplies only the slope term by h:  h (..)(x - x_min) + y_min ; the code computes
     h * ((..)(x - x_min) + y_min).  Transcribed as the code does it (every other term's docstring scales the whole
     value by h).
   * the docstring says nothing about x outside [x_first, x_last] (numpy.interp: clamped to the end values), about
     NaN, or about repeated abscissae (vertical edges).  What the code does at a repeated abscissa a: the value at
     a is h * y of the LAST pair with abscissa a (the function is right-continuous there; coming from the left it
     tends to h * y of the FIRST pair with abscissa a; pairs strictly between the two are never seen).
   * a one-point table returns h * y for EVERY x, NaN included (numpy.interp skips its NaN test when len(xp) = 1):
     outside "valid parameterisations" (at least two points), kept visible as `Discrete_one_point_ignores_nan`. *)
From Coq Require Import Reals Bool List Sorted.
From VF Require Import NumR NumER.
Import ListNotations.
Local Open Scope R_scope.

Definition table := list (R * R).

(* the pairs are sorted in ascending order by the x coordinate: every pair's abscissa is <= every later pair's *)
Definition sorted_x (xy : table) : Prop := StronglySorted (fun p q => fst p <= fst q) xy.
(* ... without repeated abscissae (no vertical edges) *)
Definition strict_x (xy : table) : Prop := StronglySorted (fun p q => fst p < fst q) xy.
(* the ordinates are non-decreasing along the table *)
Definition ys_nondecreasing (xy : table) : Prop := StronglySorted (fun p q => snd p <= snd q) xy.
(* every ordinate lies in [lo, hi] *)
Definition ys_within (lo hi : R) (xy : table) : Prop := Forall (fun p => lo <= snd p <= hi) xy.

(* the straight line through p and q *)
Definition lerp (p q : R * R) (x : R) : R := snd p + (x - fst p) * (snd q - snd p) / (fst q - fst p).

(* piecewise-linear interpolation, clamped: p is the pair whose abscissa was last seen to be <= x *)
Fixpoint pl (p : R * R) (rest : table) (x : R) : R :=
  match rest with
  | [] => snd p
  | q :: tl => if Rltb x (fst q) then lerp p q x else pl q tl x
  end.
Definition Discrete_shape (xy : table) (x : R) : R :=
  match xy with
  | [] => 0
  | p :: rest => if Rltb x (fst p) then snd p else pl p rest x
  end.

(* a table of finite values, read in the extended reals *)
Definition liftp (p : R * R) : ER * ER := (Fin (fst p), Fin (snd p)).
Definition lift (xy : table) : list (ER * ER) := map liftp xy.

(* default pair for `nth` / `last` in statements (never reached: indices are bounded, tables non-empty) *)
Definition pt0 : R * R := (0, 0).
