(* Documented formulas of the 6 hedges (docstrings of fuzzylite/hedge.py), over R.
   x^2 is written x * x. *)
From Coq Require Import Reals.
From VF Require SpecNorm.
Local Open Scope R_scope.

Definition Any (x : R) : R := 1.
Definition Extremely (x : R) : R :=
  if Rle_dec x (1 / 2) then 2 * (x * x) else 1 - 2 * ((1 - x) * (1 - x)).
Definition Not (x : R) : R := 1 - x.
Definition Seldom (x : R) : R :=
  if Rle_dec x (1 / 2) then sqrt (x / 2) else 1 - sqrt ((1 - x) / 2).
Definition Somewhat (x : R) : R := sqrt x.
Definition Very (x : R) : R := x * x.

(* membership degrees: the same predicate as in SpecNorm *)
Notation unit := SpecNorm.unit.
