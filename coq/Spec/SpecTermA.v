(* Documented closed forms of the membership functions of fuzzylite/term.py, group A:
   Binary, Concave, Constant, Ramp, Rectangle, Triangle, Trapezoid, SShape, ZShape, PiShape — over R.

   Each docstring gives  mu(x) = cases ... ; every case carries the factor h (height).  Here the closed
   form is transcribed WITHOUT the height as `<Term>_shape p x`, the documented membership is
   `h * <Term>_shape p x`, and `<Term>_valid p` is the set of parameterisations C03 quantifies over.
   The cases are transcribed in the docstring's order, each with the docstring's own guard, as a chain
   `if guard1 then v1 else if guard2 then v2 ...` (under the validity predicate the guards are mutually
   exclusive, so the order is immaterial; see the `_cases` lemmas of Proofs/TermA.v).
   Squares are written u * u.

   What cannot be said over R (left to the float correspondence, which runs these parameterisations
   bit for bit): infinite parameters (Binary direction = +-inf, Triangle/Trapezoid shoulders a = -inf,
   d = +inf, and the docstring clauses `a = -inf /\ x < b`, `d = inf /\ x > c`), x = +-inf, NaN.

   Notes on the docstrings (reported):
   * Binary: the docstring says `d = inf` / `d = -inf`; the code tests `d > s` / `d < s`.  For a finite start
     the two agree at d = +-inf; the transcription uses the comparison with s (the only reading over R).
   * Concave: docstring `i > e` for the decreasing branch, code `i >= e`; they differ only at i = e, which is
     not a valid parameterisation (the code has a TODO there).  At i = e, x > e the code returns 0, the docstring h.
   * Ramp: at s = e the docstring gives 0 everywhere, the code NaN everywhere; s = e is not valid.
   * Rectangle: docstring `s <= x <= e`; the code first sorts (start, end).  With start > end the docstring read
     literally is 0 everywhere, the code is h on [end, start].  Valid here: start <= end; the symmetric
     reading is `Rectangle_eq_sym` in Proofs/TermA.v.
   * ZShape: the first case of the docstring says `1` where it must be `h` (code: h); transcribed as h.
   * Triangle: the docstring has no "otherwise" case, Trapezoid has `NaN otherwise`; under the validity
     predicate the listed cases are exhaustive (`Triangle_cases`, `Trapezoid_cases`), the final `else 0`
     below is unreachable.
   * SShape/ZShape with start > end ("reversed"): docstring and code agree, and both degenerate to a unit
     step at `start` (SShape: 0 for x <= s, h after; ZShape: h for x <= s, 0 after) — NOT a mirrored curve. *)
From Coq Require Import Reals Bool.
From VF Require Import NumR.   (* only for the boolean comparisons Rltb, Rleb, Reqb on R *)
Local Open Scope R_scope.

Local Notation "a <? b" := (Rltb a b) (at level 70) : R_scope.
Local Notation "a <=? b" := (Rleb a b) (at level 70) : R_scope.
Local Notation "a =? b" := (Reqb a b) (at level 70) : R_scope.

(* every Term: 0 < height <= 1 *)
Definition height_valid (h : R) : Prop := 0 < h <= 1.

(* ---- Binary:  h if (d = inf /\ x >= s) \/ (d = -inf /\ x <= s);  0 otherwise *)
Definition Binary_valid (s d h : R) : Prop := s <> d /\ height_valid h.
Definition Binary_shape (s d x : R) : R :=
  if ((s <? d) && (s <=? x)) || ((d <? s) && (x <=? s)) then 1 else 0.

(* ---- Concave:  h (e-i)/(2e-i-x) if i <= e /\ x < e;  h (i-e)/(-2e+i+x) if i > e /\ x > e;  h otherwise *)
Definition Concave_valid (i e h : R) : Prop := i <> e /\ height_valid h.
Definition Concave_shape (i e x : R) : R :=
  if (i <=? e) && (x <? e) then (e - i) / (2 * e - i - x)
  else if (e <? i) && (e <? x) then (i - e) / (- 2 * e + i + x)
  else 1.

(* ---- Constant:  mu(x) = k  (no height) *)
Definition Constant_valid (k : R) : Prop := True.
Definition Constant_shape (k x : R) : R := k.

(* ---- Ramp:  h (x-s)/(e-s) if s < x < e;  h (s-x)/(s-e) if e < x < s;
               h if s < e /\ x >= e;  h if s > e /\ x <= e;  0 otherwise *)
Definition Ramp_valid (s e h : R) : Prop := s <> e /\ height_valid h.
Definition Ramp_shape (s e x : R) : R :=
  if (s <? x) && (x <? e) then (x - s) / (e - s)
  else if (e <? x) && (x <? s) then (s - x) / (s - e)
  else if (s <? e) && (e <=? x) then 1
  else if (e <? s) && (x <=? e) then 1
  else 0.

(* ---- Rectangle:  h if s <= x <= e;  0 otherwise *)
Definition Rectangle_valid (s e h : R) : Prop := s <= e /\ height_valid h.
Definition Rectangle_shape (s e x : R) : R :=
  if (s <=? x) && (x <=? e) then 1 else 0.

(* ---- SShape:  0 if x <= s;  2h ((x-s)/(e-s))^2 if s < x <= (s+e)/2;
                 h - 2h ((x-e)/(e-s))^2 if (s+e)/2 < x < e;  h otherwise *)
Definition SShape_valid (s e h : R) : Prop := s <> e /\ height_valid h.
Definition SShape_shape (s e x : R) : R :=
  if x <=? s then 0
  else if (s <? x) && (x <=? (s + e) / 2) then 2 * (((x - s) / (e - s)) * ((x - s) / (e - s)))
  else if ((s + e) / 2 <? x) && (x <? e) then 1 - 2 * (((x - e) / (e - s)) * ((x - e) / (e - s)))
  else 1.

(* ---- ZShape:  h if x <= s;  h - 2h ((x-s)/(e-s))^2 if s < x < (s+e)/2;
                 2h ((x-e)/(e-s))^2 if (s+e)/2 <= x < e;  0 otherwise *)
Definition ZShape_valid (s e h : R) : Prop := s <> e /\ height_valid h.
Definition ZShape_shape (s e x : R) : R :=
  if x <=? s then 1
  else if (s <? x) && (x <? (s + e) / 2) then 1 - 2 * (((x - s) / (e - s)) * ((x - s) / (e - s)))
  else if ((s + e) / 2 <=? x) && (x <? e) then 2 * (((x - e) / (e - s)) * ((x - e) / (e - s)))
  else 0.

(* ---- PiShape:  h (SShape_a^b(x) * ZShape_c^d(x)) *)
Definition PiShape_valid (a b c d h : R) : Prop := a < b /\ b <= c /\ c < d /\ height_valid h.
Definition PiShape_shape (a b c d x : R) : R := SShape_shape a b x * ZShape_shape c d x.

(* ---- Triangle:  0 if x < a \/ x > c;  h if x = b [\/ infinite shoulders];
                   h (x-a)/(b-a) if a <= x < b;  h (c-x)/(c-b) if b < x <= c *)
Definition Triangle_valid (a b c h : R) : Prop := a <= b /\ b <= c /\ a < c /\ height_valid h.
Definition Triangle_shape (a b c x : R) : R :=
  if (x <? a) || (c <? x) then 0
  else if x =? b then 1
  else if (a <=? x) && (x <? b) then (x - a) / (b - a)
  else if (b <? x) && (x <=? c) then (c - x) / (c - b)
  else 0 (* not a documented case; unreachable when a <= b <= c *).

(* ---- Trapezoid:  0 if x < a \/ x > d;  h (x-a)/(b-a) if a <= x < b;
                    h if b <= x <= c [\/ infinite shoulders];  h (d-x)/(d-c) if c < x <= d;  NaN otherwise *)
Definition Trapezoid_valid (a b c d h : R) : Prop := a <= b /\ b <= c /\ c <= d /\ height_valid h.
Definition Trapezoid_shape (a b c d x : R) : R :=
  if (x <? a) || (d <? x) then 0
  else if (a <=? x) && (x <? b) then (x - a) / (b - a)
  else if (b <=? x) && (x <=? c) then 1
  else if (c <? x) && (x <=? d) then (d - x) / (d - c)
  else 0 (* documented NaN; unreachable when a <= b <= c <= d *).
