(* PipelineAll.v — the documented inference pipeline for EVERY activation method, stated declaratively: no rule
   records are mutated, no state is threaded through `rule_ops`, no heap.  (Definitions only; the refinement
   `process` ⊑ this file is in Proofs/EngineAllProofs.v, the final theorems in Properties/C01b.v, C13b.v.)

   In every ENABLED rule block, in order, given the fuzzy outputs `outs` accumulated so far:

     General            as in Spec/Pipeline.v (`rules_contribution`): every loaded rule fires, evaluation and firing
                        interleaved in insertion order;
     First n t          walk the rules in insertion order; the firing degree of a loaded rule (weight x antecedent) is
     Last n t           evaluated against the contributions SO FAR, those of the rules already triggered in this block
                        included; the rule is triggered iff fewer than n rules were triggered before it and
                        degree > 0 and degree >= t.  Last: the same walk on the reversed rule list;
     Threshold c t      walk in insertion order, trigger iff `degree c t` (interleaved as above);
     Highest n          FIRST every loaded rule is evaluated against the contributions accumulated BEFORE this block
     Lowest n           (no rule of the block has been triggered yet), THEN the selected ones are triggered:
     Proportional       Highest = the first n of the positive-degree rules in the order (degree descending, position
                        ascending), Lowest = (degree ascending, position ascending), Proportional = every
                        positive-degree rule in insertion order with its degree divided by the in-order sum of the
                        positive degrees (0.0 + d1 + d2 + …).

   A triggered rule contributes `Consequent.modify degree implication conclusions` (property C07) if it is ENABLED and
   nothing otherwise — but it has been selected all the same: a disabled rule occupies one of the n places of
   First/Last/Highest/Lowest and its degree is part of Proportional's sum.  Rules that are not loaded are skipped.
   Disabled blocks are skipped; an enabled block without activation method is a ValueError.
   All comparisons are the IEEE ones of `Num` (false on NaN): a NaN degree is never selected by
   First/Last/Highest/Lowest/Proportional.  Then the fuzzy outputs are defuzzified as in Spec/Pipeline.v
   (`pipeline_values`). *)
From Coq Require Import ZArith Bool List String Sorting.Sorted Sorting.Permutation.
From VF Require Import Num GenNorm GenHedge GenTerm Core Antecedent Consequent Engine Selection Pipeline.
Import ListNotations.
Set Implicit Arguments.

Section PipelineAll.
  Context {T : Type} {N : Num T}.
  Variable function_eval : engine T -> fnode T -> list (string * T) -> T -> result T.
  Notation outputs := (list (output_var T)).

  (* ---- what a TRIGGERED rule adds to the fuzzy outputs *)
  Definition fire (b : block T) (enabled : bool) (conclusions : list conclusion) (d : T) (outs : outputs) : result outputs :=
    if enabled then modify d (b_implication b) conclusions outs else Ok outs.

  (* ------------------------------------------------------------------------------------------------------------ *)
  (* interleaved methods: one walk over the rules.  `decide a d` says whether a loaded rule of firing degree d is  *)
  (* triggered, and updates what the walk remembers (`a`: the number of rules triggered so far; nothing).          *)
  (* ------------------------------------------------------------------------------------------------------------ *)
  Fixpoint walk {A : Type} (decide : A -> T -> A * bool) (e : engine T) (b : block T) (a : A) (outs : outputs)
      (rs : list (rule T)) : result outputs :=
    match rs with
    | [] => Ok outs
    | r :: tl =>
        if rule_loaded r then
          do d <- firing_degree function_eval e b outs r;        (* against the contributions so far *)
          if snd (decide a d) then
            do outs' <- fire b (r_enabled r) (r_consequent r) d outs;
            walk decide e b (fst (decide a d)) outs' tl
          else walk decide e b (fst (decide a d)) outs tl
        else walk decide e b a outs tl
    end.

  Definition degree_reaches (t d : T) : bool := ltb zero d && leb t d.            (* degree > 0 and degree >= t *)
  (* First / Last: `count` rules were triggered so far *)
  Definition first_decide (n : Z) (t : T) (count : Z) (d : T) : Z * bool :=
    if (count <? n)%Z && degree_reaches t d then ((count + 1)%Z, true) else (count, false).
  Definition threshold_decide (c : comparator) (t : T) (a : unit) (d : T) : unit * bool := (a, cmp_holds c d t).

  (* ------------------------------------------------------------------------------------------------------------ *)
  (* two-phase methods: evaluate everything against the block-entry outputs, select, then trigger                  *)
  (* ------------------------------------------------------------------------------------------------------------ *)
  (* a loaded rule after evaluation: its position in the block, its firing degree, and what `fire` needs of it *)
  Record candidate : Type := { cd_pos : nat; cd_degree : T; cd_enabled : bool; cd_conclusions : list conclusion }.
  Definition cd_key (c : candidate) : nat * T := (cd_pos c, cd_degree c).
  Definition cd_with_degree (c : candidate) (d : T) : candidate :=
    {| cd_pos := cd_pos c; cd_degree := d; cd_enabled := cd_enabled c; cd_conclusions := cd_conclusions c |}.

  (* phase 1: every loaded rule of `rs` (positions k, k+1, …), ALL against the same `outs` *)
  Fixpoint candidates (e : engine T) (b : block T) (outs : outputs) (k : nat) (rs : list (rule T)) : result (list candidate) :=
    match rs with
    | [] => Ok []
    | r :: tl =>
        if rule_loaded r then
          do d <- firing_degree function_eval e b outs r;
          do cs <- candidates e b outs (S k) tl;
          Ok ({| cd_pos := k; cd_degree := d; cd_enabled := r_enabled r; cd_conclusions := r_consequent r |} :: cs)
        else candidates e b outs (S k) tl
    end.

  (* phase 2: trigger the selected candidates in the given order, each with the degree it carries *)
  Fixpoint fire_all (b : block T) (outs : outputs) (cs : list candidate) : result outputs :=
    match cs with
    | [] => Ok outs
    | c :: tl => do outs' <- fire b (cd_enabled c) (cd_conclusions c) (cd_degree c) outs; fire_all b outs' tl
    end.

  Definition cd_positive (c : candidate) : bool := ltb zero (cd_degree c).        (* degree > 0 *)

  (* the ordered arrangement of candidates under a strict order `before` on (position, degree)
     (Selection.before_desc / before_asc): insertion sort … *)
  Fixpoint insert_cand (before : nat * T -> nat * T -> bool) (x : candidate) (l : list candidate) : list candidate :=
    match l with
    | [] => [x]
    | y :: l' => if before (cd_key y) (cd_key x) then y :: insert_cand before x l' else x :: l
    end.
  Fixpoint sort_cands (before : nat * T -> nat * T -> bool) (l : list candidate) : list candidate :=
    match l with
    | [] => []
    | x :: l' => insert_cand before x (sort_cands before l')
    end.
  (* … which is THE arrangement in which every candidate is strictly before all later ones
     (EngineAllProofs: sort_cands_is_arrangement, cand_arrangement_unique, under the order laws `PosOrder`) *)
  Definition cand_arrangement (before : nat * T -> nat * T -> bool) (l l' : list candidate) : Prop :=
    Permutation l l' /\ StronglySorted (fun p q => before (cd_key p) (cd_key q) = true) l'.

  Definition highest_selection (n : Z) (cs : list candidate) : list candidate :=
    firstn (Z.to_nat n) (sort_cands before_desc (filter cd_positive cs)).          (* nothing when n <= 0 *)
  Definition lowest_selection (n : Z) (cs : list candidate) : list candidate :=
    firstn (Z.to_nat n) (sort_cands before_asc (filter cd_positive cs)).
  Definition positive_sum (cs : list candidate) : T :=
    fold_left add (map cd_degree (filter cd_positive cs)) zero.                   (* ((0.0 + d1) + d2) + … *)
  Definition proportional_selection (cs : list candidate) : list candidate :=
    map (fun c => cd_with_degree c (div (cd_degree c) (positive_sum cs))) (filter cd_positive cs).

  Definition two_phase (select : list candidate -> list candidate) (e : engine T) (b : block T) (outs : outputs) : result outputs :=
    do cs <- candidates e b outs 0 (b_rules b);
    fire_all b outs (select cs).

  (* ------------------------------------------------------------------------------------------------------------ *)
  (* one block, all blocks, the whole pipeline                                                                     *)
  (* ------------------------------------------------------------------------------------------------------------ *)
  Definition method_contribution (e : engine T) (b : block T) (m : activation T) (outs : outputs) : result outputs :=
    match m with
    | AGeneral => rules_contribution function_eval e b outs (b_rules b)
    | AFirst n t => walk (first_decide n t) e b 0%Z outs (b_rules b)
    | ALast n t => walk (first_decide n t) e b 0%Z outs (rev (b_rules b))
    | AThreshold c t => walk (threshold_decide c t) e b tt outs (b_rules b)
    | AHighest n => two_phase (highest_selection n) e b outs
    | ALowest n => two_phase (lowest_selection n) e b outs
    | AProportional => two_phase proportional_selection e b outs
    end.

  Definition block_all_contribution (e : engine T) (b : block T) (outs : outputs) : result outputs :=
    match b_activation b with
    | None => Err EValue                    (* RuleBlock.activate: "expected an activation method, but found none" *)
    | Some m => method_contribution e b m outs
    end.

  Fixpoint blocks_all_contribution (e : engine T) (outs : outputs) (bs : list (block T)) : result outputs :=
    match bs with
    | [] => Ok outs
    | b :: tl => if b_enabled b then do outs' <- block_all_contribution e b outs; blocks_all_contribution e outs' tl
                 else blocks_all_contribution e outs tl
    end.

  (* the fuzzy outputs of the documented pipeline: start from empty fuzzy sets *)
  Definition pipeline_all_fuzzy (e : engine T) : result outputs :=
    blocks_all_contribution e (map clear_fuzzy (e_outputs e)) (e_blocks e).

  (* … defuzzified as in Spec/Pipeline.v *)
  Definition pipeline_all_outputs (e : engine T) : result outputs :=
    do fz <- pipeline_all_fuzzy e; pipeline_values function_eval e [] fz.

  (* no enabled block selects with the heap (Highest / Lowest): the refinement then needs no order laws on `Num` *)
  Definition uses_heap (b : block T) : bool :=
    match b_activation b with Some (AHighest _) | Some (ALowest _) => true | _ => false end.
  Definition heap_free (e : engine T) : Prop := forall b, In b (e_blocks e) -> b_enabled b = true -> uses_heap b = false.

  (* ---- the rules a block triggers, as a list (used to say that nothing else contributes): for the interleaved
     methods the walk also reports, in trigger order, the rules it triggered (position, degree, …) *)
  Fixpoint walk_log {A : Type} (decide : A -> T -> A * bool) (e : engine T) (b : block T) (a : A) (outs : outputs)
      (xs : list (nat * rule T)) : result (list candidate * outputs) :=
    match xs with
    | [] => Ok ([], outs)
    | (k, r) :: tl =>
        if rule_loaded r then
          do d <- firing_degree function_eval e b outs r;
          if snd (decide a d) then
            do outs' <- fire b (r_enabled r) (r_consequent r) d outs;
            do rest <- walk_log decide e b (fst (decide a d)) outs' tl;
            Ok ({| cd_pos := k; cd_degree := d; cd_enabled := r_enabled r; cd_conclusions := r_consequent r |} :: fst rest, snd rest)
          else walk_log decide e b (fst (decide a d)) outs tl
        else walk_log decide e b a outs tl
    end.
  Definition numbered {A : Type} (rs : list A) : list (nat * A) := combine (seq 0 (List.length rs)) rs.
  Definition general_decide (a : unit) (d : T) : unit * bool := (a, true).

  (* the candidates a block triggers, in trigger order, each with the degree passed to Consequent.modify *)
  Definition block_triggered (e : engine T) (b : block T) (outs : outputs) : result (list candidate) :=
    match b_activation b with
    | None => Err EValue
    | Some AGeneral => do r <- walk_log general_decide e b tt outs (numbered (b_rules b)); Ok (fst r)
    | Some (AFirst n t) => do r <- walk_log (first_decide n t) e b 0%Z outs (numbered (b_rules b)); Ok (fst r)
    | Some (ALast n t) => do r <- walk_log (first_decide n t) e b 0%Z outs (rev (numbered (b_rules b))); Ok (fst r)
    | Some (AThreshold c t) => do r <- walk_log (threshold_decide c t) e b tt outs (numbered (b_rules b)); Ok (fst r)
    | Some (AHighest n) => do cs <- candidates e b outs 0 (b_rules b); Ok (highest_selection n cs)
    | Some (ALowest n) => do cs <- candidates e b outs 0 (b_rules b); Ok (lowest_selection n cs)
    | Some AProportional => do cs <- candidates e b outs 0 (b_rules b); Ok (proportional_selection cs)
    end.
End PipelineAll.
