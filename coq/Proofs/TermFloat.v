(* TermFloat — membership range of the piecewise-linear terms at the binary64 level.
   The GENERATED kernels Rectangle/Binary/Ramp/Triangle/Trapezoid_membership of Gen/GenTerm.v at `NumF m tbl`
   (only IEEE-basic operations: no oracle function) equal the float formulas <T>_F (lemmas <T>_Feq, tactic
   tfeqgen), and for finite parameters in valid order, finite height h >= 0 and EVERY binary64 x (finite, +-inf, NaN):

     mu x is NaN  <->  x is NaN,    and for non-NaN x:  mu x is finite and 0 <= mu x <= h        (mu_ok)

   The slopes (x - a) / (b - a) need that b - a does not overflow (hypothesis `fin (b - a)`): with parameters near
   +-2^1023 the kernel answers NaN for a finite x (inf / inf) — refuted by witness. *)
From Coq Require Import ZArith Reals Lra Lia Bool Floats Psatz.
From Flocq Require Import Core IEEE754.BinarySingleNaN IEEE754.PrimFloat.
From VF Require Import Num NumF GenTerm FloatLevel NormFloat.
Local Open Scope R_scope.

Definition mask (x : flt) : flt := if PrimFloat.is_nan x then PrimFloat.nan else 1%float.

Definition Rectangle_F (s e h x : flt) : flt :=
  ((h * mask x) *
   (if PrimFloat.leb (if PrimFloat.ltb e s then e else s) x && PrimFloat.leb x (if PrimFloat.ltb s e then e else s)
    then 1 else 0))%float.
Definition Binary_F (s d h x : flt) : flt :=
  ((h * mask x) *
   (if (PrimFloat.ltb s d && PrimFloat.leb s x) || (PrimFloat.ltb d s && PrimFloat.leb x s) then 1 else 0))%float.
Definition Ramp_val (s e x : flt) : flt :=
  if (PrimFloat.ltb s e && PrimFloat.ltb x e) && PrimFloat.ltb s x then ((x - s) / (e - s))%float
  else if (PrimFloat.ltb e s && PrimFloat.ltb e x) && PrimFloat.ltb x s then ((s - x) / (s - e))%float
  else if (PrimFloat.ltb s e && PrimFloat.leb e x) || (PrimFloat.ltb e s && PrimFloat.leb x e) then 1%float else 0%float.
Definition Ramp_F (s e h x : flt) : flt :=
  ((h * (if PrimFloat.is_nan x || Bool.eqb (PrimFloat.ltb s e) (PrimFloat.ltb e s) then PrimFloat.nan else 1)) *
   Ramp_val s e x)%float.
Definition Triangle_val (a b c x : flt) : flt :=
  if PrimFloat.ltb x a || PrimFloat.ltb c x then 0%float
  else if (PrimFloat.eqb x b || (PrimFloat.eqb a PrimFloat.neg_infinity && PrimFloat.ltb x b))
          || (PrimFloat.eqb c PrimFloat.infinity && PrimFloat.ltb b x) then 1%float
  else if PrimFloat.ltb x b then ((x - a) / (b - a))%float
  else if PrimFloat.ltb b x then ((c - x) / (c - b))%float else PrimFloat.nan.
Definition Triangle_F (a b c h x : flt) : flt := ((h * mask x) * Triangle_val a b c x)%float.
Definition Trapezoid_val (a b c d x : flt) : flt :=
  if PrimFloat.ltb x a || PrimFloat.ltb d x then 0%float
  else if ((PrimFloat.leb b x && PrimFloat.leb x c) || (PrimFloat.eqb a PrimFloat.neg_infinity && PrimFloat.ltb x b))
          || (PrimFloat.eqb d PrimFloat.infinity && PrimFloat.ltb c x) then 1%float
  else if PrimFloat.ltb x b then ((x - a) / (b - a))%float
  else if PrimFloat.ltb c x then ((d - x) / (d - c))%float else PrimFloat.nan.
Definition Trapezoid_F (a b c d h x : flt) : flt := ((h * mask x) * Trapezoid_val a b c d x)%float.

Ltac unT := unfold Rectangle_F, Binary_F, Ramp_F, Ramp_val, Triangle_F, Triangle_val, Trapezoid_F, Trapezoid_val, mask in *.
Ltac tfeqgen := intros; unfold Rectangle_membership, Binary_membership, Ramp_membership, Triangle_membership,
  Trapezoid_membership; unT; unnum; flits; fcomm.

Section Feq.
  Variables (m : bool) (tbl : oracle).
  Local Notation NF := (NumF m tbl).
  Lemma Rectangle_Feq s e h x : @Rectangle_membership _ NF s e h x = Rectangle_F s e h x. Proof. tfeqgen. Qed.
  Lemma Binary_Feq s d h x : @Binary_membership _ NF s d h x = Binary_F s d h x. Proof. tfeqgen. Qed.
  Lemma Ramp_Feq s e h x : @Ramp_membership _ NF s e h x = Ramp_F s e h x. Proof. tfeqgen. Qed.
  Lemma Triangle_Feq a b c h x : @Triangle_membership _ NF a b c h x = Triangle_F a b c h x. Proof. tfeqgen. Qed.
  Lemma Trapezoid_Feq a b c d h x : @Trapezoid_membership _ NF a b c d h x = Trapezoid_F a b c d h x.
  Proof. tfeqgen. Qed.
End Feq.

(* ------------------------------------------------------------------ the statement and the masking step *)
Definition mu_ok (mu : flt -> flt) (h : flt) : Prop := forall x,
  (PrimFloat.is_nan (mu x) = true <-> PrimFloat.is_nan x = true) /\
  (PrimFloat.is_nan x = false -> fin (mu x) /\ 0 <= R_of (mu x) <= R_of h).

Lemma mu_ok_ext mu mu' h : (forall x, mu' x = mu x) -> mu_ok mu h -> mu_ok mu' h.
Proof. intros E H x. rewrite E. apply H. Qed.

Lemma masked_ok h (val : flt -> flt) : fin h -> 0 <= R_of h ->
  (forall x, PrimFloat.is_nan x = false -> unitF (val x)) ->
  mu_ok (fun x => ((h * mask x) * val x)%float) h.
Proof.
  intros Fh Hh V x. unfold mask. destruct (PrimFloat.is_nan x) eqn:N.
  - split; [| discriminate]. split; [reflexivity | intros _].
    apply mul_nan_l, mul_nan_r. reflexivity.
  - destruct (mul_1_r h Fh) as [F1 E1].
    assert (H1 : 0 <= R_of (h * 1)%float) by lra.
    destruct (mul_scale _ _ F1 H1 (V x N)) as (F & B & _).
    split; [| intros _; split; [exact F | lra]].
    split; [intros Hn; rewrite (fin_not_nan _ F) in Hn; discriminate | discriminate].
Qed.

(* comparisons of an infinite x with finite parameters *)
Ltac inf_cmps p := let I1 := fresh in let I2 := fresh in let I3 := fresh in let I4 := fresh in let I5 := fresh in
  let I6 := fresh in
  destruct (cmp_inf_fin p ltac:(fin_tac)) as (I1 & I2 & I3 & I4 & I5 & I6);
  rewrite ?I1, ?I2, ?I3, ?I4, ?I5, ?I6; clear I1 I2 I3 I4 I5 I6.
Ltac ninf_cmps p := let I1 := fresh in let I2 := fresh in let I3 := fresh in let I4 := fresh in let I5 := fresh in
  let I6 := fresh in
  destruct (cmp_ninf_fin p ltac:(fin_tac)) as (I1 & I2 & I3 & I4 & I5 & I6);
  rewrite ?I1, ?I2, ?I3, ?I4, ?I5, ?I6; clear I1 I2 I3 I4 I5 I6.

(* split every comparison between finite values (innermost `ltb` first), simplifying dead branches *)
Ltac split_cmps :=
  repeat (first
   [ match goal with |- context [PrimFloat.ltb ?u ?v] =>
       let C := fresh "C" in destruct (ltb_case u v ltac:(fin_tac) ltac:(fin_tac)) as [[-> C] | [-> C]] end
   | match goal with |- context [PrimFloat.leb ?u ?v] =>
       let C := fresh "C" in destruct (leb_case u v ltac:(fin_tac) ltac:(fin_tac)) as [[-> C] | [-> C]] end
   | match goal with |- context [PrimFloat.eqb ?u ?v] =>
       let C := fresh "C" in destruct (eqb_case u v ltac:(fin_tac) ltac:(fin_tac)) as [[-> C] | [-> C]] end ];
   cbn [andb orb negb Bool.eqb]).
Ltac leaf := first
  [ apply unitF_zero | apply unitF_one
  | apply slope_up; [fin_tac | fin_tac | fin_tac | assumption | lra | lra]
  | apply slope_down; [fin_tac | fin_tac | fin_tac | assumption | lra | lra]
  | exfalso; lra ].

(* ------------------------------------------------------------------ Rectangle, Binary: comparisons only *)
Lemma Rectangle_val_unit s e x : fin s -> fin e -> PrimFloat.is_nan x = false ->
  unitF (if PrimFloat.leb (if PrimFloat.ltb e s then e else s) x && PrimFloat.leb x (if PrimFloat.ltb s e then e else s)
         then 1%float else 0%float).
Proof.
  intros Fs Fe N. destruct (float_cases x) as [Nx | [-> | [-> | Fx]]]; [congruence | | |].
  - split_cmps; inf_cmps s; inf_cmps e; cbn [andb orb]; leaf.
  - split_cmps; ninf_cmps s; ninf_cmps e; cbn [andb orb]; leaf.
  - split_cmps; leaf.
Qed.
Theorem Rectangle_F_ok s e h : fin s -> fin e -> fin h -> 0 <= R_of h -> mu_ok (Rectangle_F s e h) h.
Proof.
  intros Fs Fe Fh Hh. unfold Rectangle_F.
  apply (masked_ok h (fun x => if PrimFloat.leb (if PrimFloat.ltb e s then e else s) x &&
                                 PrimFloat.leb x (if PrimFloat.ltb s e then e else s) then 1%float else 0%float) Fh Hh).
  intros x N. now apply Rectangle_val_unit.
Qed.

Lemma Binary_val_unit s d x : fin s -> fin d -> PrimFloat.is_nan x = false ->
  unitF (if (PrimFloat.ltb s d && PrimFloat.leb s x) || (PrimFloat.ltb d s && PrimFloat.leb x s)
         then 1%float else 0%float).
Proof.
  intros Fs Fd N. destruct (float_cases x) as [Nx | [-> | [-> | Fx]]]; [congruence | | |].
  - inf_cmps s; split_cmps; leaf.
  - ninf_cmps s; split_cmps; leaf.
  - split_cmps; leaf.
Qed.
Theorem Binary_F_ok s d h : fin s -> fin d -> fin h -> 0 <= R_of h -> mu_ok (Binary_F s d h) h.
Proof.
  intros Fs Fd Fh Hh. unfold Binary_F.
  apply (masked_ok h (fun x => if (PrimFloat.ltb s d && PrimFloat.leb s x) || (PrimFloat.ltb d s && PrimFloat.leb x s)
                               then 1%float else 0%float) Fh Hh).
  intros x N. now apply Binary_val_unit.
Qed.

(* ------------------------------------------------------------------ Ramp *)
Lemma Ramp_val_unit s e x : fin s -> fin e -> fin (e - s)%float -> PrimFloat.is_nan x = false ->
  unitF (Ramp_val s e x).
Proof.
  intros Fs Fe Fes N. pose proof (sub_fin_swap e s Fe Fs Fes) as Fse. unfold Ramp_val.
  destruct (float_cases x) as [Nx | [-> | [-> | Fx]]]; [congruence | | |].
  - inf_cmps s; inf_cmps e; split_cmps; rewrite ?andb_false_r; cbn [andb orb]; leaf.
  - ninf_cmps s; ninf_cmps e; split_cmps; rewrite ?andb_false_r; cbn [andb orb]; leaf.
  - split_cmps; leaf.
Qed.
Theorem Ramp_F_ok s e h : fin s -> fin e -> R_of s <> R_of e -> fin (e - s)%float -> fin h -> 0 <= R_of h ->
  mu_ok (Ramp_F s e h) h.
Proof.
  intros Fs Fe Nse Fes Fh Hh. unfold Ramp_F.
  assert (M : Bool.eqb (PrimFloat.ltb s e) (PrimFloat.ltb e s) = false).
  { destruct (ltb_case s e Fs Fe) as [[-> C] | [-> C]]; destruct (ltb_case e s Fe Fs) as [[-> C'] | [-> C']];
      try reflexivity; exfalso; lra. }
  rewrite M. apply (mu_ok_ext (fun x => ((h * mask x) * Ramp_val s e x)%float)).
  - intros x. unfold mask. now rewrite orb_false_r.
  - apply (masked_ok h (Ramp_val s e) Fh Hh). intros x N. now apply Ramp_val_unit.
Qed.

(* ------------------------------------------------------------------ Triangle, Trapezoid *)
Lemma Triangle_val_unit a b c x : fin a -> fin b -> fin c -> R_of a <= R_of b -> R_of b <= R_of c ->
  fin (b - a)%float -> fin (c - b)%float -> PrimFloat.is_nan x = false -> unitF (Triangle_val a b c x).
Proof.
  intros Fa Fb Fc Hab Hbc Fba Fcb N. unfold Triangle_val.
  destruct (cmp_ninf_fin a Fa) as (_ & _ & _ & _ & _ & ->). destruct (cmp_inf_fin c Fc) as (_ & _ & _ & _ & _ & ->).
  cbn [andb]. rewrite !orb_false_r.
  destruct (float_cases x) as [Nx | [-> | [-> | Fx]]]; [congruence | | |].
  - inf_cmps a; inf_cmps c; cbn [andb orb]; leaf.
  - ninf_cmps a; ninf_cmps c; cbn [andb orb]; leaf.
  - split_cmps; leaf.
Qed.
Theorem Triangle_F_ok a b c h : fin a -> fin b -> fin c -> R_of a <= R_of b -> R_of b <= R_of c ->
  fin (b - a)%float -> fin (c - b)%float -> fin h -> 0 <= R_of h -> mu_ok (Triangle_F a b c h) h.
Proof.
  intros Fa Fb Fc Hab Hbc Fba Fcb Fh Hh. unfold Triangle_F.
  apply (masked_ok h (Triangle_val a b c) Fh Hh). intros x N. now apply Triangle_val_unit.
Qed.

Lemma Trapezoid_val_unit a b c d x : fin a -> fin b -> fin c -> fin d ->
  R_of a <= R_of b -> R_of b <= R_of c -> R_of c <= R_of d ->
  fin (b - a)%float -> fin (d - c)%float -> PrimFloat.is_nan x = false -> unitF (Trapezoid_val a b c d x).
Proof.
  intros Fa Fb Fc Fd Hab Hbc Hcd Fba Fdc N. unfold Trapezoid_val.
  destruct (cmp_ninf_fin a Fa) as (_ & _ & _ & _ & _ & ->). destruct (cmp_inf_fin d Fd) as (_ & _ & _ & _ & _ & ->).
  cbn [andb]. rewrite !orb_false_r.
  destruct (float_cases x) as [Nx | [-> | [-> | Fx]]]; [congruence | | |].
  - inf_cmps a; inf_cmps d; cbn [andb orb]; leaf.
  - ninf_cmps a; ninf_cmps d; cbn [andb orb]; leaf.
  - split_cmps; leaf.
Qed.
Theorem Trapezoid_F_ok a b c d h : fin a -> fin b -> fin c -> fin d ->
  R_of a <= R_of b -> R_of b <= R_of c -> R_of c <= R_of d ->
  fin (b - a)%float -> fin (d - c)%float -> fin h -> 0 <= R_of h -> mu_ok (Trapezoid_F a b c d h) h.
Proof.
  intros Fa Fb Fc Fd Hab Hbc Hcd Fba Fdc Fh Hh. unfold Trapezoid_F.
  apply (masked_ok h (Trapezoid_val a b c d) Fh Hh). intros x N. now apply Trapezoid_val_unit.
Qed.

(* ------------------------------------------------------------------ the no-overflow hypothesis is met by all parameters up to 2^1022 *)
Lemma sub_fin_small a b : fin a -> fin b ->
  Rabs (R_of a) <= bpow radix2 1022 -> Rabs (R_of b) <= bpow radix2 1022 -> fin (a - b)%float.
Proof.
  intros Fa Fb Ha Hb.
  assert (S : safe (R_of a - R_of b)).
  { apply safe_BIG. unfold BIG. replace (bpow radix2 1023) with (bpow radix2 1022 + bpow radix2 1022).
    - unfold Rminus. eapply Rle_trans; [apply Rabs_triang |]. rewrite Rabs_Ropp. lra.
    - change 1023%Z with (1 + 1022)%Z. rewrite bpow_plus. simpl (bpow radix2 1). lra. }
  apply (sub_RN a b Fa Fb S).
Qed.

(* ------------------------------------------------------------------ without it: NaN for a finite x (inf / inf) *)
Definition fleb (a b : flt) : bool := PrimFloat.is_finite a && PrimFloat.is_finite b && PrimFloat.leb a b.
Lemma fleb_ok a b : fleb a b = true -> fin a /\ fin b /\ R_of a <= R_of b.
Proof.
  unfold fleb. intros H. apply andb_prop in H. destruct H as [H L]. apply andb_prop in H. destruct H as [Ha Hb].
  apply fin_is_finite in Ha. apply fin_is_finite in Hb. split; [exact Ha |]. split; [exact Hb |].
  now apply (leb_fin _ _ Ha Hb).
Qed.

Definition Triangle_overflow (mu : flt -> flt -> flt -> flt -> flt -> flt) : Prop :=
  exists a b c x, (fin a /\ fin b /\ R_of a <= R_of b) /\ (fin b /\ fin c /\ R_of b <= R_of c) /\
    fin x /\ PrimFloat.is_nan (mu a b c 1%float x) = true.
Definition Trapezoid_overflow (mu : flt -> flt -> flt -> flt -> flt -> flt -> flt) : Prop :=
  exists a b c d x, (fin a /\ fin b /\ R_of a <= R_of b) /\ (fin b /\ fin c /\ R_of b <= R_of c) /\
    (fin c /\ fin d /\ R_of c <= R_of d) /\ fin x /\ PrimFloat.is_nan (mu a b c d 1%float x) = true.
Definition Ramp_overflow (mu : flt -> flt -> flt -> flt -> flt) : Prop :=
  exists s e x, (fin s /\ fin e /\ R_of s < R_of e) /\ fin x /\ PrimFloat.is_nan (mu s e 1%float x) = true.

Lemma Triangle_F_overflow : Triangle_overflow Triangle_F.
Proof.
  exists (-0x1.8p1023)%float, 0x1.8p1023%float, 0x1.8p1023%float, 0x1p1023%float.
  split; [apply fleb_ok; vm_compute; reflexivity |]. split; [apply fleb_ok; vm_compute; reflexivity |].
  split; [apply fin_is_finite |]; vm_compute; reflexivity.
Qed.
Lemma Trapezoid_F_overflow : Trapezoid_overflow Trapezoid_F.
Proof.
  exists (-0x1.8p1023)%float, 0x1.8p1023%float, 0x1.8p1023%float, 0x1.8p1023%float, 0x1p1023%float.
  split; [apply fleb_ok; vm_compute; reflexivity |]. split; [apply fleb_ok; vm_compute; reflexivity |].
  split; [apply fleb_ok; vm_compute; reflexivity |].
  split; [apply fin_is_finite |]; vm_compute; reflexivity.
Qed.
Lemma Ramp_F_overflow : Ramp_overflow Ramp_F.
Proof.
  exists (-0x1.8p1023)%float, 0x1.8p1023%float, 0x1p1023%float.
  split; [apply fltb_ok; vm_compute; reflexivity |].
  split; [apply fin_is_finite |]; vm_compute; reflexivity.
Qed.

(* ------------------------------------------------------------------ the statements on the GENERATED kernels at NumF m tbl *)
Section Final.
  Variables (m : bool) (tbl : oracle).
  Local Notation NF := (NumF m tbl).

  Theorem Rectangle_float s e h : fin s -> fin e -> fin h -> 0 <= R_of h ->
    mu_ok (@Rectangle_membership _ NF s e h) h.
  Proof. intros. apply (mu_ok_ext _ _ _ (Rectangle_Feq m tbl s e h)). now apply Rectangle_F_ok. Qed.
  Theorem Binary_float s d h : fin s -> fin d -> fin h -> 0 <= R_of h ->
    mu_ok (@Binary_membership _ NF s d h) h.
  Proof. intros. apply (mu_ok_ext _ _ _ (Binary_Feq m tbl s d h)). now apply Binary_F_ok. Qed.
  Theorem Ramp_float s e h : fin s -> fin e -> R_of s <> R_of e -> fin (e - s)%float -> fin h -> 0 <= R_of h ->
    mu_ok (@Ramp_membership _ NF s e h) h.
  Proof. intros. apply (mu_ok_ext _ _ _ (Ramp_Feq m tbl s e h)). now apply Ramp_F_ok. Qed.
  Theorem Triangle_float a b c h : fin a -> fin b -> fin c -> R_of a <= R_of b -> R_of b <= R_of c ->
    fin (b - a)%float -> fin (c - b)%float -> fin h -> 0 <= R_of h ->
    mu_ok (@Triangle_membership _ NF a b c h) h.
  Proof. intros. apply (mu_ok_ext _ _ _ (Triangle_Feq m tbl a b c h)). now apply Triangle_F_ok. Qed.
  Theorem Trapezoid_float a b c d h : fin a -> fin b -> fin c -> fin d ->
    R_of a <= R_of b -> R_of b <= R_of c -> R_of c <= R_of d ->
    fin (b - a)%float -> fin (d - c)%float -> fin h -> 0 <= R_of h ->
    mu_ok (@Trapezoid_membership _ NF a b c d h) h.
  Proof. intros. apply (mu_ok_ext _ _ _ (Trapezoid_Feq m tbl a b c d h)). now apply Trapezoid_F_ok. Qed.

  Theorem Triangle_overflow_refuted : Triangle_overflow (@Triangle_membership _ NF).
  Proof.
    destruct Triangle_F_overflow as (a & b & c & x & H). exists a, b, c, x. rewrite Triangle_Feq. exact H.
  Qed.
  Theorem Trapezoid_overflow_refuted : Trapezoid_overflow (@Trapezoid_membership _ NF).
  Proof.
    destruct Trapezoid_F_overflow as (a & b & c & d & x & H). exists a, b, c, d, x. rewrite Trapezoid_Feq. exact H.
  Qed.
  Theorem Ramp_overflow_refuted : Ramp_overflow (@Ramp_membership _ NF).
  Proof. destruct Ramp_F_overflow as (s & e & x & H). exists s, e, x. rewrite Ramp_Feq. exact H. Qed.
End Final.
