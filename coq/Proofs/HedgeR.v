(* The translated hedge kernels, read over R, equal the documented formulas; the hedge laws on [0,1]. *)
From Coq Require Import Reals Lra Lia Bool Psatz.
From VF Require Import Num NumR GenHedge SpecHedge.
Local Open Scope R_scope.

Ltac unspecH := unfold Any, Extremely, Not, Seldom, Somewhat, Very, SpecNorm.unit in *.
Ltac ungenH := unfold Any_hedge, Extremely_hedge, Not_hedge, Seldom_hedge, Somewhat_hedge, Very_hedge in *.
Ltac splitdecH := repeat match goal with
  | |- context [Rle_dec ?a ?b] => destruct (Rle_dec a b)
  end.
Ltac eqgenH := intros; ungenH; unspecH; unR; splitR; splitdecH; try reflexivity; try lra; try (exfalso; lra).

(* ---- 1. generated kernel = documented formula (the only lemmas that look inside Gen) *)
Lemma Any_eq (x : R) : Any_hedge x = Any x. Proof. eqgenH. Qed.
Lemma Extremely_eq (x : R) : Extremely_hedge x = Extremely x. Proof. eqgenH. Qed.
Lemma Not_eq (x : R) : Not_hedge x = Not x. Proof. eqgenH. Qed.
Lemma Seldom_eq (x : R) : Seldom_hedge x = Seldom x.
Proof.
  eqgenH.
  (* robust against commuted / regrouped arguments of sqrt: compare the arguments as real expressions *)
  all: match goal with
       | |- sqrt ?a = sqrt ?b => replace a with b by lra; reflexivity
       | |- _ - sqrt ?a = _ - sqrt ?b => replace a with b by lra; reflexivity
       end.
Qed.
Lemma Somewhat_eq (x : R) : Somewhat_hedge x = Somewhat x. Proof. eqgenH. Qed.
Lemma Very_eq (x : R) : Very_hedge x = Very x. Proof. eqgenH. Qed.

(* ---- 2. the laws, on the documented formulas *)

(* square-root toolbox *)
Lemma sqrt_half_sq (x : R) : 0 <= x -> sqrt (2 * (x * x) / 2) = x.
Proof.
  intros Hx. replace (2 * (x * x) / 2) with (x * x) by lra. apply sqrt_square; exact Hx.
Qed.

Lemma sqrt_half : sqrt (1 / 4) = 1 / 2.
Proof. replace (1 / 4) with ((1 / 2) * (1 / 2)) by lra. apply sqrt_square; lra. Qed.

Lemma sqrt_half_le (t : R) : t <= 1 / 2 -> sqrt (t / 2) <= 1 / 2.
Proof.
  intros Ht. rewrite <- sqrt_half. apply sqrt_le_1_alt; lra.
Qed.

Lemma sqrt_half_lt (t : R) : t < 1 / 2 -> sqrt (t / 2) < 1 / 2.
Proof.
  intros Ht. destruct (Rle_dec 0 (t / 2)) as [Hp | Hn].
  - rewrite <- sqrt_half. apply sqrt_lt_1_alt; lra.
  - assert (Hz : sqrt (t / 2) = 0) by (apply sqrt_neg_0; lra). rewrite Hz; lra.
Qed.

Lemma sqrt_unit (x : R) : 0 <= x <= 1 -> 0 <= sqrt x <= 1.
Proof.
  intros [H0 H1]. split; [apply sqrt_pos |].
  rewrite <- sqrt_1. apply sqrt_le_1_alt; exact H1.
Qed.

(* Any *)
Lemma Any_const (x : R) : Any x = 1. Proof. reflexivity. Qed.
Lemma Any_range (x : R) : unit x -> unit (Any x). Proof. unspecH; intros; lra. Qed.
Lemma Any_mono (x y : R) : unit x -> unit y -> x <= y -> Any x <= Any y.
Proof. unspecH; intros; lra. Qed.

(* Not *)
Lemma Not_range (x : R) : unit x -> unit (Not x). Proof. unspecH; intros; lra. Qed.
Lemma Not_0 : Not 0 = 1. Proof. unspecH; lra. Qed.
Lemma Not_1 : Not 1 = 0. Proof. unspecH; lra. Qed.
Lemma Not_anti (x y : R) : unit x -> unit y -> x <= y -> Not y <= Not x.
Proof. unspecH; intros; lra. Qed.
Lemma Not_involutive (x : R) : Not (Not x) = x. Proof. unspecH; lra. Qed.

(* Very *)
Lemma Very_range (x : R) : unit x -> unit (Very x).
Proof. unspecH; intros [H0 H1]; split; nra. Qed.
Lemma Very_0 : Very 0 = 0. Proof. unspecH; lra. Qed.
Lemma Very_1 : Very 1 = 1. Proof. unspecH; lra. Qed.
Lemma Very_mono (x y : R) : unit x -> unit y -> x <= y -> Very x <= Very y.
Proof. unspecH; intros [Hx0 Hx1] [Hy0 Hy1] Hxy; nra. Qed.
Lemma Very_le (x : R) : unit x -> Very x <= x.
Proof. unspecH; intros [H0 H1]; nra. Qed.

(* Somewhat *)
Lemma Somewhat_range (x : R) : unit x -> unit (Somewhat x).
Proof. unspecH; intros Hx; apply sqrt_unit; exact Hx. Qed.
Lemma Somewhat_0 : Somewhat 0 = 0. Proof. unspecH; apply sqrt_0. Qed.
Lemma Somewhat_1 : Somewhat 1 = 1. Proof. unspecH; apply sqrt_1. Qed.
Lemma Somewhat_mono (x y : R) : unit x -> unit y -> x <= y -> Somewhat x <= Somewhat y.
Proof. unspecH; intros Hx Hy Hxy; apply sqrt_le_1_alt; exact Hxy. Qed.
Lemma Somewhat_ge (x : R) : unit x -> x <= Somewhat x.
Proof.
  unspecH; intros [H0 H1].
  assert (Hs : sqrt x * sqrt x = x) by (apply sqrt_sqrt; exact H0).
  assert (Hp : 0 <= sqrt x) by apply sqrt_pos.
  assert (Hu : sqrt x <= 1) by (apply sqrt_unit; lra).
  nra.
Qed.
Lemma Very_le_Somewhat (x : R) : unit x -> Very x <= x <= Somewhat x.
Proof. intros Hx; split; [apply Very_le | apply Somewhat_ge]; exact Hx. Qed.

Lemma Somewhat_Very (x : R) : unit x -> Somewhat (Very x) = x.
Proof. unspecH; intros [H0 H1]; apply sqrt_square; exact H0. Qed.
Lemma Very_Somewhat (x : R) : unit x -> Very (Somewhat x) = x.
Proof. unspecH; intros [H0 H1]; apply sqrt_sqrt; exact H0. Qed.

(* Extremely *)
Lemma Extremely_range (x : R) : unit x -> unit (Extremely x).
Proof. unspecH; intros [H0 H1]; splitdecH; split; nra. Qed.
Lemma Extremely_0 : Extremely 0 = 0. Proof. unspecH; splitdecH; lra. Qed.
Lemma Extremely_1 : Extremely 1 = 1. Proof. unspecH; splitdecH; lra. Qed.
Lemma Extremely_mono (x y : R) : unit x -> unit y -> x <= y -> Extremely x <= Extremely y.
Proof. unspecH; intros [Hx0 Hx1] [Hy0 Hy1] Hxy; splitdecH; nra. Qed.

(* Seldom *)
Lemma Seldom_range (x : R) : unit x -> unit (Seldom x).
Proof.
  unspecH; intros [H0 H1]; splitdecH.
  - split; [apply sqrt_pos |]. pose proof (sqrt_half_le x) as Hh. lra.
  - assert (Hp : 0 <= sqrt ((1 - x) / 2)) by apply sqrt_pos.
    assert (Hh : sqrt ((1 - x) / 2) < 1 / 2) by (apply sqrt_half_lt; lra).
    lra.
Qed.
Lemma Seldom_0 : Seldom 0 = 0.
Proof. unspecH; splitdecH; [| lra]. replace (0 / 2) with 0 by lra. apply sqrt_0. Qed.
Lemma Seldom_1 : Seldom 1 = 1.
Proof.
  unspecH; splitdecH; [lra |]. replace ((1 - 1) / 2) with 0 by lra. rewrite sqrt_0; lra.
Qed.
Lemma Seldom_mono (x y : R) : unit x -> unit y -> x <= y -> Seldom x <= Seldom y.
Proof.
  unspecH; intros [Hx0 Hx1] [Hy0 Hy1] Hxy; splitdecH.
  - apply sqrt_le_1_alt; lra.
  - assert (Hh : sqrt (x / 2) <= 1 / 2) by (apply sqrt_half_le; lra).
    assert (Hk : sqrt ((1 - y) / 2) < 1 / 2) by (apply sqrt_half_lt; lra).
    lra.
  - lra.
  - assert (Hk : sqrt ((1 - y) / 2) <= sqrt ((1 - x) / 2)) by (apply sqrt_le_1_alt; lra).
    lra.
Qed.

(* Seldom and Extremely are mutually inverse on [0,1] *)
Lemma Seldom_Extremely (x : R) : unit x -> Seldom (Extremely x) = x.
Proof.
  unspecH; intros [H0 H1].
  destruct (Rle_dec x (1 / 2)) as [Hx | Hx].
  - destruct (Rle_dec (2 * (x * x)) (1 / 2)) as [Hb | Hb]; [| exfalso; nra].
    apply sqrt_half_sq; exact H0.
  - destruct (Rle_dec (1 - 2 * ((1 - x) * (1 - x))) (1 / 2)) as [Hb | Hb]; [exfalso; nra |].
    replace ((1 - (1 - 2 * ((1 - x) * (1 - x)))) / 2) with ((1 - x) * (1 - x)) by lra.
    rewrite sqrt_square by lra. lra.
Qed.
Lemma Extremely_Seldom (x : R) : unit x -> Extremely (Seldom x) = x.
Proof.
  unspecH; intros [H0 H1].
  destruct (Rle_dec x (1 / 2)) as [Hx | Hx].
  - assert (Hh : sqrt (x / 2) <= 1 / 2) by (apply sqrt_half_le; exact Hx).
    destruct (Rle_dec (sqrt (x / 2)) (1 / 2)) as [Hb | Hb]; [| exfalso; lra].
    rewrite sqrt_sqrt by lra. lra.
  - assert (Hh : sqrt ((1 - x) / 2) < 1 / 2) by (apply sqrt_half_lt; lra).
    destruct (Rle_dec (1 - sqrt ((1 - x) / 2)) (1 / 2)) as [Hb | Hb]; [exfalso; lra |].
    replace (1 - (1 - sqrt ((1 - x) / 2))) with (sqrt ((1 - x) / 2)) by lra.
    rewrite sqrt_sqrt by lra. lra.
Qed.
