(* The formula model plugged into the engine model reads only the engine's input and output variables, so the
   refinement theorems of EngineProofs.v hold with Function terms evaluated by Model/Formula.v. *)
From Coq Require Import ZArith Bool List String FunctionalExtensionality.
From VF Require Import Num GenOpTable Core ShuntingYard Formula Engine EngineF Pipeline EngineProofs.
Import ListNotations.

Section EngineFProofs.
  Context {T : Type} {NT : Num T}.
  Variable oracle : string -> T -> T -> option T.

  Lemma engine_variable_values_ext (e1 e2 : engine T) :
    e_inputs e1 = e_inputs e2 -> e_outputs e1 = e_outputs e2 -> engine_variable_values e1 = engine_variable_values e2.
  Proof. intros Hi Ho; unfold engine_variable_values; rewrite Hi, Ho; reflexivity. Qed.

  Lemma feval_ext (e1 e2 : engine T) :
    e_inputs e1 = e_inputs e2 -> e_outputs e1 = e_outputs e2 -> feval oracle e1 = feval oracle e2.
  Proof.
    intros Hi Ho.
    apply functional_extensionality; intro f.
    apply functional_extensionality; intro vars.
    apply functional_extensionality; intro x.
    unfold feval, membership.
    rewrite (engine_variable_values_ext e1 e2 Hi Ho).
    reflexivity.
  Qed.

  Theorem process_f_refines_pipeline (e : engine T) :
    general_only e ->
    match process_f oracle e, pipeline_outputs (feval oracle) e with
    | Ok e', Ok outs => e_outputs e' = outs /\ e_inputs e' = e_inputs e
    | Err x, Err y => x = y
    | _, _ => False
    end.
  Proof. intro Hg. exact (process_refines_pipeline (feval oracle) feval_ext e Hg). Qed.
End EngineFProofs.
