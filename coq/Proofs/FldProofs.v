(* FldProofs.v — lemmas about Model/Fld.v (C18). *)
From Coq Require Import ZArith Bool List String Ascii Lia Sorted Reals Lra.
From VF Require Import Num NumR Core Fld.
Import ListNotations.
Local Open Scope Z_scope.

(* ================================================================== Op.increment = mixed-radix successor *)

(* structural reading of the counter: the tail is incremented first; when it wraps, this digit moves *)
Fixpoint next (x mx : list Z) : bool * list Z :=
  match x, mx with
  | a :: xs, m :: ms =>
      let '(b, xs') := next xs ms in
      if b then (true, a :: xs')
      else if a <? m then (true, (a + 1) :: xs') else (false, 0 :: xs')
  | _, _ => (false, x)
  end.

Lemma increment_at_cons : forall p a xs mn0 mns m mxs,
  increment_at (a :: xs) (mn0 :: mns) (m :: mxs) (S p) =
  let '(b, xs') := increment_at xs mns mxs p in
  if b then (true, a :: xs') else increment_at (a :: xs') (mn0 :: mns) (m :: mxs) 0.
Proof.
  induction p as [|q IH]; intros a xs mn0 mns m mxs.
  - cbn [increment_at nth set_nth].
    destruct (nth 0 xs 0 <? nth 0 mxs 0); reflexivity.
  - change (increment_at (a :: xs) (mn0 :: mns) (m :: mxs) (S (S q)))
      with (if nth (S q) xs 0 <? nth (S q) mxs 0
            then (true, a :: set_nth (S q) (nth (S q) xs 0 + 1) xs)
            else increment_at (a :: set_nth (S q) (nth (S q) mns 0) xs) (mn0 :: mns) (m :: mxs) (S q)).
    change (increment_at xs mns mxs (S q))
      with (if nth (S q) xs 0 <? nth (S q) mxs 0
            then (true, set_nth (S q) (nth (S q) xs 0 + 1) xs)
            else increment_at (set_nth (S q) (nth (S q) mns 0) xs) mns mxs q).
    destruct (nth (S q) xs 0 <? nth (S q) mxs 0); [reflexivity|].
    apply IH.
Qed.

Lemma increment_at_next : forall x mx a m,
  List.length x = List.length mx ->
  increment_at (a :: x) (0 :: zeros mx) (m :: mx) (List.length x) = next (a :: x) (m :: mx).
Proof.
  induction x as [|b xs IH]; intros mx a m Hlen.
  - destruct mx; [|discriminate]. cbn. destruct (a <? m); reflexivity.
  - destruct mx as [|m' ms]; [discriminate|]. cbn [List.length] in *.
    change (zeros (m' :: ms)) with (0 :: zeros ms).
    rewrite increment_at_cons. rewrite IH by lia.
    cbn [next]. destruct (next xs ms) as [b0 xs0].
    destruct b0.
    + reflexivity.
    + destruct (b <? m'); [reflexivity|].
      cbn [increment_at nth set_nth]. destruct (a <? m); reflexivity.
Qed.

Lemma increment_next : forall x mx,
  List.length x = List.length mx -> increment x (zeros mx) mx None = next x mx.
Proof.
  intros [|a x] mx Hlen.
  - destruct mx; reflexivity.
  - destruct mx as [|m ms]; [discriminate|]. cbn [List.length] in Hlen.
    unfold increment. change (zeros (m :: ms)) with (0 :: zeros ms).
    replace (List.length (a :: x) - 1)%nat with (List.length x) by (cbn [List.length]; lia).
    apply increment_at_next. lia.
Qed.

(* ================================================================== the documented enumeration *)
Definition M (m : Z) : Z := Z.max 0 m.

Lemma zrange_from_In : forall n a i, In i (zrange_from a n) <-> a <= i < a + Z.of_nat n.
Proof.
  induction n as [|n IH]; intros a i; cbn [zrange_from In].
  - lia.
  - rewrite IH. lia.
Qed.
Lemma zrange_from_length : forall n a, List.length (zrange_from a n) = n.
Proof. induction n; intros; cbn; [reflexivity | rewrite IHn; reflexivity]. Qed.

Lemma flat_map_length_const : forall (A B : Type) (f : A -> list B) (l : list A) (k : nat),
  (forall a, List.length (f a) = k) -> List.length (flat_map f l) = (List.length l * k)%nat.
Proof.
  intros A B f l k H. induction l as [|a l IH]; cbn; [reflexivity|].
  rewrite app_length, H, IH. reflexivity.
Qed.

(* number of rows: the product of (max_i + 1) *)
Lemma lex_enum_length : forall mx, List.length (lex_enum mx) = fuel_of mx.
Proof.
  induction mx as [|m ms IH]; [reflexivity|].
  cbn [lex_enum fuel_of fold_right].
  rewrite flat_map_length_const with (k := List.length (lex_enum ms)) by (intros; apply map_length).
  rewrite zrange_from_length, IH. reflexivity.
Qed.

Lemma fuel_of_Z : forall mx,
  Z.of_nat (fuel_of mx) = fold_right (fun m acc => (M m + 1) * acc) 1 mx.
Proof.
  induction mx as [|m ms IH]; [reflexivity|].
  change (fuel_of (m :: ms)) with ((Z.to_nat (Z.max 0 m) + 1) * fuel_of ms)%nat.
  cbn [fold_right]. rewrite Nat2Z.inj_mul, IH. unfold M. f_equal. lia.
Qed.

(* exactly the product of the ranges *)
Lemma lex_enum_In : forall mx x,
  In x (lex_enum mx) <-> Forall2 (fun a m => 0 <= a <= M m) x mx.
Proof.
  induction mx as [|m ms IH]; intros x; cbn [lex_enum].
  - split.
    + intros [<-|[]]. constructor.
    + intros H; inversion H; left; reflexivity.
  - rewrite in_flat_map. split.
    + intros (i & Hi & Hx). apply in_map_iff in Hx. destruct Hx as (y & <- & Hy).
      apply zrange_from_In in Hi. constructor; [unfold M; lia | apply IH, Hy].
    + intros H. inversion H as [|a m' y ms' Ha Hy]; subst.
      exists a. split.
      * apply zrange_from_In. unfold M in *. lia.
      * apply in_map, IH, Hy.
Qed.

Lemma lex_enum_elem_length : forall mx x, In x (lex_enum mx) -> List.length x = List.length mx.
Proof.
  intros mx x H. apply lex_enum_In in H. induction H; cbn; congruence.
Qed.

(* lexicographic order, first position most significant (= last position fastest) *)
Inductive lex_lt : list Z -> list Z -> Prop :=
  | lex_head : forall a b x y, a < b -> lex_lt (a :: x) (b :: y)
  | lex_tail : forall a x y, lex_lt x y -> lex_lt (a :: x) (a :: y).

Lemma lex_lt_irrefl : forall x, ~ lex_lt x x.
Proof.
  induction x as [|a x IH]; intros H; inversion H; subst; [lia | auto].
Qed.

Lemma StronglySorted_app : forall (A : Type) (R : A -> A -> Prop) l1 l2,
  StronglySorted R l1 -> StronglySorted R l2 ->
  (forall x y, In x l1 -> In y l2 -> R x y) -> StronglySorted R (l1 ++ l2).
Proof.
  intros A R l1 l2 H1 H2 H. induction H1 as [|a l1 Hs IH Ha]; cbn; [assumption|].
  constructor.
  - apply IH. intros; apply H; [right|]; assumption.
  - apply Forall_app. split; [assumption|].
    apply Forall_forall. intros y Hy. apply H; [left; reflexivity | assumption].
Qed.

Lemma StronglySorted_map_cons : forall a l,
  StronglySorted lex_lt l -> StronglySorted lex_lt (map (cons a) l).
Proof.
  intros a l H. induction H as [|x l Hs IH Hx]; cbn; constructor; [assumption|].
  apply Forall_forall. intros y Hy. apply in_map_iff in Hy. destruct Hy as (z & <- & Hz).
  apply lex_tail. rewrite Forall_forall in Hx. auto.
Qed.

Lemma lex_enum_sorted : forall mx, StronglySorted lex_lt (lex_enum mx).
Proof.
  induction mx as [|m ms IH]; cbn [lex_enum].
  - repeat constructor.
  - generalize (Z.to_nat (Z.max 0 m) + 1)%nat as n. generalize 0 as a.
    intros a n; revert a. induction n as [|n IHn]; intros a; cbn [zrange_from flat_map].
    + constructor.
    + apply StronglySorted_app; [apply StronglySorted_map_cons, IH | apply IHn |].
      intros x y Hx Hy. apply in_map_iff in Hx. destruct Hx as (x' & <- & _).
      apply in_flat_map in Hy. destruct Hy as (i & Hi & Hy).
      apply in_map_iff in Hy. destruct Hy as (y' & <- & _).
      apply zrange_from_In in Hi. apply lex_head. lia.
Qed.

Lemma StronglySorted_NoDup : forall (A : Type) (R : A -> A -> Prop) l,
  (forall x, ~ R x x) -> StronglySorted R l -> NoDup l.
Proof.
  intros A R l Hirr H. induction H as [|a l Hs IH Ha]; constructor; [|assumption].
  intros Hin. rewrite Forall_forall in Ha. exact (Hirr a (Ha a Hin)).
Qed.

Lemma lex_enum_NoDup : forall mx, NoDup (lex_enum mx).
Proof. intros. eapply StronglySorted_NoDup; [exact lex_lt_irrefl | apply lex_enum_sorted]. Qed.

(* ================================================================== the loop walks the enumeration *)
Inductive chain (mx : list Z) : list (list Z) -> Prop :=
  | chain_last : forall x, next x mx = (false, zeros mx) -> chain mx [x]
  | chain_cons : forall x y l, next x mx = (true, y) -> chain mx (y :: l) -> chain mx (x :: y :: l).

Lemma lt_M : forall a m, 0 <= a -> (a <? m) = (a <? M m).
Proof. intros a m Ha. unfold M. destruct (Z.ltb_spec a m), (Z.ltb_spec a (Z.max 0 m)); try reflexivity; lia. Qed.

Lemma chain_block_last : forall ms m a L,
  chain ms L -> (a <? m) = false -> chain (m :: ms) (map (cons a) L).
Proof.
  intros ms m a L H Ha. induction H as [x Hx | x y l Hx Hc IH]; cbn [map].
  - apply chain_last. cbn [next]. rewrite Hx, Ha. reflexivity.
  - apply chain_cons; [|exact IH]. cbn [next]. rewrite Hx. reflexivity.
Qed.

Lemma chain_block_app : forall ms m a L rest,
  chain ms L -> (a <? m) = true ->
  chain (m :: ms) (((a + 1) :: zeros ms) :: rest) ->
  chain (m :: ms) (map (cons a) L ++ ((a + 1) :: zeros ms) :: rest).
Proof.
  intros ms m a L rest H Ha Hr. induction H as [x Hx | x y l Hx Hc IH]; cbn [map app].
  - apply chain_cons; [|exact Hr]. cbn [next]. rewrite Hx, Ha. reflexivity.
  - apply chain_cons; [|exact IH]. cbn [next]. rewrite Hx. reflexivity.
Qed.

Lemma lex_enum_chain : forall mx,
  chain mx (lex_enum mx) /\ exists l, lex_enum mx = zeros mx :: l.
Proof.
  induction mx as [|m ms [IHc [L' IHz]]].
  - split; [apply chain_last; reflexivity | exists []; reflexivity].
  - cbn [lex_enum].
    assert (Hgen : forall k a, 0 <= a -> a + Z.of_nat k = M m ->
              chain (m :: ms) (flat_map (fun i => map (cons i) (lex_enum ms)) (zrange_from a (S k))) /\
              exists l, flat_map (fun i => map (cons i) (lex_enum ms)) (zrange_from a (S k)) = (a :: zeros ms) :: l).
    { induction k as [|k IHk]; intros a Ha Hk.
      - cbn [zrange_from flat_map]. rewrite app_nil_r. split.
        + apply chain_block_last; [exact IHc|]. rewrite lt_M by assumption. apply Z.ltb_ge. lia.
        + rewrite IHz. cbn [map]. eexists; reflexivity.
      - change (zrange_from a (S (S k))) with (a :: zrange_from (a + 1) (S k)).
        cbn [flat_map].
        destruct (IHk (a + 1)) as [Hc [l Hl]]; [lia | lia |].
        split.
        + rewrite Hl. apply chain_block_app; [exact IHc | | rewrite <- Hl; exact Hc].
          rewrite lt_M by assumption. apply Z.ltb_lt. lia.
        + rewrite IHz. cbn [map app]. eexists; reflexivity. }
    replace (Z.to_nat (Z.max 0 m) + 1)%nat with (S (Z.to_nat (Z.max 0 m))) by lia.
    destruct (Hgen (Z.to_nat (Z.max 0 m)) 0) as [Hc [l Hl]]; [lia | unfold M; lia |].
    split; [exact Hc|]. exists l. exact Hl.
Qed.

Lemma grid_loop_chain : forall mx l x fuel,
  chain mx (x :: l) -> Forall (fun y => List.length y = List.length mx) (x :: l) ->
  (List.length l < fuel)%nat ->
  grid_loop fuel x (zeros mx) mx = Some (x :: l).
Proof.
  intros mx l. induction l as [|y l IH]; intros x fuel Hc Hlen Hf.
  - destruct fuel as [|f]; [lia|]. cbn [grid_loop].
    inversion Hc as [x0 Hx|]; subst.
    rewrite increment_next by (inversion Hlen; assumption). rewrite Hx. reflexivity.
  - destruct fuel as [|f]; [cbn in Hf; lia|]. cbn [grid_loop].
    inversion Hc as [|x0 y0 l0 Hx Hc']; subst.
    rewrite increment_next by (inversion Hlen; assumption). rewrite Hx.
    rewrite IH; [reflexivity | assumption | inversion Hlen; assumption | cbn in Hf; lia].
Qed.

(* the fuel suffices, and the loop produces the documented enumeration: any number of inputs, any maxima *)
Theorem grid_total : forall mx, grid mx = Some (lex_enum mx).
Proof.
  intros mx. unfold grid.
  destruct (lex_enum_chain mx) as [Hc [l Hl]].
  rewrite Hl in Hc |- *. apply grid_loop_chain.
  - exact Hc.
  - rewrite <- Hl. apply Forall_forall. intros y Hy. apply lex_enum_elem_length, Hy.
  - rewrite <- lex_enum_length, Hl. cbn [List.length]. lia.
Qed.

(* after the last row the counter reports False (the loop stops there, not by lack of fuel) *)
Lemma increment_last : forall mx, List.length mx <> 0%nat ->
  increment (map M mx) (zeros mx) mx None = (false, zeros mx).
Proof.
  intros mx _. rewrite increment_next by (rewrite map_length; reflexivity).
  induction mx as [|m ms IH]; [reflexivity|].
  cbn [map next]. rewrite IH. rewrite lt_M by (unfold M; lia).
  rewrite Z.ltb_irrefl. reflexivity.
Qed.

(* ================================================================== integer root *)
Lemma kroot_up_spec : forall n fuel v k,
  (1 <= n)%nat -> 0 <= k -> k ^ Z.of_nat n <= v -> v < (k + Z.of_nat fuel + 1) ^ Z.of_nat n ->
  let r := kroot_up fuel v n k in k <= r /\ r ^ Z.of_nat n <= v < (r + 1) ^ Z.of_nat n.
Proof.
  intros n fuel. induction fuel as [|f IH]; intros v k Hn Hk Hle Hlt; cbn [kroot_up].
  - replace (k + Z.of_nat 0 + 1) with (k + 1) in Hlt by lia. lia.
  - destruct (Z.leb_spec ((k + 1) ^ Z.of_nat n) v) as [H|H].
    + destruct (IH v (k + 1)) as [H1 H2]; try lia.
      replace (k + 1 + Z.of_nat f + 1) with (k + Z.of_nat (S f) + 1) by lia. exact Hlt.
    + lia.
Qed.

Lemma pow_ge_base : forall a n, 1 <= a -> (1 <= n)%nat -> a <= a ^ Z.of_nat n.
Proof.
  intros a n Ha Hn. destruct n as [|n]; [lia|].
  rewrite Nat2Z.inj_succ, Z.pow_succ_r by lia.
  assert (0 < a ^ Z.of_nat n) by (apply Z.pow_pos_nonneg; lia). nia.
Qed.

Theorem kroot_spec : forall v n, 0 <= v -> (1 <= n)%nat ->
  0 <= kroot v n /\ kroot v n ^ Z.of_nat n <= v < (kroot v n + 1) ^ Z.of_nat n.
Proof.
  intros v n Hv Hn. unfold kroot.
  assert (A : 0 ^ Z.of_nat n <= v) by (rewrite Z.pow_0_l by lia; exact Hv).
  assert (B : v < (0 + Z.of_nat (Z.to_nat v) + 1) ^ Z.of_nat n).
  { rewrite Z2Nat.id by lia. replace (0 + v + 1) with (v + 1) by lia.
    pose proof (pow_ge_base (v + 1) n). lia. }
  destruct (kroot_up_spec n (Z.to_nat v) v 0 Hn (Z.le_refl 0) A B) as [H1 H2].
  split; assumption.
Qed.

Theorem kroot_largest : forall v n j, 0 <= v -> (1 <= n)%nat ->
  0 <= j -> j ^ Z.of_nat n <= v -> j <= kroot v n.
Proof.
  intros v n j Hv Hn Hj Hle. destruct (kroot_spec v n Hv Hn) as [H0 [_ Hlt]].
  destruct (Z_le_gt_dec j (kroot v n)) as [|Hgt]; [assumption|exfalso].
  assert ((kroot v n + 1) ^ Z.of_nat n <= j ^ Z.of_nat n) by (apply Z.pow_le_mono_l; lia).
  lia.
Qed.

Lemma kroot_ge_1 : forall v n, 1 <= v -> (1 <= n)%nat -> 1 <= kroot v n.
Proof. intros v n Hv Hn. apply kroot_largest; try lia. rewrite Z.pow_1_l; lia. Qed.

(* a root function satisfying the documented bracket is kroot *)
Lemma root_unique : forall v n k, 0 <= v -> (1 <= n)%nat -> 0 <= k ->
  k ^ Z.of_nat n <= v < (k + 1) ^ Z.of_nat n -> k = kroot v n.
Proof.
  intros v n k Hv Hn Hk [H1 H2]. destruct (kroot_spec v n Hv Hn) as [H0 [H3 H4]].
  pose proof (kroot_largest v n k Hv Hn Hk H1).
  destruct (Z_le_gt_dec (kroot v n) k); [lia|exfalso].
  assert ((k + 1) ^ Z.of_nat n <= kroot v n ^ Z.of_nat n) by (apply Z.pow_le_mono_l; lia).
  lia.
Qed.

(* ================================================================== resolution and grid shape *)
Lemma fuel_of_repeat : forall res n,
  Z.of_nat (fuel_of (repeat res n)) = (M res + 1) ^ Z.of_nat n.
Proof.
  intros res n. rewrite fuel_of_Z. induction n as [|n IH]; [reflexivity|].
  cbn [repeat fold_right]. rewrite IH, Nat2Z.inj_succ, Z.pow_succ_r by lia. reflexivity.
Qed.

Lemma active_flags_all : forall n, active_flags (fun _ => true) n = repeat true n.
Proof.
  intros n. unfold active_flags. generalize 0%nat. induction n as [|n IH]; intros s; [reflexivity|].
  cbn [seq map repeat]. rewrite IH. reflexivity.
Qed.
Lemma max_values_all : forall res n, max_values res (repeat true n) = repeat res n.
Proof. intros res n. unfold max_values. induction n; cbn; [reflexivity | rewrite IHn; reflexivity]. Qed.

Section Shape.
  Context {T : Type} {N : Num T}.
  Variable pow_root : Z -> nat -> Z.

  (* the input matrix is the enumeration mapped to values, whatever the root oracle says *)
  Lemma scope_inputs_eq : forall s v (e : engine T) active res,
    resolution pow_root s v (List.length (e_inputs e)) = Ok res ->
    scope_inputs pow_root s v e active =
    Ok (map (grid_row res (e_inputs e) (active_flags active (List.length (e_inputs e))))
            (lex_enum (max_values res (active_flags active (List.length (e_inputs e)))))).
  Proof.
    intros s v e active res H. unfold scope_inputs. rewrite H. cbn [bind].
    rewrite grid_total. reflexivity.
  Qed.

  Lemma scope_inputs_rows : forall s v (e : engine T) res rows,
    resolution pow_root s v (List.length (e_inputs e)) = Ok res ->
    scope_inputs pow_root s v e (fun _ => true) = Ok rows ->
    Z.of_nat (List.length rows) = values_per_input res ^ Z.of_nat (List.length (e_inputs e)).
  Proof.
    intros s v e res rows Hr H. rewrite scope_inputs_eq with (res := res) in H by exact Hr. inversion H; subst.
    rewrite map_length, lex_enum_length, active_flags_all, max_values_all, fuel_of_repeat.
    reflexivity.
  Qed.
End Shape.

(* ================================================================== EachVariable over the reals *)
Local Open Scope R_scope.

Lemma Rlit0 : forall z, Rlit z 0 = IZR z.
Proof. intros z. unfold Rlit. cbn. rewrite Z.mul_1_r. reflexivity. Qed.

Lemma grid_value_R : forall (iv : input_var R) v i, (2 <= v)%Z ->
  grid_value (v - 1) iv true i = iv_min iv + IZR i * ((iv_max iv - iv_min iv) / IZR (v - 1)).
Proof.
  intros iv v i Hv. unfold grid_value, drange, zlit, pymax, one.
  cbn [lit add sub mul div ltb NumR]. rewrite !Rlit0.
  destruct (Rltb_spec 1 (IZR (v - 1))) as [H|H]; [reflexivity|].
  assert (Hle : IZR (v - 1) <= 1) by lra.
  apply le_IZR in Hle. replace (v - 1)%Z with 1%Z by lia. reflexivity.
Qed.

Lemma grid_value_R_first : forall (iv : input_var R) v, (2 <= v)%Z ->
  grid_value (v - 1) iv true 0 = iv_min iv.
Proof. intros. rewrite grid_value_R by assumption. lra. Qed.

Lemma grid_value_R_last : forall (iv : input_var R) v, (2 <= v)%Z ->
  grid_value (v - 1) iv true (v - 1) = iv_max iv.
Proof.
  intros iv v Hv. rewrite grid_value_R by assumption.
  assert (IZR (v - 1) <> 0) by (apply not_0_IZR; lia). field. assumption.
Qed.

Lemma grid_value_R_single : forall (iv : input_var R), grid_value 0 iv true 0 = iv_min iv.
Proof.
  intros iv. unfold grid_value, drange, zlit, pymax, one.
  cbn [lit add sub mul div ltb NumR]. rewrite !Rlit0.
  destruct (Rltb_spec 1 0); lra.
Qed.

(* equidistance: consecutive points of one variable differ by (max - min) / (v - 1) *)
Lemma grid_value_R_step : forall (iv : input_var R) v i, (2 <= v)%Z ->
  grid_value (v - 1) iv true (i + 1) - grid_value (v - 1) iv true i = (iv_max iv - iv_min iv) / IZR (v - 1).
Proof.
  intros iv v i Hv. rewrite !grid_value_R by assumption. rewrite plus_IZR.
  assert (IZR (v - 1) <> 0) by (apply not_0_IZR; lia). field. assumption.
Qed.

Definition each_point (v : Z) (iv : input_var R) (i : Z) : R :=
  iv_min iv + IZR i * ((iv_max iv - iv_min iv) / IZR (v - 1)).

Lemma grid_row_R : forall v (ivs : list (input_var R)) idx, (2 <= v)%Z ->
  List.length idx = List.length ivs ->
  grid_row (v - 1) ivs (repeat true (List.length ivs)) idx = zipw (each_point v) ivs idx.
Proof.
  intros v ivs. induction ivs as [|iv ivs IH]; intros idx Hv Hlen.
  - reflexivity.
  - destruct idx as [|i idx]; [discriminate|]. cbn [List.length repeat grid_row zipw].
    rewrite grid_value_R by assumption. rewrite IH by (cbn in Hlen; auto; lia). reflexivity.
Qed.

Theorem each_variable_rows : forall pow_root v (e : engine R), (2 <= v)%Z ->
  scope_inputs pow_root EachVariable v e (fun _ => true) =
  Ok (map (zipw (each_point v) (e_inputs e)) (lex_enum (repeat (v - 1)%Z (List.length (e_inputs e))))).
Proof.
  intros pow_root v e Hv.
  rewrite scope_inputs_eq with (res := (v - 1)%Z) by reflexivity.
  rewrite active_flags_all, max_values_all. f_equal.
  apply map_ext_in. intros idx Hin. apply grid_row_R; [assumption|].
  apply lex_enum_elem_length in Hin. rewrite repeat_length in Hin. exact Hin.
Qed.

Theorem each_variable_single : forall pow_root (e : engine R),
  scope_inputs pow_root EachVariable 1 e (fun _ => true) = Ok [map (@iv_min R) (e_inputs e)].
Proof.
  intros pow_root e.
  rewrite scope_inputs_eq with (res := 0%Z) by reflexivity.
  rewrite active_flags_all, max_values_all. f_equal.
  induction (e_inputs e) as [|iv ivs IH]; [reflexivity|].
  cbn [List.length repeat lex_enum] in *.
  change (Z.to_nat (Z.max 0 0) + 1)%nat with 1%nat. cbn [zrange_from flat_map].
  rewrite app_nil_r.
  destruct (lex_enum (repeat 0%Z (List.length ivs))) as [|r [|r' l]]; cbn [map] in IH |- *; try discriminate.
  inversion IH as [H]. cbn [grid_row]. rewrite grid_value_R_single. reflexivity.
Qed.

Local Close Scope R_scope.

(* ================================================================== AllVariables: values per input *)
(* ---- the two integer correction loops of the repaired code *)
Lemma root_down_spec : forall n fuel v root, 1 <= root -> root <= Z.of_nat fuel ->
  let r := root_down fuel v n root in
  1 <= r <= root /\ ((1 <? r) && (v <? r ^ Z.of_nat n) = false).
Proof.
  intros n fuel. induction fuel as [|f IH]; intros v root H1 Hf; cbn [root_down].
  - lia.
  - destruct ((1 <? root) && (v <? root ^ Z.of_nat n)) eqn:E.
    + apply andb_true_iff in E. destruct E as [E _]. apply Z.ltb_lt in E.
      destruct (IH v (root - 1)) as [Hr Hx]; [lia | lia |]. split; [lia | exact Hx].
    + split; [lia | exact E].
Qed.
(* the fuel of the down loop suffices: its condition is false of the result *)
Lemma root_down_exit : forall n v root, 1 <= root ->
  let r := root_down (Z.to_nat root) v n root in
  1 <= r <= root /\ ((1 <? r) && (v <? r ^ Z.of_nat n) = false).
Proof. intros n v root H. apply root_down_spec; lia. Qed.

Lemma pow_pos_base : forall a n, 1 <= a -> 1 <= a ^ Z.of_nat n.
Proof. intros a n Ha. assert (0 < a ^ Z.of_nat n) by (apply Z.pow_pos_nonneg; lia). lia. Qed.

(* the fuel of the up loop suffices: `(root + 1)**inputs <= values` is false of the result *)
Lemma root_up_exit : forall n v root, (1 <= n)%nat -> 1 <= root ->
  ((kroot_up (Z.to_nat v) v n root + 1) ^ Z.of_nat n <=? v) = false.
Proof.
  intros n v root Hn Hr. apply Z.leb_gt.
  destruct (Z_le_gt_dec v 0) as [Hv|Hv].
  - replace (Z.to_nat v) with 0%nat by lia. cbn [kroot_up].
    pose proof (pow_pos_base (root + 1) n ltac:(lia)). lia.
  - assert (Hgen : forall fuel k, 1 <= k -> v < (k + Z.of_nat fuel + 1) ^ Z.of_nat n ->
                     v < (kroot_up fuel v n k + 1) ^ Z.of_nat n).
    { induction fuel as [|f IH]; intros k Hk Hlt; cbn [kroot_up].
      - replace (k + Z.of_nat 0 + 1) with (k + 1) in Hlt by lia. exact Hlt.
      - destruct (Z.leb_spec ((k + 1) ^ Z.of_nat n) v); [|lia].
        apply IH; [lia|]. replace (k + 1 + Z.of_nat f + 1) with (k + Z.of_nat (S f) + 1) by lia. exact Hlt. }
    apply Hgen; [exact Hr|]. rewrite Z2Nat.id by lia.
    assert ((v + 1) ^ Z.of_nat n <= (root + v + 1) ^ Z.of_nat n) by (apply Z.pow_le_mono_l; lia).
    pose proof (pow_ge_base (v + 1) n ltac:(lia) Hn). lia.
Qed.

(* the repaired resolution is the documented integer root, WHATEVER the float root oracle answers
   (any starting point: the down loop brings it to a k with k^n <= v or to 1, the up loop to the largest such k) *)
Theorem resolution_all : forall pow_root v n, 1 <= v -> (1 <= n)%nat ->
  resolution pow_root AllVariables v n = Ok (kroot v n - 1).
Proof.
  intros pow_root v n Hv Hn. unfold resolution. destruct n as [|m]; [lia|].
  set (n := S m) in *.
  replace (v <? 0) with false by (symmetry; apply Z.ltb_ge; lia). cbn [andb].
  set (r0 := Z.max 1 (pow_root v n)).
  destruct (root_down_exit n v r0 ltac:(lia)) as [Hr1 Hx]. cbv zeta in Hr1, Hx.
  set (r1 := root_down (Z.to_nat r0) v n r0) in *.
  assert (Hle : r1 ^ Z.of_nat n <= v).
  { apply andb_false_iff in Hx. destruct Hx as [Hx|Hx].
    - apply Z.ltb_ge in Hx. replace r1 with 1 by lia. rewrite Z.pow_1_l by lia. lia.
    - apply Z.ltb_ge in Hx. exact Hx. }
  assert (Hlt : v < (r1 + Z.of_nat (Z.to_nat v) + 1) ^ Z.of_nat n).
  { rewrite Z2Nat.id by lia.
    assert ((v + 1) ^ Z.of_nat n <= (r1 + v + 1) ^ Z.of_nat n) by (apply Z.pow_le_mono_l; lia).
    pose proof (pow_ge_base (v + 1) n ltac:(lia) Hn). lia. }
  destruct (kroot_up_spec n (Z.to_nat v) v r1 Hn ltac:(lia) Hle Hlt) as [Hge Hb].
  cbv zeta in Hge, Hb.
  rewrite (root_unique v n (kroot_up (Z.to_nat v) v n r1)) by (try lia; exact Hb).
  reflexivity.
Qed.

Lemma values_per_input_kroot : forall v n, 1 <= v -> (1 <= n)%nat -> values_per_input (kroot v n - 1) = kroot v n.
Proof. intros v n Hv Hn. pose proof (kroot_ge_1 v n Hv Hn). unfold values_per_input. lia. Qed.

(* C18, all variables = v: k values per input, k the largest integer with k^n <= v -- for the code as it is now *)
Theorem all_variables_k : forall pow_root v n, 1 <= v -> (1 <= n)%nat ->
  exists res, resolution pow_root AllVariables v n = Ok res /\
    let k := values_per_input res in
    k = kroot v n /\ 1 <= k /\
    k ^ Z.of_nat n <= v < (k + 1) ^ Z.of_nat n /\
    (forall j, 0 <= j -> j ^ Z.of_nat n <= v -> j <= k).
Proof.
  intros pow_root v n Hv Hn. exists (kroot v n - 1). split; [apply resolution_all; assumption|].
  cbv zeta. rewrite values_per_input_kroot by assumption.
  pose proof (kroot_ge_1 v n Hv Hn). destruct (kroot_spec v n) as [_ Hs]; try lia.
  repeat split; try lia. intros j Hj Hle. apply kroot_largest; try assumption; lia.
Qed.

(* ---- the formula before the repair: -1 + max(1, int(pow(v, 1/n))) *)
Lemma resolution_unrepaired_all : forall pow_root v n, 0 <= v -> (1 <= n)%nat ->
  resolution_unrepaired pow_root AllVariables v n = Ok (-1 + Z.max 1 (pow_root v n)).
Proof.
  intros pow_root v n Hv Hn. unfold resolution_unrepaired. destruct n as [|n]; [lia|].
  replace (v <? 0) with false by (symmetry; apply Z.ltb_ge; lia). reflexivity.
Qed.
Lemma values_per_input_all : forall r, values_per_input (-1 + Z.max 1 r) = Z.max 1 r.
Proof. intros r. unfold values_per_input. lia. Qed.

Section Unrepaired.
  Definition unrepaired_largest_k (pow_root : Z -> nat -> Z) : Prop :=
    forall v n res, 1 <= v -> (1 <= n)%nat -> resolution_unrepaired pow_root AllVariables v n = Ok res ->
      let k := values_per_input res in k ^ Z.of_nat n <= v < (k + 1) ^ Z.of_nat n.

  (* the old formula is right exactly when the truncated float root agrees with the integer root *)
  Theorem unrepaired_largest_k_iff : forall pow_root,
    unrepaired_largest_k pow_root <->
    (forall v n, 1 <= v -> (1 <= n)%nat -> Z.max 1 (pow_root v n) = kroot v n).
  Proof.
    intros pow_root. split.
    - intros H v n Hv Hn.
      assert (Hr := resolution_unrepaired_all pow_root v n ltac:(lia) Hn).
      specialize (H v n _ Hv Hn Hr). cbn zeta in H. rewrite values_per_input_all in H.
      apply root_unique; try lia.
    - intros H v n res Hv Hn Hr.
      assert (E : res = -1 + Z.max 1 (pow_root v n)) by (rewrite resolution_unrepaired_all in Hr by lia; congruence).
      subst res.
      cbn zeta. rewrite values_per_input_all, H by lia.
      destruct (kroot_spec v n) as [_ Hs]; lia.
  Qed.

  (* finding F8: an oracle with int(pow(64, 1/3)) = 3 (libm pow gives 3.9999999999999996) refutes the old formula *)
  Theorem unrepaired_largest_k_refuted_if : forall pow_root,
    pow_root 64 3%nat = 3 -> ~ unrepaired_largest_k pow_root.
  Proof.
    intros pow_root H Hall. pose proof (proj1 (unrepaired_largest_k_iff pow_root) Hall) as Hk'.
    specialize (Hk' 64 3%nat ltac:(lia) ltac:(lia)). rewrite H in Hk'.
    assert (Hk : kroot 64 3 = 4) by (vm_compute; reflexivity).
    rewrite Hk in Hk'. lia.
  Qed.
End Unrepaired.

(* ================================================================== write: rows, header *)
Section Write.
  Context {T : Type} {N : Num T}.
  Variable fmt : T -> string.
  Variable outputs_of : list (list T) -> list (list T).

  Lemma nth_combine : forall (A B : Type) (la : list A) (lb : list B) r da db,
    List.length la = List.length lb -> nth r (combine la lb) (da, db) = (nth r la da, nth r lb db).
  Proof.
    intros A B la. induction la as [|a la IH]; intros lb r da db Hlen.
    - destruct lb; [|discriminate]. destruct r; reflexivity.
    - destruct lb as [|b lb]; [discriminate|]. destruct r; [reflexivity|]. cbn. apply IH. cbn in Hlen; lia.
  Qed.

  (* by construction of the model from `outputs_of`: row r = selected(inputs r) ++ selected(engine outputs for the batch, row r) *)
  Lemma table_rows : forall x ins, List.length (outputs_of ins) = List.length ins ->
    (x_inputs x || x_outputs x) = true ->
    List.length (table outputs_of x ins) = List.length ins /\
    forall r, (r < List.length ins)%nat ->
      nth r (table outputs_of x ins) [] =
      (if x_inputs x then nth r ins [] else []) ++ (if x_outputs x then nth r (outputs_of ins) [] else []).
  Proof.
    intros x ins Hlen Hsel. unfold table. rewrite Hsel. split.
    - rewrite map_length, combine_length, Hlen. lia.
    - intros r Hr.
      set (f := fun io : list T * list T => (if x_inputs x then fst io else []) ++ (if x_outputs x then snd io else [])).
      rewrite nth_indep with (d' := f ([], [])) by (rewrite map_length, combine_length, Hlen; lia).
      rewrite map_nth. rewrite nth_combine by (symmetry; exact Hlen). reflexivity.
  Qed.

  Lemma table_full : forall x ins, x_inputs x = true -> x_outputs x = true ->
    table outputs_of x ins = map (fun io => fst io ++ snd io) (combine ins (outputs_of ins)).
  Proof. intros x ins Hi Ho. unfold table. rewrite Hi, Ho. reflexivity. Qed.

  Lemma write_ok : forall x (e : engine T) rows r0 rest,
    rows = r0 :: rest -> (List.length (e_inputs e) <= List.length r0)%nat -> e_inputs e <> [] ->
    write fmt outputs_of x e rows =
    Ok (header_line x e ++ String.concat EmptyString (map (line fmt x) (table outputs_of x (engine_inputs e rows))))%string.
  Proof.
    intros x e rows r0 rest -> Hw Hne. unfold write.
    destruct (e_inputs e) as [|iv ivs] eqn:E; [congruence|].
    cbn [List.length] in *.
    destruct (Nat.ltb_spec (List.length r0) (S (List.length ivs))); [lia|].
    unfold engine_inputs. rewrite E. reflexivity.
  Qed.

  Lemma header_line_spec : forall x (e : engine T),
    header_line x e =
    if x_headers x && negb (String.eqb (String.concat (x_separator x) (header_names x e)) EmptyString)
    then (String.concat (x_separator x) (header_names x e) ++ String "010"%char EmptyString)%string
    else EmptyString.
  Proof. reflexivity. Qed.

  Lemma zipw_assigned_unlocked : forall (ivs : list (input_var T)),
    Forall (fun iv => iv_lock_range iv = false) ivs ->
    forall r, List.length r = List.length ivs -> zipw assigned ivs r = r.
  Proof.
    intros ivs Hl. induction Hl as [|iv ivs Hiv Hl IH]; intros r Hr.
    - destruct r; [reflexivity|discriminate].
    - destruct r as [|a r]; [discriminate|]. cbn [zipw]. unfold assigned at 1. rewrite Hiv.
      f_equal. apply IH. cbn in Hr; lia.
  Qed.

  (* without lock-range the engine sees exactly the given rows *)
  Lemma engine_inputs_unlocked : forall (e : engine T) rows,
    Forall (fun iv => iv_lock_range iv = false) (e_inputs e) ->
    Forall (fun r => List.length r = List.length (e_inputs e)) rows ->
    engine_inputs e rows = rows.
  Proof.
    intros e rows Hl Hr. unfold engine_inputs. rewrite <- (map_id rows) at 2.
    apply map_ext_in. intros r Hin. rewrite Forall_forall in Hr.
    apply zipw_assigned_unlocked; auto.
  Qed.
End Write.

(* ================================================================== reader *)
Section Reader.
  Context {T : Type} {N : Num T}.
  Variable parse_float : string -> option T.

  Fixpoint mapM {A B : Type} (f : A -> result B) (l : list A) : result (list B) :=
    match l with
    | [] => Ok []
    | a :: tl => do b <- f a; do rest <- mapM f tl; Ok (b :: rest)
    end.

  (* the stripped lines that are tabulated: after the skipped ones, neither blank nor comment, in order *)
  Definition kept_lines (skip : Z) (lines : list string) : list string :=
    filter (fun s => negb (blank_or_comment s)) (map strip (skipn (Z.to_nat skip) lines)).

  Lemma reader_loop_spec : forall lines i skip,
    reader_loop parse_float i skip lines =
    mapM (fun s => parse_row parse_float (split_ws s)) (kept_lines (skip - i) lines).
  Proof.
    induction lines as [|l tl IH]; intros i skip.
    - unfold kept_lines. rewrite skipn_nil. reflexivity.
    - cbn [reader_loop]. destruct (Z.ltb_spec i skip) as [H|H].
      + rewrite IH. unfold kept_lines.
        replace (Z.to_nat (skip - i)) with (S (Z.to_nat (skip - (i + 1)))) by lia.
        reflexivity.
      + unfold kept_lines in *. replace (Z.to_nat (skip - i)) with 0%nat by lia.
        cbn [skipn map filter].
        destruct (blank_or_comment (strip l)); cbn [negb].
        * rewrite IH. replace (Z.to_nat (skip - (i + 1))) with 0%nat by lia. reflexivity.
        * cbn [mapM]. rewrite IH. replace (Z.to_nat (skip - (i + 1))) with 0%nat by lia. reflexivity.
  Qed.

  Lemma mapM_length : forall (A B : Type) (f : A -> result B) l r, mapM f l = Ok r -> List.length r = List.length l.
  Proof.
    intros A B f l. induction l as [|a l IH]; intros r H; cbn [mapM] in H.
    - inversion H; reflexivity.
    - destruct (f a); [|discriminate]. cbn [bind] in H. destruct (mapM f l) eqn:E; [|discriminate].
      cbn [bind] in H. inversion H; subst. cbn. f_equal. apply IH. reflexivity.
  Qed.

  Lemma mapM_nth : forall (A B : Type) (f : A -> result B) l r k da db,
    mapM f l = Ok r -> (k < List.length l)%nat -> f (nth k l da) = Ok (nth k r db).
  Proof.
    intros A B f l. induction l as [|a l IH]; intros r k da db H Hk; cbn [mapM] in H.
    - cbn in Hk; lia.
    - destruct (f a) eqn:Ea; [|discriminate]. cbn [bind] in H. destruct (mapM f l) eqn:E; [|discriminate].
      cbn [bind] in H. inversion H; subst. destruct k; [exact Ea|].
      cbn [nth]. apply IH; [reflexivity | cbn in Hk; lia].
  Qed.

  (* tokens of str.split(): non-empty and free of whitespace *)
  Definition no_space (s : string) : bool := forallb (fun c => negb (is_space c)) (list_ascii_of_string s).
  Lemma split_aux_tokens : forall s,
    no_space (fst (split_aux s)) = true /\
    Forall (fun t => t <> EmptyString /\ no_space t = true) (snd (split_aux s)).
  Proof.
    induction s as [|c tl [IH1 IH2]]; cbn [split_aux].
    - split; [reflexivity | constructor].
    - destruct (split_aux tl) as [cur toks]. cbn [fst snd] in *.
      destruct (is_space c) eqn:E; cbn [fst snd].
      + split; [reflexivity|]. destruct cur; [assumption|].
        constructor; [split; [discriminate | assumption] | assumption].
      + split; [|assumption]. unfold no_space in *. cbn [list_ascii_of_string forallb]. rewrite E. exact IH1.
  Qed.
  Lemma split_ws_tokens : forall s, Forall (fun t => t <> EmptyString /\ no_space t = true) (split_ws s).
  Proof.
    intros s. unfold split_ws. pose proof (split_aux_tokens s) as [H1 H2].
    destruct (split_aux s) as [cur toks]. cbn [fst snd] in *.
    destruct cur; [assumption|]. constructor; [split; [discriminate | assumption] | assumption].
  Qed.
End Reader.

(* ================================================================== composition: export from a scope / a reader *)
Section Compose.
  Context {T : Type} {N : Num T}.
  Variable pow_root : Z -> nat -> Z.
  Variable fmt : T -> string.
  Variable outputs_of : list (list T) -> list (list T).
  Variable parse_float : string -> option T.

  Lemma grid_row_length : forall res (ivs : list (input_var T)) act idx,
    List.length act = List.length ivs -> List.length idx = List.length ivs ->
    List.length (grid_row res ivs act idx) = List.length ivs.
  Proof.
    intros res ivs. induction ivs as [|iv ivs IH]; intros act idx Ha Hi; [reflexivity|].
    destruct act as [|a act]; [discriminate|]. destruct idx as [|i idx]; [discriminate|].
    cbn [grid_row List.length] in *. rewrite IH; lia.
  Qed.

  Lemma active_flags_length : forall active n, List.length (active_flags active n) = n.
  Proof. intros. unfold active_flags. rewrite map_length, seq_length. reflexivity. Qed.

  (* the matrix has one row per grid point (at least one), each with one value per input variable *)
  Lemma scope_inputs_shape : forall s v (e : engine T) active rows,
    scope_inputs pow_root s v e active = Ok rows ->
    (exists r0 rest, rows = r0 :: rest) /\
    Forall (fun r => List.length r = List.length (e_inputs e)) rows.
  Proof.
    intros s v e active rows H.
    destruct (resolution pow_root s v (List.length (e_inputs e))) as [res|err] eqn:Hr.
    - rewrite scope_inputs_eq with (res := res) in H by exact Hr.
      injection H as <-.
      set (act := active_flags active (List.length (e_inputs e))).
      split.
      + destruct (lex_enum_chain (max_values res act)) as [_ [l Hl]]. rewrite Hl. cbn [map].
        eexists; eexists; reflexivity.
      + apply Forall_forall. intros r Hin. apply in_map_iff in Hin. destruct Hin as (idx & <- & Hin).
        apply lex_enum_elem_length in Hin. unfold max_values in Hin. rewrite map_length in Hin.
        apply grid_row_length; [apply active_flags_length|].
        rewrite Hin. apply active_flags_length.
    - unfold scope_inputs in H. rewrite Hr in H. discriminate.
  Qed.

  Theorem write_from_scope_ok : forall x (e : engine T) v s active ins,
    e_inputs e <> [] -> scope_inputs pow_root s v e active = Ok ins ->
    write_from_scope pow_root fmt outputs_of x e v s active =
    Ok (header_line x e ++ String.concat EmptyString (map (line fmt x) (table outputs_of x (engine_inputs e ins))))%string.
  Proof.
    intros x e v s active ins Hne H. unfold write_from_scope. rewrite H. cbn [bind].
    destruct (scope_inputs_shape _ _ _ _ _ H) as [(r0 & rest & ->) Hall].
    eapply write_ok; [reflexivity | | exact Hne].
    inversion Hall; subst. lia.
  Qed.

  Theorem write_from_reader_ok : forall x (e : engine T) text skip r0 rest,
    e_inputs e <> [] ->
    mapM (fun s => parse_row parse_float (split_ws s)) (kept_lines (skip) (readlines text)) = Ok (r0 :: rest) ->
    same_length (r0 :: rest) = true -> (List.length (e_inputs e) <= List.length r0)%nat ->
    write_from_reader fmt outputs_of parse_float x e text skip =
    Ok (header_line x e ++ String.concat EmptyString
          (map (line fmt x) (table outputs_of x (engine_inputs e (r0 :: rest)))))%string.
  Proof.
    intros x e text skip r0 rest Hne Hrows Hsame Hw. unfold write_from_reader.
    rewrite reader_loop_spec. replace (skip - 0) with skip by lia. rewrite Hrows. cbn [bind]. rewrite Hsame.
    eapply write_ok; [reflexivity | exact Hw | exact Hne].
  Qed.

  (* no data row at all, or fewer columns than input variables: ValueError *)
  Theorem write_too_few : forall x (e : engine T) rows,
    e_inputs e <> [] ->
    (match rows with [] => 0 | r :: _ => List.length r end < List.length (e_inputs e))%nat ->
    write fmt outputs_of x e rows = Err EValue.
  Proof.
    intros x e rows Hne Hw. unfold write. destruct (e_inputs e) as [|iv ivs]; [congruence|].
    cbn [List.length] in *.
    destruct (Nat.ltb_spec (match rows with [] => 0 | r :: _ => List.length r end) (S (List.length ivs))); [reflexivity|lia].
  Qed.

  Lemma string_app_empty_r : forall s : string, (s ++ EmptyString)%string = s.
  Proof. induction s as [|c s IH]; cbn; [reflexivity | rewrite IH; reflexivity]. Qed.
  Lemma concat_empty_cons : forall (x : string) l,
    String.concat EmptyString (x :: l) = (x ++ String.concat EmptyString l)%string.
  Proof. intros x [|y l]; cbn [String.concat]; [rewrite string_app_empty_r; reflexivity | reflexivity]. Qed.

  (* readlines loses nothing: the lines, concatenated, are the text *)
  Lemma readlines_concat : forall s, String.concat EmptyString (readlines s) = s.
  Proof.
    induction s as [|c tl IH]; [reflexivity|]. cbn [readlines].
    destruct (Ascii.eqb c newline).
    - rewrite concat_empty_cons. cbn [append]. rewrite IH. reflexivity.
    - destruct (readlines tl) as [|l ls] eqn:E.
      + cbn in IH |- *. rewrite <- IH. reflexivity.
      + rewrite concat_empty_cons in IH |- *. cbn [append]. rewrite IH. reflexivity.
  Qed.
End Compose.

(* AllVariables: k^n rows, at most v, whatever the float root oracle answers *)
Theorem all_variables_rows_count : forall (T : Type) (N : Num T) pow_root v (e : engine T),
  1 <= v -> e_inputs e <> [] ->
  let n := List.length (e_inputs e) in
  exists rows, scope_inputs pow_root AllVariables v e (fun _ => true) = Ok rows /\
    Z.of_nat (List.length rows) = kroot v n ^ Z.of_nat n /\ kroot v n ^ Z.of_nat n <= v.
Proof.
  intros T N pow_root v e Hv Hne n.
  assert (Hn : (1 <= n)%nat) by (subst n; destruct (e_inputs e); [congruence | cbn; lia]).
  assert (Hr := resolution_all pow_root v n Hv Hn).
  pose proof (kroot_ge_1 v n Hv Hn) as H1.
  eexists. split; [apply scope_inputs_eq; exact Hr|].
  rewrite map_length, lex_enum_length, active_flags_all, max_values_all, fuel_of_repeat.
  unfold M. replace (Z.max 0 (kroot v n - 1) + 1) with (kroot v n) by lia.
  split; [reflexivity|]. destruct (kroot_spec v n) as [_ Hs]; lia.
Qed.

(* bundle: what the loop over Op.increment produces *)
Theorem increment_enumerates : forall mx : list Z,
  grid mx = Some (lex_enum mx) /\
  (forall x, In x (lex_enum mx) <-> Forall2 (fun a m => 0 <= a <= Z.max 0 m) x mx) /\
  StronglySorted lex_lt (lex_enum mx) /\ NoDup (lex_enum mx) /\
  Z.of_nat (List.length (lex_enum mx)) = fold_right (fun m acc => (Z.max 0 m + 1) * acc) 1 mx.
Proof.
  intros mx. repeat split.
  - apply grid_total.
  - apply lex_enum_In.
  - apply lex_enum_In.
  - apply lex_enum_sorted.
  - apply lex_enum_NoDup.
  - rewrite lex_enum_length. apply fuel_of_Z.
Qed.
